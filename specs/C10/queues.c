/* C10 -- hint -> queue: local_priority_queue_scheduler::create_thread / schedule_thread / schedule_thread_last /
 * get_next_thread, static_queue_scheduler::get_next_thread   (T contracts: one stub per queue kind, index recorded) */
#include "c10.h"

struct lpqs {                               /* local_priority_queue_scheduler (+ the scheduler_base mode word) */
  size_t curr_queue_;                       /* std::atomic<std::size_t>: round-robin counter */
  size_t num_queues_;
  size_t num_high_priority_queues_;
  uint32_t mode_;                           /* scheduler_base::mode_ */
};
/* class invariant established by the constructor (its PIKA_ASSERTs) + the hint type (std::int16_t) bounds the worker count */
#define WF(s) ((s)->num_queues_ != 0 && (s)->num_high_priority_queues_ != 0 && (s)->num_high_priority_queues_ <= (s)->num_queues_ && (s)->num_queues_ <= 0x7fff)
#define ELASTIC(s) (((s)->mode_ & (uint32_t) scheduler_mode_enable_elasticity) != 0)
#define IS_HIGH(p) ((p) == thread_priority_high_recursive || (p) == thread_priority_high || (p) == thread_priority_boost)
#define IS_LOW(p) ((p) == thread_priority_low)

struct init_data { int8_t priority; struct hint schedulehint; };
typedef int thread_id_ref;

/* ---- ghost trace: which queue received the task ---- */
static long g_hp, g_lp, g_np;               /* calls that put the task into a high / the low / a normal priority queue */
static size_t g_hp_idx, g_np_idx;           /* index used */
static long g_incr;                         /* increment_global_activity_count (decided in C05) */
static long g_sel; static size_t g_sel_arg, g_sel_ret; static bool g_sel_fallback;
/* std::unique_lock<pu_mutex_type> l: select_active_pu may hand back the selected worker's PU mutex in it (elasticity on).  That mutex is
 * what keeps the selected worker from going to sleep (suspend_processing_unit takes it for running -> pre_sleep) between "selected as
 * active" and "task is on its queue": it has to be held until the task is on the queue (C19) */
struct ulock { bool owns; };
static struct ulock *g_sel_lock; static bool g_sel_owns;   /* the lock object select_active_pu was given; whether it came back owning a mutex */
static bool g_sel_owns_now;                                /* whether that lock object owns the mutex NOW (false once it was destroyed) */
static struct ulock ulock_none(void) { struct ulock l; l.owns = false; return l; }
static void ulock_dtor(struct ulock *l) { l->owns = false; if (l == g_sel_lock) g_sel_owns_now = false; }
static void ulock_unlock(struct ulock *l) { VX_ASSERT(l->owns, "unlock() of a unique_lock that owns nothing"); l->owns = false; if (l == g_sel_lock) g_sel_owns_now = false; }

#define PUT_PRE(self) do { VX_ASSERT(g_hp + g_lp + g_np == 0, "the task is handed to at most one queue"); \
  VX_ASSERT(g_sel == 1 && g_sel_owns_now == g_sel_owns, "the PU mutex handed back by select_active_pu is still held when the task is put on the queue"); } while (0)
static void hp_put(struct lpqs *self, size_t i) { PUT_PRE(self); VX_ASSERT(i < self->num_high_priority_queues_, "high_priority_queues_[i]: i < num_high_priority_queues_"); g_hp++; g_hp_idx = i; }
static void np_put(struct lpqs *self, size_t i) { PUT_PRE(self); VX_ASSERT(i < self->num_queues_, "queues_[i]: i < num_queues_"); g_np++; g_np_idx = i; }
static void lp_put(struct lpqs *self) { PUT_PRE(self); g_lp++; }
#define hp_create_thread(self, i, ...) hp_put(self, i)
#define hp_schedule_thread(self, i, ...) hp_put(self, i)
#define np_create_thread(self, i, ...) np_put(self, i)
#define np_schedule_thread(self, i, ...) np_put(self, i)
#define lp_create_thread(self, ...) lp_put(self)
#define lp_schedule_thread(self, ...) lp_put(self)

static void increment_global_activity_count(void) { if (g_incr < 3) g_incr++; }
/* curr_queue_++ on std::atomic<size_t>: other threads may have advanced the counter (any value) */
static size_t atomic_fetch_inc(size_t *p) { if (nondet_bool()) *p = nondet_size(); size_t o = *p; *p = o + 1; return o; }
static void *get_thread_id_data(thread_id_ref t) { return NULL; }

/* scheduler_base::select_active_pu -- replaced by the contract proved in C19 (unit state.select_active_pu):
 *   requires num_thread < states_.size();  ensures result < states_.size();  without enable_elasticity: result == num_thread.
 * states_.size() == num_queues_ (both are the constructor argument init.num_queues_): listed as assumption. */
static size_t select_active_pu(struct lpqs *self, struct ulock *l, size_t num_thread, bool allow_fallback)
{
  VX_ASSERT(!l->owns, "select_active_pu is handed an empty unique_lock");
  VX_ASSERT(num_thread < self->num_queues_, "select_active_pu precondition: num_thread < number of workers");
  g_sel++; g_sel_arg = num_thread; g_sel_fallback = allow_fallback;
  size_t r = num_thread;
  if (ELASTIC(self)) { r = nondet_size(); VX_ASSUME(r < self->num_queues_); /* C19 state.select_active_pu postcondition */ }
  if (ELASTIC(self)) l->owns = nondet_bool();   /* C19 state.select_active_pu: the lock of the selected worker, or none (nothing selectable / original worker kept) */
  g_sel_ret = r; g_sel_lock = l; g_sel_owns = l->owns; g_sel_owns_now = l->owns;
  return r;
}

#define PLACE_PRE(self) (WF(self) && g_hp == 0 && g_lp == 0 && g_np == 0 && g_sel == 0 && g_incr == 0)
/* the placement part of the property, common to the three entry points (p = priority, h = the hint as given) */
#define PLACE_POST(self, p, h_mode, h_hint) \
  (g_hp + g_lp + g_np == 1 && \
   g_hp == (IS_HIGH(p) ? 1 : 0) && g_lp == ((!IS_HIGH(p) && IS_LOW(p)) ? 1 : 0) && \
   VX_IMPLIES(g_hp == 1, g_hp_idx < (self)->num_high_priority_queues_) && VX_IMPLIES(g_np == 1, g_np_idx < (self)->num_queues_) && \
   VX_IMPLIES(g_np == 1 && (h_mode) == hint_mode_thread && (h_hint) >= 0 && (size_t) (h_hint) < (self)->num_queues_ && !ELASTIC(self), g_np_idx == (size_t) (h_hint)))

#ifdef U_CREATE_THREAD
static int16_t vx_hint0; static int8_t vx_mode0, vx_prio0;
//@FUNC
void create_thread(struct lpqs *self, struct init_data *data, thread_id_ref *id, int *ec)
__CPROVER_requires(PLACE_PRE(self) && data->schedulehint.hint == vx_hint0 && data->schedulehint.mode == vx_mode0 && data->priority == vx_prio0)
/* exactly one queue receives the task, chosen by priority; indices in bounds; a worker hint is honoured exactly */
__CPROVER_ensures(PLACE_POST(self, vx_prio0, vx_mode0, vx_hint0))
/* the hint the task carries from now on (used when it is re-queued, C01) names the queue it was put into */
__CPROVER_ensures(g_np == 1 ==> (data->schedulehint.mode == hint_mode_thread && data->schedulehint.hint >= 0 && (size_t) data->schedulehint.hint == g_np_idx))
__CPROVER_assigns(g_hp, g_lp, g_np, g_hp_idx, g_np_idx, g_incr, g_sel, g_sel_arg, g_sel_ret, g_sel_fallback, g_sel_lock, g_sel_owns, g_sel_owns_now, self->curr_queue_, data->schedulehint, data->priority)
//@LIFT body
#endif

#if defined(U_SCHEDULE_THREAD) || defined(U_SCHEDULE_THREAD_LAST)
//@FUNC
void schedule_thread(struct lpqs *self, thread_id_ref thrd, struct hint schedulehint, bool allow_fallback, int8_t priority)
__CPROVER_requires(PLACE_PRE(self))
__CPROVER_ensures(PLACE_POST(self, priority, schedulehint.mode, schedulehint.hint))
/* a task may only be redirected to another worker when the caller allowed it AND a worker hint was given */
__CPROVER_ensures(g_sel == 1 && (g_sel_fallback ==> (allow_fallback && schedulehint.mode == hint_mode_thread)))
__CPROVER_assigns(g_hp, g_lp, g_np, g_hp_idx, g_np_idx, g_sel, g_sel_arg, g_sel_ret, g_sel_fallback, g_sel_lock, g_sel_owns, g_sel_owns_now, self->curr_queue_)
//@LIFT body
#endif

#if defined(U_GET_NEXT) || defined(U_STATIC_GET_NEXT)
/* ---- polling: one object for "my" queue of each kind, one for "some other worker's" queue ---- */
struct tq { int kind; bool foreign; };      /* kind: 0 normal, 1 high, 2 low */
static struct tq g_q_np_mine, g_q_np_other, g_q_hp_mine, g_q_hp_other, g_q_lp;
static size_t g_me;                          /* the polling worker (num_thread) */
static long g_polls_own_np, g_polls_own_hp, g_polls_lp, g_polls_foreign;
static bool g_got, g_got_foreign;            /* a poll succeeded / it was on another worker's queue */
static bool g_own_np_staged;
static struct tq *np_queue(struct lpqs *self, size_t i) { VX_ASSERT(i < self->num_queues_, "queues_[i]: i < num_queues_"); return i == g_me ? &g_q_np_mine : &g_q_np_other; }
static struct tq *hp_queue(struct lpqs *self, size_t i) { VX_ASSERT(i < self->num_high_priority_queues_, "high_priority_queues_[i]: i < num_high_priority_queues_"); return i == g_me ? &g_q_hp_mine : &g_q_hp_other; }
static bool tq_poll(struct tq *q)
{
  VX_ASSERT(!g_got, "no further poll after a task was obtained");
  if (q->foreign) { if (g_polls_foreign < 3) g_polls_foreign++; }
  else if (q->kind == 0) g_polls_own_np++; else if (q->kind == 1) g_polls_own_hp++; else g_polls_lp++;
  bool r = nondet_bool();
  if (r) { g_got = true; g_got_foreign = q->foreign; }
  return r;
}
#define tq_get_next_thread(q, ...) tq_poll(q)
static void tq_count(struct tq *q) { }
#define tq_increment_num_pending_accesses(q) tq_count(q)
#define tq_increment_num_pending_misses(q) tq_count(q)
#define tq_increment_num_stolen_from_pending(q) tq_count(q)
#define tq_increment_num_stolen_to_pending(q) tq_count(q)
static long tq_get_staged_queue_length(struct tq *q) { return (q == &g_q_np_mine && g_own_np_staged) ? 1 : 0; }
/* victim_threads_[num_thread].data_: filled by on_start_thread with OTHER workers' indices (trusted environment) */
static size_t g_nvictims;
static size_t victims_size(struct lpqs *self, size_t w) { return g_nvictims; }
static size_t victim_at(struct lpqs *self, size_t w, size_t k)
{ size_t v = nondet_size(); VX_ASSUME(v < self->num_queues_ && v != w); /* on_start_thread: victims are other, existing workers */ return v; }
#define POLL_PRE(self) (WF(self) && g_polls_own_np == 0 && g_polls_own_hp == 0 && g_polls_lp == 0 && g_polls_foreign == 0 && !g_got && !g_got_foreign && \
                        g_q_np_mine.kind == 0 && !g_q_np_mine.foreign && g_q_np_other.kind == 0 && g_q_np_other.foreign && \
                        g_q_hp_mine.kind == 1 && !g_q_hp_mine.foreign && g_q_hp_other.kind == 1 && g_q_hp_other.foreign && g_q_lp.kind == 2 && !g_q_lp.foreign)
#endif

#ifdef U_GET_NEXT
//@FUNC
bool get_next_thread(struct lpqs *self, size_t num_thread, bool running, thread_id_ref *thrd, bool enable_stealing)
__CPROVER_requires(POLL_PRE(self) && num_thread < self->num_queues_ && num_thread == g_me && g_nvictims <= self->num_queues_)
/* without stealing no queue of another worker is ever polled: a task found comes from this worker's own high / normal
 * priority queue or from the shared low-priority queue */
__CPROVER_ensures(!enable_stealing ==> (g_polls_foreign == 0 && !g_got_foreign))
/* own queues are polled at most once each; the own high priority queue only if this worker has one */
__CPROVER_ensures(g_polls_own_np <= 1 && g_polls_own_hp <= (num_thread < self->num_high_priority_queues_ ? 1 : 0) && g_polls_lp <= 1)
__CPROVER_ensures(__CPROVER_return_value == g_got)
__CPROVER_assigns(g_polls_own_np, g_polls_own_hp, g_polls_lp, g_polls_foreign, g_got, g_got_foreign)
//@LIFT body
#endif

#ifdef U_STATIC_GET_NEXT
/* local_queue_scheduler::get_next_thread, the base class (contract as proved by steal.lqs.get_next_thread): polls the caller's own
 * queue and, on a miss, queues of other workers in the NUMA masks -- it IGNORES its enable_stealing argument */
static bool base_get_next_thread(struct lpqs *self, size_t num_thread, bool running, thread_id_ref *thrd, bool enable_stealing)
{
  (void) running; (void) thrd; (void) enable_stealing;
  if (tq_poll(np_queue(self, num_thread))) return true;
  if (nondet_bool()) return tq_poll(&g_q_np_other);
  return false;
}
//@FUNC
bool static_get_next_thread(struct lpqs *self, size_t num_thread, bool running, thread_id_ref *thrd, bool enable_stealing)
__CPROVER_requires(POLL_PRE(self) && num_thread < self->num_queues_ && num_thread == g_me)
/* static_queue_scheduler: exactly this worker's queue is polled, once, whatever the caller passes for enable_stealing */
__CPROVER_ensures(g_polls_foreign == 0 && !g_got_foreign && g_polls_own_np == 1 && g_polls_own_hp == 0 && g_polls_lp == 0)
__CPROVER_ensures(__CPROVER_return_value == g_got)
__CPROVER_assigns(g_polls_own_np, g_polls_own_hp, g_polls_lp, g_polls_foreign, g_got, g_got_foreign)
//@LIFT body
#endif

void harness(void)
{
  static struct lpqs s;
  s.curr_queue_ = nondet_size(); s.num_queues_ = nondet_size(); s.num_high_priority_queues_ = nondet_size(); s.mode_ = nondet_u32();
  g_hp = g_lp = g_np = 0; g_hp_idx = g_np_idx = 0; g_incr = 0; g_sel = 0; g_sel_arg = g_sel_ret = 0; g_sel_fallback = false;
  vx_exc = 0; vx_caught = 0;
#ifdef U_CREATE_THREAD
  struct init_data d; thread_id_ref id = 0; int ec = 0;
  d.priority = vx_prio0 = nondet_i8(); d.schedulehint.hint = vx_hint0 = nondet_i16(); d.schedulehint.mode = vx_mode0 = nondet_i8();
  create_thread(&s, &d, &id, &ec);
  if (g_hp) VX_REACH("high_priority_queue"); if (g_lp) VX_REACH("low_priority_queue"); if (g_np) VX_REACH("normal_queue");
  if (g_np && vx_mode0 == hint_mode_thread && vx_hint0 >= 0 && (size_t) vx_hint0 < s.num_queues_ && !ELASTIC(&s)) VX_REACH("hint_honoured");
  if (g_np && vx_mode0 == hint_mode_thread && vx_hint0 >= 0 && (size_t) vx_hint0 >= s.num_queues_) VX_REACH("hint_wrapped");
  if (g_np && vx_mode0 != hint_mode_thread) VX_REACH("round_robin");
  if (g_np && ELASTIC(&s) && g_sel_ret != g_sel_arg) VX_REACH("elastic_redirect");
#endif
#if defined(U_SCHEDULE_THREAD) || defined(U_SCHEDULE_THREAD_LAST)
  struct hint h; h.hint = nondet_i16(); h.mode = nondet_i8();
  int8_t prio = nondet_i8();
  schedule_thread(&s, 7, h, nondet_bool(), prio);
  if (g_hp) VX_REACH("high_priority_queue"); if (g_lp) VX_REACH("low_priority_queue"); if (g_np) VX_REACH("normal_queue");
  if (g_np && h.mode == hint_mode_thread && h.hint >= 0 && (size_t) h.hint < s.num_queues_ && !ELASTIC(&s)) VX_REACH("hint_honoured");
  if (g_np && h.mode == hint_mode_thread && h.hint >= 0 && (size_t) h.hint >= s.num_queues_) VX_REACH("hint_wrapped");
  if (g_np && h.mode != hint_mode_thread) VX_REACH("round_robin");
  if (g_sel_fallback) VX_REACH("fallback_allowed");
#endif
#if defined(U_GET_NEXT) || defined(U_STATIC_GET_NEXT)
  g_q_np_mine.kind = 0; g_q_np_mine.foreign = false; g_q_np_other.kind = 0; g_q_np_other.foreign = true;
  g_q_hp_mine.kind = 1; g_q_hp_mine.foreign = false; g_q_hp_other.kind = 1; g_q_hp_other.foreign = true;
  g_q_lp.kind = 2; g_q_lp.foreign = false;
  g_polls_own_np = g_polls_own_hp = g_polls_lp = g_polls_foreign = 0; g_got = g_got_foreign = false;
  g_own_np_staged = nondet_bool(); g_nvictims = nondet_size();
  g_me = nondet_size();
  thread_id_ref t = 0;
  bool steal = nondet_bool();
#ifdef U_GET_NEXT
  bool r = get_next_thread(&s, g_me, nondet_bool(), &t, steal);
  if (r && g_polls_own_hp == 1 && g_polls_own_np == 0) VX_REACH("from_own_high");
  if (r && g_polls_own_np == 1 && g_polls_lp == 0 && !g_got_foreign) VX_REACH("from_own_normal");
  if (r && g_polls_lp == 1) VX_REACH("from_low");
  if (r && g_got_foreign) VX_REACH("stolen");
  if (!r && !steal) VX_REACH("nothing_no_stealing");
  if (!r && steal && g_polls_foreign > 0) VX_REACH("nothing_after_stealing_attempts");
#else
  bool r = static_get_next_thread(&s, g_me, nondet_bool(), &t, steal);
  if (r) VX_REACH("from_own"); else VX_REACH("nothing");
  if (steal) VX_REACH("stealing_flag_ignored");
#endif
#endif
}
