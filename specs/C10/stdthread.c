/* C10 -- std_thread_scheduler: execute (tag_invoke(execute_t, ...)) and operation_state::start
 * T-stubs for std::thread: construction (may throw std::system_error), detach, destructor (std::terminate if joinable) */
#include "c10.h"

struct vx_thread { bool joinable; struct closure body; };
static long g_threads_created;            /* std::thread objects constructed with a callable = new OS threads */
static struct closure g_thread_body;      /* the callable the new thread runs */
static long g_detached;                   /* detach() calls */
static bool g_thread_threw; static int g_thread_exc_tok;

/* std::thread t{f}: a NEW thread of execution runs f (never the calling thread); may throw std::system_error */
static struct vx_thread thread_make(struct closure f)
{
  struct vx_thread t; t.joinable = false; t.body = f;
  VX_ASSERT(vx_exc == 0, "no call while an exception is propagating");
  if (nondet_bool()) { g_thread_threw = true; vx_exc = g_thread_exc_tok; return t; }
  g_threads_created++; g_thread_body = f; t.joinable = true;
  return t;
}
static void thread_detach(struct vx_thread *t)
{
  VX_ASSERT(t->joinable, "detach() on a joinable thread (otherwise std::system_error)");
  t->joinable = false; g_detached++;
}
static long g_joined;
static void thread_join(struct vx_thread *t) { VX_ASSERT(t->joinable, "join() on a joinable thread"); t->joinable = false; g_joined++; }
/* ~thread(): std::terminate() if still joinable */
static void thread_dtor(struct vx_thread *t) { VX_ASSERT(!t->joinable, "std::thread destroyed while joinable: std::terminate"); }

struct op_state { struct receiver receiver; };
#define VX_CLOSURE(k, self) closure_of(self)
static struct closure closure_of(void *env) { struct closure c; c.kind = CL_START_TASK; c.env = env; return c; }

#ifdef U_EXECUTE
//@FUNC
void std_execute(struct closure f)
__CPROVER_requires(g_threads_created == 0 && g_detached == 0 && g_joined == 0 && vx_exc == 0 && g_closure_calls == 0 && !g_thread_threw && g_thread_exc_tok != 0)
/* the callable runs on a fresh thread, never inline; the thread is detached (the submitting call does not wait for it) */
__CPROVER_ensures(g_closure_calls == 0)
__CPROVER_ensures(!g_thread_threw ==> (g_threads_created == 1 && CLOSURE_EQ(g_thread_body, f) && g_detached == 1 && g_joined == 0 && vx_exc == 0))
__CPROVER_ensures(g_thread_threw ==> (g_threads_created == 0 && vx_exc == g_thread_exc_tok))
__CPROVER_assigns(g_threads_created, g_thread_body, g_detached, g_joined, g_thread_threw, vx_exc, g_closure_calls)
//@LIFT execute
#endif

#ifdef U_START
//@FUNC
void start(struct op_state *self)
__CPROVER_requires(g_threads_created == 0 && g_detached == 0 && g_joined == 0 && vx_exc == 0 && g_closure_calls == 0 && !g_thread_threw && g_thread_exc_tok != 0 && NO_SIGNAL_YET)
/* set_value is never signalled by the submitting call itself */
__CPROVER_ensures(g_set_value == 0 && g_set_stopped == 0 && g_closure_calls == 0 && vx_exc == 0)
/* one fresh, detached std::thread whose body is the closure bound to this operation state (see unit std.start.task_body) ... */
__CPROVER_ensures(!g_thread_threw ==> (g_threads_created == 1 && g_thread_body.kind == CL_START_TASK && g_thread_body.env == (void *) self && g_detached == 1 && g_joined == 0 && g_set_error == 0))
/* ... or, if the thread could not be created, exactly one set_error with that exception */
__CPROVER_ensures(g_thread_threw ==> (g_threads_created == 0 && g_set_error == 1 && g_sig_recv == &self->receiver && g_error_tok == g_thread_exc_tok))
__CPROVER_assigns(g_threads_created, g_thread_body, g_detached, g_joined, g_thread_threw, vx_exc, vx_caught, g_closure_calls, g_set_error, g_sig_recv, g_error_tok)
//@LIFT start
#endif

#ifdef U_TASK_BODY
//@FUNC
void task_body(struct op_state *self)
__CPROVER_requires(NO_SIGNAL_YET)
__CPROVER_ensures(g_set_value == 1 && g_sig_recv == &self->receiver && g_set_error == 0 && g_set_stopped == 0)
__CPROVER_assigns(g_set_value, g_sig_recv)
//@LIFT task
#endif

void harness(void)
{
  static struct op_state op;
  static int user_env;
  vx_exc = 0; vx_caught = 0; g_closure_calls = 0;
  g_set_value = g_set_error = g_set_stopped = 0; g_sig_recv = NULL; g_error_tok = 0;
  g_threads_created = 0; g_detached = 0; g_joined = 0; g_thread_threw = false; g_thread_body.kind = 0; g_thread_body.env = NULL;
  g_thread_exc_tok = nondet_int();
  if (g_thread_exc_tok == 0) g_thread_exc_tok = 1;   /* an exception token is never the 'no exception' value */
  op.receiver.id = nondet_int();
#ifdef U_EXECUTE
  struct closure f; f.kind = CL_USER; f.env = &user_env;
  std_execute(f);
  if (g_thread_threw) VX_REACH("thread_creation_failed"); else VX_REACH("thread_created_detached");
#endif
#ifdef U_START
  start(&op);
  if (g_thread_threw) VX_REACH("thread_creation_failed_set_error"); else VX_REACH("thread_created_detached");
#endif
#ifdef U_TASK_BODY
  task_body(&op);
  VX_REACH("value_signalled");
#endif
}
