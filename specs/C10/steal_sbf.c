/* C10 (steal units) -- shared_priority_queue_scheduler::steal_by_function: WHICH queue holders the two operations
 * (get_next_thread[_HP] / add_new[_HP] of the per-domain holder sets) are applied to, and with which stealing permissions.
 *   core stealing off (scheduler mode without enable_stealing): only the calling worker's own holder (domain, q_index), and the
 *     holder set is told not to look at its other queues (allow_stealing == false);
 *   NUMA stealing off: no holder of another domain;
 *   always: domain / queue indices in bounds, receiver and result objects passed through unchanged. */
#include "steal_spq.h"
size_t fast_mod(size_t const input, size_t const ceil)
//@LIFT fast_mod

static size_t g_dom0, g_q0;                  /* the calling worker's own holder */
static void *g_origin, *g_var;
static long g_ops, g_ops_other_domain, g_ops_core_steal;
static bool g_bad_passthrough;
#define SAT_INC(c) do { if ((c) < 3) (c)++; } while (0)
/* operation_HP / operation: [&](domain, q_index, receiver, var, stealing, allow_stealing) { return numa_holder_[domain].OP(...); } */
static bool op_call(struct sched *self, int which, size_t d, size_t q, void *origin, void *var, bool stealing, bool allow_stealing)
{
  HOLDER_INDEX_OK(self, d, q);               /* numa_holder_[d]; qidx < num_queues_ is the precondition of the holder-set functions */
  SAT_INC(g_ops);
  if (d != g_dom0) SAT_INC(g_ops_other_domain);
  else if (q != g_q0 || allow_stealing) SAT_INC(g_ops_core_steal);
  if (origin != g_origin || var != g_var) g_bad_passthrough = true;
  return nondet_bool();
}

//@FUNC
bool steal_by_function(struct sched *self, size_t domain, size_t q_index, bool steal_numa, bool steal_core, void *origin, void *var, const char *prefix, int operation_HP, int operation)
__CPROVER_requires(LAYOUT_OK(self) && domain < self->num_domains_ && (domain != g_d || q_index < g_d_cnt) && domain == g_dom0 && q_index == g_q0)
__CPROVER_requires(origin == g_origin && var == g_var && g_ops == 0 && g_ops_other_domain == 0 && g_ops_core_steal == 0 && !g_bad_passthrough)
/* stealing disabled: nothing but the calling worker's own holder is visited */
__CPROVER_ensures(!steal_core ==> (g_ops_other_domain == 0 && g_ops_core_steal == 0))
/* NUMA stealing disabled: no other domain */
__CPROVER_ensures(!steal_numa ==> g_ops_other_domain == 0)
/* the receiver of converted tasks / the result slot are the caller's */
__CPROVER_ensures(!g_bad_passthrough)
__CPROVER_assigns(g_ops, g_ops_other_domain, g_ops_core_steal, g_bad_passthrough)
//@LIFT body

void harness(void)
{
  static struct sched s; int origin_obj = 0, var_obj = 0;
  vx_exc = 0; vx_caught = 0; g_puts = 0; g_incr = 0; g_put_d = g_put_q = 0;
  s.num_workers_ = nondet_size(); s.num_domains_ = nondet_size(); s.round_robin_ = nondet_bool(); s.lookup_size = nondet_size(); s.mode_ = nondet_u32();
  s.steal_hp_first_ = nondet_bool(); s.core_stealing_ = nondet_bool(); s.numa_stealing_ = nondet_bool();
  g_local_num = nondet_size();
  g_d = nondet_size(); g_d_off = nondet_size(); g_d_cnt = nondet_size(); g_w = nondet_size(); g_w_d = nondet_size(); g_w_q = nondet_size();
  g_o_off = nondet_size(); g_o_cnt = nondet_size();
  g_dom0 = nondet_size(); g_q0 = nondet_size(); g_origin = &origin_obj; g_var = &var_obj;
  g_ops = g_ops_other_domain = g_ops_core_steal = 0; g_bad_passthrough = false;
  bool numa = nondet_bool(), core = nondet_bool();
  bool r = steal_by_function(&s, g_dom0, g_q0, numa, core, &origin_obj, &var_obj, "x", 1, 0);
  if (!core && r) VX_REACH("own_holder_no_stealing");
  if (!core && !r) VX_REACH("nothing_no_stealing");
  if (core && !numa && g_ops_core_steal > 0 && r) VX_REACH("core_stealing");
  if (core && numa && g_ops_other_domain > 0 && r) VX_REACH("numa_stealing");
  if (core && s.steal_hp_first_ && r) VX_REACH("hp_first");
  if (core && !r) VX_REACH("nothing_after_stealing");
}
