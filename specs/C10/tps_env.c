/* C10 -- thread_pool_scheduler: the scheduler travels with the sender.  schedule(s) makes a sender that carries s, connect hands s to
 * the operation state (whose start() registers the work on s: units tps.execute / tps.start), and the sender's ENVIRONMENT answers
 * get_completion_scheduler<set_value_t> with s -- that answer is what bulk / continues_on / then use to pick the pool, the hint and
 * the customisation for the work that follows.  All five members of the scheduler (pool, priority, stack size, hint, annotation) must
 * arrive unchanged.  (written by main after seeded change C10-6 was missed; F contracts, loop free, full domain) */
#include "c10.h"
struct pool { int id; };
struct tps { struct pool *pool_; int8_t priority_; int8_t stacksize_; struct hint schedulehint_; const char *annotation_; };
#define TPS_EQ(a, b) ((a).pool_ == (b).pool_ && (a).priority_ == (b).priority_ && (a).stacksize_ == (b).stacksize_ && HINT_EQ((a).schedulehint_, (b).schedulehint_) && (a).annotation_ == (b).annotation_)
struct env { struct tps scheduler; };
struct sender { struct tps scheduler; const char *fallback_annotation; };
struct op_state { struct tps scheduler; int receiver; const char *fallback_annotation; };
static struct pool g_default_pool;
/* thread_pool_scheduler{}: the default pool, default properties (what `return {};` value-initialises the member to) */
static struct tps tps_default(void) { struct tps s; s.pool_ = &g_default_pool; s.priority_ = 0; s.stacksize_ = 0; s.schedulehint_ = hint_default(); s.annotation_ = 0; return s; }
static struct env env_make(struct tps s) { struct env e; e.scheduler = s; return e; }
static struct env env_make_default(void) { return env_make(tps_default()); }
static const char *g_fallback;
static struct sender sender_make(struct tps s) { struct sender r; r.scheduler = s; r.fallback_annotation = g_fallback; return r; }
static struct sender sender_make_default(void) { return sender_make(tps_default()); }
static struct op_state op_state_make(struct tps s, int receiver, const char *fb) { struct op_state o; o.scheduler = s; o.receiver = receiver; o.fallback_annotation = fb; return o; }

#ifdef U_GET_ENV
//@FUNC
struct env get_env(struct sender const *self)
__CPROVER_ensures(TPS_EQ(__CPROVER_return_value.scheduler, self->scheduler))
__CPROVER_assigns()
//@LIFT body
#endif
#ifdef U_COMPLETION_SCHEDULER
//@FUNC
struct tps get_completion_scheduler(struct env const *e)
__CPROVER_ensures(TPS_EQ(__CPROVER_return_value, e->scheduler))
__CPROVER_assigns()
//@LIFT body
#endif
#ifdef U_SCHEDULE
//@FUNC
struct sender schedule(struct tps const *self)
__CPROVER_ensures(TPS_EQ(__CPROVER_return_value.scheduler, *self))
__CPROVER_assigns()
//@LIFT body
#endif
#ifdef U_CONNECT
//@FUNC
struct op_state connect(struct sender const *self, int receiver)
__CPROVER_ensures(TPS_EQ(__CPROVER_return_value.scheduler, self->scheduler) && __CPROVER_return_value.receiver == receiver && __CPROVER_return_value.fallback_annotation == self->fallback_annotation)
__CPROVER_assigns()
//@LIFT body
#endif

void harness(void)
{
  struct pool other; struct tps s;
  s.pool_ = nondet_bool() ? &other : &g_default_pool; s.priority_ = nondet_i8(); s.stacksize_ = nondet_i8(); s.schedulehint_.hint = nondet_i16(); s.schedulehint_.mode = nondet_i8();
  s.annotation_ = nondet_bool() ? "a" : 0; g_fallback = "fb";
  struct sender snd = sender_make(s); struct env e = env_make(s);
#ifdef U_GET_ENV
  struct env r = get_env(&snd);
#endif
#ifdef U_COMPLETION_SCHEDULER
  struct tps r = get_completion_scheduler(&e);
#endif
#ifdef U_SCHEDULE
  struct sender r = schedule(&s);
#endif
#ifdef U_CONNECT
  struct op_state r = connect(&snd, nondet_int());
#endif
  if (s.pool_ == &other) VX_REACH("non_default_pool");
  if (s.schedulehint_.mode != hint_mode_none) VX_REACH("with_hint");
}
