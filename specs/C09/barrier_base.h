/* C09 -- detail::barrier_algorithm_base (tournament tree of ticket bytes): ghost state and stubs.
 *
 * The heap array `state` (count x 64 ticket bytes) is not materialised in the unbounded units: every access goes through
 * ticket_cas(), which (1) asserts the index obligations against g_count, the number of nodes the constructor allocated,
 * (2) supplies the current content of the ticket under the WEAKEST rely (any byte: other arrivals of this and of earlier
 * phases may have written it), (3) records each successful step and asserts the guarantee
 *      old -> half,  half -> full,  old -> full      (half = old + 1, full = old + 2, arithmetic mod 256).
 * In the bounded stand-in (U_BOUNDED) ticket_cas() operates on a real array without interference (serialized arrivals).
 */
#ifndef C09_BARRIER_BASE_H
#define C09_BARRIER_BASE_H
#include "vx.h"

typedef uint8_t barrier_phase_t;
#define HALF(p) ((barrier_phase_t) ((p) + 1))
#define FULL(p) ((barrier_phase_t) ((p) + 2))

struct barrier_base { int unused; };

static size_t g_count;            /* nodes allocated by the constructor: state[0 .. g_count) */
static barrier_phase_t g_token;   /* ghost copy of arrive's old_phase argument */
static ptrdiff_t g_expected;      /* ghost copy of arrive's expected argument */
/* the tournament's geometry, stated independently of the code's locals: round r is played by ceil(expected / 2^r)
 * participants on ceil(that / 2) nodes; the last node is a "1 in 1" node iff the number of participants is odd */
#define ROUND_PARTICIPANTS(r) ((((size_t) g_expected - 1) >> (r)) + 1)
#define ROUND_NODES(r) ((ROUND_PARTICIPANTS(r) + 1) >> 1)
#define ODD_LAST_NODE(n, r) ((n) == ROUND_NODES(r) - 1 && (ROUND_PARTICIPANTS(r) & 1))
static int g_half_steps, g_full_steps;   /* successful ticket steps of this call (saturating at 2) */
static bool g_last_step_half;
static barrier_phase_t lin_old, lin_new;

#define BASE_FRAME g_half_steps, g_full_steps, g_last_step_half, lin_old, lin_new

static void ticket_step(size_t node, int round, barrier_phase_t from, barrier_phase_t to)
{
  lin_old = from;
  lin_new = to;
  VX_ASSERT(VX_IMPLIES(from == g_token && to == FULL(g_token), ODD_LAST_NODE(node, round)),
            "guarantee: old->full in one step only on the odd last node of a round (\"1 in 1\")");
  VX_ASSERT(VX_IMPLIES(to == HALF(g_token), !ODD_LAST_NODE(node, round)),
            "guarantee: no half step on the odd last node of a round (nobody would ever complete it)");
  VX_ASSERT((from == g_token && to == HALF(g_token)) || (from == HALF(g_token) && to == FULL(g_token)) ||
            (from == g_token && to == FULL(g_token)),
            "guarantee: a ticket only steps old->half, half->full or old->full (phase arithmetic mod 256)");
  VX_ASSERT(!g_last_step_half, "after its old->half step (first of two) the arrival touches no further ticket");
  g_last_step_half = (to == HALF(g_token));
  if (to == HALF(g_token)) { if (g_half_steps < 2) g_half_steps++; }
  else { if (g_full_steps < 2) g_full_steps++; }
}

#ifndef U_BOUNDED
/* std::atomic<uint8_t>::compare_exchange_strong on state[node].tickets[round].phase */
static bool ticket_cas(struct barrier_base *self, size_t node, int round, barrier_phase_t *expected, barrier_phase_t desired)
{
  VX_ASSERT(node < g_count, "state[current] within the (expected+1)/2 nodes allocated by the constructor");
  VX_ASSERT(round >= 0 && round < 64, "tickets[round] within the 64 tickets of a node");
  VX_ASSERT(round < 63 && node < ROUND_NODES(round), "the ticket belongs to a node of this round of the tournament");
  barrier_phase_t cur = nondet_u8();   /* rely: any byte (TRUSTED to be no stronger than reality: it is the weakest) */
  if (cur == *expected)
  {
    ticket_step(node, round, cur, desired);
    return true;
  }
  *expected = cur;
  return false;
}
#else
/* bounded stand-in: (VX_MAX_EXPECTED+1)/2 nodes x 4 rounds are all that expected <= VX_MAX_EXPECTED <= 8 can reach (asserted); the 64-ticket bound and the
 * node bound for every expected are obligations of the unbounded unit barrier.base_arrive */
#ifndef VX_MAX_EXPECTED
#define VX_MAX_EXPECTED 6
#endif
#define VX_MAXROUNDS 4
struct state_t { barrier_phase_t tickets[VX_MAXROUNDS]; };
#define VX_MAXNODES ((VX_MAX_EXPECTED + 1) / 2)
static struct state_t g_state[VX_MAXNODES];
static bool ticket_cas(struct barrier_base *self, size_t node, int round, barrier_phase_t *expected, barrier_phase_t desired)
{
  VX_ASSERT(node < g_count && node < VX_MAXNODES, "state[current] in bounds");
  VX_ASSERT(round >= 0 && round < VX_MAXROUNDS, "tickets[round] in bounds");
  barrier_phase_t cur = g_state[node].tickets[round];
  if (cur == *expected)
  {
    ticket_step(node, round, cur, desired);
    g_state[node].tickets[round] = desired;
    return true;
  }
  *expected = cur;
  return false;
}
#endif

/* ---- thread identity and hashing (environment) ---- */
typedef size_t vx_thread_id;           /* 0 == pika::threads::detail::invalid_thread_id (a null pointer) */
static vx_thread_id g_self_id;
static vx_thread_id get_self_id(void) { return g_self_id; }
#define invalid_thread_id ((vx_thread_id) 0)
/* std::hash<thread_id_type>: std::hash<size_t> of the pointer value (thread_id_type.hpp:327) */
static size_t hash_thread_id(vx_thread_id id)
{
  size_t h = nondet_size();
  /* A-HASH (TRUSTED, recorded as an observation): libstdc++'s std::hash<size_t> is the identity, so the invalid (null) id
   * hashes to 0.  arrive() applies `% ((expected + 1) >> 1)` only to the std::thread::id branch of its ternary; the
   * pika-id branch is taken exactly when the id is invalid, and is in range only because of this fact. */
  VX_ASSUME(id != 0 || h == 0);
  return h;
}
/* std::hash<std::thread::id>()(std::this_thread::get_id()): any value */
static size_t hash_std_thread_id(void)
{
#ifdef U_BOUNDED
  return (size_t) (nondet_u8() & 7);   /* bounded stand-in only: every residue modulo (expected+1)/2 <= 3 still occurs */
#else
  return nondet_size();
#endif
}

/* new state_t[count] (default member initialiser: every ticket phase{0}) */
static void state_alloc(struct barrier_base *self, size_t count) { g_count = count; }
#endif
