/* lemma L6 over the guarantee predicates of once.h (no lifted text: a lemma over contracts, DESIGN 3.4).
 * Threads perform only steps whose guards are the predicates G_CAS / G_INVOKE / G_STORE that once.c asserts at every
 * real atomic operation / invocation of the lifted call_once.  One arbitrary step from an arbitrary state satisfying J
 * re-establishes J, and J implies
 *   (a) at most one invocation in flight  (two distinct threads are never both between their CAS and their store),
 *   (b) at most one successful invocation ever, exactly one once `complete` is published, and `complete` is final.
 * The induction over the history is the paper argument `history-induction`. */
//@LIFT consts
#include "once.h"

/* two arbitrary distinct threads 0 and 1 are tracked individually; all threads together through the counters */
static long status;
static bool run[2], inv[2], ok[2];
static long n_running, n_ok_pending, n_ok;

#define J (ST_OK(status) && n_running == (status == ONCE_RUNNING ? 1 : 0) && n_running >= (run[0] ? 1 : 0) + (run[1] ? 1 : 0) && \
           n_ok_pending >= (ok[0] ? 1 : 0) + (ok[1] ? 1 : 0) && n_ok_pending >= 0 && n_ok_pending <= n_running && \
           n_ok == (status == ONCE_COMPLETE ? 1 : 0) + n_ok_pending && \
           (!ok[0] || (run[0] && inv[0])) && (!ok[1] || (run[1] && inv[1])) && (run[0] || !inv[0]) && (run[1] || !inv[1]) && \
           JT(run[0], ok[0]) && JT(run[1], ok[1]))
/* the runner is the only thread that can have a finished-but-unpublished invocation */
#define JT(r, k) (!(r) || n_ok_pending == ((k) ? 1 : 0))

void harness(void)
{
  VX_ASSERT(ONCE_RUNNING != 0 && ONCE_COMPLETE != 0 && ONCE_RUNNING != ONCE_COMPLETE, "the three status words are distinct");
  status = nondet_long();
  run[0] = nondet_bool(); run[1] = nondet_bool(); inv[0] = nondet_bool(); inv[1] = nondet_bool();
  ok[0] = nondet_bool(); ok[1] = nondet_bool();
  n_running = nondet_long(); n_ok_pending = nondet_long(); n_ok = nondet_long();
  bool third = nondet_bool();          /* the step is made by a thread other than 0 and 1 */
  bool r3 = nondet_bool(), i3 = nondet_bool(), k3 = nondet_bool();   /* its flags */
  unsigned t = nondet_bool() ? 1 : 0;
  int op = nondet_int();
  long v = nondet_long();
  bool threw = nondet_bool();
  if (!J) return;                      /* lemma hypothesis */
  if (third && !(n_running >= (run[0] ? 1 : 0) + (run[1] ? 1 : 0) + (r3 ? 1 : 0) &&
                 n_ok_pending >= (ok[0] ? 1 : 0) + (ok[1] ? 1 : 0) + (k3 ? 1 : 0) && (!k3 || (r3 && i3)) && (r3 || !i3) && JT(r3, k3))) return;
  bool *R = third ? &r3 : &run[t], *I = third ? &i3 : &inv[t], *K = third ? &k3 : &ok[t];
  long status0 = status, n_ok0 = n_ok;
  VX_ASSERT(!(run[0] && run[1]), "(a) at most one invocation in flight: two threads are never both between CAS and store");
  if (op == 0)
  { /* compare_exchange_strong(0, running) */
    if (status != 0) return;           /* CAS fails: no step */
    if (!G_CAS(status, ONCE_RUNNING, *R)) return;
    status = ONCE_RUNNING; *R = true; *I = false; *K = false; n_running++;
    VX_REACH("cas");
  }
  else if (op == 1)
  { /* invocation of the callable */
    if (!G_INVOKE(status, *R, *I)) return;
    *I = true;
    if (!threw) { *K = true; n_ok++; n_ok_pending++; VX_REACH("invoke_ok"); } else VX_REACH("invoke_threw");
  }
  else
  { /* store by the runner */
    if (!G_STORE(v, *R, *K)) return;
    if (*K) { n_ok_pending--; *K = false; }
    status = v; *R = false; *I = false; n_running--;
    if (v == 0) VX_REACH("store_0"); else VX_REACH("store_complete");
  }
  VX_ASSERT(J, "the invariant J is inductive under every guarantee step");
  VX_ASSERT(!(run[0] && run[1]), "(a) at most one invocation in flight after the step");
  VX_ASSERT(n_ok <= 1 && n_ok >= n_ok0, "(b) at most one successful invocation overall");
  VX_ASSERT(status != ONCE_COMPLETE || (n_ok == 1 && n_ok_pending == 0), "(b) exactly one successful invocation once complete is published");
  VX_ASSERT(status0 != ONCE_COMPLETE || status == ONCE_COMPLETE, "complete is final");
}
