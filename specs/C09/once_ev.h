/* C09 -- pika::call_once: the discipline of once_flag::event_ (extension of once.h; T contract + guarantee predicates).
 *
 * once.h decides WHO may move status_ and when the callable runs.  This header decides the placement of the three event
 * operations of call_once, derived from the property sentence "... retrying if it threw, and every caller returns only after a
 * successful run has completed":
 *
 *   owes        a caller OWES the event its set() from its own successful CAS (0 -> running) until its next event_.set():
 *               the callers that saw `running` sleep on the event and only this caller is going to wake them.
 *   H_RESET     event_.reset() (re-arming) is done only by a caller that still owes the set.  A reset by anybody else -- in
 *               particular by a former owner AFTER the set() that published its attempt's outcome -- clears an event that
 *               nobody is committed to set again: the waiters that the set() made runnable re-check the event
 *               (event::wait_locked: `while (!event_) cond_.wait(l)`), find it cleared and sleep for ever although status_ == 0
 *               and nobody runs the callable (lost retry).
 *   H_WAIT      a caller sleeps on the event only after its most recent read of status_ saw a started attempt (!= 0) and while
 *               it does not itself owe the set (an owner waiting for its own set never wakes).
 *   H_EXIT      call_once is left (return or exception) only by a caller that is not the runner and owes nothing.
 * event_.set() needs no guard: an extra set only lets waiters re-read status_.
 *
 * once_retry_lemma.c proves over these predicates (any number of callers, one arbitrary step from an arbitrary state of an
 * inductive invariant) that a caller parked on a cleared event always has a LIVE owner (inside call_once, owing the set) --
 * never "status_ == 0, event cleared by a finished attempt".  once_ev.c asserts the predicates on the lifted call_once.
 */
#ifndef C09_ONCE_EV_H
#define C09_ONCE_EV_H
#include "once.h"

#define H_RESET(owes) (owes)
#define H_WAIT(last_read, owes) ((last_read) != 0 && !(owes))
#define H_EXIT(self_running, owes) (!(self_running) && !(owes))

#define EVOP_NONE 0
#define EVOP_RESET 1
#define EVOP_SET 2

static bool g_owes_set;          /* this call won a CAS and has not called event_.set() since */
static int g_evlast;             /* last re-arm/set operation of this call on the event: EVOP_* (waits are not recorded) */

#define ONCE_EV_FRAME ONCE_FRAME, g_owes_set, g_evlast, g_cas_seen

/* compare_exchange_strong(expected&, desired) on status_: once.h's stub (rely, G_CAS, linearisation) + the bookkeeping of the owed
 * set.  `expected` is passed by value and the observed word is written back to the caller's lvalue by the macro, so that the only
 * frame obligation a hoisted `expected` local can raise names that local (which the driver's loop-frame widening understands). */
static long g_cas_seen;          /* the word a failed compare_exchange observed (C++ writes it to `expected`) */
static bool onceev_cas(long *p, long expected, long desired)
{
  long e = expected;
  bool won = status_cas(p, e, desired);
  if (won) g_owes_set = true;
  g_cas_seen = e;
  return won;
}
#define ONCEEV_CAS(p, lv, desired) (onceev_cas((p), (lv), (desired)) ? true : (((lv) = g_cas_seen), false))
/* flag.event_.reset() */
static void onceev_reset(struct once_flag *f)
{
  VX_ASSERT(H_RESET(g_owes_set),
            "H_RESET: event_ is re-armed only by the caller that owns the attempt and still owes its set(); a reset after the owner's set() "
            "(or by a non-owner) strands the waiters that set() made runnable: they re-check the event, find it cleared and sleep although "
            "nobody runs the callable (lost retry)");
  if (g_resets < 2) g_resets++;
  g_evlast = EVOP_RESET;
}
/* flag.event_.set(): pays the owed set (an unowed extra set is harmless and not restricted here) */
static void onceev_set(struct once_flag *f)
{
  if (g_sets < 2) g_sets++;
  g_owes_set = false;
  g_evlast = EVOP_SET;
}
/* flag.event_.wait(): may block; nothing is assumed about why it returned (event's own contract: event.*), the caller has to
 * re-read status_ */
static void onceev_wait(struct once_flag *f)
{
  VX_ASSERT(H_WAIT(g_last_read, g_owes_set),
            "H_WAIT: a caller sleeps on event_ only after its latest read of status_ saw a started attempt (running), and never while it "
            "owes the set itself");
  if (g_ev_waits < 2) g_ev_waits++;
}
#endif
