/* C09 -- pika::call_once / once_flag: rely/guarantee on the atomic word status_ (S contract) + call trace (T contract).
 *
 * The two status words are NOT hard-wired here: the template lifts the declarations
 *   long const function_complete_flag_value = ...;  long const running_value = ...;
 * from once.hpp to file scope (//@LIFT consts) before including this header.
 * Abstract states: 0 (initial), RUNNING, COMPLETE.  Transitions:
 *   0 -> RUNNING            by the winner of the compare_exchange only            (G_CAS)
 *   RUNNING -> COMPLETE     by the runner only, only after the callable returned  (G_STORE)
 *   RUNNING -> 0            by the runner only, only if the callable did not return normally (G_STORE)
 *   COMPLETE is final.
 * The callable runs only between the runner's own successful CAS and its store (G_INVOKE).
 */
#ifndef C09_ONCE_H
#define C09_ONCE_H
#include "vx.h"

/* bool equivalence that is insensitive to the byte representation of a havocked _Bool */
#define VX_IFF(a, b) ((!(a)) == (!(b)))
#define ONCE_COMPLETE function_complete_flag_value
#define ONCE_RUNNING running_value
#define ST_OK(s) ((s) == 0 || (s) == ONCE_RUNNING || (s) == ONCE_COMPLETE)
/* guarantee predicates -- shared by the stubs' assertions and by the lemma harness once_lemma.c */
#define G_CAS(old, desired, self_running) ((old) == 0 && (desired) == ONCE_RUNNING && !(self_running))
#define G_INVOKE(status, self_running, invoked) ((self_running) && (status) == ONCE_RUNNING && !(invoked))
#define G_STORE(v, self_running, invoked_ok) ((self_running) && ((v) == ONCE_COMPLETE ? (invoked_ok) : ((v) == 0 && !(invoked_ok))))
/* rely: what other threads may have done to status_ while we are NOT the runner (any number of their steps) */
#define RELY_ST(o, n) (ST_OK(n) && ((o) != ONCE_COMPLETE || (n) == ONCE_COMPLETE))

struct vx_event { int unused; };
struct once_flag { long status_; struct vx_event event_; };

static struct once_flag *vx_flag;
static bool g_self_running;      /* this call won the CAS and has not yet stored */
static bool g_won;               /* this call won the CAS at some point */
static bool g_invoked, g_invoked_ok, g_thrown, g_uncaught;
static int g_stores, g_sets, g_resets, g_ev_waits;   /* saturating at 2 */
static long g_last_read, g_last_stored;

#define ONCE_FRAME flag->status_, g_cas_seen_once, g_self_running, g_won, g_invoked, g_invoked_ok, g_thrown, g_uncaught, g_stores, g_sets, \
                   g_resets, g_ev_waits, g_last_read, g_last_stored

/* other threads' steps (TRUSTED: the rely; every transition in it is a guarantee asserted on the unit).  While we are
 * the runner nobody else can move the word: their CAS expects 0 and only the runner stores. */
static void interfere_status(long *p)
{
  if (!g_self_running && nondet_bool())
  {
    long n = nondet_long();
    VX_ASSUME(RELY_ST(*p, n));
    *p = n;
  }
}
static long status_load(long *p)
{
  interfere_status(p);
  g_last_read = *p;
  return *p;
}
/* compare_exchange_strong: no spurious failure */
static long g_cas_seen_once;   /* the value a failed CAS read (written back to the caller's `expected` by the macro below) */
static bool status_cas_v(long *p, long expected, long desired)
{
  interfere_status(p);
  if (*p == expected)
  {
    VX_ASSERT(G_CAS(*p, desired, g_self_running), "guarantee: the only CAS step is 0 -> running, by a thread that is not already the runner");
    *p = desired;
    g_self_running = true;
    g_won = true;
    return true;
  }
  g_cas_seen_once = *p;
  g_last_read = *p;
  return false;
}
/* `expected` is passed by value and updated in the CALLER's scope: if a refactoring makes it a loop-carried local, the frame
 * obligation names the local itself (which the driver's loop-frame widening handles), not `*expected` inside this stub */
#define status_cas(p, expected_lv, desired) (status_cas_v((p), (expected_lv), (desired)) ? true : (((expected_lv) = g_cas_seen_once), false))
static void status_store(long *p, long v)
{
  interfere_status(p);
  VX_ASSERT(g_self_running, "guarantee: status_ is stored only by the runner, between its own successful CAS and this store");
  VX_ASSERT(G_STORE(v, g_self_running, g_invoked_ok), "guarantee: running -> complete only after the callable returned normally, running -> 0 only otherwise");
  *p = v;
  g_last_stored = v;
  if (g_stores < 2) g_stores++;
  g_self_running = false;
}
/* PIKA_INVOKE(f, args...): returns true iff the callable threw */
static bool once_invoke_f(void)
{
  VX_ASSERT(G_INVOKE(vx_flag->status_, g_self_running, g_invoked), "the callable is invoked only between the runner's own successful CAS and its store, once");
  g_invoked = true;
  bool threw = nondet_bool();
  g_invoked_ok = !threw;
  return threw;
}
/* event as seen by call_once (its own units: event.c) */
static void event_reset(struct vx_event *e) { if (g_resets < 2) g_resets++; }
static void event_set(struct vx_event *e)
{
  VX_ASSERT(g_won && !g_self_running, "the status is published BEFORE event_.set() releases the waiting callers");
  if (g_sets < 2) g_sets++;
}
static void event_wait(struct vx_event *e) { if (g_ev_waits < 2) g_ev_waits++; }

/* exception lowering (vx.lift.TryCatch) */
#define VX_TRY_BEGIN(k) ((void) 0)
#define VX_CATCH_BEGIN(k) ((void) 0)
#define VX_THROW_TO(lab) goto lab
#define VX_THROW_POINT do { g_thrown = true; g_uncaught = true; return; } while (0)   /* throw outside any try block */
#define VX_RETHROW() do { g_thrown = true; return; } while (0)
#endif
