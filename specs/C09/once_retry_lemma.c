/* lemma once.lemma_retry over the predicates of once_ev.h / once.h (no lifted code: a lemma over contracts, DESIGN 3.4).
 *
 * Any number of callers of call_once on one once_flag.  A caller performs only steps whose guards are the predicates that
 * once_ev.c asserts on the lifted call_once at every operation on status_ / event_ (G_CAS, H_RESET, H_WAIT, G_STORE) and at
 * its exits (H_EXIT, a postcondition of once.rearm); event_.wait() blocks only after reading the event cleared and is resumed
 * only after the event was set (contract of pika::experimental::event, units event.*).
 * One arbitrary step of an arbitrary caller from an arbitrary state satisfying K re-establishes K, and K implies
 *   (R1) a caller parked on a CLEARED event always has a LIVE owner: another caller that is still inside call_once and owes
 *        the event its set() (H_EXIT: it cannot leave before paying) -- never "parked, status_ == 0, event cleared by an
 *        attempt that has finished";
 *   (R2) once an attempt was started, the event is cleared only while somebody owes the set: after a failed attempt has
 *        finished (status_ == 0, nobody owing) the event stays set, so every waiter it woke and every caller that still
 *        saw `running` gets through event_.wait(), re-reads status_ and competes for the next attempt.
 * Base case: the state established by once_flag() (units once.flag_ctor / once.event_ctor).  The induction over the
 * history is the paper argument `history-induction`; that the live owner eventually reaches its set (the callable returns
 * or throws) is liveness and not decided. */
//@LIFT consts
#include "once_ev.h"

#define VX_BIG 1000000000L
/* two arbitrary distinct callers 0 and 1 are tracked individually, all other callers through n_other */
static long status;              /* once_flag::status_ */
static bool ev;                  /* once_flag::event_ is set */
static bool started;             /* some compare_exchange 0 -> running has succeeded (history) */
static long n_other;             /* number of callers OTHER than 0 and 1 that won a CAS and have not called event_.set() since */
static bool in[2], run[2], owes[2], blocked[2];
static long last[2];             /* the caller's latest read of status_ inside its current call (0 at entry) */

#define OW(x) ((x) ? 1 : 0)
/* number of callers that owe the event its set() */
#define n_owing (OW(owes[0]) + OW(owes[1]) + n_other)
/* per caller: only a caller inside call_once runs / owes / sleeps; what it read was written before; it sleeps only under H_WAIT */
#define TK(i, r, o, b, l) ((!(r) || (i)) && (!(o) || (i)) && (!(b) || (i)) && (!(r) || started) && ST_OK(l) && ((l) == 0 || started) && \
                           (!(b) || H_WAIT(l, o)))
#define K (ST_OK(status) && n_other >= 0 && \
           TK(in[0], run[0], owes[0], blocked[0], last[0]) && TK(in[1], run[1], owes[1], blocked[1], last[1]) && \
           ((status == 0 && n_owing == 0) || started) && \
           (ev || n_owing >= 1 || !started))

void harness(void)
{
  VX_ASSERT(ONCE_RUNNING != 0 && ONCE_COMPLETE != 0 && ONCE_RUNNING != ONCE_COMPLETE, "the three status words are distinct");
  /* base case: once_flag() -- status_ 0, event not set, nobody inside */
  status = 0; ev = false; started = false; n_other = 0;
  in[0] = in[1] = run[0] = run[1] = owes[0] = owes[1] = blocked[0] = blocked[1] = false; last[0] = last[1] = 0;
  VX_ASSERT(K, "base case: the freshly constructed once_flag satisfies K");

  status = nondet_long(); ev = nondet_bool(); started = nondet_bool(); n_other = nondet_long();
  in[0] = nondet_bool(); in[1] = nondet_bool(); run[0] = nondet_bool(); run[1] = nondet_bool();
  owes[0] = nondet_bool(); owes[1] = nondet_bool(); blocked[0] = nondet_bool(); blocked[1] = nondet_bool();
  last[0] = nondet_long(); last[1] = nondet_long();
  bool third = nondet_bool();          /* the step is made by a caller other than 0 and 1 ... */
  bool i3 = nondet_bool(), r3 = nondet_bool(), o3 = nondet_bool(), b3 = nondet_bool();   /* ... with these flags */
  long l3 = nondet_long();
  unsigned t = nondet_bool() ? 1 : 0;
  int op = nondet_int();
  long v = nondet_long();
  bool ok = nondet_bool();             /* whether the runner's callable returned normally (decided by once.h's G_STORE) */
  if (!(n_other >= 0 && n_other < VX_BIG)) return;   /* ghost counter bounded (no overflow of the count itself) */
  if (!K) return;                      /* lemma hypothesis */
  if (third && !(TK(i3, r3, o3, b3, l3) && n_other >= OW(o3))) return;   /* the untracked caller is one of the others */
  bool *I = third ? &i3 : &in[t], *R = third ? &r3 : &run[t], *O = third ? &o3 : &owes[t], *B = third ? &b3 : &blocked[t];
  long *L = third ? &l3 : &last[t];
  bool w_parked = blocked[1] && !ev;   /* caller 1 is parked on a cleared event before the step */

  if (op == 0)
  { /* a caller enters call_once */
    if (*I) return;
    *I = true; *L = 0;
    VX_REACH("enter");
  }
  else if (op == 1)
  { /* status_.load() */
    if (!*I || *B) return;
    *L = status;
    VX_REACH("load");
  }
  else if (op == 2)
  { /* status_.compare_exchange_strong(expected = 0, running) */
    if (!*I || *B) return;
    if (status == 0)
    {
      if (!G_CAS(status, ONCE_RUNNING, *R)) return;
      if (third && !*O) n_other++;
      status = ONCE_RUNNING; *R = true; *O = true; started = true;
      if (w_parked && !third && t == 0) VX_REACH("next_attempt_started_while_waiter_parked");
      VX_REACH("cas_won");
    }
    else { *L = status; VX_REACH("cas_lost"); }
  }
  else if (op == 3)
  { /* event_.reset() */
    if (!*I || *B) return;
    if (!H_RESET(*O)) return;
    ev = false;
    if (blocked[1] && (third || t == 0)) VX_REACH("next_owner_rearms_while_woken_waiter_has_not_run_yet");
    VX_REACH("reset");
  }
  else if (op == 4)
  { /* status_.store(v) */
    if (!*I || *B) return;
    if (!G_STORE(v, *R, ok)) return;
    status = v; *R = false;
    if (v == 0) VX_REACH("store_0"); else VX_REACH("store_complete");
  }
  else if (op == 5)
  { /* event_.set(): pays the owed set, if any */
    if (!*I || *B) return;
    if (w_parked && status == 0 && !third && t == 0 && *O && !*R) VX_REACH("failed_owner_pays_set_while_waiter_parked");
    ev = true;
    if (*O) { if (third) n_other--; *O = false; VX_REACH("set_paid"); } else VX_REACH("set_extra");
  }
  else if (op == 6)
  { /* event_.wait(): returns at once if the event is set, parks the caller otherwise */
    if (!*I || *B) return;
    if (!H_WAIT(*L, *O)) return;
    if (!ev) { *B = true; VX_REACH("wait_parks"); } else VX_REACH("wait_passes");
  }
  else if (op == 7)
  { /* a parked caller is resumed: only after a set(), and it leaves wait_locked only if it reads the event set */
    if (!*B || !ev) return;
    *B = false;
    VX_REACH("woken");
  }
  else
  { /* the caller leaves call_once (return or exception) */
    if (!*I || *B) return;
    if (!H_EXIT(*R, *O)) return;
    *I = false; *L = 0;
    VX_REACH("exit");
  }

  VX_ASSERT(K, "the invariant K is inductive under every step permitted by G_CAS / H_RESET / H_WAIT / H_EXIT / G_STORE");
  VX_ASSERT(!third || (TK(i3, r3, o3, b3, l3) && n_other >= OW(o3)), "... also for the untracked caller that made the step");
#define R1(k) \
  VX_ASSERT(!(blocked[k] && !ev) || (n_owing >= 1 && !owes[k]), \
            "(R1) a caller parked on a cleared event has a live owner: ANOTHER caller inside call_once owes the event its set()"); \
  VX_ASSERT(!(blocked[k] && !ev && status == 0 && n_owing == 0), \
            "(R1) never parked with status_ == 0 and the event cleared by an attempt that has finished (lost retry)")
  R1(0);
  R1(1);
  VX_ASSERT(!(started && n_owing == 0) || ev, "(R2) once an attempt was started the event is cleared only while somebody owes the set");
}
