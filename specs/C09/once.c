/* unit: pika::call_once (S + T contract); the two status words are lifted from once.hpp, not copied */
//@LIFT consts
#include "once.h"

//@FUNC
void call_once(struct once_flag *flag)
__CPROVER_requires(flag == vx_flag && ST_OK(flag->status_) && !g_self_running && !g_won && !g_invoked && !g_invoked_ok && !g_thrown && !g_uncaught && g_stores == 0 && g_sets == 0)
/* every exit has published a status: nobody is left believing a run is in progress */
__CPROVER_ensures(!g_self_running)
/* a caller returns normally only after it read `complete`, or after it ran the callable to completion itself */
__CPROVER_ensures(!g_thrown ==> (g_invoked_ok || g_last_read == ONCE_COMPLETE))
/* the callable is invoked by the CAS winner only; the winner publishes complete (returned) or 0 (threw) exactly once and then sets the event */
__CPROVER_ensures(VX_IFF(g_invoked, g_won))
__CPROVER_ensures(g_won ==> (g_stores == 1 && g_sets >= 1 && g_last_stored == (g_invoked_ok ? ONCE_COMPLETE : 0)))
__CPROVER_ensures(!g_won ==> (g_stores == 0 && g_sets == 0))
/* the exception leaves call_once exactly when the callable threw (the next caller retries: status is 0 again) */
__CPROVER_ensures(VX_IFF(g_thrown, g_invoked && !g_invoked_ok) && !g_uncaught)
__CPROVER_assigns(ONCE_FRAME)
//@LIFT body

void harness(void)
{
  struct once_flag fl;
  vx_flag = &fl;
  VX_ASSERT(ONCE_RUNNING != 0 && ONCE_COMPLETE != 0 && ONCE_RUNNING != ONCE_COMPLETE, "the three status words are distinct");
  fl.status_ = nondet_long();
  g_self_running = false; g_won = false; g_invoked = false; g_invoked_ok = false; g_thrown = false; g_uncaught = false;
  g_stores = 0; g_sets = 0; g_resets = 0; g_ev_waits = 0;
  long s0 = fl.status_;
  call_once(&fl);
  if (!g_won && !g_thrown) VX_REACH("loser_returned");
  if (!g_won && g_ev_waits > 0) VX_REACH("loser_waited");
  if (g_won && !g_thrown) VX_REACH("ran_and_completed");
  if (g_thrown) VX_REACH("ran_and_threw");
  if (g_won && s0 == ONCE_RUNNING) VX_REACH("retried_after_other_runner_failed");
  if (s0 == ONCE_COMPLETE) VX_REACH("fast_path");
}
