/* C09 -- pika::experimental::event: ghost state, monitor invariant, rely on the atomic flag, cv contract.
 *
 * State: event_ (std::atomic<bool>, stored OUTSIDE the lock by set()/reset()), cond_ queue (ghost g_waiters), mtx_.
 *   g_env_pending  some OTHER thread has stored event_ = true (first step of set()) and has not yet done its notify_all
 *   g_owed         the call under verification has stored event_ = true and has not yet done its notify_all
 *   g_no_reset     rely variant chosen by the harness: nobody calls reset() while this call runs
 *   g_ev0          event_ was set when the public call started
 * Monitor invariant (every release point):  event_ && g_waiters > 0  ==>  g_env_pending || g_owed
 *   "a waiter stays queued while the event is set only as long as a setter still owes its notify_all" -- the safety
 *   form of "set wakes all queued waiters"; together with "a waiter enqueues only in a critical section in which it
 *   read event_ == false" (cv_wait precondition) no wake-up is lost.
 */
#ifndef C09_EVENT_H
#define C09_EVENT_H
#include "vx.h"

static void ev_at_release(void);
static void ev_at_acquire(void);
#define MON_AT_RELEASE() ev_at_release()
#define MON_AT_ACQUIRE() ev_at_acquire()
#include "monitor.h"

struct cv { int unused; };
struct event { struct vx_mutex mtx_; struct cv cond_; bool event_; };

static struct event *vx_self;
static long g_waiters, g_woken;
static bool g_env_pending, g_owed, g_no_reset, g_ev0;
static int g_waits, g_stores, g_notify_alls;   /* saturating at 2 */
static bool g_stored;                          /* value of the last store made by this call */
static bool g_last_read;                       /* value of the last load made by this call */
static bool g_read_false_in_cs;                /* the last load was made holding the lock and returned false */

#define VX_BIG 1000000000L
#define OWNS_P(l) ((l)->owns && (l)->m == &vx_self->mtx_ && (l)->m->held)
#define RANGE (g_waiters >= 0 && g_waiters <= VX_BIG)
#define INV_EV (!(vx_self->event_ && g_waiters > 0) || g_env_pending || g_owed)
#define EV_FRAME self->event_, self->mtx_.held, g_waiters, g_woken, g_env_pending, g_owed, g_waits, g_stores, g_notify_alls, \
                 g_stored, g_last_read, g_read_false_in_cs

static void ev_at_release(void)
{
  VX_ASSERT(INV_EV, "monitor invariant at release: a waiter stays queued while the event is set only if a setter still owes notify_all");
}
/* another thread's set()/reset() store; may happen at any time, also while we hold the lock (TRUSTED: the rely) */
static void interfere_event(void)
{
  if (nondet_bool())
  {
    bool v = nondet_bool();
    VX_ASSUME(v || !g_no_reset);       /* rely variant "no reset during this call" */
    if (v) g_env_pending = true;       /* event_ becomes true only as the first step of a set(): that setter owes a notify_all */
    vx_self->event_ = v;
  }
}
static void ev_at_acquire(void)
{
  bool was = vx_self->event_;
  vx_self->event_ = nondet_bool();
  g_waiters = nondet_long();
  g_env_pending = nondet_bool();
  VX_ASSUME(!(g_no_reset && was) || vx_self->event_);
  VX_ASSUME(RANGE && INV_EV);          /* the monitor invariant, proved at every release point of every unit */
  g_read_false_in_cs = false;
}
static bool event_load(bool *p)
{
  interfere_event();
  g_last_read = *p;
  g_read_false_in_cs = vx_self->mtx_.held && !*p;
  return *p;
}
static void event_store(bool *p, bool v)
{
  interfere_event();
  *p = v;
  g_stored = v;
  if (g_stores < 2) g_stores++;
  if (v) g_owed = true;                /* storing true commits the caller to a notify_all under the lock */
}

/* ---- contract of detail::condition_variable as seen by a client holding the lock (subject of C07) ---- */
static int cv_wait(struct cv *c, struct ulock *l)
{
  VX_ASSERT(vx_owns_p(l), "cv.wait called without the internal lock");
  VX_ASSERT(g_read_false_in_cs, "a waiter blocks only while the event is not set: its last read of event_, in this critical section, was false");
  g_waiters++;
  if (g_waits < 2) g_waits++;
  ulock_unlock(l);
  ulock_lock(l);
  return thread_restart_state_signaled;   /* spurious wake-ups allowed: nothing is assumed about the reason */
}
/* notify_all(std::move(l)): dequeues and resumes every waiter, releases the lock */
static void cv_notify_all(struct cv *c, struct ulock l)
{
  VX_ASSERT(vx_owns_v(l), "cv.notify_all called without the internal lock");
  g_woken = g_waiters;
  g_waiters = 0;
  g_owed = false;
  if (g_notify_alls < 2) g_notify_alls++;
  ulock_dtor(&l);
}
#endif
