/* unit once.rearm: pika::call_once -- placement of event_.reset() / set() / wait() relative to the attempt the caller owns
 * (T contract over the predicates H_* of once_ev.h; the status word is handled by once.h exactly as in once.c).
 * The two status words are lifted from once.hpp, not copied. */
//@LIFT consts
#include "once_ev.h"

//@FUNC
void call_once(struct once_flag *flag)
__CPROVER_requires(flag == vx_flag && ST_OK(flag->status_) && !g_self_running && !g_won && !g_invoked && !g_invoked_ok && !g_thrown && !g_uncaught && g_stores == 0 && g_sets == 0)
__CPROVER_requires(!g_owes_set && g_evlast == EVOP_NONE && g_resets == 0 && g_ev_waits == 0 && g_last_read == 0)
/* H_EXIT: whoever started an attempt has published its outcome AND paid the set before leaving, on the normal and on the exceptional exit */
__CPROVER_ensures(H_EXIT(g_self_running, g_owes_set))
/* the owner's last operation on the event is the set that releases the waiters -- it is not cleared again before the owner leaves */
__CPROVER_ensures(g_won ==> g_evlast == EVOP_SET)
/* a caller that never owned an attempt never re-arms the event */
__CPROVER_ensures(!g_won ==> (g_resets == 0 && g_evlast != EVOP_RESET))
/* callable threw: status back to 0, then the event set (and left set), and the exception propagates -- the next caller / a woken waiter retries */
__CPROVER_ensures(g_thrown ==> (g_won && g_last_stored == 0 && g_evlast == EVOP_SET && !g_uncaught))
/* a waiter never returns while status != done: a normal return happens only after reading `complete` or after running the callable to completion itself */
__CPROVER_ensures(!g_thrown ==> (g_invoked_ok || g_last_read == ONCE_COMPLETE))
__CPROVER_assigns(ONCE_EV_FRAME)
//@LIFT body

void harness(void)
{
  struct once_flag fl;
  vx_flag = &fl;
  VX_ASSERT(ONCE_RUNNING != 0 && ONCE_COMPLETE != 0 && ONCE_RUNNING != ONCE_COMPLETE, "the three status words are distinct");
  fl.status_ = nondet_long();
  g_self_running = false; g_won = false; g_invoked = false; g_invoked_ok = false; g_thrown = false; g_uncaught = false;
  g_stores = 0; g_sets = 0; g_resets = 0; g_ev_waits = 0; g_last_read = 0; g_last_stored = 0;
  g_owes_set = false; g_evlast = EVOP_NONE; g_cas_seen = 0;
  long s0 = fl.status_;
  call_once(&fl);
  if (g_won && !g_thrown && g_resets > 0) VX_REACH("owner_rearmed_ran_set");
  if (g_thrown && g_evlast == EVOP_SET) VX_REACH("owner_failed_set_last");
  if (!g_won && g_ev_waits > 0) VX_REACH("waiter_slept_then_read_complete");
  if (g_won && g_ev_waits > 0) VX_REACH("woken_waiter_competed_and_won");
  if (g_ev_waits >= 2) VX_REACH("woken_waiter_found_next_attempt_running_and_slept_again");
  if (s0 == ONCE_COMPLETE && g_ev_waits == 0) VX_REACH("fast_path");
}
