/* units: pika::barrier<>::{arrive, wait (+ its poll lambda), arrive_and_drop}  (T contracts) */
#include "barrier.h"

#define PRE_B (self == vx_self && !g_completing && !g_published && g_completions == 0 && g_adj_stores == 0 && g_adj_subs == 0 && \
               g_arrive_calls == 0 && !g_adj_applied && !g_token_valid && g_arrivals == 0 && g_phase_reads == 0 && g_adj_read == 0)

#ifdef U_ARRIVE
//@FUNC
barrier_phase_t barrier_arrive(struct barrier *self, ptrdiff_t update)
__CPROVER_requires(PRE_B && update >= 0 && update <= g_outstanding && g_outstanding >= 1 && g_outstanding <= self->expected && self->expected <= VX_BIG)
__CPROVER_requires(self->expected_adjustment <= 0 && self->expected_adjustment >= -VX_BIG && g_out0 == g_outstanding && g_update0 == update && g_expected0 == self->expected)
/* the token is the phase read at entry; the call arrives `update` times */
__CPROVER_ensures(g_token_valid && __CPROVER_return_value == g_token && g_arrivals == g_update0)
/* the call that makes the last outstanding arrival -- and only that one -- runs the completion exactly once, applies and
 * clears expected_adjustment, and publishes token + 2 last */
__CPROVER_ensures((g_out0 == g_update0) ? (g_published && g_completions == 1 && self->phase == FULL(g_token) && self->expected_adjustment == 0 && self->expected == g_expected0 + g_adj_read)
                                        : (!g_published && g_completions == 0 && g_adj_stores == 0 && self->expected == g_expected0))
__CPROVER_ensures(!g_completing)
__CPROVER_assigns(BARRIER_FRAME)
//@LIFT body
#endif

#ifdef U_WAIT
static bool barrier_poll(struct barrier *self, barrier_phase_t old_phase)
//@LIFT poll
//@FUNC
void barrier_wait(struct barrier *self, barrier_phase_t old_phase, double busy_wait_timeout)
__CPROVER_requires(PRE_B)
/* returns only after reading a phase different from its token */
__CPROVER_ensures(g_phase_reads >= 1 && g_last_phase_read != old_phase)
/* and writes nothing */
__CPROVER_ensures(self->expected == __CPROVER_old(self->expected) && g_arrivals == 0 && g_completions == 0 && !g_published)
__CPROVER_assigns(BARRIER_FRAME)
//@LIFT body
#endif

#ifdef U_ARRIVE_AND_DROP
/* arrive(1) by contract (unit barrier.arrive) */
static barrier_phase_t barrier_arrive(struct barrier *self, ptrdiff_t update)
{
  VX_ASSERT(update == 1, "arrive_and_drop arrives exactly once");
  VX_ASSERT(g_adj_subs == 1, "the drop is registered before the arrival (the completing thread must see it)");
  if (g_arrive_calls < 2) g_arrive_calls++;
  return self->phase;
}
//@FUNC
void arrive_and_drop(struct barrier *self)
__CPROVER_requires(PRE_B && self->expected_adjustment <= 0 && self->expected_adjustment >= -VX_BIG)
/* decrements the expected count of all subsequent phases by one, then arrives once */
__CPROVER_ensures(g_adj_subs == 1 && g_arrive_calls == 1)
__CPROVER_assigns(BARRIER_FRAME)
//@LIFT body
#endif

void harness(void)
{
  struct barrier s;
  vx_self = &s;
  s.expected = nondet_ptrdiff();
  s.expected_adjustment = nondet_ptrdiff();
  s.phase = nondet_u8();
  g_outstanding = nondet_long();
  g_completing = false; g_published = false; g_completions = 0; g_adj_stores = 0; g_adj_subs = 0; g_arrive_calls = 0;
  g_adj_applied = false; g_token_valid = false; g_arrivals = 0; g_phase_reads = 0; g_adj_read = 0;
  g_out0 = g_outstanding;
  g_expected0 = s.expected;
#ifdef U_ARRIVE
  ptrdiff_t update = nondet_ptrdiff();
  g_update0 = update;
  barrier_phase_t t = barrier_arrive(&s, update);
  if (g_published) VX_REACH("completed_phase"); else VX_REACH("not_last");
  if (g_published && update >= 2) VX_REACH("completed_with_update_gt_1");
  if (g_published && g_adj_read < 0) VX_REACH("applied_drops");
  if (g_published && t >= 254) VX_REACH("phase_wrapped");
  if (update == 0) VX_REACH("update_0");
#endif
#ifdef U_WAIT
  double tmo = nondet_bool() ? 0.0 : 1.0;
  barrier_phase_t tok = nondet_u8();
  barrier_wait(&s, tok, tmo);
  VX_REACH("released");
  if (tmo > 0.0) VX_REACH("busy_wait_variant");
#endif
#ifdef U_ARRIVE_AND_DROP
  arrive_and_drop(&s);
  VX_REACH("returned");
#endif
}
