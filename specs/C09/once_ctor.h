/* shared by once_event_ctor.c (unit once.event_ctor, pika::experimental::event::event()) and once_flag_ctor.c (unit once.flag_ctor,
 * pika::once_flag::once_flag()):
 * the constructors establish the base case of the event's monitor invariant (event.h INV_EV) and of the call_once
 * invariants (once_lemma.c J, once_retry_lemma.c K): status_ == 0, event not set, nobody queued, lock free.
 * Ghost state, invariant macros and struct event come from event.h (shared with the event.* units). */
#ifndef C09_ONCE_CTOR_H
#define C09_ONCE_CTOR_H
#include "event.h"

struct once_flag_c { long status_; struct event event_; };

/* construction of members that the mem-initialiser list value-initialises (`m()`) or does not mention: TRUSTED stubs
 * vx_default_ctor_<class>_<member>(self) */
/* pika::concurrency::detail::spinlock(): unlocked */
static void vx_default_ctor_event_mtx_(struct event *e) { e->mtx_.held = false; }
/* pika::detail::condition_variable(): empty wait queue */
static void vx_default_ctor_event_cond_(struct event *e) { g_waiters = 0; }
/* std::atomic<bool>() / std::atomic<long>(): value-initialised since C++20 (P0883; pika requires C++20) */
static void vx_default_ctor_event_event_(struct event *e) { e->event_ = false; }
static void vx_default_ctor_flag_status_(struct once_flag_c *f) { f->status_ = 0; }

/* calls a constructor BODY could make on its members (the shipped bodies are empty; see _ONCE_CTOR_BODY in once_spec.py) */
static void once_ctor_mtx_lock(struct vx_mutex *m) { m->held = true; }
static void once_ctor_mtx_unlock(struct vx_mutex *m) { m->held = false; }
static void once_ctor_event_set(struct event *e) { e->event_ = true; }      /* event::set(): stores true first (unit event.set) */
static void once_ctor_event_reset(struct event *e) { e->event_ = false; }   /* event::reset() (unit event.reset) */

/* raw storage: everything a constructor does not initialise stays arbitrary */
static void once_ctor_raw_storage(struct once_flag_c *fl)
{
  vx_self = &fl->event_;
  fl->status_ = nondet_long();
  fl->event_.event_ = nondet_bool();
  fl->event_.mtx_.held = nondet_bool();
  g_waiters = nondet_long();
  g_env_pending = nondet_bool();
  g_owed = false;
  g_no_reset = nondet_bool(); g_ev0 = false; g_waits = 0; g_stores = 0; g_notify_alls = 0; g_read_false_in_cs = false;
}
#endif
