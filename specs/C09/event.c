/* units: pika::experimental::event::{occurred, wait, set, reset, wait_locked, set_locked}  (M contracts) */
#include "event.h"

#define PRE_EV (self == vx_self && RANGE && INV_EV && !g_owed && g_waits == 0 && g_stores == 0 && g_notify_alls == 0)

/* private helpers: proved as their own units (U_WAIT_LOCKED, U_SET_LOCKED), used through the same contract text by wait()/set()
 * (no //@FUNC marker: the native replay does not parse contract macros; the helpers are replayed without run-time contract checks) */
#ifdef VX_NATIVE
#define NO_NATIVE_BODY { vx_fail("DIVERGED", "callee used by contract has no native counterpart", __FILE__, __LINE__); }
#else
#define NO_NATIVE_BODY ;
#endif
#define WAIT_LOCKED_CONTRACT \
  __CPROVER_requires(PRE_EV && OWNS_P(l) && ((g_no_reset && g_ev0) ==> self->event_)) \
  /* returns only after reading the event set, still holding the lock */ \
  __CPROVER_ensures(g_last_read && OWNS_P(l)) \
  /* once set (and not reset), wait returns without blocking */ \
  __CPROVER_ensures((g_no_reset && g_ev0) ==> g_waits == 0) \
  __CPROVER_ensures(RANGE && INV_EV && !g_owed && g_stores == 0 && g_notify_alls == 0) \
  __CPROVER_assigns(EV_FRAME, l->owns)
#define SET_LOCKED_CONTRACT \
  __CPROVER_requires(self == vx_self && RANGE && l.owns && l.m == &self->mtx_ && self->mtx_.held && g_notify_alls <= 1) \
  /* every waiter queued at that moment is dequeued and resumed, then the lock is released */ \
  __CPROVER_ensures(g_notify_alls == __CPROVER_old(g_notify_alls) + 1 && g_woken == __CPROVER_old(g_waiters) && g_waiters == 0) \
  __CPROVER_ensures(!g_owed && !self->mtx_.held) \
  __CPROVER_assigns(self->mtx_.held, g_waiters, g_woken, g_owed, g_notify_alls)

#ifdef U_WAIT_LOCKED
void ev_wait_locked(struct event *self, struct ulock *l)
WAIT_LOCKED_CONTRACT
//@LIFT body
#else
void ev_wait_locked(struct event *self, struct ulock *l)
WAIT_LOCKED_CONTRACT NO_NATIVE_BODY
#endif

#ifdef U_SET_LOCKED
void ev_set_locked(struct event *self, struct ulock l)
SET_LOCKED_CONTRACT
//@LIFT body
#else
void ev_set_locked(struct event *self, struct ulock l)
SET_LOCKED_CONTRACT NO_NATIVE_BODY
#endif

#ifdef U_OCCURRED
//@FUNC
bool occurred(struct event *self)
__CPROVER_requires(PRE_EV)
__CPROVER_ensures(__CPROVER_return_value == g_last_read)
__CPROVER_ensures(g_waits == 0 && g_stores == 0 && self->mtx_.held == __CPROVER_old(self->mtx_.held))
__CPROVER_assigns(EV_FRAME)
//@LIFT body
#endif

#ifdef U_WAIT
//@FUNC
void wait(struct event *self)
__CPROVER_requires(PRE_EV && !self->mtx_.held && g_ev0 == self->event_)
/* returns only after reading the event set */
__CPROVER_ensures(g_last_read)
/* once set (and not reset), wait returns without blocking */
__CPROVER_ensures((g_no_reset && g_ev0) ==> g_waits == 0)
__CPROVER_ensures(!self->mtx_.held && g_stores == 0)
__CPROVER_assigns(EV_FRAME)
//@LIFT body
#endif

#ifdef U_SET
//@FUNC
void set(struct event *self)
__CPROVER_requires(PRE_EV && !self->mtx_.held)
/* stores true first, then wakes all queued waiters under the lock (nothing owed at return) */
__CPROVER_ensures(g_stores == 1 && g_stored && g_notify_alls == 1 && !g_owed && g_waiters == 0)
__CPROVER_ensures(!self->mtx_.held && g_waits == 0)
__CPROVER_assigns(EV_FRAME)
//@LIFT body
#endif

#ifdef U_RESET
//@FUNC
void reset(struct event *self)
__CPROVER_requires(PRE_EV)
__CPROVER_ensures(g_stores == 1 && !g_stored && !g_owed && g_notify_alls == 0 && g_waits == 0)
__CPROVER_ensures(self->mtx_.held == __CPROVER_old(self->mtx_.held))
__CPROVER_assigns(EV_FRAME)
//@LIFT body
#endif

void harness(void)
{
  struct event s;
  struct ulock l;
  vx_self = &s;
  s.event_ = nondet_bool();
  s.mtx_.held = false;
  g_waiters = nondet_long();
  g_env_pending = nondet_bool();
  g_no_reset = nondet_bool();
  g_ev0 = s.event_;
  g_owed = false;
  g_waits = 0;
  g_stores = 0;
  g_notify_alls = 0;
  g_read_false_in_cs = false;
  /* keeps the helper symbols alive when a (mutated) caller no longer calls them: dfcc cannot replace an absent function */
  if (g_waits != 0) { l.m = &s.mtx_; l.owns = false; ev_wait_locked(&s, &l); ev_set_locked(&s, l); }
#ifdef U_WAIT_LOCKED
  s.mtx_.held = true;
  l.m = &s.mtx_;
  l.owns = true;
  g_ev0 = nondet_bool();
  ev_wait_locked(&s, &l);
  if (g_waits == 0) VX_REACH("did_not_block");
  if (g_waits == 1) VX_REACH("blocked_once");
  if (g_waits >= 2) VX_REACH("blocked_again");
#endif
#ifdef U_SET_LOCKED
  s.mtx_.held = true;
  l.m = &s.mtx_;
  l.owns = true;
  g_owed = nondet_bool();
  ev_set_locked(&s, l);
  if (g_woken > 0) VX_REACH("woke_waiters"); else VX_REACH("no_waiters");
#endif
#ifdef U_OCCURRED
  if (occurred(&s)) VX_REACH("set"); else VX_REACH("not_set");
#endif
#ifdef U_WAIT
  wait(&s);
  if (g_waits == 0 && !s.mtx_.held && g_ev0) VX_REACH("fast_path");
  if (g_waits == 0 && !g_ev0) VX_REACH("set_meanwhile");
  if (g_waits > 0) VX_REACH("blocked");
#endif
#ifdef U_SET
  set(&s);
  VX_REACH("returned");
  if (g_woken > 0) VX_REACH("woke_waiters");
#endif
#ifdef U_RESET
  reset(&s);
  VX_REACH("returned");
#endif
}
