/* unit once.event_ctor: pika::experimental::event::event() (types, ghost state, trusted member-construction stubs: once_ctor.h) */
#include "once_ctor.h"

//@FUNC
void event_ctor(struct event *self)
__CPROVER_requires(self == vx_self)
/* "an event releases its waiters once set" -- and not before: a new event is not set */
__CPROVER_ensures(!self->event_)
/* nobody queued, internal lock free */
__CPROVER_ensures(g_waiters == 0 && !self->mtx_.held)
/* base case of the monitor invariant that every event.* unit assumes at acquire and proves at release */
__CPROVER_ensures(RANGE && INV_EV)
__CPROVER_assigns(self->event_, self->mtx_.held, g_waiters)
//@LIFT event_ctor

void harness(void)
{
  struct once_flag_c fl;
  once_ctor_raw_storage(&fl);
  event_ctor(&fl.event_);
  VX_REACH("constructed");
  if (g_env_pending) VX_REACH("invariant_holds_for_any_ghost_pending_bit");
}
