from vx.lift import Lift, Sub, Call, Members, Guard, DropStmt, TryCatch, Rule, LiftError
from vx.run import Unit

LATCH = "libs/pika/synchronization/include/pika/synchronization/latch.hpp"

# ------------------------------------------------------------------------------------------------- latch
# C++ spelling -> C spelling; all operands are captured, nothing of the protocol is in a pattern
L_LOCK = Guard(r"std::unique_lock l\(mtx_\.data_\);", "struct ulock l = ulock_make(&self->mtx_);", "ulock_dtor(&l);", 1)
L_NOTIFIED_W = Sub(r"(?<![\w.>])notified_\s*=(?!=)\s*([^;]+);", r"latch_set_notified(self, \1);", None)
L_NOTIFIED_R = Sub(r"(?<![\w.>])notified_\b", "latch_notified(self)", None)
L_LOAD = Call(r"(?<![\w.>])counter_\.load", "atomic_load(&self->counter_)", None)
# lock / cv spellings: any count -- an untranslated C++ spelling does not compile as C (=> undecided, never a pass)
L_LOCKOPS = [
    Sub(r"\bl = std::unique_lock\(mtx_\.data_\);", "ulock_assign(&l, ulock_make(&self->mtx_));", None),
    Sub(r"\bl\.unlock\(\);", "ulock_unlock(&l);", None),
    Sub(r"\bl\.lock\(\);", "ulock_lock(&l);", None),
]
L_DRAIN = [
    Sub(r"std::move\(l\)", "ulock_move(&l)", "+"),
    Call(r"cond_\.data_\.notify_one", "cv_notify_one(&self->cond_, {0})", "+"),
] + L_LOCKOPS
L_RMW = Sub(r"\(\s*counter_\s*([-+])=\s*([^;()]+)\)",
            lambda m: "atomic_%s_fetch(&self->counter_, %s)" % ({"-": "sub", "+": "add"}[m.group(1)], m.group(2)), None)
L_FETCH = Call(r"(?<![\w.>])counter_\.fetch_(sub|add)", "atomic_fetch_{h1}(&self->counter_, {0})", None)
L_WAIT = Call(r"cond_\.data_\.wait", "cv_wait(&self->cond_, &{0})", None)

# drain loop `while (notify_one(std::move(l))) l = unique_lock(mtx_)`: at the loop head we own the lock, the latch is open,
# and either nothing has been notified yet or notify_one said "still non-empty" (g_draining)
LOOP_DRAIN = """
__CPROVER_assigns(l, LATCH_DRAIN_FRAME)
__CPROVER_loop_invariant(l.owns && l.m == &self->mtx_ && self->mtx_.held && self->notified_ && self->counter_ == 0)
__CPROVER_loop_invariant(RANGE && INV_WAKE)
__CPROVER_loop_invariant(g_notifies >= 0 && g_notifies <= 2 && (g_notifies == 0 ? !g_draining : g_draining))
"""

UNITS = [
    Unit("latch.count_down", "latch.c", defines=["U_COUNT_DOWN"], enforce="count_down",
         lifts={"body": Lift(LATCH, r"void count_down\(std::ptrdiff_t update\)", rules=[
             L_RMW, L_FETCH, L_LOCK] + L_DRAIN + [L_NOTIFIED_W, L_NOTIFIED_R],
             loops={1: LOOP_DRAIN, "count": 1})},
         funcs=[LATCH + ": pika::latch::count_down"], min_obligations=40),
    Unit("latch.try_wait", "latch.c", defines=["U_TRY_WAIT"], enforce="try_wait",
         lifts={"body": Lift(LATCH, r"bool try_wait\(\) const", rules=[L_LOAD])},
         funcs=[LATCH + ": pika::latch::try_wait"], min_obligations=5),
    Unit("latch.wait", "latch.c", defines=["U_WAIT"], enforce="wait",
         lifts={"body": Lift(LATCH, r"void wait\(\) const", rules=[L_LOCK, L_LOAD, L_WAIT] + L_LOCKOPS + [L_NOTIFIED_W, L_NOTIFIED_R])},
         funcs=[LATCH + ": pika::latch::wait"], min_obligations=40),
    Unit("latch.arrive_and_wait", "latch.c", defines=["U_ARRIVE_AND_WAIT"], enforce="arrive_and_wait",
         lifts={"body": Lift(LATCH, r"void arrive_and_wait\(std::ptrdiff_t update = 1\)", rules=[
             L_LOCK, L_LOAD, L_WAIT,
             L_RMW, L_FETCH] + L_DRAIN + [L_NOTIFIED_W, L_NOTIFIED_R],
             loops={1: LOOP_DRAIN, "count": 1})},
         funcs=[LATCH + ": pika::latch::arrive_and_wait"], min_obligations=40),
]

# ------------------------------------------------------------------------------------------------- event
EVENT = "libs/pika/synchronization/include/pika/synchronization/event.hpp"
E_LOAD = Call(r"(?<![\w.>])event_\.load", "event_load(&self->event_)", None)
E_STORE = Call(r"(?<![\w.>])event_\.store", "event_store(&self->event_, {0})", None)
E_LOCK = Guard(r"std::unique_lock<mutex_type> l\(mtx_\);", "struct ulock l = ulock_make(&self->mtx_);", "ulock_dtor(&l);", 1)
E_LOCKOPS = [Sub(r"\bl\.unlock\(\);", "ulock_unlock(&l);", None), Sub(r"\bl\.lock\(\);", "ulock_lock(&l);", None)]
E_HELPERS = [Call(r"(?<![\w.>])wait_locked", "ev_wait_locked(self, &{0})", None), Sub(r"std::move\(l\)", "ulock_move(&l)", None),
             Call(r"(?<![\w.>])set_locked", "ev_set_locked(self, {0})", None)]

LOOP_EVWAIT = """
__CPROVER_assigns(EV_FRAME, l->owns)
__CPROVER_loop_invariant(OWNS_P(l) && RANGE && INV_EV && !g_owed && g_stores == 0 && g_notify_alls == 0 && g_waits >= 0 && g_waits <= 2)
__CPROVER_loop_invariant((g_no_reset && g_ev0) ==> (self->event_ && g_waits == 0))
"""
EV_WAIT_LOCKED = Lift(EVENT, r"void wait_locked\(std::unique_lock<mutex_type>& l\)", rules=[
    Sub(r"\bl\.owns_lock\(\)", "vx_owns_p(l)", None), E_LOAD,
    Call(r"(?<![\w.>])cond_\.wait", "cv_wait(&self->cond_, {0})", None),
    Sub(r"\bl\.unlock\(\);", "ulock_unlock(l);", None), Sub(r"\bl\.lock\(\);", "ulock_lock(l);", None)],
    loops={1: LOOP_EVWAIT, "count": 1})
EV_SET_LOCKED = Lift(EVENT, r"void set_locked\(std::unique_lock<mutex_type> l\)", rules=[
    Sub(r"\bl\.owns_lock\(\)", "vx_owns_v(l)", None),
    Sub(r"std::move\(l\)", "ulock_move(&l)", None),
    Call(r"(?<![\w.>])cond_\.notify_all", "cv_notify_all(&self->cond_, {0})", None),
    Guard(r"^\{", "{", "ulock_dtor(&l);", 1)] + E_LOCKOPS)

UNITS += [
    Unit("event.wait_locked", "event.c", defines=["U_WAIT_LOCKED"], enforce="ev_wait_locked", lifts={"body": EV_WAIT_LOCKED},
         funcs=[EVENT + ": pika::experimental::event::wait_locked"], min_obligations=40),
    Unit("event.set_locked", "event.c", defines=["U_SET_LOCKED"], enforce="ev_set_locked", lifts={"body": EV_SET_LOCKED},
         funcs=[EVENT + ": pika::experimental::event::set_locked"], min_obligations=20),
]
for (nm, loc, rules, repl) in [
        ("occurred", r"bool occurred\(\)", [E_LOAD], []),
        ("wait", r"void wait\(\)", [E_LOAD, E_STORE, E_LOCK] + E_HELPERS + E_LOCKOPS, ["ev_wait_locked"]),
        ("set", r"void set\(\)", [E_LOAD, E_STORE, E_LOCK] + E_HELPERS + E_LOCKOPS, ["ev_set_locked"]),
        ("reset", r"void reset\(\)", [E_LOAD, E_STORE], [])]:
    UNITS.append(Unit("event." + nm, "event.c", defines=["U_" + nm.upper()], enforce=nm, replace=repl,
                      lifts={"body": Lift(EVENT, loc, rules=rules)},
                      funcs=[EVENT + ": pika::experimental::event::" + nm], min_obligations=5))

# ------------------------------------------------------------------------------------------------- call_once
ONCE = "libs/pika/synchronization/include/pika/synchronization/once.hpp"
DIGITSEP = Sub(r"(?<=[0-9a-fA-F])'(?=[0-9a-fA-F])", "", None)
O_RULES = [
    DIGITSEP,
    Call(r"\bflag\.status_\.load", "status_load(&flag->status_)", None),
    Call(r"\bflag\.status_\.compare_exchange_strong", "status_cas(&flag->status_, {0}, {1})", None),
    Call(r"\bflag\.status_\.store", "status_store(&flag->status_, {0})", None),
    Call(r"\bflag\.event_\.(reset|set|wait)", "event_{h1}(&flag->event_)", None),
    Call(r"\bPIKA_INVOKE", "if (once_invoke_f()) VX_THROW_POINT", None),
    Sub(r"\bthrow;", "VX_RETHROW();", None),
]
LOOP_ONCE = """
__CPROVER_assigns(ONCE_FRAME)
__CPROVER_loop_invariant(ST_OK(flag->status_) && !g_self_running && !g_thrown && !g_uncaught)
__CPROVER_loop_invariant((!g_won && !g_invoked && !g_invoked_ok && g_stores == 0 && g_sets == 0) || (g_won && g_invoked && g_invoked_ok && g_stores == 1 && g_sets >= 1 && g_last_stored == ONCE_COMPLETE && flag->status_ == ONCE_COMPLETE))
"""
ONCE_CONSTS = Lift(ONCE, r"long const function_complete_flag_value =", fragment_end=r"long const running_value =[^;]*;",
                   rules=[DIGITSEP])
UNITS += [
    Unit("once.call_once", "once.c", enforce="call_once",
         lifts={"consts": ONCE_CONSTS,
                "body": Lift(ONCE, r"void call_once\(once_flag& flag, F&& f, Args&&\.\.\. args\)", which=1, expect=2,
                             rules=O_RULES, post=[TryCatch(None)], loops={1: LOOP_ONCE, "count": 1})},
         funcs=[ONCE + ": pika::call_once"], min_obligations=40),
    Unit("once.lemma_L6", "once_lemma.c", kind="lemma", lifts={"consts": ONCE_CONSTS}, loop_contracts=False,
         doc="over the guarantee predicates asserted in once.call_once: at most one invocation in flight, at most one successful "
             "invocation overall, exactly one once complete is published, complete final (one inductive step; history induction on paper)",
         min_obligations=5),
]

# ------------------------------------------------------------------------------------------------- barrier (tree algorithm)
BCPP = "libs/pika/synchronization/src/barrier.cpp"
BHPP = "libs/pika/synchronization/include/pika/synchronization/barrier.hpp"
try:
    from vx.lift import Auto
except ImportError:      # older framework: local equivalent (auto x = init -> __typeof__(init) x = init)
    class Auto(Rule):
        def __init__(self, n="+"):
            self.n = n

        def apply(self, text):
            import re
            out, k = re.subn(r"\bauto(\s+const)?\s+(\w+)\s*=\s*([^;]+);", r"__typeof__(\3)\1 \2 = \3;", text)
            self.check(k, "Auto")
            return out

BB_RULES = [
    Sub(r"\bdetail::barrier_phase_t\b", "barrier_phase_t", None),
    Sub(r"pika::threads::detail::get_self_id\(\)", "get_self_id()", None),
    Sub(r"pika::threads::detail::invalid_thread_id", "invalid_thread_id", None),
    Sub(r"std::hash<pika::threads::detail::thread_id_type>\(\)\s*\(", "hash_thread_id(", None),
    Sub(r"std::hash<std::thread::id>\(\)\s*\(\s*std::this_thread::get_id\(\)\s*\)", "hash_std_thread_id()", None),
    Call(r"state\[([^\]]+)\]\.tickets\[([^\]]+)\]\.phase\.compare_exchange_strong", "ticket_cas(self, {h1}, {h2}, &{0}, {1})", "+"),
]
# outer loop (rounds): the number of participants of the round at least halves => round < 64; the node index stays inside
# the round's nodes, which are a prefix of the allocated ones.  inner loop (scan for a free ticket): current <= end_node.
LOOP_ROUNDS = """
__CPROVER_assigns(round, current_expected, current, BASE_FRAME)
__CPROVER_loop_invariant(0 <= round && round <= 63 && current_expected >= 1 && current_expected <= (size_t) expected)
__CPROVER_loop_invariant(current_expected == ROUND_PARTICIPANTS(round))
__CPROVER_loop_invariant(current < ((current_expected + 1) >> 1))
__CPROVER_loop_invariant(g_half_steps == 0 && !g_last_step_half)
"""
LOOP_SCAN = """
__CPROVER_assigns(current, BASE_FRAME)
__CPROVER_loop_invariant(current <= end_node && end_node == ((current_expected + 1) >> 1) && last_node == end_node - 1)
__CPROVER_loop_invariant(0 <= round && round <= 62 && current_expected >= 2 && current_expected <= (size_t) expected)
__CPROVER_loop_invariant(current_expected == ROUND_PARTICIPANTS(round))
__CPROVER_loop_invariant(g_half_steps == 0 && !g_last_step_half)
"""
def bb_arrive(loops):
    return Lift(BCPP, r"bool barrier_algorithm_base::arrive\(", rules=BB_RULES, post=[Auto(None)], loops=loops)
BB_CTOR = Lift(BCPP, r"barrier_algorithm_base::barrier_algorithm_base\(std::ptrdiff_t expected\)", rules=[
    Sub(r"\bstate = std::unique_ptr<state_t\[\]>\(new state_t\[([^\]]+)\]\);", r"state_alloc(self, \1);", 1)])

# development aid: C09_KF=1 excludes the input class of the known finding (expected == PTRDIFF_MAX), exactly as a
# known_findings.txt entry with exclude=KF_EXPECTED_BELOW_MAX would
import os
KF = ["KF_EXPECTED_BELOW_MAX"] if os.environ.get("C09_KF") else []
UNITS += [
    Unit("barrier.base_ctor", "barrier_base.c", defines=["U_CTOR"] + KF, enforce="barrier_base_ctor",
         lifts={"ctor": BB_CTOR, "arrive": bb_arrive({"count": 2})}, loop_contracts=False,
         funcs=[BCPP + ": detail::barrier_algorithm_base::barrier_algorithm_base"], min_obligations=3),
    Unit("barrier.base_arrive", "barrier_base.c", defines=["U_ARRIVE"] + KF, enforce="base_arrive",
         lifts={"ctor": BB_CTOR, "arrive": bb_arrive({1: LOOP_ROUNDS, 2: LOOP_SCAN, "count": 2})},
         extra_flags=["--unsigned-overflow-check"], solver=["--sat-solver", "cadical"],   # MiniSat needs ~65 s, CaDiCaL ~12 s
         # no replay: the bounded re-run without loop contracts does not terminate for 2^63 participants (costs 2 min, finds nothing);
         # the same defect (expected == PTRDIFF_MAX) is reproduced natively by barrier.base_ctor
         no_replay=True,
         funcs=[BCPP + ": detail::barrier_algorithm_base::arrive"], min_obligations=40),
] + [
    Unit("barrier.base_arrive.order.e%d" % e, "barrier_base.c", defines=["U_BOUNDED", "VX_MAX_EXPECTED=6", "VX_EXPECTED=%d" % e],
         kind="bounded", unwind=5, solver=["--sat-solver", "cadical"], object_bits=10,
         # expected <= 6: at most 3 rounds (+ the exit test) and at most 3 nodes per round to scan (+ wrap)
         extra_flags=["--unwindset", "base_arrive.0:4,base_arrive.1:4"],
         lifts={"ctor": BB_CTOR, "arrive": bb_arrive({"count": 2})}, loop_contracts=False, no_replay=True,
         doc="serialized arrivals, expected == %d, every start index, one phase from an arbitrary phase-boundary state (any phase "
             "byte incl. 254->0; touched tickets == token, all others arbitrary): exactly the expected-th arrival returns true "
             "and the boundary state is re-established for expected and expected-1 (inductive step over phases and drops)" % e,
         funcs=[BCPP + ": detail::barrier_algorithm_base::arrive (bounded stand-in)"], min_obligations=10,
         tier="quick" if e <= 4 else "thorough")   # e5/e6 take 35-45 s each
    for e in (1, 2, 3, 4, 5, 6)
] + [
    Unit("barrier.base_arrive.order.step", "barrier_base.c", defines=["U_BOUNDED", "U_STEP", "VX_MAX_EXPECTED=8"],
         kind="bounded", unwind=6, solver=["--sat-solver", "cadical"], object_bits=10,
         extra_flags=["--unwindset", "base_arrive.0:5,base_arrive.1:6"],
         lifts={"ctor": BB_CTOR, "arrive": bb_arrive({"count": 2})}, loop_contracts=False, no_replay=True,
         doc="expected <= 8: one serialized arrival from any state satisfying a hand-written fill-count invariant of the tree "
             "(any earlier arrivals, any start indices, any phase byte): invariant re-established, returns true iff it is the "
             "expected-th arrival, all tickets full afterwards; base case asserted (inductive step; induction on paper)",
         funcs=[BCPP + ": detail::barrier_algorithm_base::arrive (bounded stand-in)"], min_obligations=10),
]

# ------------------------------------------------------------------------------------------------- barrier<> (class template)
B_ATOMS = [
    Sub(r"\b(?:pika::)?detail::barrier_phase_t\b", "barrier_phase_t", None),
    Call(r"(?<![\w.>])phase\.load", "phase_load(&self->phase)", None),
    Call(r"(?<![\w.>])phase\.store", "phase_store(&self->phase, {0})", None),
    Call(r"(?<![\w.>])expected_adjustment\.load", "adj_load(&self->expected_adjustment)", None),
    Call(r"(?<![\w.>])expected_adjustment\.store", "adj_store(&self->expected_adjustment, {0})", None),
    Call(r"(?<![\w.>])expected_adjustment\.fetch_sub", "adj_fetch_sub(&self->expected_adjustment, {0})", None),
    Call(r"(?<![\w.>])base\.arrive", "base_arrive(&self->base, {0}, {1})", None),
    Call(r"(?<![\w.>])completion", "completion_call(self)", None),
    Sub(r"(?<![\w.>])expected\s*\+=\s*([^;]+);", r"expected_add(self, \1);", None),
    Members(["expected"], optional=["expected"]),
]
LOOP_BARRIVE = """
__CPROVER_assigns(update, BARRIER_FRAME)
__CPROVER_loop_invariant(0 <= update && update <= g_update0 && g_arrivals == g_update0 - update && g_outstanding == g_out0 - g_arrivals)
__CPROVER_loop_invariant(g_token_valid && old_phase == g_token && !g_completing && g_adj_read <= 0 && g_adj_read >= -VX_BIG)
__CPROVER_loop_invariant((g_outstanding == 0 && g_arrivals > 0) ? (g_published && g_completions == 1 && self->phase == FULL(g_token) && self->expected_adjustment == 0 && self->expected == g_expected0 + g_adj_read) : (!g_published && g_completions == 0 && g_adj_stores == 0 && !g_adj_applied && self->expected == g_expected0 && self->expected_adjustment <= 0 && self->expected_adjustment >= -VX_BIG))
"""
UNITS += [
    Unit("barrier.arrive", "barrier.c", defines=["U_ARRIVE"], enforce="barrier_arrive",
         lifts={"body": Lift(BHPP, r"arrival_token arrive\(std::ptrdiff_t update = 1\)", rules=B_ATOMS, post=[Auto(None)],
                             loops={1: LOOP_BARRIVE, "count": 1})},
         funcs=[BHPP + ": pika::barrier<>::arrive"], min_obligations=40),
    Unit("barrier.wait", "barrier.c", defines=["U_WAIT"], enforce="barrier_wait",
         lifts={"poll": Lift(BHPP, r"auto const poll = \[&\]\(\)", rules=B_ATOMS),
                "body": Lift(BHPP, r"void wait\(arrival_token&& old_phase,", rules=[
                    Sub(r"auto const (\w+) = \[&\]\(\) \{.*?\};", "", 1),   # the lambda is lifted as its own function (key poll)
                    Sub(r"std::chrono::duration<double>\(([^()]*)\)", r"(\1)", None),
                    Call(r"pika::util::detail::yield_while_timeout", "yield_while_timeout_{0}(self, old_phase, {1})", None),
                    Call(r"pika::util::yield_while", "yield_while_{0}(self, old_phase)", None)] + B_ATOMS)},
         funcs=[BHPP + ": pika::barrier<>::wait (and its poll lambda)"], min_obligations=10),
    Unit("barrier.arrive_and_drop", "barrier.c", defines=["U_ARRIVE_AND_DROP"], enforce="arrive_and_drop",
         lifts={"body": Lift(BHPP, r"void arrive_and_drop\(\)", rules=B_ATOMS + [
             Call(r"(?<![\w.>])arrive", "barrier_arrive(self, {0})", None)], post=[Auto(None)])},
         funcs=[BHPP + ": pika::barrier<>::arrive_and_drop"], min_obligations=5),
]

META = {
    "trusted_base": [
        "specs/C09/latch.h latch_at_acquire/interfere_counter (VX_ASSUME): rely of pika::latch -- while the lock is free (and, for the "
        "atomic counter_, at any time) other threads may lower counter_ (never below 0 nor below the share reserved for this call's own "
        "pending decrement), may set but never clear notified_, and leave the monitor invariant CNT/OPEN/WAKE/DRAIN intact; every clause "
        "is asserted as a guarantee at every release point / atomic step of the four latch units",
        "specs/C09/latch.h cv_wait (VX_ASSUME g_inflight >= 1), cv_notify_one: contract of detail::condition_variable as seen by a client "
        "holding the lock: wait enqueues under the lock, releases it only inside the suspension and returns only after a notifier dequeued "
        "the caller (no spurious wake-up: latch::wait uses `if`, not `while`); notify_one(std::move(l)) dequeues the front waiter if any, "
        "releases the lock and returns 'still non-empty' (subject of C07)",
        "specs/C09/event.h interfere_event/ev_at_acquire (VX_ASSUME): rely of event -- event_ becomes true only as the first step of a "
        "set() (whose notify_all is then owed), reset() may clear it at any time unless the harness chose the no-reset variant; "
        "cv_wait (spurious wake-ups allowed, nothing assumed), cv_notify_all (dequeues every waiter, releases the lock)",
        "specs/C09/once.h interfere_status (VX_ASSUME RELY_ST): other threads move status_ only along 0->running->{complete,0}, complete "
        "final, and not at all while this call is the runner; status words lifted from once.hpp (not copied); event_.{reset,set,wait} "
        "are call-trace stubs (the event's own contract is proved in event.*); PIKA_INVOKE = opaque callable that returns or throws; "
        "try/catch lowered by vx.lift.TryCatch with `throw;` = propagate",
        "specs/C09/barrier_base.h ticket_cas: the heap array of tickets is not materialised in the unbounded unit; every ticket read "
        "returns an arbitrary byte (weakest rely); hash_thread_id (VX_ASSUME A-HASH), hash_std_thread_id = any value; state_alloc records "
        "the element count of `new state_t[count]`",
        "specs/C09/barrier.h base_arrive: barrier_algorithm_base::arrive used by contract 'exactly the last outstanding arrival of a phase "
        "returns true' (supported only by the bounded units barrier.base_arrive.order.*); interfere_adj (VX_ASSUME): other threads only "
        "decrement expected_adjustment, and do not touch it (nor phase) while this call completes the phase; yield_while_poll / "
        "yield_while_timeout_poll (VX_ASSUME): pika::util::yield_while returns only after its predicate evaluated false, "
        "yield_while_timeout returns true only then (execution_base/this_thread.hpp:69-176, not lifted)",
        "vx/prelude/monitor.h: std::unique_lock / spinlock modelled as a ghost 'held' bit (A-LOCK: mutual exclusion trusted)",
        "ghost counters bounded by 10^9 (waiters, in-flight wake-ups, |expected_adjustment|, barrier expected in barrier.arrive) so that "
        "ghost arithmetic cannot overflow",
        "CaDiCaL (cbmc --sat-solver cadical) is the back end of barrier.base_arrive and of the bounded barrier units",
    ],
    "assumptions": [
        "latch usage protocol (std::latch precondition, PIKA_ASSERTs in count_down/arrive_and_wait): the sum of all updates never exceeds "
        "the initial count -- modelled as a per-call reserved share of counter_ that other threads do not consume",
        "A-HASH (observation, not a violation): barrier_algorithm_base::arrive reduces only the std::thread::id hash modulo (expected+1)/2; "
        "the other branch of the ternary is taken exactly when the pika thread id is INVALID and is in range only because libstdc++'s "
        "std::hash<size_t>(0) == 0 (barrier.cpp:44-47).  Parenthesising the conditional, `(c ? a : b) % n`, proves without A-HASH; merely "
        "inverting the condition would index out of bounds",
        "A-COMPLETION-EXCLUSIVE: while the thread for which base.arrive returned true runs the completion step, no other thread calls "
        "arrive/arrive_and_drop on the barrier (every expected arrival of the phase has happened; [thread.barrier.class])",
        "barrier<>::arrive: base.arrive returns true exactly for the last outstanding arrival of the phase (bounded evidence only), "
        "update <= outstanding arrivals (std::barrier precondition)",
        "bounded units barrier.base_arrive.order.*: serialized arrivals only; the induction over arrivals / phases that extends the "
        "one-step and one-phase harnesses to whole executions is a paper argument",
        "known finding candidate: `(expected + 1) >> 1` overflows (signed, UB) for expected == PTRDIFF_MAX == barrier::max() in the "
        "constructor (barrier.cpp:31) and in arrive (barrier.cpp:47); define KF_EXPECTED_BELOW_MAX excludes exactly that input class",
        "once: the callable does not call call_once on the same flag recursively",
    ],
    "not_decided": [
        "concurrent arrivals in the tournament tree (protocol-level inductive invariant over the ticket words) -- only the per-access "
        "obligations (bounds, step shapes, geometry, mod-256 arithmetic) are proved for all interleavings",
        "liveness: that a blocked latch/event waiter or a barrier::wait poller is eventually resumed (C02); termination of the latch drain "
        "loop and of the tree scan",
        "barrier<>::arrive_and_wait (one-line composition wait(arrive())), barrier constructor of the class template, "
        "completion functions that throw or call back into the barrier",
        "event_.reset() placement in call_once (a misplaced reset can only strand waiters = liveness)",
        "memory-order adequacy (relaxed counter_ decrement vs. notified_, acq_rel ticket CAS)",
        "pika::util::yield_while / yield_while_timeout themselves; detail::condition_variable (C07)",
    ],
}


# ---- call_once event discipline (re-arm only while the caller owes the set; retry lemma), event / once_flag constructors:
# ---- second sub-agent (after seeded change C09-4 was missed) --------------------------------------------------------------------
exec(open("/verif/specs/C09/once_spec.py").read())
UNITS += ONCE_UNITS
for _k in ("trusted_base", "assumptions", "not_decided"):
    META[_k] = list(META.get(_k, [])) + list(ONCE_META.get(_k, []))
META["not_decided"] = [x for x in META["not_decided"] if not x.startswith("event_.reset() placement in call_once")]
STATIC = list(globals().get("STATIC", [])) + list(ONCE_STATIC)


# ---- C07 units reused (added after seeded changes C08-8 / C09-8 were missed): a waiter that is a plain OS thread (sync_wait's main
# ---- thread, any std::thread) blocks and is woken through default_agent (execution_base/src/this_thread.cpp); resume() must wait
# ---- until the target has really suspended, else a wake-up that arrives between "enqueued, lock dropped" and "asleep" is lost
_c07 = {"UNITS": [], "VX_NO_REUSE": True}
if not globals().get("VX_NO_REUSE"):     # reuse is never transitive: the other spec is loaded without ITS reuse blocks (no cycles)
    exec(compile(open("/verif/specs/C07/spec.py").read(), "/verif/specs/C07/spec.py", "exec"), _c07)
for _u in _c07["UNITS"]:
    if _u.name in ("agent.da.ctor", "agent.da.suspend", "agent.da.resume", "agent.da.abort", "agent.da.lemma.rely_guarantee", "agent.da.lemma.suspend_resume"):
        _u.name = "c07." + _u.name
        _u.template = "../C07/" + _u.template.replace("../C07/", "")
        UNITS.append(_u)
META["trusted_base"] = list(META.get("trusted_base", [])) + ["units c07.agent.da.* are the C07 units of the same name (specs/C07/agent_da.c) with their trusted base"]


# ---- C02 units reused (added after seeded changes C13-9 / C06-9 / C08-9 were missed): every wake-up of a pika task blocked in this
# ---- facility ends in set_thread_state(pending); when the waiter still reads `active` (it has enqueued itself and dropped the internal
# ---- lock but its worker has not stored `suspended` yet) the wake-up is carried by the helper set_active_state, which may drop it only
# ---- when the target was re-activated since.  Same templates, same contracts as C02.
_c02s = {"UNITS": [], "VX_NO_REUSE": True}
if not globals().get("VX_NO_REUSE"):
    exec(compile(open("/verif/specs/C02/spec.py").read(), "/verif/specs/C02/spec.py", "exec"), _c02s)
for _u in _c02s["UNITS"]:
    if _u.name in ("sts.set_thread_state", "sts.set_active_state", "agent.do_resume", "agent.do_yield"):
        _u.name = "c02." + _u.name
        _u.template = "../C02/" + _u.template
        UNITS.append(_u)
META["trusted_base"] = list(META.get("trusted_base", [])) + ["units c02.sts.* / c02.agent.* are the C02 units of the same name (specs/C02/sts.c, c02.h) with their trusted base"]


# ---- C07 units reused (added after seeded change C09-9 was missed): the release loops of latch / semaphores run `while (cond_.notify_one(..))`:
# ---- detail::condition_variable::notify_one returns "more waiters left" -- exactly when the queue is non-empty after its dequeue
_c07c = {"UNITS": [], "VX_NO_REUSE": True}
if not globals().get("VX_NO_REUSE"):
    exec(compile(open("/verif/specs/C07/spec.py").read(), "/verif/specs/C07/spec.py", "exec"), _c07c)
for _u in _c07c["UNITS"]:
    if _u.name in ("cv.wait", "cv.wait_until", "cv.notify_one", "cv.notify_all", "cv.abort_all"):
        _u.name = "c07." + _u.name
        _u.template = "../C07/" + _u.template
        UNITS.append(_u)
META["trusted_base"] = list(META.get("trusted_base", [])) + ["units c07.cv.* are the C07 units of the same name (specs/C07/cv.c, cv.h) with their trusted base"]
