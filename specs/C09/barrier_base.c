/* units: detail::barrier_algorithm_base::{barrier_algorithm_base, arrive}; bounded stand-in for the arrival order */
#include "barrier_base.h"

#ifdef KF_EXPECTED_BELOW_MAX
#define EXPECTED_MAX (PTRDIFF_MAX - 1)   /* known-finding input class excluded: expected == PTRDIFF_MAX */
#else
#define EXPECTED_MAX PTRDIFF_MAX
#endif

#ifdef U_CTOR
//@FUNC
void barrier_base_ctor(struct barrier_base *self, ptrdiff_t expected)
__CPROVER_requires(expected >= 0 && expected <= EXPECTED_MAX)
/* one node per pair of participants, plus one for an odd participant */
__CPROVER_ensures(g_count == (size_t) expected / 2 + (size_t) expected % 2)
__CPROVER_assigns(g_count)
//@LIFT ctor
#endif

#ifdef U_ARRIVE
//@FUNC
bool base_arrive(struct barrier_base *self, ptrdiff_t expected, barrier_phase_t old_phase)
__CPROVER_requires(expected >= 1 && expected <= EXPECTED_MAX && g_token == old_phase && g_expected == expected)
/* the array was allocated by the constructor for an expected count that can only have shrunk since (arrive_and_drop) */
__CPROVER_requires(g_count >= (size_t) expected / 2 + (size_t) expected % 2)
__CPROVER_requires(g_half_steps == 0 && g_full_steps == 0 && !g_last_step_half)
/* "I'm 1 in 2, done with arrival": false exactly when the call's last (and only such) step was old->half */
__CPROVER_ensures(g_half_steps <= 1 && (__CPROVER_return_value ? g_half_steps == 0 : (g_half_steps == 1 && g_last_step_half)))
__CPROVER_assigns(BASE_FRAME)
//@LIFT arrive
#endif

#ifdef U_BOUNDED
bool base_arrive(struct barrier_base *self, ptrdiff_t expected, barrier_phase_t old_phase)
//@LIFT arrive
void barrier_base_ctor(struct barrier_base *self, ptrdiff_t expected)
//@LIFT ctor
#endif

#ifdef U_BOUNDED
/* Serialized-arrival invariant of one phase (hand-written, used only by the bounded step harness U_STEP):
 * every reachable ticket of round rd holds old / half / full of the phase (never half on an odd last node); with
 * fill(old) = 0, fill(half) = 1, fill(full) = 2 (1 on an odd last node):  sum of fills of round 0 == arrivals so far,
 * sum of fills of round rd+1 == number of full nodes of round rd (the winners that moved on). */
static bool phase_inv(ptrdiff_t expected, barrier_phase_t tok, long *arrived)
{
  size_t ce = (size_t) expected;
  long need = 0;
  bool ok = true;
  *arrived = 0;
  for (int rd = 0; ce > 1; rd++)
  {
    size_t en = (ce + 1) >> 1;
    long F = 0, W = 0;
    for (size_t n = 0; n < en; n++)
    {
      barrier_phase_t v = g_state[n].tickets[rd];
      bool odd_last = (n == en - 1) && (ce & 1);
      if (v == tok) { }
      else if (v == HALF(tok)) { if (odd_last) ok = false; F += 1; }
      else if (v == FULL(tok)) { F += odd_last ? 1 : 2; W += 1; }
      else ok = false;
    }
    if (rd == 0) *arrived = F; else if (F != need) ok = false;
    need = W;
    ce = en;
  }
  return ok;
}
#endif

void harness(void)
{
  struct barrier_base b;
  g_self_id = nondet_size();
  g_half_steps = 0; g_full_steps = 0; g_last_step_half = false;
#ifdef U_CTOR
  ptrdiff_t expected = nondet_ptrdiff();
  barrier_base_ctor(&b, expected);
  VX_REACH("constructed");
  if (expected == 0) VX_REACH("empty_barrier");
  if (expected == 1) VX_REACH("single_participant");
#endif
#ifdef U_ARRIVE
  ptrdiff_t expected = nondet_ptrdiff();
  g_count = nondet_size();
  g_token = nondet_u8();
  g_expected = expected;
  bool r = base_arrive(&b, expected, g_token);
  if (r) VX_REACH("last_of_phase"); else VX_REACH("first_of_two");
  if (r && expected > 2) VX_REACH("won_several_rounds");
  if (r && expected == 1) VX_REACH("single_participant");
  if (g_self_id == 0) VX_REACH("not_a_pika_thread");
  if (g_token >= 254) VX_REACH("phase_wraps");
#endif
#ifdef U_STEP
  /* ONE arrival from ANY state satisfying the serialized-arrival invariant phase_inv (any phase byte, any number of earlier
   * arrivals with any start indices, arbitrary stale bytes in unreachable tickets): the invariant is re-established with one
   * more arrival counted, and the arrival returns true iff it is the expected-th.  Base case: all reachable tickets == token
   * satisfies phase_inv with 0 arrivals (asserted).  After the expected-th arrival every reachable ticket is full. */
  struct state_t nondet_vxraw_state(void);
  ptrdiff_t expected = nondet_ptrdiff();
  if (expected < 1 || expected > VX_MAX_EXPECTED) return;
  barrier_base_ctor(&b, expected);
  barrier_phase_t phase = nondet_u8();
  g_token = phase; g_expected = expected;
  long before, after;
  bool base = nondet_bool();
  for (int n = 0; n < VX_MAXNODES; n++) g_state[n] = nondet_vxraw_state();
  if (base)
  {
    size_t ce = (size_t) expected;
    for (int rd = 0; ce > 1; rd++) { size_t en = (ce + 1) >> 1; for (size_t n = 0; n < en; n++) g_state[n].tickets[rd] = phase; ce = en; }
    VX_ASSERT(phase_inv(expected, phase, &before) && before == 0, "base case: a fresh phase satisfies the invariant with 0 arrivals");
    VX_REACH("base_case");
  }
  if (!phase_inv(expected, phase, &before)) return;   /* induction hypothesis */
  if (before >= expected && expected > 1) return;     /* the phase still expects arrivals (caller's duty) */
  g_self_id = nondet_size();
  bool r = base_arrive(&b, expected, phase);
  bool ok = phase_inv(expected, phase, &after);
  VX_ASSERT(ok, "the serialized-arrival invariant is re-established by an arrival");
  VX_ASSERT(expected == 1 || after == before + 1, "an arrival is counted exactly once in round 0");
  VX_ASSERT(r == (expected == 1 || after == expected), "exactly the expected-th arrival of a phase returns true, no earlier one");
  if (r)
  {
    size_t ce = (size_t) expected;
    for (int rd = 0; ce > 1; rd++) { size_t en = (ce + 1) >> 1;
      for (size_t n = 0; n < en; n++) VX_ASSERT(g_state[n].tickets[rd] == FULL(phase), "after the last arrival every ticket of the phase is full == next phase's token (reusable)");
      ce = en; }
    VX_REACH("last_arrival");
    if (FULL(phase) == 0) VX_REACH("wrapped_254_to_0");
  }
  else VX_REACH("earlier_arrival");
  if (!r && g_full_steps >= 2) VX_REACH("won_two_rounds_then_first_of_two");
#elif defined(U_BOUNDED)
  /* serialized arrivals, expected <= VX_MAX_EXPECTED, ONE phase from an ARBITRARY phase-boundary state: arbitrary phase byte
   * (covers the 254 -> 0 wrap), every ticket the phase can touch holds the phase token, all other tickets hold arbitrary
   * stale bytes.  After the phase the boundary condition is asserted again for the next token, for the same expected count
   * and for expected - 1 (an arrive_and_drop that took effect): the step of an induction over phases, which covers any
   * number of consecutive phases, the wrap and drops (the induction itself is on paper). */
  struct state_t nondet_vxraw_state(void);
  ptrdiff_t expected = nondet_ptrdiff();
  if (expected < 1 || expected > VX_MAX_EXPECTED) return;
#ifdef VX_EXPECTED
  if (expected != VX_EXPECTED) return;   /* case split over the participant count: one instance per value */
#endif
  barrier_base_ctor(&b, expected);
  barrier_phase_t phase = nondet_u8();
  for (int n = 0; n < VX_MAXNODES; n++) g_state[n] = nondet_vxraw_state();
  { size_t ce = (size_t) expected;
    for (int rd = 0; ce > 1; rd++) { size_t en = (ce + 1) >> 1; for (size_t n = 0; n < en; n++) g_state[n].tickets[rd] = phase; ce = en; } }
  /* harness control flow is unrolled by macros so that --unwind only has to cover the lifted loops */
#define VX_ARRIVAL(i) if ((i) <= expected) { \
      g_self_id = nondet_size(); g_half_steps = 0; g_full_steps = 0; g_last_step_half = false; \
      bool r = base_arrive(&b, expected, phase); \
      VX_ASSERT(r == ((i) == expected), "exactly the expected-th arrival of a phase returns true, no earlier one"); }
#define VX_BOUNDARY(e, tok) { size_t ce = (size_t) (e); \
      for (int rd = 0; ce > 1; rd++) { size_t en = (ce + 1) >> 1; \
        for (size_t n = 0; n < en; n++) VX_ASSERT(g_state[n].tickets[rd] == (tok), "every ticket of the phase ends at full == next phase's token (reusable, also after a drop)"); \
        ce = en; } }
#if VX_MAX_EXPECTED > 6
#error "the harness unrolls six arrivals"
#endif
  g_token = phase; g_expected = expected;
  VX_ARRIVAL(1) VX_ARRIVAL(2) VX_ARRIVAL(3) VX_ARRIVAL(4) VX_ARRIVAL(5) VX_ARRIVAL(6)
  phase = FULL(phase);   /* what barrier<>::arrive publishes */
  VX_BOUNDARY(expected, phase)
  if (expected > 1) VX_BOUNDARY(expected - 1, phase)
  if (phase == 0) VX_REACH("wrapped_254_to_0");
  VX_REACH("phase_completed");
#endif
}
