/* units: detail::barrier_algorithm_base::{barrier_algorithm_base, arrive}; bounded stand-in for the arrival order */
#include "barrier_base.h"

#ifdef KF_EXPECTED_BELOW_MAX
#define EXPECTED_MAX (PTRDIFF_MAX - 1)   /* known-finding input class excluded: expected == PTRDIFF_MAX */
#else
#define EXPECTED_MAX PTRDIFF_MAX
#endif

#ifdef U_CTOR
//@FUNC
void barrier_base_ctor(struct barrier_base *self, ptrdiff_t expected)
__CPROVER_requires(expected >= 0 && expected <= EXPECTED_MAX)
/* one node per pair of participants, plus one for an odd participant */
__CPROVER_ensures(g_count == (size_t) expected / 2 + (size_t) expected % 2)
__CPROVER_assigns(g_count)
//@LIFT ctor
#endif

#ifdef U_ARRIVE
//@FUNC
bool base_arrive(struct barrier_base *self, ptrdiff_t expected, barrier_phase_t old_phase)
__CPROVER_requires(expected >= 1 && expected <= EXPECTED_MAX && g_token == old_phase && g_expected == expected)
/* the array was allocated by the constructor for an expected count that can only have shrunk since (arrive_and_drop) */
__CPROVER_requires(g_count >= (size_t) expected / 2 + (size_t) expected % 2)
__CPROVER_requires(g_half_steps == 0 && g_full_steps == 0 && !g_last_step_half)
/* "I'm 1 in 2, done with arrival": false exactly when the call's last (and only such) step was old->half */
__CPROVER_ensures(g_half_steps <= 1 && (__CPROVER_return_value ? g_half_steps == 0 : (g_half_steps == 1 && g_last_step_half)))
__CPROVER_assigns(BASE_FRAME)
//@LIFT arrive
#endif

#ifdef U_BOUNDED
bool base_arrive(struct barrier_base *self, ptrdiff_t expected, barrier_phase_t old_phase)
//@LIFT arrive
void barrier_base_ctor(struct barrier_base *self, ptrdiff_t expected)
//@LIFT ctor
#endif

#ifndef VX_MAX_EXPECTED
#define VX_MAX_EXPECTED 6
#endif

void harness(void)
{
  struct barrier_base b;
  g_self_id = nondet_size();
  g_half_steps = 0; g_full_steps = 0; g_last_step_half = false;
#ifdef U_CTOR
  ptrdiff_t expected = nondet_ptrdiff();
  barrier_base_ctor(&b, expected);
  VX_REACH("constructed");
  if (expected == 0) VX_REACH("empty_barrier");
  if (expected == 1) VX_REACH("single_participant");
#endif
#ifdef U_ARRIVE
  ptrdiff_t expected = nondet_ptrdiff();
  g_count = nondet_size();
  g_token = nondet_u8();
  g_expected = expected;
  bool r = base_arrive(&b, expected, g_token);
  if (r) VX_REACH("last_of_phase"); else VX_REACH("first_of_two");
  if (r && expected > 2) VX_REACH("won_several_rounds");
  if (r && expected == 1) VX_REACH("single_participant");
  if (g_self_id == 0) VX_REACH("not_a_pika_thread");
  if (g_token >= 254) VX_REACH("phase_wraps");
#endif
#ifdef U_BOUNDED
  /* serialized arrivals, expected <= VX_MAX_EXPECTED, ONE phase from an ARBITRARY phase-boundary state: arbitrary phase byte
   * (covers the 254 -> 0 wrap), every ticket the phase can touch holds the phase token, all other tickets hold arbitrary
   * stale bytes.  After the phase the boundary condition is asserted again for the next token, for the same expected count
   * and for expected - 1 (an arrive_and_drop that took effect): the step of an induction over phases, which covers any
   * number of consecutive phases, the wrap and drops (the induction itself is on paper). */
  struct state_t nondet_vxraw_state(void);
  ptrdiff_t expected = nondet_ptrdiff();
  if (expected < 1 || expected > VX_MAX_EXPECTED) return;
  barrier_base_ctor(&b, expected);
  barrier_phase_t phase = nondet_u8();
  for (int n = 0; n < VX_MAXNODES; n++) g_state[n] = nondet_vxraw_state();
  { size_t ce = (size_t) expected;
    for (int rd = 0; ce > 1; rd++) { size_t en = (ce + 1) >> 1; for (size_t n = 0; n < en; n++) g_state[n].tickets[rd] = phase; ce = en; } }
  /* harness control flow is unrolled by macros so that --unwind only has to cover the lifted loops */
#define VX_ARRIVAL(i) if ((i) <= expected) { \
      g_self_id = nondet_size(); g_half_steps = 0; g_full_steps = 0; g_last_step_half = false; \
      bool r = base_arrive(&b, expected, phase); \
      VX_ASSERT(r == ((i) == expected), "exactly the expected-th arrival of a phase returns true, no earlier one"); }
#define VX_BOUNDARY(e, tok) { size_t ce = (size_t) (e); \
      for (int rd = 0; ce > 1; rd++) { size_t en = (ce + 1) >> 1; \
        for (size_t n = 0; n < en; n++) VX_ASSERT(g_state[n].tickets[rd] == (tok), "every ticket of the phase ends at full == next phase's token (reusable, also after a drop)"); \
        ce = en; } }
#if VX_MAX_EXPECTED > 6
#error "the harness unrolls six arrivals"
#endif
  g_token = phase; g_expected = expected;
  VX_ARRIVAL(1) VX_ARRIVAL(2) VX_ARRIVAL(3) VX_ARRIVAL(4) VX_ARRIVAL(5) VX_ARRIVAL(6)
  phase = FULL(phase);   /* what barrier<>::arrive publishes */
  VX_BOUNDARY(expected, phase)
  if (expected > 1) VX_BOUNDARY(expected - 1, phase)
  if (phase == 0) VX_REACH("wrapped_254_to_0");
  VX_REACH("phase_completed");
  if (expected == 5) VX_REACH("odd_count");
#endif
}
