/* unit once.flag_ctor: pika::once_flag::once_flag() (types, ghost state, trusted member-construction stubs: once_ctor.h) */
#include "once_ctor.h"

/* trivial inline callee of once_flag(): event() is lifted together with its caller (its own contract is unit once.event_ctor) */
void event_ctor(struct event *self)
//@LIFT event_ctor

/* once_flag's event_ member is default-constructed by event() (implicit in C++; the call is appended by OnceCtorLift) */
static void vx_default_ctor_flag_event_(struct once_flag_c *f) { event_ctor(&f->event_); }
//@FUNC
void once_flag_ctor(struct once_flag_c *self)
__CPROVER_requires(&self->event_ == vx_self)
/* initial abstract state of the status word: no attempt started, not complete */
__CPROVER_ensures(self->status_ == 0)
/* the event the waiters will sleep on is not set, nobody is parked: base case of K (once_retry_lemma.c) */
__CPROVER_ensures(!self->event_.event_ && g_waiters == 0 && !self->event_.mtx_.held)
__CPROVER_assigns(self->status_, self->event_.event_, self->event_.mtx_.held, g_waiters)
//@LIFT flag_ctor

void harness(void)
{
  struct once_flag_c fl;
  once_ctor_raw_storage(&fl);
  once_flag_ctor(&fl);
  VX_REACH("constructed");
}
