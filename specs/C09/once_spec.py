# C09 extension module: call_once / once_flag event discipline (decides "event_.reset() placement in call_once"), the retry lemma,
# and the constructors of once_flag / pika::experimental::event.   Merged into spec.py by
#   exec(open(".../once_spec.py").read()); UNITS += ONCE_UNITS
# Relies only on the names imported here.  New templates: once_ev.h, once_ev.c, once_retry_lemma.c, once_ctor.h, once_event_ctor.c, once_flag_ctor.c
# (once.h / event.h are #included unchanged).
import re as _re

from vx.lift import Lift, Sub, Call, Members, TryCatch, LiftError, locate, match_close, split_args, resolve_pp, apply_rules, GENERIC_RULES, \
    splice_loops
from vx.run import Unit
from vx import census as _once_census

_ONCE_HPP = "libs/pika/synchronization/include/pika/synchronization/once.hpp"
_EVENT_HPP = "libs/pika/synchronization/include/pika/synchronization/event.hpp"
# templates live in specs/C09; "../C09/" resolves from specs/C09 itself and from the scratch wrapper specs/C09X alike
_ONCE_T = "../C09/"


class OnceCtorLift(Lift):
    """A constructor `Name(params) [noexcept] [: a(x), b(), c{y}] { BODY }`: the mem-initialiser list becomes assignments in front
    of the lifted body -- `a(x)` -> `self->a = (x);`, `b()` -> `vx_default_ctor_<cls>_b(self);` -- and every listed member that the
    list does not mention gets the same default-construction call (what C++ does implicitly).  Purely structural; same
    idea as specs/C07 CtorLift / specs/C12 CtorInit."""

    def __init__(self, src, locate_, cls, members, **kw):
        Lift.__init__(self, src, locate_, **kw)
        self.cls, self.members = cls, list(members)      # members in declaration order

    def run(self):
        try:
            body, line, header = locate(self.src, self.locate, self.which, self.expect, ctor=True)
        except LiftError as e:
            if "hit a declaration" not in str(e):
                raise
            # no mem-initialiser list and a trailing `noexcept`: vx.lift's ctor mode takes `noexcept {` for a brace initialiser
            body, line, header = locate(self.src, self.locate, self.which, self.expect, ctor=False)
        raw = header + body
        op = header.index("(")
        cl = match_close(header, op)
        rest = _re.sub(r"^\s*noexcept\b(\s*\([^()]*\))?", "", header[cl + 1:]).strip()
        inits, seen = [], []
        if rest:
            if not rest.startswith(":"):
                raise LiftError("OnceCtorLift: unexpected text between the parameter list and the body: %r" % rest[:40])
            for item in split_args(rest[1:]):
                m = _re.match(r"\s*(\w+)\s*[({](.*)[)}]\s*$", item, _re.S)
                if not m:
                    raise LiftError("OnceCtorLift: cannot parse initialiser %r" % item)
                if m.group(1) not in self.members:
                    raise LiftError("OnceCtorLift: initialiser '%s' is not a listed member" % m.group(1))
                seen.append(m.group(1))
                arg = m.group(2).strip()
                inits.append("self->%s = (%s);" % (m.group(1), arg) if arg else "vx_default_ctor_%s_%s(self);" % (self.cls, m.group(1)))
        for name in self.members:
            if name not in seen:
                inits.append("vx_default_ctor_%s_%s(self);" % (self.cls, name))
        text = "{ " + " ".join(inits) + " " + body.strip()[1:]
        text = resolve_pp(text)
        text = apply_rules(text, self.rules)
        text = apply_rules(text, GENERIC_RULES)
        text = apply_rules(text, self.post)
        text, nloops = splice_loops(text, self.loops)
        return {"text": text, "line": line, "file": self.src, "raw": raw, "nloops": nloops, "header": header}


# C++ spelling -> C spelling; every operand is captured, nothing of the protocol is in a pattern
_ONCE_DIGITSEP = Sub(r"(?<=[0-9a-fA-F])'(?=[0-9a-fA-F])", "", None)
_ONCE_EV_RULES = [
    _ONCE_DIGITSEP,
    Call(r"\bflag\.status_\.load", "status_load(&flag->status_)", None),
    Call(r"\bflag\.status_\.compare_exchange_strong", "ONCEEV_CAS(&flag->status_, {0}, {1})", None),
    Call(r"\bflag\.status_\.store", "status_store(&flag->status_, {0})", None),
    Call(r"\bflag\.event_\.(reset|set|wait)", "onceev_{h1}(flag)", None),
    Call(r"\bPIKA_INVOKE", "if (once_invoke_f()) VX_THROW_POINT", None),
    Sub(r"\bthrow;", "VX_RETHROW();", None),
]
# at the loop head this call owes nothing; it has either not owned an attempt (and then has not re-armed the event)
# or has completed one (set paid last)
_ONCE_EV_LOOP = """
__CPROVER_assigns(ONCE_EV_FRAME)
__CPROVER_loop_invariant(ST_OK(flag->status_) && !g_self_running && !g_thrown && !g_uncaught && !g_owes_set)
__CPROVER_loop_invariant((!g_won && !g_invoked && !g_invoked_ok && g_stores == 0 && g_resets == 0 && g_evlast != EVOP_RESET) || (g_won && g_invoked && g_invoked_ok && g_stores == 1 && g_sets >= 1 && g_last_stored == ONCE_COMPLETE && flag->status_ == ONCE_COMPLETE && g_evlast == EVOP_SET))
"""
_ONCE_CONSTS = Lift(_ONCE_HPP, r"long const function_complete_flag_value =", fragment_end=r"long const running_value =[^;]*;",
                    rules=[_ONCE_DIGITSEP])



def _ONCE_CTOR_BODY(members):
    """statements a constructor BODY may contain (the shipped bodies are empty): atomic member store / plain assignment, lock / unlock
    of the spinlock member, set / reset of the event member -- bound to stubs of once_ctor.h; anything else does not compile as C"""
    return [Call(r"(?<![\w.>])(\w+_)\.store", "{h1} = ({0})", None),
            Call(r"(?<![\w.>])mtx_\.(lock|unlock)", "once_ctor_mtx_{h1}(&self->mtx_)", None),
            Call(r"(?<![\w.>])event_\.(set|reset)", "once_ctor_event_{h1}(&self->event_)", None),
            Members(members, optional=members)]


_ONCE_EVENT_CTOR = OnceCtorLift(_EVENT_HPP, r"(?<![\w:~])event\(\)", "event", ["mtx_", "cond_", "event_"],
                                rules=_ONCE_CTOR_BODY(["mtx_", "cond_", "event_"]))

ONCE_UNITS = [
    Unit("once.rearm", _ONCE_T + "once_ev.c", enforce="call_once",
         lifts={"consts": _ONCE_CONSTS,
                "body": Lift(_ONCE_HPP, r"void call_once\(once_flag& flag, F&& f, Args&&\.\.\. args\)", which=1, expect=2,
                             rules=_ONCE_EV_RULES, post=[TryCatch(None)], loops={1: _ONCE_EV_LOOP, "count": 1})},
         funcs=[_ONCE_HPP + ": pika::call_once (event_.reset/set/wait placement)"], min_obligations=40),
    Unit("once.lemma_retry", _ONCE_T + "once_retry_lemma.c", kind="lemma", lifts={"consts": _ONCE_CONSTS}, loop_contracts=False,
         doc="over the predicates H_RESET/H_WAIT/H_EXIT (once_ev.h) and G_CAS/G_STORE (once.h) asserted on the lifted call_once by "
             "once.rearm, any number of callers: a caller parked on a cleared event always has another caller inside call_once that "
             "owes event_.set() (never parked with status_ == 0 and the event cleared by a finished attempt); once an attempt was "
             "started the event is cleared only while somebody owes the set (one inductive step + base case; history induction on paper)",
         min_obligations=5),
    Unit("once.event_ctor", _ONCE_T + "once_event_ctor.c", enforce="event_ctor",
         lifts={"event_ctor": _ONCE_EVENT_CTOR},
         funcs=[_EVENT_HPP + ": pika::experimental::event::event"], min_obligations=4),
    Unit("once.flag_ctor", _ONCE_T + "once_flag_ctor.c", enforce="once_flag_ctor",
         lifts={"event_ctor": _ONCE_EVENT_CTOR, "flag_ctor": OnceCtorLift(_ONCE_HPP, r"(?<![\w:~])once_flag\(\)(?=\s*noexcept|\s*:|\s*\{)", "flag", ["status_", "event_"],
             rules=_ONCE_CTOR_BODY(["status_", "event_"]))},
         funcs=[_ONCE_HPP + ": pika::once_flag::once_flag", _EVENT_HPP + ": pika::experimental::event::event (member construction)"], min_obligations=4),
]

# A-CLOSED for once_flag::status_ / event_: both members are private and the class befriends exactly one function, call_once, whose
# whole body is the lifted text of once.call_once / once.rearm
ONCE_STATIC = [
    _once_census.sites("once_flag friends", [_ONCE_HPP], r"\bfriend\b", 1,
                       "call_once is the only friend of once_flag: no other function can touch status_ / event_"),
]

ONCE_META = {
    "trusted_base": [
        "specs/C09/once_ev.h onceev_cas/onceev_reset/onceev_set/onceev_wait: call-trace stubs for once_flag::event_ as used by call_once "
        "(no VX_ASSUME of their own; onceev_cas wraps once.h status_cas and therefore inherits its rely interfere_status); "
        "event_.wait() returns with nothing assumed about the event or status_ (the caller has to re-read status_)",
        "specs/C09/once_retry_lemma.c: event_.wait() modelled by the contract proved in event.*: a caller is parked only after reading the "
        "event cleared and leaves wait() only after reading it set; event_.set() needs no guard",
        "specs/C09/once_ctor.h vx_default_ctor_*: spinlock() = unlocked, detail::condition_variable() = empty queue, std::atomic<T>() = "
        "value-initialised (C++20, P0883R2; pika requires C++20); members the mem-initialiser list does not mention are "
        "default-constructed (appended by OnceCtorLift); once_flag's event_ member is constructed by event() used by contract",
    ],
    "assumptions": [
        "once.lemma_retry: ghost count of callers owing a set bounded by 10^9; the callers' steps are exactly the atomic operations of "
        "call_once (A-CLOSED for status_ / event_ of once_flag: both members are private, call_once is the only friend)",
    ],
    "not_decided": [
        "call_once: that the live owner found by once.lemma_retry eventually reaches its set() (the callable returns or throws: liveness); "
        "a DROPPED event_.reset() (waiters then spin through event_.wait() instead of sleeping during a retry: performance/liveness only)",
    ],
    # replaces the entry of spec.py's META["not_decided"] that this module decides
    "decides": ["event_.reset() placement in call_once (a misplaced reset can only strand waiters = liveness)"],
}
