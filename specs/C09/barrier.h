/* C09 -- pika::barrier<Completion>::{arrive, wait, arrive_and_drop}: call-trace (T) contracts.
 *
 * base.arrive() is used through its contract ("exactly the outstanding-th arrival of a phase returns true"), which for the
 * tournament tree is supported by the bounded units barrier.base_arrive.order.* only -- listed under assumptions.
 *   g_outstanding   arrivals the current phase still expects
 *   g_completing    base.arrive returned true to this call and the new phase has not been published yet
 *   g_published     this call has stored the new phase (nothing may be written to the barrier afterwards: other threads
 *                   may already be arriving at the next phase and reading `expected`)
 */
#ifndef C09_BARRIER_H
#define C09_BARRIER_H
#include "vx.h"

typedef uint8_t barrier_phase_t;
#define FULL(p) ((barrier_phase_t) ((p) + 2))
struct barrier_base { int unused; };
struct barrier { ptrdiff_t expected; ptrdiff_t expected_adjustment; barrier_phase_t phase; struct barrier_base base; };

static struct barrier *vx_self;
static long g_outstanding, g_out0, g_update0;
static long g_arrivals;
static bool g_completing, g_published;
static int g_completions, g_adj_stores, g_adj_subs, g_arrive_calls;   /* saturating at 2 */
static bool g_adj_applied;
static ptrdiff_t g_adj_read, g_expected0;
static barrier_phase_t g_token, g_last_phase_read;
static bool g_token_valid;
static int g_phase_reads;

#define VX_BIG 1000000000L
#define BARRIER_FRAME self->expected, self->expected_adjustment, self->phase, g_outstanding, g_arrivals, g_completing, g_published, \
                      g_completions, g_adj_stores, g_adj_subs, g_arrive_calls, g_adj_applied, g_adj_read, g_token, g_last_phase_read, \
                      g_token_valid, g_phase_reads

/* std::atomic<barrier_phase_t>::load.  Other threads publish new phases at any time, except while this call is the
 * completer (A-COMPLETION-EXCLUSIVE: the phase cannot complete twice). */
static barrier_phase_t phase_load(barrier_phase_t *p)
{
  if (!g_completing && !g_published && nondet_bool()) *p = nondet_u8();
  g_last_phase_read = *p;
  if (!g_token_valid) { g_token = *p; g_token_valid = true; }   /* the first read of a call is its arrival token */
  if (g_phase_reads < 2) g_phase_reads++;
  return *p;
}
static void phase_store(barrier_phase_t *p, barrier_phase_t v)
{
  VX_ASSERT(g_completing, "the phase is advanced only by the thread for which base.arrive returned true");
  VX_ASSERT(g_completions == 1, "the completion function has run exactly once before anyone is released");
  VX_ASSERT(g_adj_applied && vx_self->expected_adjustment == 0, "expected_adjustment is applied and cleared before the new phase is published");
  VX_ASSERT(v == FULL(g_token), "phase arithmetic mod 256: the published phase is the arrival token + 2");
  *p = v;
  g_completing = false;
  g_published = true;
}
/* barrier_algorithm_base::arrive by contract: exactly the last outstanding arrival of the phase returns true */
static bool base_arrive(struct barrier_base *b, ptrdiff_t expected, barrier_phase_t old_phase)
{
  VX_ASSERT(!g_published && !g_completing, "no arrival with a stale token after this call completed the phase");
  VX_ASSERT(expected == vx_self->expected && g_token_valid && old_phase == g_token, "arrives with the barrier's current expected count and the token read at entry");
  VX_ASSERT(g_outstanding >= 1, "the phase still expects arrivals (caller's duty: update <= outstanding)");
  g_outstanding--;
  g_arrivals++;
  if (g_outstanding == 0) g_completing = true;
  return g_outstanding == 0;
}
static void completion_call(struct barrier *self)
{
  VX_ASSERT(g_completing && !g_published, "the completion function runs only in the thread for which arrive returned true, before the release");
  VX_ASSERT(g_completions == 0, "the completion function runs exactly once per phase");
  if (g_completions < 2) g_completions++;
}
/* std::atomic<ptrdiff_t> expected_adjustment.  Droppers decrement it before they arrive; while this call completes the phase
 * every arrival of the phase has happened, so nobody touches it (A-COMPLETION-EXCLUSIVE). */
static void interfere_adj(ptrdiff_t *p)
{
  if (!g_completing && !g_published && nondet_bool())
  {
    ptrdiff_t v = nondet_ptrdiff();
    VX_ASSUME(v <= *p && v >= -VX_BIG);   /* rely: arrive_and_drop only decrements */
    *p = v;
  }
}
static ptrdiff_t adj_load(ptrdiff_t *p)
{
  interfere_adj(p);
  g_adj_read = *p;
  return *p;
}
static void adj_store(ptrdiff_t *p, ptrdiff_t v)
{
  VX_ASSERT(g_completing && !g_published, "expected_adjustment is cleared only by the completing thread, before the release");
  VX_ASSERT(g_adj_applied && g_adj_read == *p, "expected_adjustment is cleared only after exactly its current value has been applied (no drop lost)");
  *p = v;
  if (g_adj_stores < 2) g_adj_stores++;
}
static ptrdiff_t adj_fetch_sub(ptrdiff_t *p, ptrdiff_t v)
{
  interfere_adj(p);
  VX_ASSERT(g_arrive_calls == 0, "a drop is registered before the dropping thread arrives");
  ptrdiff_t old = *p;
  *p = old - v;
  if (g_adj_subs < 2) g_adj_subs++;
  return old;
}
/* `expected += x` (plain member, written by the completing thread only) */
static void expected_add(struct barrier *self, ptrdiff_t x)
{
  VX_ASSERT(g_completing && !g_published, "expected is written only by the completing thread, before the release");
  VX_ASSERT(!g_adj_applied, "the adjustment is applied once");
  self->expected += x;
  g_adj_applied = true;
}

/* pika::util::yield_while(pred, ...) / detail::yield_while_timeout(pred, timeout, ...) (execution_base/this_thread.hpp:69,153):
 * TRUSTED contract: they return normally only after an evaluation of the predicate returned false (yield_while_timeout: or
 * false after the timeout, whatever the predicate said).  Only the last evaluation is modelled. */
static bool barrier_poll(struct barrier *self, barrier_phase_t old_phase);
static void yield_while_poll(struct barrier *self, barrier_phase_t old_phase)
{
  bool again = barrier_poll(self, old_phase);
  VX_ASSUME(!again);   /* yield_while loops `for (k = 0; predicate(); ++k)`: it is left only when the predicate is false */
}
static bool yield_while_timeout_poll(struct barrier *self, barrier_phase_t old_phase, double timeout)
{
  bool again = barrier_poll(self, old_phase);
  if (nondet_bool()) return false;   /* timed out */
  VX_ASSUME(!again);                 /* `if (!predicate()) return true;` is the only way to return true */
  return true;
}
#endif
