/* units: pika::latch::{count_down, try_wait, wait, arrive_and_wait}  (M contracts + rely/guarantee on counter_) */
#include "latch.h"

#define PRE_COMMON (self == vx_self && !self->mtx_.held && !lin && g_notifies == 0 && g_waits == 0 && !g_draining && RANGE && INV_ALL)

#ifdef U_COUNT_DOWN
//@FUNC
void count_down(struct latch *self, ptrdiff_t update)
__CPROVER_requires(PRE_COMMON && update >= 0 && g_share == update)
/* ^ "Requires: counter_ >= n and n >= 0" is the caller's duty (the PIKA_ASSERTs of the body are re-proved from it) */
/* exactly one atomic step, which subtracts `update`: counter_ never negative, never increases */
__CPROVER_ensures(lin && lin_new == lin_old - update && lin_new >= 0 && lin_new <= lin_old)
/* whoever brings the counter to 0 sets notified_ (under the lock) and drains until notify_one reports empty */
__CPROVER_ensures(lin_new == 0 ==> (self->notified_ && g_notifies >= 1 && !g_draining))
__CPROVER_ensures(!self->mtx_.held && g_waits == 0)
__CPROVER_assigns(LATCH_FRAME)
//@LIFT body
#endif

#ifdef U_TRY_WAIT
//@FUNC
bool try_wait(struct latch *self)
__CPROVER_requires(PRE_COMMON && g_share == 0)
/* true only if it read counter_ == 0 (and 0 is final) */
__CPROVER_ensures(__CPROVER_return_value == (g_last_read == 0))
__CPROVER_ensures(__CPROVER_return_value ==> self->counter_ == 0)
__CPROVER_ensures(!lin && g_waits == 0 && !self->mtx_.held)
__CPROVER_assigns(LATCH_FRAME)
//@LIFT body
#endif

#ifdef U_WAIT
//@FUNC
void wait(struct latch *self)
__CPROVER_requires(PRE_COMMON && g_share == 0)
/* returns only with counter_ == 0 -- nothing more is demanded of the return state */
__CPROVER_ensures(self->counter_ == 0)
__CPROVER_ensures(!lin && !self->mtx_.held)
__CPROVER_assigns(LATCH_FRAME)
//@LIFT body
#endif

#ifdef U_ARRIVE_AND_WAIT
//@FUNC
void arrive_and_wait(struct latch *self, ptrdiff_t update)
__CPROVER_requires(PRE_COMMON && update >= 0 && g_share == update)
/* returns only with counter_ == 0 */
__CPROVER_ensures(self->counter_ == 0)
__CPROVER_ensures(lin && lin_new == lin_old - update && lin_new >= 0 && lin_new <= lin_old)
/* whoever brings the counter to 0 sets notified_ (under the lock) and drains until notify_one reports empty */
__CPROVER_ensures(lin_new == 0 ==> (self->notified_ && g_notifies >= 1 && !g_draining))
__CPROVER_ensures(!self->mtx_.held)
__CPROVER_assigns(LATCH_FRAME)
//@LIFT body
#endif

void harness(void)
{
  struct latch s;
  vx_self = &s;
  s.mtx_.held = false;
  s.counter_ = nondet_ptrdiff();
  s.notified_ = nondet_bool();
  g_waiters = nondet_long();
  g_inflight = nondet_long();
  g_env_draining = nondet_bool();
  g_draining = false;
  g_notifies = 0;
  g_waits = 0;
  lin = false;
  g_share = 0;
#ifdef U_COUNT_DOWN
  ptrdiff_t update = nondet_ptrdiff();
  g_share = update;
  count_down(&s, update);
  if (lin_new > 0) VX_REACH("not_last");
  if (lin_new == 0) VX_REACH("opened");
  if (lin_new == 0 && g_notifies >= 2) VX_REACH("drained_several");
  if (lin_new == 0 && update == 0) VX_REACH("zero_update_on_open_latch");
#endif
#ifdef U_TRY_WAIT
  if (try_wait(&s)) VX_REACH("open"); else VX_REACH("not_open");
#endif
#ifdef U_WAIT
  wait(&s);
  if (g_waits == 0) VX_REACH("did_not_block"); else VX_REACH("blocked");
#endif
#ifdef U_ARRIVE_AND_WAIT
  ptrdiff_t update = nondet_ptrdiff();
  g_share = update;
  arrive_and_wait(&s, update);
  if (g_waits > 0) VX_REACH("blocked");
  if (g_waits == 0) VX_REACH("opened");
  if (g_notifies >= 2) VX_REACH("drained_several");
#endif
}
