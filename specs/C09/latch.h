/* C09 -- pika::latch: ghost state, monitor invariant, rely/guarantee of counter_, cv contract.
 *
 * State: counter_ (std::atomic, decremented by count_down OUTSIDE the lock, by arrive_and_wait inside it),
 *        notified_ (plain bool, protected by mtx_), cond_ (queue abstracted to ghost counters).
 *   g_waiters      entries in cond_'s queue
 *   g_inflight     wake-ups issued (a notifier dequeued a waiter) and not yet consumed by the woken waiter
 *   g_env_draining some OTHER thread has set notified_ and is still inside its notify_one loop
 *   g_draining     the call under verification has been told by notify_one that the queue is still non-empty
 *                  and has not yet notified again (its commitment to keep draining)
 *   g_share        part of counter_ reserved for the decrement this call has not yet performed (usage protocol
 *                  of std::latch: the sum of all updates never exceeds the initial count)
 * Monitor invariant (asserted at every release point, assumed after every acquisition):
 *   CNT    counter_ >= 0 and counter_ >= g_share
 *   OPEN   notified_ ==> counter_ == 0
 *   WAKE   g_inflight > 0 ==> notified_          (nobody is woken before the latch has been opened under the lock)
 *   DRAIN  notified_ && nobody draining ==> g_waiters == 0   (safety form of "every waiter returns once it has")
 * Rely (environment steps): counter_ never increases, never drops below g_share; notified_ is never cleared.
 */
#ifndef C09_LATCH_H
#define C09_LATCH_H
#include "vx.h"

static void latch_at_release(void);
static void latch_at_acquire(void);
#define MON_AT_RELEASE() latch_at_release()
#define MON_AT_ACQUIRE() latch_at_acquire()
#include "monitor.h"

struct cv { int unused; };
struct latch { struct vx_mutex mtx_; struct cv cond_; ptrdiff_t counter_; bool notified_; };

static struct latch *vx_self;
static long g_waiters, g_inflight;
static bool g_env_draining, g_draining;
static int g_notifies;             /* notify_one calls made by this call (saturating at 2) */
static int g_waits;                /* blocking waits performed by this call (saturating at 2) */
static ptrdiff_t g_share;
/* linearisation ghost of the one read-modify-write this call performs on counter_ */
static bool lin;
static ptrdiff_t lin_old, lin_new, g_last_read;

#define VX_BIG 1000000000L
#define RANGE (g_waiters >= 0 && g_waiters <= VX_BIG && g_inflight >= 0 && g_inflight <= VX_BIG)
#define INV_CNT (vx_self->counter_ >= 0 && vx_self->counter_ >= g_share)
#define INV_OPEN (!vx_self->notified_ || vx_self->counter_ == 0)
#define INV_WAKE (g_inflight == 0 || vx_self->notified_)
#define INV_DRAIN (!vx_self->notified_ || g_env_draining || g_draining || g_waiters == 0)
#define INV_ALL (INV_CNT && INV_OPEN && INV_WAKE && INV_DRAIN)
#define LATCH_FRAME self->counter_, self->notified_, self->mtx_.held, g_waiters, g_inflight, g_env_draining, g_draining, \
                    g_notifies, g_waits, g_share, lin, lin_old, lin_new, g_last_read
/* what the drain loop (notify_one + re-lock) may touch */
#define LATCH_DRAIN_FRAME self->counter_, self->notified_, self->mtx_.held, g_waiters, g_inflight, g_env_draining, g_draining, g_notifies

static void latch_at_release(void)
{
  VX_ASSERT(INV_CNT, "monitor invariant at release: counter_ never negative (and the caller's reserved share is intact)");
  VX_ASSERT(INV_OPEN, "monitor invariant at release: notified_ ==> counter_ == 0");
  VX_ASSERT(INV_WAKE, "monitor invariant at release: a wake-up is in flight only after notified_ was set");
  VX_ASSERT(INV_DRAIN, "monitor invariant at release: notified_ and no drain in progress ==> no waiter left in the queue");
}
/* environment step while the lock is free (TRUSTED: the rely; every clause is a guarantee checked on the units) */
static void latch_at_acquire(void)
{
  ptrdiff_t c = nondet_ptrdiff();
  bool n = nondet_bool();
  VX_ASSUME(c <= vx_self->counter_);        /* rely: counter_ never increases */
  VX_ASSUME(n || !vx_self->notified_);      /* rely: notified_ is never cleared */
  vx_self->counter_ = c;
  vx_self->notified_ = n;
  g_waiters = nondet_long();
  g_inflight = nondet_long();
  g_env_draining = nondet_bool();
  VX_ASSUME(RANGE && INV_ALL);              /* the monitor invariant, proved at every release point of every unit */
}
/* counter_ is atomic: other threads' count_down may decrement it at any time, also while we hold the lock */
static void interfere_counter(ptrdiff_t *p)
{
  if (nondet_bool())
  {
    ptrdiff_t c = nondet_ptrdiff();
    VX_ASSUME(c <= *p && c >= 0 && c >= g_share);   /* rely: never increases, never negative, our share stays */
    *p = c;
  }
}
static ptrdiff_t atomic_load(ptrdiff_t *p)
{
  interfere_counter(p);
  g_last_read = *p;
  return *p;
}
static void latch_rmw(ptrdiff_t *p, ptrdiff_t arg, bool add)
{
  interfere_counter(p);
  VX_ASSERT(!lin, "at most one read-modify-write of counter_ per call");
  lin_old = *p;
  *p = add ? *p + arg : *p - arg;
  lin_new = *p;
  lin = true;
  g_share = 0;
  VX_ASSERT(lin_new <= lin_old, "guarantee: counter_ never increases");
  VX_ASSERT(lin_new >= 0, "guarantee: counter_ never becomes negative");
  VX_ASSERT(!vx_self->notified_ || lin_new == 0, "guarantee: once notified_, counter_ stays 0");
}
/* std::atomic<ptrdiff_t>::operator-= (returns the new value) */
static ptrdiff_t atomic_sub_fetch(ptrdiff_t *p, ptrdiff_t arg) { latch_rmw(p, arg, false); return lin_new; }
static ptrdiff_t atomic_add_fetch(ptrdiff_t *p, ptrdiff_t arg) { latch_rmw(p, arg, true); return lin_new; }
/* std::atomic<ptrdiff_t>::fetch_sub (returns the old value) */
static ptrdiff_t atomic_fetch_sub(ptrdiff_t *p, ptrdiff_t arg) { latch_rmw(p, arg, false); return lin_old; }
static ptrdiff_t atomic_fetch_add(ptrdiff_t *p, ptrdiff_t arg) { latch_rmw(p, arg, true); return lin_old; }

/* notified_ is a plain member: every access must happen under mtx_ */
static void latch_set_notified(struct latch *self, bool v)
{
  VX_ASSERT(self->mtx_.held, "notified_ written without holding mtx_");
  VX_ASSERT(v || !self->notified_, "guarantee: notified_ is never cleared");
  self->notified_ = v;
}
static bool latch_notified(struct latch *self)
{
  VX_ASSERT(self->mtx_.held, "notified_ read without holding mtx_");
  return self->notified_;
}

/* ---- contract of detail::condition_variable as seen by a client holding the lock (subject of C07) ---- */
static int cv_wait(struct cv *c, struct ulock *l)
{
  VX_ASSERT(vx_owns_p(l), "cv.wait called without the internal lock");
  VX_ASSERT(vx_self->counter_ > 0 || !vx_self->notified_, "a caller blocks only while the latch is not yet open (counter_ > 0 or !notified_)");
  g_waiters++;
  if (g_waits < 2) g_waits++;
  ulock_unlock(l);
  ulock_lock(l);
  VX_ASSUME(g_inflight >= 1); /* plain wait returns only because a notifier dequeued us: our wake-up was in flight */
  g_inflight--;
  return thread_restart_state_signaled;
}
/* notify_one(std::move(l), prio): dequeues + resumes the front waiter if any, releases the lock; true iff still non-empty */
static bool cv_notify_one(struct cv *c, struct ulock l)
{
  VX_ASSERT(vx_owns_v(l), "cv.notify_one called without the internal lock");
  VX_ASSERT(vx_self->notified_, "guarantee: waiters are woken only after notified_ has been set under the lock");
  bool more = false;
  if (g_notifies < 2) g_notifies++;
  if (g_waiters > 0)
  {
    g_waiters--;
    g_inflight++;
    more = g_waiters > 0;
  }
  g_draining = more; /* told "still non-empty": the caller is committed to notify again */
  ulock_dtor(&l);
  return more;
}
#endif
