/* C02 units: threads::detail::set_thread_state / set_active_state  (S + T contracts)
 *
 * "If the wake-up is issued at any time after the task has registered itself as a waiter -- including the window in
 *  which the task has not yet finished switching off its worker -- the task is resumed and runs again."
 * Decided here (safety form): a wake-up request returns only in one of the ghost-recorded outcomes of c02.h, each
 * justified by the word value seen at the deciding step.  Lemma L2 (lemma.c) composes the outcomes.
 */
#include "c02.h"

/* ---- lifted helpers ---- */
static void throws_if(struct error_code *ec, pika_error errcode)
//@LIFT throws_if
static thread_state thread_data_get_state(thread_data *self)
//@LIFT get_state
static bool thread_data_restore_state(thread_data *self, thread_schedule_state new_state, thread_restart_state state_ex, thread_state old_state)
//@LIFT restore_state

#define ERR_ONLY(code) (g_errs == 1 && g_err == (code) && !lin && NO_CALLS)

#ifdef U_SET_THREAD_STATE
#define VX_EXC_RESULT ts_make0()
//@FUNC
thread_state set_thread_state(thread_id_type thrd, thread_schedule_state new_state, thread_restart_state new_state_ex,
                              thread_priority priority, struct thread_schedule_hint schedulehint, bool retry_on_active, struct error_code *ec)
__CPROVER_requires((thrd == VX_INVALID_ID || thrd == &g_td) && REAL_STATE(new_state) && REAL_EX(new_state_ex) && (ec == &vx_throws || ec == &vx_ec_obj))
__CPROVER_requires(WINV(g_td.current_state_) && g_td.scheduler_base_ == &g_sched_obj && GHOST_ZERO && g_req_state == new_state && g_req_ex == new_state_ex && g_cw_ec_expect == ec)
/* (e) documented invalid requests: an error and nothing else -- no step on the word, no helper, no scheduling */
__CPROVER_ensures(thrd == VX_INVALID_ID ==> (ERR_ONLY(pika_error_null_thread_id) && g_reads == 0))
__CPROVER_ensures((thrd != VX_INVALID_ID && new_state == S_ACTIVE) ==> (ERR_ONLY(pika_error_bad_parameter) && g_reads == 0))
__CPROVER_ensures(g_errs >= 1 ==> ERROR_VISIBLE(ec))
/* demoting a pending thread: refused on the word value seen at the last load, and suspended is never forced by a step */
__CPROVER_ensures((thrd != VX_INVALID_ID && new_state == S_SUSPENDED && g_errs >= 1) ==> (ERR_ONLY(pika_error_bad_parameter) && !g_stale && PENDINGISH(TS_STATE(g_last_read))))
__CPROVER_ensures(new_state == S_SUSPENDED ==> !lin)
/* a wake-up request returns only in one of the outcomes (a) (b) (c) (d) (a'), or with the exception of create_work */
__CPROVER_ensures((thrd != VX_INVALID_ID && WAKE(new_state)) ==> g_errs == 0)
__CPROVER_ensures((thrd != VX_INVALID_ID && WAKE(new_state) && !vx_exc) ==> OUT_WAKE(new_state, new_state_ex, priority, schedulehint, retry_on_active))
__CPROVER_ensures((thrd != VX_INVALID_ID && WAKE(new_state) && vx_exc) ==> OUT_CALLEE_THREW(retry_on_active))
/* every request: never two schedules, never a successful CAS to a pending state without a schedule, never a schedule without it */
__CPROVER_ensures(g_sched == ((lin && WAKE(new_state) && !PENDINGISH(TS_STATE(lin_old))) ? 1 : 0) && g_dsw == g_sched)
__CPROVER_ensures(g_helpers <= 1 && (g_helpers == 1 ==> (!lin && retry_on_active && TS_STATE(g_last_read) == S_ACTIVE && !g_stale && HELPER_CARRIES(new_state, new_state_ex, priority, g_last_read))))
/* a normal return reports success through a caller-provided error_code */
__CPROVER_ensures((g_errs == 0 && !vx_exc && ec == &vx_ec_obj) ==> vx_ec_obj.value == pika_error_success)
__CPROVER_assigns(GHOST_FRAME)
//@LIFT body
#endif

#ifdef U_SET_ACTIVE_STATE
#include "sts_stub.h"   /* T stub: the re-issued request */
#define VX_EXC_RESULT result_make(thread_schedule_state_unknown, VX_INVALID_ID)
//@FUNC
thread_result_type set_active_state(thread_id_ref_type thrd, thread_schedule_state newstate, thread_restart_state newstate_ex,
                                    thread_priority priority, thread_state previous_state)
__CPROVER_requires((thrd == VX_INVALID_ID || thrd == &g_td) && WINV(g_td.current_state_) && GHOST_ZERO && g_reissue == 0)
__CPROVER_ensures(thrd == VX_INVALID_ID ==> (vx_exc && g_err == pika_error_null_thread_id && g_reissue == 0 && g_reads == 0))
/* aborts only if the word's state field equals the recorded one AND the word differs from it; otherwise re-issues the
 * request exactly once, with retry_on_active = true, the last-worker hint and a non-throwing error_code */
__CPROVER_ensures(thrd != VX_INVALID_ID ==> (!vx_exc && g_reads == 1 && g_reissue == (ABORT_COND(g_last_read, previous_state) ? 0 : 1)))
__CPROVER_ensures(g_reissue == 1 ==> (g_r_thrd_is_T && g_r_state == newstate && g_r_ex == newstate_ex && g_r_prio == priority && g_r_retry && g_r_ec_nothrow))
__CPROVER_ensures(g_reissue == 1 ==> (g_lw_reads == 1 && g_r_hint.mode == thread_schedule_hint_mode_thread && g_r_hint.hint == (int16_t) g_lw_read))
/* the helper itself never touches the word */
__CPROVER_ensures(!lin)
__CPROVER_assigns(GHOST_FRAME, STS_STUB_FRAME)
//@LIFT body
#endif

void harness(void)
{
  ghost_init();
  g_td.current_state_.st = nondet_i8();
  g_td.current_state_.ex = nondet_i8();
  g_td.current_state_.tg = nondet_i64();
  g_td.last_worker_thread_num_ = nondet_size();
  g_td.scheduler_base_ = &g_sched_obj;
  g_td.priority_ = nondet_i8();
  vx_ec_obj.value = nondet_int();      /* whatever the caller left in its error_code */
  vx_ec_obj.mode = 0;
  vx_throws.value = 0; vx_throws.mode = 0;
  thread_data *thrd = nondet_bool() ? &g_td : VX_INVALID_ID;
  thread_schedule_state ns = nondet_i8();
  thread_restart_state nx = nondet_i8();
  thread_priority prio = nondet_i8();
#ifdef U_SET_THREAD_STATE
  struct thread_schedule_hint hint;
  hint.hint = nondet_i16();
  hint.mode = nondet_i8();
  bool retry = nondet_bool();
  struct error_code *ec = nondet_bool() ? &vx_throws : &vx_ec_obj;
  g_req_state = ns; g_req_ex = nx; g_cw_ec_expect = ec;
  thread_state w0 = g_td.current_state_;
  set_thread_state(thrd, ns, nx, prio, hint, retry, ec);
  if (thrd != VX_INVALID_ID && WAKE(ns))
  {
    if (!vx_exc && OUT_SAME(ns)) VX_REACH("a_already_in_requested_state");
    if (!vx_exc && OUT_HELPER(ns, nx, prio, retry)) VX_REACH("b_helper_for_active_target");
    if (!vx_exc && OUT_TERMINATED) VX_REACH("c_terminated");
    if (!vx_exc && OUT_SCHEDULED(ns, nx, hint)) VX_REACH("d_cas_then_schedule");
    if (!vx_exc && OUT_RELABEL(ns, nx)) VX_REACH("a2_pending_relabelled");
    if (vx_exc) VX_REACH("create_work_threw");
    if (lin && g_cas_failed >= 1) VX_REACH("d_after_failed_cas_and_reread");
    if (lin && !TS_EQ(lin_old, w0)) VX_REACH("d_after_interference");
    if (!retry && g_yields >= 1) VX_REACH("yielded_on_active_without_retry");
  }
  if (g_errs >= 1 && ec == &vx_throws) VX_REACH("e_error_by_exception");
  if (g_errs >= 1 && ec == &vx_ec_obj) VX_REACH("e_error_through_error_code");
  if (thrd != VX_INVALID_ID && ns == S_SUSPENDED && g_errs >= 1) VX_REACH("e_demote_pending_refused");
#endif
#ifdef U_SET_ACTIVE_STATE
  thread_state prev;
  prev.st = nondet_i8(); prev.ex = nondet_i8(); prev.tg = nondet_i64();
  g_reissue = 0;
  set_active_state(thrd, ns, nx, prio, prev);
  if (thrd == VX_INVALID_ID) VX_REACH("null_id_throws");
  if (thrd != VX_INVALID_ID && g_reissue == 0) VX_REACH("aborted");
  if (thrd != VX_INVALID_ID && g_reissue == 0 && TS_TAG(g_last_read) == TS_TAG(prev)) VX_REACH("aborted_on_state_ex_change_only");
  if (g_reissue == 1 && TS_EQ(g_last_read, prev)) VX_REACH("reissued_word_unchanged");
  if (g_reissue == 1 && TS_STATE(g_last_read) != TS_STATE(prev)) VX_REACH("reissued_target_left_active");
#endif
}
