/* C02 units: threads::detail::execution_agent::do_resume / do_yield and the entry points resume / abort / suspend / yield
 * (T contracts).  The blocking facilities (condition_variable, mutex, ...) suspend a task with agent.suspend() and
 * wake it with agent.resume() / abort().
 *
 * The calling task of do_yield is T itself: its word is `active` and belongs to it (RELY_RUNNER).
 */
#define RELY(o, n) RELY_RUNNER(o, n)
#include "c02.h"
#include "sts_stub.h"

/* coroutines::detail::coroutine_self wrapper held by the agent: only the thread id and yield() are used */
struct coroutine_self { thread_data *id; };
struct execution_agent { struct coroutine_self self_; };
static thread_data *coroutine_get_thread_id(struct coroutine_self *c) { return c->id; }

static void throws_if(struct error_code *ec, pika_error errcode)
//@LIFT throws_if
static thread_state thread_data_get_state(thread_data *self)
//@LIFT get_state
static bool thread_data_restore_state(thread_data *self, thread_schedule_state new_state, thread_restart_state state_ex, thread_state old_state)
{ return false; }   /* not used by the agent units */

/* ---- environment of do_yield ---- */
static size_t g_local_worker;             /* pika::get_local_worker_thread_num() of the worker running T */
static size_t get_local_worker_thread_num(void) { return g_local_worker; }
/* pika::get_worker_thread_num(): the GLOBAL number of the OS thread (pool offset + local number): a different value whenever
 * the task's pool is not the first one */
static size_t g_global_worker;
static size_t get_worker_thread_num(void) { return g_global_worker; }
static long g_lw_sets;                    /* set_last_worker_thread_num calls (saturating at 2) */
static void thread_data_set_last_worker_thread_num(thread_data *self, size_t n) { self->last_worker_thread_num_ = n; if (g_lw_sets < 2) g_lw_sets++; }
static int vx_uncaught_exceptions(void) { return 0; }   /* precondition of do_yield: not called while an exception is being handled */
/* thread_data::interruption_point(): throws thread_interrupted if an interruption was requested and is enabled */
static long g_ipoints;
static void thread_data_interruption_point(thread_data *self)
{
  if (g_ipoints < 2) g_ipoints++;
  if (nondet_bool()) vx_throw_exception(VX_ERR_INTERRUPTED);
}
/* T stub: coroutine_self::yield(result) -- the context switch back to the worker.  The worker publishes result.first as
 * the new schedule state (switch_status::store_state, C01-U3), T waits, a wake-up makes it pending, a worker activates
 * it (pending -> active, tag + 1), delivers the restart state (set_state_ex, returning the previous one, which becomes
 * the value of yield()) and switches back.  Everything after the hand-over is the environment. */
static long g_co_yields;                  /* saturating at 2 */
static thread_schedule_state g_y_state; static bool g_y_next_invalid; static thread_restart_state g_y_delivered;
static thread_restart_state coroutine_yield(struct coroutine_self *c, thread_result_type r)
{
  VX_ASSERT(!vx_exc, "no context switch while an exception is in flight");
  VX_ASSERT(g_lw_sets >= 1 && g_td.last_worker_thread_num_ == g_local_worker, "the last worker is recorded before the state is handed to the worker");
  VX_ASSERT(TS_STATE(g_td.current_state_) == S_ACTIVE, "only the running task yields");
  if (g_co_yields < 2) g_co_yields++;
  g_y_state = r.first;
  g_y_next_invalid = (r.second == VX_INVALID_ID);
  thread_state n;
  n.st = S_ACTIVE;
  n.ex = thread_restart_state_signaled;
  n.tg = nondet_i64();
  /* we run again only because a worker re-activated us: at least store_state and one activation happened (C01-U3/U4) */
  VX_ASSUME(n.tg >= g_td.current_state_.tg + 2 && n.tg <= TAG_BIG);
  g_td.current_state_ = n;
  g_local_worker = nondet_size();         /* possibly on another worker */
  g_y_delivered = nondet_i8();
  VX_ASSUME(REAL_EX(g_y_delivered));       /* the restart state given by the waker */
  return g_y_delivered;
}

#define AGENT_PRE(self) ((self)->self_.id == &g_td && GHOST_ZERO && g_reissue == 0 && g_co_yields == 0 && g_lw_sets == 0 && g_ipoints == 0)

#ifdef U_DO_RESUME
#define VX_EXC_RESULT
//@FUNC
void do_resume(struct execution_agent *self, char const *desc, thread_restart_state statex)
__CPROVER_requires(AGENT_PRE(self) && REAL_EX(statex))
/* exactly one request: T -> pending with the given restart state, hint = the stored last worker, retry_on_active = true */
__CPROVER_ensures(g_reissue == 1 && g_r_thrd_is_T && g_r_state == S_PENDING && g_r_ex == statex && g_r_retry)
__CPROVER_ensures(g_lw_reads == 1 && g_r_hint.mode == thread_schedule_hint_mode_thread && g_r_hint.hint == (int16_t) g_lw_read)
__CPROVER_assigns(STS_STUB_FRAME)
//@LIFT body
#endif

#ifdef U_DO_YIELD
#define VX_EXC_RESULT thread_restart_state_unknown
//@FUNC
thread_restart_state do_yield(struct execution_agent *self, char const *desc, thread_schedule_state state)
__CPROVER_requires((self->self_.id == &g_td || self->self_.id == VX_INVALID_ID) && GHOST_ZERO && g_co_yields == 0 && g_lw_sets == 0 && g_ipoints == 0)
/* T runs: its word is active; PIKA_ASSERT(state != active) is the caller's duty (re-proved at the call sites suspend / yield) */
__CPROVER_requires(TS_STATE(g_td.current_state_) == S_ACTIVE && WINV(g_td.current_state_) && TS_TAG(g_td.current_state_) <= TAG_BIG - 2 && REAL_STATE(state) && state != S_ACTIVE)
/* the worker is handed exactly the requested state (and no next thread), at most once, and only after the last worker was recorded
 * (order predicate asserted in the stub) */
__CPROVER_ensures(g_co_yields <= 1 && (g_co_yields == 1 ==> (g_y_state == state && g_y_next_invalid)))
/* a normal return means the task really was handed over and re-activated, and reports the restart state it was woken with */
__CPROVER_ensures(!vx_exc ==> (g_co_yields == 1 && __CPROVER_return_value == g_y_delivered && g_y_delivered != thread_restart_state_abort))
/* exceptions: not a pika thread (nothing happened), interruption, or woken with `abort` */
__CPROVER_ensures(self->self_.id == VX_INVALID_ID ==> (vx_exc && g_thrown_code == pika_error_null_thread_id && g_co_yields == 0 && g_lw_sets == 0))
__CPROVER_ensures(vx_exc ==> (g_thrown_code == pika_error_null_thread_id || g_thrown_code == VX_ERR_INTERRUPTED || (g_thrown_code == pika_error_yield_aborted && g_co_yields == 1 && g_y_delivered == thread_restart_state_abort)))
__CPROVER_ensures(!lin)
__CPROVER_assigns(GHOST_FRAME, g_td.last_worker_thread_num_, g_lw_sets, g_ipoints, g_co_yields, g_y_state, g_y_next_invalid, g_y_delivered, g_local_worker)
//@LIFT body
#endif

#ifdef U_ENTRY
/* T stubs of the two private members */
static long g_dr_calls, g_dy_calls; static thread_restart_state g_dr_statex; static thread_schedule_state g_dy_state;
static void do_resume(struct execution_agent *self, char const *desc, thread_restart_state statex) { if (g_dr_calls < 2) g_dr_calls++; g_dr_statex = statex; }
static thread_restart_state do_yield(struct execution_agent *self, char const *desc, thread_schedule_state state)
{
  VX_ASSERT(state != S_ACTIVE, "PIKA_ASSERT(state != active) of do_yield: caller's duty");
  if (g_dy_calls < 2) g_dy_calls++; g_dy_state = state; return nondet_i8();
}
#define ENTRY_PRE (g_dr_calls == 0 && g_dy_calls == 0)
#define ENTRY_FRAME g_dr_calls, g_dy_calls, g_dr_statex, g_dy_state
#ifdef U_E_RESUME
//@FUNC
void agent_resume(struct execution_agent *self, char const *desc)
__CPROVER_requires(ENTRY_PRE)
__CPROVER_ensures(g_dr_calls == 1 && g_dr_statex == thread_restart_state_signaled && g_dy_calls == 0)
__CPROVER_assigns(ENTRY_FRAME)
//@LIFT resume
#endif
#ifdef U_E_ABORT
//@FUNC
void agent_abort(struct execution_agent *self, char const *desc)
__CPROVER_requires(ENTRY_PRE)
__CPROVER_ensures(g_dr_calls == 1 && g_dr_statex == thread_restart_state_abort && g_dy_calls == 0)
__CPROVER_assigns(ENTRY_FRAME)
//@LIFT abort
#endif
#ifdef U_E_SUSPEND
//@FUNC
void agent_suspend(struct execution_agent *self, char const *desc)
__CPROVER_requires(ENTRY_PRE)
__CPROVER_ensures(g_dy_calls == 1 && g_dy_state == S_SUSPENDED && g_dr_calls == 0)
__CPROVER_assigns(ENTRY_FRAME)
//@LIFT suspend
#endif
#ifdef U_E_YIELD
//@FUNC
void agent_yield(struct execution_agent *self, char const *desc)
__CPROVER_requires(ENTRY_PRE)
__CPROVER_ensures(g_dy_calls == 1 && g_dy_state == S_PENDING && g_dr_calls == 0)
__CPROVER_assigns(ENTRY_FRAME)
//@LIFT yield
#endif
#endif

void harness(void)
{
  ghost_init();
  g_reissue = 0; g_co_yields = 0; g_lw_sets = 0; g_ipoints = 0; g_y_delivered = 0; g_y_state = 0; g_y_next_invalid = false;
  g_r_thrd_is_T = g_r_retry = g_r_ec_nothrow = false; g_r_state = 0; g_r_ex = 0; g_r_prio = 0; g_r_hint = hint_make0();
  g_td.current_state_.st = nondet_i8();
  g_td.current_state_.ex = nondet_i8();
  g_td.current_state_.tg = nondet_i64();
  g_td.last_worker_thread_num_ = nondet_size(); g_global_worker = nondet_size();
  g_td.scheduler_base_ = &g_sched_obj;
  g_td.priority_ = nondet_i8();
  g_local_worker = nondet_size();
  vx_throws.value = 0; vx_throws.mode = 0; vx_ec_obj.value = 0; vx_ec_obj.mode = 0;
  struct execution_agent ag;
  ag.self_.id = &g_td;
#ifdef U_DO_RESUME
  thread_restart_state sx = nondet_i8();
  do_resume(&ag, "desc", sx);
  if (sx == thread_restart_state_signaled) VX_REACH("resume_signaled");
  if (sx == thread_restart_state_abort) VX_REACH("resume_abort");
#endif
#ifdef U_DO_YIELD
  if (nondet_bool()) ag.self_.id = VX_INVALID_ID;
  thread_schedule_state st = nondet_i8();
  int64_t tag0 = g_td.current_state_.tg;
  thread_restart_state r = do_yield(&ag, "desc", st);
  if (!vx_exc && st == S_SUSPENDED) VX_REACH("suspended_and_resumed");
  if (!vx_exc && st == S_PENDING) VX_REACH("yielded_and_resumed");
  if (!vx_exc && r == thread_restart_state_timeout) VX_REACH("woken_by_timeout");
  if (vx_exc && g_thrown_code == pika_error_yield_aborted) VX_REACH("woken_with_abort_throws");
  if (vx_exc && g_thrown_code == VX_ERR_INTERRUPTED && g_co_yields == 0) VX_REACH("interrupted_before_yield");
  if (vx_exc && g_thrown_code == VX_ERR_INTERRUPTED && g_co_yields == 1) VX_REACH("interrupted_after_resume");
  if (vx_exc && g_thrown_code == pika_error_null_thread_id) VX_REACH("not_a_pika_thread");
#endif
#ifdef U_ENTRY
  g_dr_calls = 0; g_dy_calls = 0; g_dr_statex = 0; g_dy_state = 0;
#ifdef U_E_RESUME
  agent_resume(&ag, "d");
#endif
#ifdef U_E_ABORT
  agent_abort(&ag, "d");
#endif
#ifdef U_E_SUSPEND
  agent_suspend(&ag, "d");
#endif
#ifdef U_E_YIELD
  agent_yield(&ag, "d");
#endif
  VX_REACH("returned");
#endif
}
