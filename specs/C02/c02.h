/* C02 -- no lost wake-up: types, ghost state and environment stubs shared by the units
 *   set_thread_state / set_active_state (threading_base/src/set_thread_state.cpp)
 *   execution_agent::do_resume / do_yield / resume / abort / suspend / yield (threading_base/src/execution_agent.cpp)
 *   lemma L2 (lemma.c)
 *
 * Object model.  ONE symbolic pika thread T (the target of the wake-up) is represented: struct thread_data with
 *   current_state_            the thread state word  std::atomic<thread_state>; thread_state is modelled as a small struct
 *                             (schedule state, restart state ex, tag) with the accessors of combined_tagged_state
 *                             (state(), state_ex(), tag() -> ts_state / ts_state_ex / ts_tag).  Bit packing is C01's subject.
 *   last_worker_thread_num_   std::atomic<std::size_t>
 *   scheduler_base_, priority_  immutable after construction
 * A thread id (thread_id_type / thread_id_ref_type) is a pointer to that object or NULL (invalid_thread_id).
 *
 * The word is shared: before every atomic access the environment may replace it by any word allowed by the rely
 * (S contract, DESIGN 3.3).  Scheduler entry points, create_work and the coroutine switch are T stubs (ghost counters,
 * recorded arguments, order predicates).
 */
#ifndef C02_H
#define C02_H
#include "vx.h"

/* ---- enums (coroutines/thread_enums.hpp): all std::int8_t ---- */
typedef int8_t thread_schedule_state;
enum { thread_schedule_state_unknown = 0, thread_schedule_state_active = 1, thread_schedule_state_pending = 2,
       thread_schedule_state_suspended = 3, thread_schedule_state_terminated = 4, thread_schedule_state_staged = 5,
       thread_schedule_state_pending_do_not_schedule = 6, thread_schedule_state_pending_boost = 7 };
typedef int8_t thread_restart_state;
enum { thread_restart_state_unknown = 0, thread_restart_state_signaled = 1, thread_restart_state_timeout = 2,
       thread_restart_state_terminate = 3, thread_restart_state_abort = 4 };
typedef int8_t thread_priority;
enum { thread_priority_unknown = -1, thread_priority_default_ = 0, thread_priority_low = 1, thread_priority_normal = 2,
       thread_priority_high_recursive = 3, thread_priority_boost = 4, thread_priority_high = 5, thread_priority_bound = 6 };
typedef int8_t thread_schedule_hint_mode;
enum { thread_schedule_hint_mode_none = 0, thread_schedule_hint_mode_thread = 1, thread_schedule_hint_mode_numa = 2 };
enum { thread_stacksize_nostack = 5 };
enum { throwmode_plain = 0, throwmode_lightweight = 2 };

/* ---- execution::thread_schedule_hint ---- */
struct thread_schedule_hint { int16_t hint; thread_schedule_hint_mode mode; };
/* thread_schedule_hint{} / thread_schedule_hint{std::int16_t} (the two constructors used by the lifted text) */
static struct thread_schedule_hint hint_make0(void) { struct thread_schedule_hint h; h.hint = -1; h.mode = thread_schedule_hint_mode_none; return h; }
static struct thread_schedule_hint hint_make1(int16_t t) { struct thread_schedule_hint h; h.hint = t; h.mode = thread_schedule_hint_mode_thread; return h; }
#define HINT_EQ(a, b) ((a).hint == (b).hint && (a).mode == (b).mode)

/* ---- thread_state = combined_tagged_state<thread_schedule_state, thread_restart_state> ---- */
typedef struct thread_state_s { thread_schedule_state st; thread_restart_state ex; int64_t tg; } thread_state;
#define TS_STATE(s) ((s).st)
#define TS_EX(s) ((s).ex)
#define TS_TAG(s) ((s).tg)
#define TS_EQ(a, b) ((a).st == (b).st && (a).ex == (b).ex && (a).tg == (b).tg)
static thread_schedule_state ts_state(thread_state s) { return s.st; }     /* .state()    */
static thread_restart_state ts_state_ex(thread_state s) { return s.ex; }   /* .state_ex() */
static int64_t ts_tag(thread_state s) { return s.tg; }                     /* .tag()      */
static bool ts_eq(thread_state a, thread_state b) { return TS_EQ(a, b); }  /* operator==  */
static thread_state ts_make0(void) { thread_state s; s.st = 0; s.ex = 0; s.tg = 0; return s; }   /* thread_state() */
static thread_state ts_make2(thread_schedule_state a, thread_restart_state b) { thread_state s; s.st = a; s.ex = b; s.tg = 0; return s; }
static thread_state ts_make3(thread_schedule_state a, thread_restart_state b, int64_t t) { thread_state s; s.st = a; s.ex = b; s.tg = t; return s; }

/* ---- the thread object ---- */
struct scheduler_base { int unused; };
typedef struct thread_data {
  thread_state current_state_;
  size_t last_worker_thread_num_;
  struct scheduler_base *scheduler_base_;
  thread_priority priority_;
} thread_data;
typedef thread_data *thread_id_type;
typedef thread_data *thread_id_ref_type;
#define VX_INVALID_ID ((thread_data *) 0)
static thread_data g_td;                  /* the thread T */
static struct scheduler_base g_sched_obj; /* its scheduler */
static thread_data *get_thread_id_data(thread_data *id) { return id; }
static long g_refs;                       /* thread_id_ref_type copies taken (keep-alive references; saturating) */
static thread_data *tid_ref(thread_data *id) { if (g_refs < 2) g_refs++; return id; }
static thread_data *tid_noref(thread_data *id) { return id; }

#define S_ACTIVE thread_schedule_state_active
#define S_PENDING thread_schedule_state_pending
#define S_SUSPENDED thread_schedule_state_suspended
#define S_TERMINATED thread_schedule_state_terminated
#define S_BOOST thread_schedule_state_pending_boost
/* states a thread's word ever holds (the authors' PIKA_ASSERT in the `default:` branch of set_thread_state) */
#define REAL_STATE(s) ((s) == S_ACTIVE || (s) == S_PENDING || (s) == S_SUSPENDED || (s) == S_TERMINATED || (s) == S_BOOST)
#define PENDINGISH(s) ((s) == S_PENDING || (s) == S_BOOST)
#define WAKE(s) PENDINGISH(s)            /* a wake-up request */
#define REAL_EX(e) ((e) >= thread_restart_state_unknown && (e) <= thread_restart_state_abort)
/* A-TAG: fewer than 2^47 state changes of one thread object (the tag field has 48 bits; C01) */
#define TAG_BIG ((int64_t) 1 << 47)
#define WINV(w) (REAL_STATE((w).st) && REAL_EX((w).ex) && (w).tg >= 0 && (w).tg <= TAG_BIG)
/* rely: what everybody else (the worker running T, other wakers, helpers) may do to the word between two of our
 * accesses.  ABA rule of thread_data::set_state / set_state_tagged / restore_state: the tag never decreases and every
 * change of the schedule state bumps it; state_ex may change without a bump (set_state_ex).  A terminated thread
 * stays terminated (the object is recycled only after the last reference is gone; we hold one). */
#define RELY_WAKER(o, n) (WINV(n) && (n).tg >= (o).tg && ((n).tg == (o).tg ? (n).st == (o).st : 1) && ((o).st == S_TERMINATED ? (n).st == S_TERMINATED : 1))
/* rely of the task T itself while it runs: an active word belongs to its runner (C01-L1: no other unit steps on an
 * active word; the worker delivers state_ex before the task's code starts) */
#define RELY_RUNNER(o, n) ((o).st == S_ACTIVE ? TS_EQ(n, o) : RELY_WAKER(o, n))
#ifndef RELY
#define RELY(o, n) RELY_WAKER(o, n)
#endif
/* guarantee of set_thread_state's own step: never on an active or terminated word (an active word belongs to its
 * runner: C01-L1), to exactly the requested (state, ex), tag + 1 */
#define GUAR(o, n, ns, nx) (((o).st == S_PENDING || (o).st == S_BOOST || (o).st == S_SUSPENDED) && (n).st == (ns) && (n).ex == (nx) && (n).tg == (o).tg + 1)

/* ---- linearisation ghost for T's word ---- */
static bool lin;                          /* our own successful CAS */
static thread_state lin_old, lin_new;
static thread_state g_last_read;          /* last value of the word this call obtained by a load */
static long g_reads;                      /* loads (saturating at 2) */
static bool g_stale;                      /* a CAS failed after the last load: g_last_read is known to be outdated */
static long g_cas_failed;                 /* failed CAS attempts (saturating at 2) */
static bool g_interfered;
static thread_schedule_state g_req_state; /* the request of the call under verification (for the guarantee check) */
static thread_restart_state g_req_ex;

static void interfere(thread_state *p)
{
  if (nondet_bool())
  {
    thread_state n;
    n.st = nondet_i8();
    n.ex = nondet_i8();
    n.tg = nondet_i64();
    VX_ASSUME(RELY(*p, n)); /* environment step(s) between two accesses: the rely (reflexive, transitive: lemma.c) */
    if (!TS_EQ(n, *p)) g_interfered = true;
    *p = n;
  }
}
/* std::atomic<thread_state>::load */
static thread_state atomic_load_ts(thread_state *p)
{
  interfere(p);
  g_last_read = *p;
  g_stale = false;
  if (g_reads < 2) g_reads++;
  return *p;
}
/* std::atomic<thread_state>::compare_exchange_strong */
static bool atomic_cas_strong_ts(thread_state *p, thread_state *expected, thread_state desired)
{
  interfere(p);
  if (TS_EQ(*p, *expected))
  {
    VX_ASSERT(!lin, "at most one successful step on the state word per call");
    lin_old = *p;
    *p = desired;
    lin_new = desired;
    lin = true;
    VX_ASSERT(GUAR(lin_old, lin_new, g_req_state, g_req_ex),
              "guarantee: own step only from pending/pending_boost/suspended (never on an active or terminated word), to the requested (state, ex), tag + 1");
    return true;
  }
  *expected = *p;
  g_stale = true;
  if (g_cas_failed < 2) g_cas_failed++;
  return false;
}

/* thread_data member functions that are LIFTED from thread_data.hpp (bodies spliced into the templates) */
static thread_state thread_data_get_state(thread_data *self);
static bool thread_data_restore_state(thread_data *self, thread_schedule_state new_state, thread_restart_state state_ex, thread_state old_state);
/* trivial getters of immutable fields */
static struct scheduler_base *thread_data_get_scheduler_base(thread_data *self) { return self->scheduler_base_; }
static thread_priority thread_data_get_priority(thread_data *self) { return self->priority_; }
/* last_worker_thread_num_.load(relaxed): the environment (the worker running T) may have stored a new number */
static size_t g_lw_read; static long g_lw_reads;
static size_t thread_data_get_last_worker_thread_num(thread_data *self)
{
  if (nondet_bool()) self->last_worker_thread_num_ = nondet_size();
  g_lw_read = self->last_worker_thread_num_;
  if (g_lw_reads < 2) g_lw_reads++;
  return g_lw_read;
}

/* ---- pika::error / error_code / throws (same lowering as specs/C19) ---- */
typedef int pika_error;
enum { pika_error_success = 0, pika_error_bad_parameter = 5, pika_error_null_thread_id = 12, pika_error_yield_aborted = 14,
       VX_ERR_CALLEE = 1000, VX_ERR_INTERRUPTED = 1001 };
struct error_code { pika_error value; int mode; };
static struct error_code vx_throws;       /* pika::throws: the sentinel that selects "throw" */
static struct error_code vx_ec_obj;       /* a caller-provided error_code object */
static bool vx_exc;                       /* an exception is propagating out of the function under contract */
static pika_error g_thrown_code;
static long g_errs;                       /* PIKA_THROWS_IF / PIKA_THROW_EXCEPTION executed (saturating at 2) */
static pika_error g_err;                  /* the last error code reported */
static void vx_throw_exception(pika_error errcode) { vx_exc = true; g_thrown_code = errcode; }
static struct error_code make_error_code(pika_error e) { struct error_code c; c.value = e; c.mode = 0; return c; }
static struct error_code make_success_code(void) { struct error_code c; c.value = pika_error_success; c.mode = 0; return c; }
static struct error_code error_code_make(int mode) { struct error_code c; c.value = pika_error_success; c.mode = mode; return c; }
static void throws_if(struct error_code *ec, pika_error errcode);   /* LIFTED: errors/src/throw_exception.cpp */
static void vx_throws_if(struct error_code *ec, pika_error errcode)
{
  if (g_errs < 2) g_errs++;
  g_err = errcode;
  throws_if(ec, errcode);
}
/* PIKA_THROW_EXCEPTION(code, ...): always throws */
static void vx_throw(pika_error errcode)
{
  if (g_errs < 2) g_errs++;
  g_err = errcode;
  vx_throw_exception(errcode);
}
#define ERROR_VISIBLE(ec) ((ec) == &vx_throws ? (vx_exc && g_thrown_code == g_err) : (!vx_exc && (ec)->value == g_err))

/* ---- T stubs: scheduler_base::schedule_thread / do_some_work ---- */
static long g_sched;                      /* schedule_thread calls (saturating at 2) */
static bool g_s_thrd_is_T, g_s_on_ok; static struct thread_schedule_hint g_s_hint; static bool g_s_fallback; static thread_priority g_s_prio;
static long g_dsw;                        /* do_some_work calls (saturating at 2) */
static int16_t g_d_hint; static bool g_d_on_ok;
static void sched_schedule_thread(struct scheduler_base *s, thread_data *thrd, struct thread_schedule_hint hint, bool allow_fallback, thread_priority prio)
{
  VX_ASSERT(lin && PENDINGISH(TS_STATE(lin_new)), "schedule_thread only after the own CAS published a pending state");
  VX_ASSERT(!vx_exc, "no scheduling while an exception is in flight");
  VX_ASSERT(!allow_fallback, "a woken task is placed with allow_fallback == false: select_active_pu then searches until it holds the PU mutex of an awake worker; with fallback one failed try_lock pass returns the hinted worker even if it is asleep (the task is then stuck on a sleeping worker's queue)");
  if (g_sched < 2) g_sched++;
  g_s_on_ok = (s == g_td.scheduler_base_); g_s_thrd_is_T = (thrd == &g_td); g_s_hint = hint; g_s_fallback = allow_fallback; g_s_prio = prio;
}
static void sched_do_some_work(struct scheduler_base *s, int16_t hint)
{
  VX_ASSERT(g_sched >= 1, "do_some_work follows schedule_thread");
  if (g_dsw < 2) g_dsw++;
  g_d_on_ok = (s == g_td.scheduler_base_); g_d_hint = hint;
}
static long g_yields;                     /* yield_k calls of the retry loop (saturating at 2) */
static void vx_yield_k(size_t k) { if (g_yields < 2) g_yields++; }

/* ---- thread function result, bound helper function, thread_init_data, T stub create_work ---- */
typedef struct thread_result { thread_schedule_state first; thread_data *second; } thread_result_type;
static thread_result_type result_make(thread_schedule_state s, thread_data *next) { thread_result_type r; r.first = s; r.second = next; return r; }
thread_result_type set_active_state(thread_id_ref_type thrd, thread_schedule_state newstate, thread_restart_state newstate_ex,
                                    thread_priority priority, thread_state previous_state);
typedef thread_result_type (*helper_fn)(thread_id_ref_type, thread_schedule_state, thread_restart_state, thread_priority, thread_state);
/* util::detail::bind(&set_active_state, id, state, ex, priority, previous word): the bound arguments, by value */
struct bound_fn { helper_fn fn; thread_data *a0; thread_schedule_state a1; thread_restart_state a2; thread_priority a3; thread_state a4; };
static struct bound_fn vx_bind(helper_fn fn, thread_data *a0, thread_schedule_state a1, thread_restart_state a2, thread_priority a3, thread_state a4)
{ struct bound_fn b; b.fn = fn; b.a0 = a0; b.a1 = a1; b.a2 = a2; b.a3 = a3; b.a4 = a4; return b; }
/* thread_init_data(f, desc, priority, hint, stacksize): initial_state defaults to pending, run_now to false
 * (thread_init_data.hpp:104-110) */
struct thread_init_data { struct bound_fn func; thread_priority priority; struct thread_schedule_hint schedulehint; int stacksize;
                          thread_schedule_state initial_state; };
static struct thread_init_data thread_init_data_make(struct bound_fn f, const char *desc, thread_priority p, struct thread_schedule_hint h, int stacksize)
{ struct thread_init_data d; d.func = f; d.priority = p; d.schedulehint = h; d.stacksize = stacksize; d.initial_state = thread_schedule_state_pending; return d; }

static long g_helpers;                    /* helper tasks created (saturating at 2) */
static long g_cw_calls;                   /* create_work calls (saturating at 2) */
static bool g_h_fn_ok, g_h_thrd_is_T, g_h_on_ok, g_h_runnable, g_h_ec_ok;
static thread_schedule_state g_h_state; static thread_restart_state g_h_ex; static thread_priority g_h_prio; static thread_state g_h_prev;
static thread_priority g_h_task_prio;
static struct error_code *g_cw_ec_expect; /* the error_code the call under verification was given */
/* threads::detail::create_work(scheduler, data, ec): creates a new task that will run data.func.  It can fail only by
 * an exception (allocation; its parameter checks cannot fire for a default initial_state): then nothing was created. */
static void create_work(struct scheduler_base *s, struct thread_init_data *d, struct error_code *ec)
{
  VX_ASSERT(!vx_exc, "no task creation while an exception is in flight");
  if (g_cw_calls < 2) g_cw_calls++;
  if (nondet_bool()) { vx_throw_exception(VX_ERR_CALLEE); return; }
  if (g_helpers < 2) g_helpers++;
  g_h_fn_ok = (d->func.fn == &set_active_state);
  g_h_thrd_is_T = (d->func.a0 == &g_td);
  g_h_state = d->func.a1; g_h_ex = d->func.a2; g_h_prio = d->func.a3; g_h_prev = d->func.a4;
  g_h_on_ok = (s == g_td.scheduler_base_);
  g_h_runnable = PENDINGISH(d->initial_state);
  g_h_task_prio = d->priority;
  g_h_ec_ok = (ec == g_cw_ec_expect);
}

/* ---- outcomes of a wake-up request, as predicates over the ghost record (used by the contracts AND by lemma L2) ---- */
#define NO_CALLS (g_helpers == 0 && g_sched == 0 && g_dsw == 0)
/* (a) the word was seen already in the requested state: nothing to do */
#define OUT_SAME(ns) (!lin && !g_stale && TS_STATE(g_last_read) == (ns) && NO_CALLS)
/* (b) the word was seen `active` and retry_on_active: exactly one runnable helper carrying the request and the observed word */
#define HELPER_CARRIES(ns, nx, prio, prev) (g_h_fn_ok && g_h_thrd_is_T && g_h_on_ok && g_h_runnable && g_h_state == (ns) && g_h_ex == (nx) && g_h_prio == (prio) && TS_EQ(g_h_prev, prev))
#define OUT_HELPER(ns, nx, prio, retry) (!lin && !g_stale && TS_STATE(g_last_read) == S_ACTIVE && (retry) && g_helpers == 1 && g_sched == 0 && g_dsw == 0 && HELPER_CARRIES(ns, nx, prio, g_last_read))
/* (c) the word was seen `terminated`: nothing */
#define OUT_TERMINATED (!lin && !g_stale && TS_STATE(g_last_read) == S_TERMINATED && NO_CALLS)
/* (d) own CAS suspended -> requested state succeeded: T scheduled exactly once with the caller's hint, then do_some_work */
#define OUT_SCHEDULED(ns, nx, hnt) (lin && TS_STATE(lin_old) == S_SUSPENDED && TS_STATE(lin_new) == (ns) && TS_EX(lin_new) == (nx) && TS_TAG(lin_new) == TS_TAG(lin_old) + 1 && \
                                    g_helpers == 0 && g_sched == 1 && g_s_thrd_is_T && g_s_on_ok && HINT_EQ(g_s_hint, hnt) && g_dsw == 1 && g_d_on_ok && g_d_hint == (hnt).hint)
/* (a') the word was pending / pending_boost (T already queued) but not the requested one of the two: relabelled by the own
 * CAS, NOT scheduled a second time */
#define OUT_RELABEL(ns, nx) (lin && PENDINGISH(TS_STATE(lin_old)) && TS_STATE(lin_new) == (ns) && TS_EX(lin_new) == (nx) && TS_TAG(lin_new) == TS_TAG(lin_old) + 1 && NO_CALLS)
/* create_work threw: the waker is told by the exception; no helper, no step */
#define OUT_CALLEE_THREW(retry) (vx_exc && g_thrown_code == VX_ERR_CALLEE && !lin && !g_stale && TS_STATE(g_last_read) == S_ACTIVE && (retry) && NO_CALLS)
#define OUT_WAKE(ns, nx, prio, hnt, retry) (OUT_SAME(ns) || OUT_HELPER(ns, nx, prio, retry) || OUT_TERMINATED || OUT_SCHEDULED(ns, nx, hnt) || OUT_RELABEL(ns, nx))
/* set_active_state's abort condition */
#define ABORT_COND(cur, prev) (TS_STATE(cur) == TS_STATE(prev) && !TS_EQ(cur, prev))
/* ---- ghost frame ---- */
#define GHOST_ZERO (!lin && !g_stale && g_reads == 0 && g_cas_failed == 0 && g_helpers == 0 && g_cw_calls == 0 && g_sched == 0 && g_dsw == 0 && \
                    g_errs == 0 && !vx_exc && g_yields == 0 && g_refs == 0 && g_lw_reads == 0)
#define GHOST_FRAME lin, lin_old, lin_new, g_last_read, g_reads, g_stale, g_cas_failed, g_interfered, g_helpers, g_cw_calls, g_h_fn_ok, g_h_thrd_is_T, \
                    g_h_on_ok, g_h_runnable, g_h_ec_ok, g_h_state, g_h_ex, g_h_prio, g_h_prev, g_h_task_prio, g_sched, g_s_thrd_is_T, g_s_on_ok, g_s_hint, \
                    g_s_fallback, g_s_prio, g_dsw, g_d_hint, g_d_on_ok, g_errs, g_err, vx_exc, g_thrown_code, vx_ec_obj, g_yields, g_refs, \
                    g_td.current_state_
static void ghost_init(void)
{
  lin = false; g_stale = false; g_reads = 0; g_cas_failed = 0; g_interfered = false;
  g_helpers = 0; g_cw_calls = 0; g_sched = 0; g_dsw = 0; g_errs = 0; g_err = 0; vx_exc = false; g_thrown_code = 0;
  g_yields = 0; g_refs = 0; g_lw_reads = 0; g_lw_read = 0;
  g_h_fn_ok = g_h_thrd_is_T = g_h_on_ok = g_h_runnable = g_h_ec_ok = false;
  g_s_thrd_is_T = g_s_on_ok = g_d_on_ok = g_s_fallback = false;
  g_h_state = 0; g_h_ex = 0; g_h_prio = 0; g_h_task_prio = 0; g_s_prio = 0; g_d_hint = 0;
  g_h_prev = ts_make0(); lin_old = ts_make0(); lin_new = ts_make0(); g_last_read = ts_make0();
  g_s_hint = hint_make0();
}

#endif
