/* C02 (timed wake-ups) -- types, ghost state and environment stubs shared by the timed.* units
 *   set_thread_state_timed / at_timer / wake_timer_thread   (threading_base/src/set_thread_state_timed.cpp)
 *   set_thread_state(id, state, ...) / set_thread_state(id, abs_time, started, ...) forwarders and
 *   this_thread::suspend(abs_time, ...)                      (threading_base/src/thread_helpers.cpp)
 *   execution_agent::yield_k / sleep_for / sleep_until        (threading_base/src/execution_agent.cpp)
 *
 * Cast.  Three pika threads are represented by three thread objects (a thread id is a pointer to one of them or NULL):
 *   g_td        T, the TARGET of the timed wake-up (the task that suspends with a deadline)            -- from c02.h
 *   g_timer_td  the TIMER task running at_timer(): the id returned by set_thread_state_timed; the id a waiter that was
 *               woken early has to cancel; the id wake_timer_thread re-awakens when the deadline timer fires
 *   g_wake_td   the WAKER task running wake_timer_thread(), created SUSPENDED by at_timer
 *   g_next_td   an unrelated `nextid` handed to this_thread::suspend
 * All callees are T stubs (DESIGN 3.3): they count, record their arguments and assert order predicates.
 */
#ifndef C02_TIMED_H
#define C02_TIMED_H
#include "c02.h"

enum { pika_error_invalid_status = 4 };                /* errors/error.hpp (census fact timed.enum.error) */
enum { thread_stacksize_small_ = 1 };                  /* coroutines/thread_enums.hpp */

static thread_data g_timer_td, g_wake_td, g_next_td;
static struct scheduler_base g_sched_other;            /* the scheduler of a foreign `nextid` */

/* ---- pika::chrono::steady_time_point: an opaque instant (a long) ---- */
struct steady_time_point { long v; };
static long tp_value(struct steady_time_point t) { return t.v; }     /* .value() */

/* ---- std::atomic<bool> shared between two tasks.  Every access is preceded by the environment's step, which is
 *      restricted by the flag's rely TIMED_FLAG_RELY (default: the flag only ever goes false -> true). ---- */
struct atomic_flag_s { bool v; };
static struct atomic_flag_s atomic_flag_make(bool b) { struct atomic_flag_s f; f.v = b; return f; }
static long g_flag_loads;                 /* loads of the flag by the call under verification (saturating at 2) */
static bool g_flag_seen;                  /* the value the last load returned */
static bool g_flag_env_set;               /* the environment stored `true` */
static bool atomic_flag_load(struct atomic_flag_s *p)
{
  /* environment step: the other task (at_timer for `triggered`, the timer task for `started`) may have stored true */
  if (nondet_bool()) { if (!p->v) g_flag_env_set = true; p->v = true; }
  g_flag_seen = p->v;
  if (g_flag_loads < 2) g_flag_loads++;
  return p->v;
}
static long g_flag_stores;                /* stores by the call under verification (saturating at 2) */
static void atomic_flag_store(struct atomic_flag_s *p, bool b) { p->v = b; if (g_flag_stores < 2) g_flag_stores++; }
/* std::shared_ptr<std::atomic<bool>>: ONE heap flag (make_shared called at most once per unit) */
static struct atomic_flag_s g_shared_flag;
static long g_shared_made;                /* make_shared calls (saturating at 2) */
static bool g_shared_init;                /* the initial value given to make_shared */
static struct atomic_flag_s *make_shared_flag(bool b)
{
  if (g_shared_made < 2) g_shared_made++;
  g_shared_init = b;
  g_shared_flag.v = b;
  return &g_shared_flag;
}

/* ---- the thread function types and the bound closures handed to thread_init_data ---- */
thread_result_type at_timer(struct scheduler_base *scheduler, long abs_time, thread_id_ref_type thrd, thread_schedule_state newstate,
                            thread_restart_state newstate_ex, thread_priority priority, struct atomic_flag_s *started, bool retry_on_active);
thread_result_type wake_timer_thread(thread_id_ref_type thrd, thread_schedule_state newstate, thread_restart_state newstate_ex,
                                     thread_priority priority, thread_id_type timer_id, struct atomic_flag_s *triggered, bool retry_on_active,
                                     thread_restart_state my_statex);
typedef thread_result_type (*at_timer_fn)(struct scheduler_base *, long, thread_id_ref_type, thread_schedule_state, thread_restart_state,
                                          thread_priority, struct atomic_flag_s *, bool);
typedef thread_result_type (*wake_timer_fn)(thread_id_ref_type, thread_schedule_state, thread_restart_state, thread_priority, thread_id_type,
                                            struct atomic_flag_s *, bool, thread_restart_state);
/* the closure: which function, and the bound arguments by value (util::detail::bind / bind_front copy their arguments) */
struct timed_closure
{
  int kind;                               /* 1: bind(&at_timer, ...)   2: bind_front(&wake_timer_thread, ...) */
  bool fn_ok;                             /* the bound function is the expected one */
  struct scheduler_base *scheduler; long abs_time; thread_data *thrd; thread_schedule_state newstate; thread_restart_state newstate_ex;
  thread_priority priority; struct atomic_flag_s *flag; bool retry_on_active; thread_data *timer_id;
};
/* util::detail::bind(&at_timer, scheduler, abs_time, thrd, newstate, newstate_ex, priority, started, retry_on_active) */
static struct timed_closure timed_bind(at_timer_fn fn, struct scheduler_base *scheduler, long abs_time, thread_data *thrd, thread_schedule_state newstate,
                                       thread_restart_state newstate_ex, thread_priority priority, struct atomic_flag_s *started, bool retry_on_active)
{
  struct timed_closure c;
  c.kind = 1; c.fn_ok = (fn == &at_timer); c.scheduler = scheduler; c.abs_time = abs_time; c.thrd = thrd; c.newstate = newstate; c.newstate_ex = newstate_ex;
  c.priority = priority; c.flag = started; c.retry_on_active = retry_on_active; c.timer_id = VX_INVALID_ID;
  return c;
}
/* util::detail::bind_front(&wake_timer_thread, thrd, newstate, newstate_ex, priority, timer_id, triggered, retry_on_active) */
static struct timed_closure timed_bind_front(wake_timer_fn fn, thread_data *thrd, thread_schedule_state newstate, thread_restart_state newstate_ex,
                                             thread_priority priority, thread_data *timer_id, struct atomic_flag_s *triggered, bool retry_on_active)
{
  struct timed_closure c;
  c.kind = 2; c.fn_ok = (fn == &wake_timer_thread); c.scheduler = 0; c.abs_time = 0; c.thrd = thrd; c.newstate = newstate; c.newstate_ex = newstate_ex;
  c.priority = priority; c.flag = triggered; c.retry_on_active = retry_on_active; c.timer_id = timer_id;
  return c;
}
/* thread_init_data(f, desc, priority, hint, stacksize, initial_state, run_now) (thread_init_data.hpp:104-110) */
struct timed_init_data { struct timed_closure func; thread_priority priority; struct thread_schedule_hint schedulehint; int stacksize;
                         thread_schedule_state initial_state; bool run_now; };
static struct timed_init_data timed_init_data_make(struct timed_closure f, const char *desc, thread_priority p, struct thread_schedule_hint h, int stacksize,
                                                   thread_schedule_state initial_state, bool run_now)
{ struct timed_init_data d; d.func = f; d.priority = p; d.schedulehint = h; d.stacksize = stacksize; d.initial_state = initial_state; d.run_now = run_now; return d; }

/* ---- T stub: threads::detail::create_thread(scheduler, data, id, ec) ----
 * Creates a new task that will run data.func and stores its id through `id`.  It fails by an exception (allocation) or
 * -- with a caller-provided error_code -- by setting it; then nothing was created and `id` is untouched. */
static thread_data *g_ct_new;             /* the thread object the next successful create_thread hands out */
static long g_ct_calls;                   /* create_thread calls (saturating at 2) */
static long g_ct_made;                    /* tasks created (saturating at 2) */
static struct timed_closure g_ct_fn;      /* the closure of the last created task */
static bool g_ct_on_ok;                   /* ... created on the scheduler recorded in g_ct_sched_expect */
static struct scheduler_base *g_ct_sched_expect;
static thread_schedule_state g_ct_initial; static bool g_ct_run_now; static thread_priority g_ct_prio; static struct thread_schedule_hint g_ct_hint;
static bool g_ct_ec_ok; static struct error_code *g_ct_ec_expect;
static bool g_ct_flag_at_creation;        /* value of the closure's flag when the task was created */
static void create_thread(struct scheduler_base *s, struct timed_init_data *d, thread_data **id, struct error_code *ec)
{
  VX_ASSERT(!vx_exc, "no task creation while an exception is in flight");
  if (g_ct_calls < 2) g_ct_calls++;
  if (nondet_bool())
  {
    /* failure: through the error_code if the caller gave one, else by an exception */
    if (ec != &vx_throws && nondet_bool()) { *ec = make_error_code(VX_ERR_CALLEE); return; }
    vx_throw_exception(VX_ERR_CALLEE);
    return;
  }
  if (g_ct_made < 2) g_ct_made++;
  g_ct_fn = d->func;
  g_ct_on_ok = (s == g_ct_sched_expect);
  g_ct_initial = d->initial_state; g_ct_run_now = d->run_now; g_ct_prio = d->priority; g_ct_hint = d->schedulehint;
  g_ct_ec_ok = (ec == g_ct_ec_expect);
  g_ct_flag_at_creation = (d->func.flag != 0 && d->func.kind == 2) ? d->func.flag->v : false;
  if (ec != &vx_throws) *ec = make_success_code();
  *id = g_ct_new;
}
#define CT_FRAME g_ct_calls, g_ct_made, g_ct_fn, g_ct_on_ok, g_ct_initial, g_ct_run_now, g_ct_prio, g_ct_hint, g_ct_ec_ok, g_ct_flag_at_creation
static void ct_init(void)
{
  g_ct_calls = 0; g_ct_made = 0; g_ct_on_ok = false; g_ct_initial = 0; g_ct_run_now = false; g_ct_prio = 0; g_ct_hint = hint_make0(); g_ct_ec_ok = false;
  g_ct_flag_at_creation = false;
  g_ct_fn.kind = 0; g_ct_fn.fn_ok = false; g_ct_fn.scheduler = 0; g_ct_fn.abs_time = 0; g_ct_fn.thrd = 0; g_ct_fn.newstate = 0; g_ct_fn.newstate_ex = 0;
  g_ct_fn.priority = 0; g_ct_fn.flag = 0; g_ct_fn.retry_on_active = false; g_ct_fn.timer_id = 0;
}

/* ---- T stub: threads::detail::set_thread_state(id, state, ex, priority, hint, retry_on_active, ec) (set_thread_state.hpp; the body
 *      is the unit sts.set_thread_state).  Records the LAST request and counts per addressee. ---- */
static long g_q_calls;                    /* requests (saturating at 2) */
static thread_data *g_q_thrd; static thread_schedule_state g_q_state; static thread_restart_state g_q_ex; static thread_priority g_q_prio;
static struct thread_schedule_hint g_q_hint; static bool g_q_retry; static bool g_q_ec_nothrow;
static bool g_q_flag_at_request;          /* value of g_shared_flag when the request was issued */
static long g_q_flag_loads_at_request;
static thread_state set_thread_state(thread_id_type thrd, thread_schedule_state new_state, thread_restart_state new_state_ex,
                                     thread_priority priority, struct thread_schedule_hint schedulehint, bool retry_on_active, struct error_code *ec)
{
  VX_ASSERT(!vx_exc, "no request while an exception is in flight");
  if (g_q_calls < 2) g_q_calls++;
  g_q_thrd = thrd; g_q_state = new_state; g_q_ex = new_state_ex; g_q_prio = priority; g_q_hint = schedulehint; g_q_retry = retry_on_active;
  g_q_ec_nothrow = (ec != &vx_throws);
  g_q_flag_at_request = g_shared_flag.v; g_q_flag_loads_at_request = g_flag_loads;
  if (ec != &vx_throws) *ec = make_success_code();
  return ts_make0();
}
#define Q_FRAME g_q_calls, g_q_thrd, g_q_state, g_q_ex, g_q_prio, g_q_hint, g_q_retry, g_q_ec_nothrow, g_q_flag_at_request, g_q_flag_loads_at_request
static void q_init(void)
{
  g_q_calls = 0; g_q_thrd = 0; g_q_state = 0; g_q_ex = 0; g_q_prio = 0; g_q_hint = hint_make0(); g_q_retry = false; g_q_ec_nothrow = false;
  g_q_flag_at_request = false; g_q_flag_loads_at_request = 0;
}
#define FLAG_FRAME g_flag_loads, g_flag_seen, g_flag_env_set, g_flag_stores
static void flag_init(void) { g_flag_stores = 0; g_flag_loads = 0; g_flag_seen = false; g_flag_env_set = false; g_shared_made = 0; g_shared_init = false; g_shared_flag.v = false; }

/* error_code as a condition (`if (ec)`): true iff it holds an error */
static bool ec_bool(struct error_code *ec) { return ec->value != pika_error_success; }
/* frame of the exception / error lowering of c02.h */
#define EXC_FRAME g_errs, g_err, vx_exc, g_thrown_code, vx_ec_obj
static void exc_init(void) { g_errs = 0; g_err = 0; vx_exc = false; g_thrown_code = 0; vx_throws.value = 0; vx_throws.mode = 0; vx_ec_obj.mode = 0; }
#define EXC_ZERO (g_errs == 0 && !vx_exc)

static void timed_objects_init(void)
{
  g_td.scheduler_base_ = &g_sched_obj; g_timer_td.scheduler_base_ = &g_sched_obj; g_wake_td.scheduler_base_ = &g_sched_obj;
  g_td.priority_ = nondet_i8(); g_timer_td.priority_ = nondet_i8(); g_wake_td.priority_ = nondet_i8(); g_next_td.priority_ = nondet_i8();
  g_td.last_worker_thread_num_ = nondet_size(); g_timer_td.last_worker_thread_num_ = nondet_size(); g_wake_td.last_worker_thread_num_ = nondet_size();
  g_next_td.last_worker_thread_num_ = nondet_size();
  g_td.current_state_ = ts_make0(); g_timer_td.current_state_ = ts_make0(); g_wake_td.current_state_ = ts_make0(); g_next_td.current_state_ = ts_make0();
  g_next_td.scheduler_base_ = nondet_bool() ? &g_sched_obj : &g_sched_other;
  g_refs = 0; g_lw_reads = 0; g_lw_read = 0;
}

#ifdef VX_NATIVE
/* native replay only: functions whose address is taken by a stub need a definition to link (never called) */
thread_result_type set_active_state(thread_id_ref_type thrd, thread_schedule_state newstate, thread_restart_state newstate_ex, thread_priority priority,
                                    thread_state previous_state) { return result_make(thread_schedule_state_unknown, VX_INVALID_ID); }
#ifndef TIMED_HAS_AT_TIMER
thread_result_type at_timer(struct scheduler_base *scheduler, long abs_time, thread_id_ref_type thrd, thread_schedule_state newstate, thread_restart_state newstate_ex,
                            thread_priority priority, struct atomic_flag_s *started, bool retry_on_active) { return result_make(thread_schedule_state_unknown, VX_INVALID_ID); }
#endif
#ifndef TIMED_HAS_WAKE_TIMER
thread_result_type wake_timer_thread(thread_id_ref_type thrd, thread_schedule_state newstate, thread_restart_state newstate_ex, thread_priority priority,
                                     thread_id_type timer_id, struct atomic_flag_s *triggered, bool retry_on_active, thread_restart_state my_statex)
{ return result_make(thread_schedule_state_unknown, VX_INVALID_ID); }
#endif
#endif
#endif
