# C02 extension: timed wake-ups (set_thread_state_timed.cpp, the timed paths of thread_helpers.cpp / execution_agent.cpp).
# Merged into specs/C02/spec.py by  exec(open(".../timed_spec.py").read()); UNITS += TIMED_UNITS.
# Everything lives inside _timed_build() so that no name of the host spec is overwritten; only TIMED_* are exported.


def _timed_build(tdir=""):
    import re

    from vx import census
    from vx.lift import Lift, Sub, Call, Members, DropStmt, Rule, LiftError, Auto, match_close, split_args, _blocks
    from vx.run import Unit

    TIMED = "libs/pika/threading_base/src/set_thread_state_timed.cpp"
    HELPERS = "libs/pika/threading_base/src/thread_helpers.cpp"
    AGENT = "libs/pika/threading_base/src/execution_agent.cpp"
    THROW = "libs/pika/errors/src/throw_exception.cpp"
    ERRHPP = "libs/pika/errors/include/pika/errors/error.hpp"
    ENUMHPP = "libs/pika/coroutines/include/pika/coroutines/thread_enums.hpp"

    # ---- helper rules (Call0 / Method: copies of the ones in specs/C02/spec.py and specs/C19/spec.py) ---------------------
    class Call0(Call):
        """Call with n (default: any) but WITHOUT the fixed-point re-scan of vx.lift.Call (replacement contains the head)."""

        def __init__(self, head, template, n=None, stmt=False):
            Call.__init__(self, head, template, n, stmt)

        def apply(self, text):
            self._nested = True
            return Call.apply(self, text)

    class Method(Rule):
        """member call `RECV.name(args)` / `RECV->name(args)` -> template with {recv}, {0}, {1}, {args}"""

        def __init__(self, name, template, n=None):
            self.name, self.template, self.n = name, template, n

        @staticmethod
        def _recv_start(text, dot):
            i = dot
            while True:
                if i >= 1 and text[i - 1] in ")]":
                    close = text[i - 1]
                    open_ = "(" if close == ")" else "["
                    depth, q = 0, i - 1
                    while q >= 0:
                        if text[q] == close:
                            depth += 1
                        elif text[q] == open_:
                            depth -= 1
                            if depth == 0:
                                break
                        q -= 1
                    if q < 0:
                        raise LiftError("Method: unbalanced receiver")
                    i = q
                    continue
                mm = re.search(r"\w+$", text[:i])
                if mm:
                    i = mm.start()
                    if text[i - 2: i] in ("::", "->"):
                        i -= 2
                        continue
                    if text[i - 1: i] == ".":
                        i -= 1
                        continue
                break
            return i

        def apply(self, text):
            k, scan = 0, 0
            rx = re.compile(r"(\.|->)%s\s*\(" % self.name)
            while True:
                m = rx.search(text, scan)
                if not m:
                    break
                rs = self._recv_start(text, m.start())
                recv = text[rs: m.start()].strip()
                if not recv:
                    raise LiftError("Method(%s): empty receiver" % self.name)
                if m.group(1) == "->":
                    recv = "*(%s)" % recv
                op = m.end() - 1
                cl = match_close(text, op)
                args = split_args(text[op + 1: cl])
                env = {"args": text[op + 1: cl].strip(), "recv": recv}
                rep = re.sub(r"\{(\d+|args|recv)\}", lambda mo: args[int(mo.group(1))] if mo.group(1).isdigit() else env[mo.group(1)],
                             self.template)
                text = text[:rs] + rep + text[cl + 1:]
                scan = rs + len(rep)
                k += 1
            self.check(k, "Method(%s)" % self.name)
            return text

    class YieldWhile(Rule):
        """`util::yield_while([caps]() { BODY }, "name");` -> the loop it is (execution_base/this_thread.hpp: `for (k = 0; predicate();
        ++k) yield_k(k)`), lambda body inlined:  while (1) { bool vx_ywK; { BODY' } vx_ywK_end: ; if (!vx_ywK) break; YIELD }
        (copy of the rule in specs/C19/spec.py; the yield statement is a parameter)."""

        def __init__(self, yield_stmt, n=None):
            self.yield_stmt, self.n = yield_stmt, n

        def apply(self, text):
            k = 0
            rx = re.compile(r"(?:pika::)?util::yield_while\s*\(")
            while True:
                m = rx.search(text)
                if not m:
                    break
                op = m.end() - 1
                cl = match_close(text, op)
                lam = split_args(text[op + 1: cl])[0]
                ml = re.match(r"\[[^\]]*\]\s*\(\s*\)\s*(?:mutable\s*)?\{", lam, re.S)
                if not ml:
                    raise LiftError("YieldWhile: first argument is not a lambda: %r" % lam[:60])
                bop = ml.end() - 1
                bcl = match_close(lam, bop, "{", "}")
                if lam[bcl + 1:].strip():
                    raise LiftError("YieldWhile: text after the lambda body")
                k += 1
                v = "vx_yw%d" % k
                body, nret = re.subn(r"\breturn\b\s*([^;]*);", lambda mm: "{ %s = (%s); goto %s_end; }" % (v, mm.group(1), v), lam[bop + 1: bcl])
                if nret == 0:
                    raise LiftError("YieldWhile: predicate without return")
                end = cl + 1
                ms = re.match(r"\s*;", text[end:])
                if not ms:
                    raise LiftError("YieldWhile: not a statement")
                end += ms.end()
                rep = "while (1) { bool %s; { %s } %s_end: ; if (!%s) break; %s }" % (v, body, v, v, self.yield_stmt)
                text = text[: m.start()] + rep + text[end:]
            self.check(k, "YieldWhile")
            return text

    class RefVar(Rule):
        """C++ reference local `T& x = E;` -> `CT *vx_ref_x = &(E);`, later uses of x in the enclosing block -> `(*vx_ref_x)`
        (copy of specs/C19/spec.py)."""

        def __init__(self, type_pat, ctype, n=None):
            self.type_pat, self.ctype, self.n = type_pat, ctype, n

        def apply(self, text):
            k = 0
            rx = re.compile(r"(?:%s)\s*(?:const\s*)?&\s*(\w+)\s*=\s*([^;]+);" % self.type_pat, re.S)
            while True:
                m = rx.search(text)
                if not m:
                    break
                k += 1
                name, expr = m.group(1), m.group(2).strip()
                encl = [b for b in _blocks(text) if b[0] < m.start() and b[1] > m.start()]
                stop = max(encl, key=lambda b: b[0])[1] if encl else len(text)
                tail = re.sub(r"(?<![\w.>])%s\b" % re.escape(name), "(*vx_ref_%s)" % name, text[m.end(): stop])
                text = text[: m.start()] + "%s *vx_ref_%s = &(%s);" % (self.ctype, name, expr) + tail + text[stop:]
            self.check(k, "RefVar(%s)" % self.type_pat)
            return text

    class MayThrowStmt(Rule):
        """the statement containing a call of `head(...)` may throw: `if (vx_exc) return VX_EXC_RESULT;` is inserted after it
        (same lowering as PIKA_THROWS_IF / create_thread, for calls that are sub-expressions of a declaration / assignment)."""

        def __init__(self, head, n=None):
            self.head, self.n = head, n

        def apply(self, text):
            from vx.lift import _stmt_end
            k, scan = 0, 0
            rx = re.compile(self.head + r"\s*\(")
            while True:
                m = rx.search(text, scan)
                if not m:
                    break
                end = _stmt_end(text, m.start())
                ins = " if (vx_exc) return VX_EXC_RESULT;"
                text = text[: end + 1] + ins + text[end + 1:]
                scan = end + 1 + len(ins)
                k += 1
            self.check(k, "MayThrowStmt(%s)" % self.head)
            return text

    class OptLoopLift(Lift):
        """Lift whose loop contracts are applied only if the lifted text still contains a loop: a deleted wait loop must surface as a
        failed obligation of the contract (exit 1), not as a loop-census mismatch (exit 2)."""

        def run(self):
            saved, self.loops = self.loops, {}
            try:
                r = Lift.run(self)
            finally:
                self.loops = saved
            return r if r["nloops"] == 0 else Lift.run(self)

    # ---- spelling rules (purely syntactic) ---------------------------------------------------------------------------------
    LOGS = DropStmt(r"\bPIKA_LOG", None)
    NS = Sub(r"(?<![\w:])(?:pika::)?threads::detail::", "", None)            # qualified names of the enclosing namespaces
    ENUMS = [
        Sub(r"(?:\bpika::threads::detail::)?\bthread_schedule_state::(\w+)", r"thread_schedule_state_\1", None),
        Sub(r"(?:\bpika::threads::detail::)?\bthread_restart_state::(\w+)", r"thread_restart_state_\1", None),
        Sub(r"(?:\bexecution::)?\bthread_priority::(\w+)", r"thread_priority_\1", None),
        Sub(r"(?:\bexecution::)?\bthread_stacksize::(\w+)", r"thread_stacksize_\1", None),
        Sub(r"(?:\bpika::)?\berror::(\w+)", r"pika_error_\1", None),
        Sub(r"\bthrowmode::(\w+)", r"throwmode_\1", None),
        Sub(r"\binvalid_thread_id\b", "VX_INVALID_ID", None),
    ]
    THROWS_IF = Call0(r"\bPIKA_THROWS_IF", "{ vx_throws_if({0}, {1}); if (vx_exc) return VX_EXC_RESULT; }", None, stmt=True)
    THROW_EXC = Call0(r"\bPIKA_THROW_EXCEPTION", "{ vx_throw({0}); return VX_EXC_RESULT; }", None, stmt=True)
    EC = [
        Sub(r"&ec\s*(!=|==)\s*&throws\b", r"ec \1 &vx_throws", None),                        # ec is a reference: a pointer in C
        Sub(r"(?<![\w&.>:])throws\b(?!\s*\()", "&vx_throws", None),                               # pika::throws passed as an argument
        Sub(r"(?<![\w&*.>])ec\s*=\s*make_success_code\(\)", "*ec = make_success_code()", None),
        Sub(r"\bif\s*\(\s*(ec\w*)\s*\)", r"if (ec_bool(\1))", None),                        # error_code::operator bool
        Sub(r"\berror_code\s+(\w+)\(([^();]*)\);", r"struct error_code vx_local_\1 = error_code_make(\2); struct error_code *\1 = &vx_local_\1;", None),
    ]
    HINT = Call(r"(?:\bexecution::)?\bthread_schedule_hint(?=\s*[({])", lambda args, env: "hint_make%d(%s)" % (len(args), ", ".join(args)), None)
    # std::atomic<bool> objects: local / shared_ptr-owned; .load() / .store()
    FLAGS = [
        Sub(r"\bstd::shared_ptr<std::atomic<bool>>\s+(\w+)\(\s*std::make_shared<std::atomic<bool>>\(([^()]*)\)\s*\);",
            r"struct atomic_flag_s *\1 = make_shared_flag(\2);", None),
        Sub(r"\bstd::atomic<bool>\s+(\w+)\(([^()]*)\);", r"struct atomic_flag_s \1 = atomic_flag_make(\2);", None),
        Method("load", "atomic_flag_load(&{recv})"),
        Method("store", "atomic_flag_store(&{recv}, {0})"),
    ]

    # set_thread_state(id, state, ex, priority [, hint [, retry_on_active [, ec]]]) of set_thread_state.hpp: omitted trailing
    # arguments are the defaults of the declaration (thread_schedule_hint(), true, throws)
    STS_DEFAULTS = ["hint_make0()", "true", "&vx_throws"]

    def _sts_call(args, env):
        if len(args) < 4 or len(args) > 7:
            raise LiftError("set_thread_state call with %d arguments" % len(args))
        return "set_thread_state(%s)" % ", ".join(args + STS_DEFAULTS[len(args) - 4:])

    STS_CALL = Call0(r"(?<![\w:.>])set_thread_state", _sts_call, None)

    # create_thread(scheduler, data, id [, ec]): data and id are references (pointers in C); ec defaults to throws; may throw
    def _ct_call(args, env):
        if len(args) not in (3, 4):
            raise LiftError("create_thread call with %d arguments" % len(args))
        a = list(args) + ["&vx_throws"][len(args) - 3:]
        return "{ create_thread(%s, &%s, &%s, %s); if (vx_exc) return VX_EXC_RESULT; }" % tuple(a)

    CT_CALL = Call0(r"(?<![\w:.>])create_thread", _ct_call, None, stmt=True)

    THROWS_IF_LIFT = Lift(THROW, r"void throws_if\(", rules=[
        Sub(r"&ec\b", "ec", "+"),
        Sub(r"&pika::throws\b", "&vx_throws", "+"),
        Sub(r"(?<![\w&*.>])ec(?=\s*=[^=])", "*ec", "+"),
        Call(r"pika::detail::throw_exception", "vx_throw_exception({0})", "+"),
        Call(r"\bmake_error_code", "make_error_code({0})", "+"),
        Sub(r"\bpika::error\b(?!::)", "pika_error", None)])

    TIMED_RULES = [LOGS, NS] + ENUMS + [THROWS_IF, THROW_EXC] + EC + FLAGS + [
        Method("value", "tp_value({recv})"),
        Method("noref", "tid_noref({recv})"),
        Method("yield", "coroutine_yield(&{recv}, {0})"),
        Call(r"\bthread_init_data\s+(\w+)", "struct timed_init_data {h1} = timed_init_data_make({args})", None),
        Call(r"\butil::detail::bind_front", "timed_bind_front({args})", None),
        Call(r"\butil::detail::bind(?!_)", "timed_bind({args})", None),
        Call(r"\bthread_id_ref_type", "tid_ref({0})", None),
        Call(r"\bthread_result_type", "result_make({args})", None),
        HINT, STS_CALL, CT_CALL,
    ]
    T = tdir  # template directory prefix ("" when merged into specs/C02/spec.py, "../C02/" from the scratch wrapper)

    def timed_lift(locator):
        return Lift(TIMED, locator, rules=TIMED_RULES)

    L_TIMED = r"thread_id_ref_type set_thread_state_timed\(scheduler_base\* scheduler,"
    L_AT = r"thread_result_type at_timer\(scheduler_base\* scheduler,"
    L_WAKE = r"thread_result_type wake_timer_thread\(thread_id_ref_type const& thrd,"

    units = [
        Unit("timed.set_thread_state_timed", T + "timed_sts.c", defines=["U_TIMED"], enforce="set_thread_state_timed",
             lifts={"throws_if": THROWS_IF_LIFT, "body": timed_lift(L_TIMED)},
             funcs=[TIMED + ": threads::detail::set_thread_state_timed"], min_obligations=20,
             doc="T: registers at most one timer task and never touches the target itself; a valid id is returned iff exactly one task "
                 "was registered and it is that task's id; the task is runnable, runs at_timer and carries "
                 "(deadline, keep-alive reference to the target, state, restart state, priority, started flag, retry_on_active) "
                 "unchanged; a null id or a failed registration is reported (exception / error_code), never silent"),
        Unit("timed.at_timer", T + "timed_sts.c", defines=["U_AT_TIMER"], enforce="at_timer",
             lifts={"throws_if": THROWS_IF_LIFT, "body": timed_lift(L_AT)},
             funcs=[TIMED + ": threads::detail::at_timer"], min_obligations=20,
             doc="T (safety half): null target: exception and nothing else; no request on the target on any path (no restart state is "
                 "ever delivered to this function, so the timer cannot have fired); at most one waker, created SUSPENDED, carrying the "
                 "request unchanged, the timer task's own id and one fresh flag that starts out false"),
        Unit("timed.wake_timer_thread", T + "timed_sts.c", defines=["U_WAKE_TIMER"], enforce="wake_timer_thread",
             lifts={"throws_if": THROWS_IF_LIFT, "body": timed_lift(L_WAKE)},
             funcs=[TIMED + ": threads::detail::wake_timer_thread"], min_obligations=20,
             doc="T: decides on one load of the shared `triggered` flag (monotone false -> true under the rely): seen set => no request "
                 "at all (the late timer is a no-op); seen clear => exactly one request pending/my_statex to the TIMER "
                 "task with retry_on_active as bound; the target is never addressed; null ids: exception and no request"),
    ]

    # ---- thread_helpers.cpp: this_thread::suspend(abs_time, ...) and the two set_thread_state forwarders ------------------------
    def _sus_sts(args, env):
        # overloads of thread_helpers.hpp, told apart by the number of arguments written at the call site:
        # 8 = (id, abs_time, started, state, ex, priority, retry_on_active, ec), 6 = (id, state, ex, priority, retry_on_active, ec)
        if len(args) == 8:
            return "set_thread_state_abs(%s)" % ", ".join(args)
        if len(args) == 6:
            return "set_thread_state_h6(%s)" % ", ".join(args)
        raise LiftError("suspend: set_thread_state call with %d arguments" % len(args))

    TD_GETTERS = [
        Method("get_scheduler_base", "thread_data_get_scheduler_base(&{recv})"),
        Sub(r"\bauto\*\s*(\w+)\s*=\s*([^;]+);", r"__typeof__(\2) \1 = \2;", None),
    ]
    SUSPEND_RULES = [LOGS, NS] + ENUMS + [THROWS_IF] + EC + FLAGS + [
        DropStmt(r"\bPIKA_UNUSED", None),
        RefVar(r"\bthread_self", "struct coroutine_self", 1),
        Method("get_thread_id", "coroutine_get_thread_id(&{recv})"),
        Method("yield", "coroutine_yield(&{recv}, {0})"),
        Method("noref", "tid_noref({recv})"),
        Method("schedule_thread", "timed_schedule_thread(&{recv}, {args})"),
    ] + TD_GETTERS + [
        Call0(r"(?<![\w:.>])interruption_point", "{ vx_interruption_point({0}, {1}); if (vx_exc) return VX_EXC_RESULT; }", None, stmt=True),
        YieldWhile("{ vx_wait_yield(); if (vx_exc) return VX_EXC_RESULT; }", None),
        Call(r"\bthread_result_type", "result_make({args})", None),
        HINT,
        Call0(r"(?<![\w:.>])set_thread_state", _sus_sts, None),
        MayThrowStmt(r"\bset_thread_state_abs", None),
    ]
    LOOP_WAIT = """
__CPROVER_assigns(timer_started, g_flag_loads, g_flag_seen, g_flag_env_set, g_wait_yields, vx_exc, g_thrown_code, g_exc_in_wait, g_intr_pending)
__CPROVER_loop_invariant(!vx_exc && !g_exc_in_wait && g_flag_loads >= 0 && g_flag_loads <= 2 && g_wait_yields >= 0 && g_wait_yields <= 2)
__CPROVER_loop_invariant(__CPROVER_loop_entry(g_intr_pending) ==> g_intr_pending)
"""
    L_SUSPEND = r"thread_restart_state suspend\(\s*pika::chrono::steady_time_point const& abs_time, threads::detail::thread_id_type nextid,"
    L_H6 = r"thread_state set_thread_state\(thread_id_type const& id, thread_schedule_state state,"
    L_HABS = r"thread_id_ref_type set_thread_state\(thread_id_type const& id,\s*pika::chrono::steady_time_point const& abs_time, std::atomic<bool>\* timer_started,"
    HELPER_RULES = [LOGS, NS] + ENUMS + EC + [HINT, STS_CALL] + TD_GETTERS

    def suspend_lift():
        return OptLoopLift(HELPERS, L_SUSPEND, rules=SUSPEND_RULES, loops={1: LOOP_WAIT, "count": 1})

    units += [
        Unit("timed.suspend_until", T + "timed_suspend.c", defines=["U_SUSPEND_UNTIL"], enforce="suspend_until",
             lifts={"throws_if": THROWS_IF_LIFT, "body": suspend_lift()},
             funcs=[HELPERS + ": pika::this_thread::suspend(abs_time, nextid, description, ec)"], min_obligations=40,
             doc="T (+ loop contract on the wait for `timer_started`): at most one timer registration, for the calling task, at the caller's "
                 "deadline, pending/timeout, with a clear `started` flag; never handed to the worker without a registered timer (a failed "
                 "registration ends the call visibly); exactly one hand-over in state suspended (foreign nextid dispatched once on its own "
                 "scheduler); woken by the timer => no request; woken early => exactly one pending/abort request to exactly the "
                 "registered timer id, issued after `timer_started` was seen set (except when the wait is left by thread_interrupted: "
                 "F-TIMED-2); a normal return yields the delivered restart state; a thrown yield_aborted implies abort was delivered and the timer cancelled"),
        Unit("timed.helpers_set_thread_state", T + "timed_suspend.c", defines=["U_HELPERS6"], enforce="helpers_set_thread_state",
             lifts={"throws_if": THROWS_IF_LIFT, "body": Lift(HELPERS, L_H6, rules=HELPER_RULES)},
             funcs=[HELPERS + ": threads::detail::set_thread_state(id, state, stateex, priority, retry_on_active, ec)"], min_obligations=5,
             doc="T: pure forwarder - exactly one set_thread_state request, unchanged, with the caller's error_code"),
        Unit("timed.helpers_set_thread_state_abs", T + "timed_suspend.c", defines=["U_HELPERS_ABS"], enforce="helpers_set_thread_state_abs",
             lifts={"throws_if": THROWS_IF_LIFT, "body": Lift(HELPERS, L_HABS, rules=HELPER_RULES)},
             funcs=[HELPERS + ": threads::detail::set_thread_state(id, abs_time, timer_started, state, stateex, priority, retry_on_active, ec)"],
             min_obligations=5,
             doc="T: pure forwarder - exactly one set_thread_state_timed registration, request, started flag "
                 "and error_code unchanged; the timer id is passed back"),
    ]


    # ---- execution_agent.cpp: the polling timed paths ----------------------------------------------------------------------
    AGENT_RULES = [LOGS, NS] + ENUMS + [
        Sub(r"\bstd::chrono::steady_clock::now\(\)", "vx_clock_now()", None),
        Method("value", "tp_value({recv})"),
        Method("from_now", "dur_from_now({recv})"),
        Call0(r"(?<![\w:.>])do_yield", "{ do_yield(self, {args}); if (vx_exc) return VX_EXC_RESULT; }", None, stmt=True),
        Call0(r"(?<![\w:.>])sleep_until", "sleep_until(self, {args})", None),
        Auto(None),
    ]
    LOOP_SLEEP = """
__CPROVER_assigns(k, now, g_dy_calls, g_dy_state, g_fresh_clock, g_released, g_clock, g_clock_reads, vx_exc, g_thrown_code)
__CPROVER_loop_invariant(!vx_exc && g_dy_calls >= 0 && g_dy_calls <= 2 && g_clock_reads >= 1 && g_clock_reads <= 2 && now == g_clock && (g_dy_calls == 0 || g_fresh_clock) && !g_released)
"""
    units += [
        Unit("timed.agent_yield_k", T + "timed_agent.c", defines=["U_YIELD_K"], enforce="agent_yield_k",
             lifts={"throws_if": THROWS_IF_LIFT, "body": Lift(AGENT, r"void execution_agent::yield_k\(", rules=AGENT_RULES)},
             funcs=[AGENT + ": execution_agent::yield_k"], min_obligations=5,
             doc="T: every hand-over goes through do_yield in a runnable state (pending / pending_boost): a polling agent never "
                 "suspends, so no wake-up is needed and none can be lost"),
        Unit("timed.agent_sleep_until", T + "timed_agent.c", defines=["U_SLEEP_UNTIL"], enforce="agent_sleep_until",
             lifts={"throws_if": THROWS_IF_LIFT, "body": OptLoopLift(AGENT, r"void execution_agent::sleep_until\(", rules=AGENT_RULES,
                                                                          loops={1: LOOP_SLEEP, "count": 1})},
             funcs=[AGENT + ": execution_agent::sleep_until"], min_obligations=10,
             doc="T + loop contract: every hand-over in a runnable state, the clock is re-read between two hand-overs, a normal return only "
                 "after the (monotone) clock was read at or past the deadline; do_yield's exception ends the sleep"),
        Unit("timed.agent_sleep_for", T + "timed_agent.c", defines=["U_SLEEP_FOR"], enforce="agent_sleep_for",
             lifts={"throws_if": THROWS_IF_LIFT, "body": Lift(AGENT, r"void execution_agent::sleep_for\(", rules=AGENT_RULES)},
             funcs=[AGENT + ": execution_agent::sleep_for"], min_obligations=3,
             doc="T: exactly one sleep_until, until now + the given duration"),
    ]

    finding_units = [
        Unit("timed.at_timer_hands_over", T + "timed_sts.c", defines=["U_AT_TIMER_HANDS_OVER"], enforce="at_timer",
             lifts={"throws_if": THROWS_IF_LIFT, "body": timed_lift(L_AT)},
             funcs=[TIMED + ": threads::detail::at_timer"], min_obligations=10,
             doc="T (progress half, FAILS on the pinned tree - finding F-TIMED-1): a timer task that created its waker leaves only "
                 "after it fired (exactly one request on the target) or cancelled (`triggered` stored) and after it published "
                 "`*started`"),
        Unit("timed.suspend_until_cancels_on_every_exit", T + "timed_suspend.c", defines=["U_SUSPEND_UNTIL", "U_CANCEL_ON_EVERY_EXIT"],
             enforce="suspend_until", lifts={"throws_if": THROWS_IF_LIFT, "body": suspend_lift()},
             funcs=[HELPERS + ": pika::this_thread::suspend(abs_time, nextid, description, ec)"], min_obligations=40,
             doc="T (FAILS on the pinned tree - finding F-TIMED-2): woken early => the timer is cancelled on EVERY exit, including the "
                 "exceptional one out of the wait for `timer_started`"),
    ]

    meta = {
        "explanation":
            "timed.* (C02, timed wake-ups; safety form).  Chain: this_thread::suspend(abs_time) [timed.suspend_until] -> set_thread_state(id, "
            "abs_time, &timer_started, ...) [timed.helpers_set_thread_state_abs] -> set_thread_state_timed [timed.set_thread_state_timed] -> "
            "timer task at_timer [timed.at_timer] -> waker task wake_timer_thread [timed.wake_timer_thread] -> set_thread_state on the TIMER "
            "task; cancel: suspend -> set_thread_state(timer id, pending, abort, ...) [timed.helpers_set_thread_state] .  Decided per link "
            "(T contracts, callees as recording stubs): exactly one registration per link carrying the request unchanged; the waiter never "
            "suspends without a registered timer; the target is addressed only by the timer task and only after `timeout` was delivered to "
            "it; a set `triggered` flag makes the late waker a no-op; a waiter woken early cancels exactly the timer id it registered, after "
            "`timer_started` was seen set.  The polling paths (execution_agent::yield_k / sleep_until / sleep_for, used by "
            "condition_variable::wait_until and every util::yield_while) hand the task over in a RUNNABLE state only, so they need no wake-up.  "
            "FINDINGS (units in TIMED_FINDING_UNITS, failing on the pinned tree): F-TIMED-1 at_timer creates its waker and then leaves with "
            "invalid_status ('Timed suspension is currently not supported'): the timed wake-up is never issued, the waker stays suspended "
            "for ever, `*started` is never published (the canceller in this_thread::suspend(abs_time) then polls for ever).  F-TIMED-2 "
            "this_thread::suspend(abs_time): an exception out of the wait for `timer_started` (thread_interrupted from yield_k) skips the "
            "cancel request - the timer stays armed for a later, unrelated suspension (latent while F-TIMED-1 holds).  OBSERVATIONS: O-T3 the "
            "timed set_thread_state overload dereferences the id before set_thread_state_timed's null check; O-T4 suspend(abs_time) with a "
            "caller-provided error_code overwrites yield_aborted by make_success_code() (the return value still says abort); O-T5 the waker "
            "is bound to the timer task's NON-owning id (self_id.noref()).",
        "trusted_base": [
            "specs/C02/timed.h thread ids are pointers to one of four thread objects (target T, timer task, waker task, nextid) or NULL; "
            "steady_time_point / steady_duration are opaque longs",
            "specs/C02/timed.h atomic_flag_load: std::atomic<bool>::load preceded by the environment's step, restricted by the flag's rely "
            "(the flag only goes false -> true; census timed.flag.stores); atomic_flag_store / make_shared_flag: one heap flag per unit",
            "specs/C02/timed.h create_thread: T stub (counts, records closure, scheduler, initial state, run_now, priority, hint, error_code; "
            "hands out the next thread object; fails by an exception or - with a caller-provided error_code - through it, then nothing was "
            "created and the id is untouched); timed_bind / timed_bind_front / timed_init_data_make: bind-by-value and the 7-argument "
            "thread_init_data constructor",
            "specs/C02/timed.h set_thread_state (7 arguments): T stub recording the last request; its body is the unit sts.set_thread_state",
            "specs/C02/timed_sts.c coroutine_yield of the timer task (unused by the pinned text; used when the protocol is restored): "
            "VX_ASSUME(delivered restart state is timeout or abort) - what wake_timer_thread / suspend_until send; get_self_id() = the timer task",
            "specs/C02/timed_suspend.c set_thread_state_abs: T stub restating the contract of timed.helpers_set_thread_state_abs + "
            "timed.set_thread_state_timed (valid id iff a timer task was registered; failure by exception or error_code, never silent); "
            "coroutine_yield: VX_ASSUME(delivered restart state is signaled / timeout / abort) (A-RESTART; the authors' PIKA_ASSERT in "
            "suspend is discharged under it); vx_interruption_point may throw thread_interrupted; vx_wait_yield (yield_k inside "
            "util::yield_while) may throw thread_interrupted unless -DKNOWN_CANCEL_WAIT_THROWS; timed_schedule_thread T stub",
            "specs/C02/timed_agent.c do_yield: T stub with the argument predicate 'runnable state' (contract: unit agent.do_yield), may "
            "throw; order predicates of sleep_until: 'clock re-read between two hand-overs' (do_yield) and 'handed over between two clock "
            "readings: no busy wait' (vx_clock_now; the authors' documented intent, not C02 proper); vx_clock_now: VX_ASSUME(monotone "
            "clock); dur_from_now / sleep_until recording stubs",
            "timed_spec.py rules Method, Call0, YieldWhile (util::yield_while -> the loop of this_thread.hpp with the lambda inlined; the "
            "spin counter k is not represented), RefVar, MayThrowStmt (exception edge after a may-throw call inside a declaration), "
            "OptLoopLift (loop contract applied only if the loop is still there), overload selection of set_thread_state by argument count "
            "(8 = timed, 6 = thread_helpers.cpp:43, 4-7 = set_thread_state.hpp with its default arguments), create_thread's default ec = throws",
        ],
        "assumptions": [
            "A-RESTART: wakers deliver only signaled / timeout / abort to a suspended task (no call site passes terminate / unknown; "
            "census timed.restart.terminate)",
            "the `triggered` / `started` flags are written only false -> true and only by the timer task (pinned text: by nobody)",
            "steady_clock is monotone; do_yield returns only after the task was re-activated (agent.do_yield)",
            "the deadline timer itself (asio in the disabled code) is outside the verified text: 'the waker becomes runnable exactly when the "
            "deadline passes or the timer is cancelled' is not decided",
        ],
        "not_decided": [
            "liveness of the timed paths: that the waiter's poll for `timer_started` and sleep_until's loop terminate (clock progress, "
            "scheduler fairness); in the pinned tree the former does NOT terminate once a waiter is woken early (F-TIMED-1)",
            "the inline forwarding overloads of set_thread_state_timed.hpp / thread_helpers.hpp (rel_time.from_now(), default arguments) "
            "and this_thread::sleep_until (thread.cpp:288), one-line forwarders",
            "recycling of the timer task's thread object while the waker still holds its non-owning id (O-T5)",
        ],
    }
    static = [
        census.enum("timed.enum.error", ERRHPP, "error", {"invalid_status": 4, "null_thread_id": 12, "yield_aborted": 14, "bad_parameter": 5}),
        census.enum("timed.enum.stacksize", ENUMHPP, "thread_stacksize", {"small_": 1, "nostack": 5}),
        census.sites("timed.flag.stores", [TIMED, HELPERS], r"(?:triggered|started|timer_started)\s*(?:->|\.)\s*store\s*\(", 0,
                     "nobody stores the shared flags in the pinned text; a new store site must respect the rely false -> true"),
        census.sites("timed.registration.callers", ["libs/pika/*/src/*.cpp", "libs/pika/*/include/pika/*/*.hpp", "libs/pika/*/include/pika/*/detail/*.hpp"],
                     r"(?<![\w:])set_thread_state_timed\s*\(", 9,
                     "set_thread_state_timed: definition (1); header: declaration (1), 3 inline forwarders (3) with one call each (3); the "
                     "call in thread_helpers.cpp:59 (1: unit timed.helpers_set_thread_state_abs)"),
        census.sites("timed.restart.terminate", ["libs/pika/*/src/*.cpp", "libs/pika/*/include/pika/*/*.hpp"], r"thread_restart_state::terminate\b", 0,
                     "A-RESTART: no call site passes thread_restart_state::terminate"),
    ]
    return units, finding_units, meta, static


TIMED_UNITS, TIMED_FINDING_UNITS, TIMED_META, TIMED_STATIC = _timed_build(globals().get("TIMED_TEMPLATE_DIR", ""))
