/* C02 units timed.set_thread_state_timed / timed.at_timer / timed.at_timer_hands_over / timed.wake_timer_thread
 * (threading_base/src/set_thread_state_timed.cpp; T contracts).
 *
 * Protocol, as far as the pinned text implements it:
 *   set_thread_state_timed(scheduler, abs_time, T, newstate, ex, prio, hint, started, retry, ec)
 *       registers ONE timer task  at_timer(scheduler, abs_time, ref(T), newstate, ex, prio, started, retry)  (runnable) and returns its id:
 *       the id a waiter that is woken early has to cancel (this_thread::suspend(abs_time): unit timed.suspend_until).
 *   at_timer   creates ONE waker task  wake_timer_thread(T, newstate, ex, prio, own id, triggered = false, retry)  in state SUSPENDED
 *       (only the deadline timer makes it runnable).  In the pinned tree everything after that is disabled: the function leaves with
 *       pika::error::invalid_status ("Timed suspension is currently not supported").
 *   wake_timer_thread(..., my_statex)   unless `triggered` is set, re-awakens the TIMER task with my_statex; it never addresses T.
 * Safety form of "timed wake-ups are not lost and not duplicated / not delivered to a later, unrelated suspension" decided here:
 * exactly-one registration carrying the request unchanged; no request on the target from any of the three functions except through the
 * (disabled) `timeout` path; a set `triggered` flag makes the late waker a no-op.
 */
#if defined(U_AT_TIMER) || defined(U_AT_TIMER_HANDS_OVER)
#define TIMED_HAS_AT_TIMER
#endif
#ifdef U_WAKE_TIMER
#define TIMED_HAS_WAKE_TIMER
#endif
#include "timed.h"

static void throws_if(struct error_code *ec, pika_error errcode)
//@LIFT throws_if
static thread_state thread_data_get_state(thread_data *self) { return self->current_state_; }   /* not used by these units */
static bool thread_data_restore_state(thread_data *self, thread_schedule_state new_state, thread_restart_state state_ex, thread_state old_state) { return false; }

#define EC_FAILED(ec) ((ec)->value != pika_error_success)
#define CARRIES_REQUEST(c, thrd, newstate, newstate_ex, priority, retry) \
  ((c).fn_ok && (c).thrd == (thrd) && (c).newstate == (newstate) && (c).newstate_ex == (newstate_ex) && (c).priority == (priority) && (c).retry_on_active == (retry))

/* threads::detail::get_self_id(): the id of the running task -- at_timer runs as the TIMER task */
static thread_data *get_self_id(void) { return &g_timer_td; }

#ifdef U_TIMED
#define VX_EXC_RESULT VX_INVALID_ID
//@FUNC
thread_id_ref_type set_thread_state_timed(struct scheduler_base *scheduler, struct steady_time_point abs_time, thread_id_type thrd,
                                          thread_schedule_state newstate, thread_restart_state newstate_ex, thread_priority priority,
                                          struct thread_schedule_hint schedulehint, struct atomic_flag_s *started, bool retry_on_active, struct error_code *ec)
__CPROVER_requires((thrd == VX_INVALID_ID || thrd == &g_td) && (ec == &vx_throws || ec == &vx_ec_obj) && EXC_ZERO && g_refs == 0)
__CPROVER_requires(g_ct_calls == 0 && g_ct_made == 0 && g_q_calls == 0 && g_ct_new == &g_timer_td && g_ct_sched_expect == scheduler && g_ct_ec_expect == ec)
/* null id: the documented error, nothing registered */
__CPROVER_ensures(thrd == VX_INVALID_ID ==> (g_errs == 1 && g_err == pika_error_null_thread_id && ERROR_VISIBLE(ec) && g_ct_calls == 0))
__CPROVER_ensures((thrd == VX_INVALID_ID && !vx_exc) ==> __CPROVER_return_value == VX_INVALID_ID)
__CPROVER_ensures(thrd != VX_INVALID_ID ==> g_errs == 0)
/* the state change is requested when the timer fires, never by the registration itself (no premature / duplicated wake-up) */
__CPROVER_ensures(g_q_calls == 0)
/* at most one timer task; a valid id is returned iff exactly one was registered, and it is THAT task's id (the id the waiter cancels) */
__CPROVER_ensures(g_ct_calls <= 1 && g_ct_made <= 1)
__CPROVER_ensures(!vx_exc ==> ((__CPROVER_return_value != VX_INVALID_ID) == (g_ct_made == 1)))
__CPROVER_ensures((!vx_exc && __CPROVER_return_value != VX_INVALID_ID) ==> __CPROVER_return_value == &g_timer_td)
__CPROVER_ensures(vx_exc ==> g_ct_made == 0)
/* the registered timer task carries the request unchanged (at_timer, deadline, target, state, restart state,
 * priority, the caller's `started` flag, retry_on_active), holds a keep-alive reference to the target (the target's object cannot be
 * recycled for an unrelated task before the timer fires) and is runnable (otherwise the timer is never armed: lost timed wake-up) */
__CPROVER_ensures(g_ct_made == 1 ==> (g_ct_fn.kind == 1 && CARRIES_REQUEST(g_ct_fn, thrd, newstate, newstate_ex, priority, retry_on_active) &&
                                      g_ct_fn.abs_time == abs_time.v && g_ct_fn.flag == started))
__CPROVER_ensures(g_ct_made == 1 ==> (g_refs >= 1 && PENDINGISH(g_ct_initial)))
/* a registration that did not happen is never silent: exception or error_code */
__CPROVER_ensures((thrd != VX_INVALID_ID && g_ct_made == 0) ==> (vx_exc || (ec == &vx_ec_obj && EC_FAILED(&vx_ec_obj))))
__CPROVER_assigns(CT_FRAME, EXC_FRAME, Q_FRAME, g_refs)
//@LIFT body
#endif

#if defined(U_AT_TIMER) || defined(U_AT_TIMER_HANDS_OVER)
#define VX_EXC_RESULT result_make(thread_schedule_state_unknown, VX_INVALID_ID)
#define AT_TIMER_PRE ((thrd == VX_INVALID_ID || thrd == &g_td) && EXC_ZERO && g_refs == 0 && g_ct_calls == 0 && g_ct_made == 0 && g_q_calls == 0 && \
                      g_ct_new == &g_wake_td && g_ct_sched_expect == scheduler && g_ct_ec_expect == &vx_throws && g_shared_made == 0 && g_flag_loads == 0 && \
                      g_flag_stores == 0 && g_at_yields == 0 && (started == 0 || (started == &g_started && !g_started.v)))
static struct atomic_flag_s g_started;   /* the waiter's `timer_started` flag */
/* T stub: get_self().yield(result) of the TIMER task -- its hand-over to the worker and its re-activation.  The pinned text never gets
 * here (everything after the creation of the waker is disabled); the stub exists so that the contract below is the PROPERTY's and keeps
 * its meaning when the protocol is restored (tools/mut.sh demonstration in the report).  The timer task is re-activated by its waker
 * (`timeout`: the deadline timer fired; `abort`: the timer was cancelled) or by the waiter's cancel request (`abort`). */
struct coroutine_self { int unused; };
static struct coroutine_self g_self;
#define get_self() (g_self)
static long g_at_yields;                  /* saturating at 2 */
static thread_schedule_state g_at_y_state; static thread_restart_state g_at_delivered; static bool g_at_started_at_yield;
static thread_restart_state coroutine_yield(struct coroutine_self *c, thread_result_type r)
{
  VX_ASSERT(!vx_exc, "no context switch while an exception is in flight");
  VX_ASSERT(g_ct_made == 1, "the timer task suspends only after its waker exists (nobody else would ever wake it)");
  VX_ASSERT(g_q_calls == 0, "no request on the target before the timer task was told `timeout`");
  if (g_at_yields < 2) g_at_yields++;
  g_at_y_state = r.first; g_at_started_at_yield = g_started.v;
  g_at_delivered = nondet_i8();
  VX_ASSUME(g_at_delivered == thread_restart_state_timeout || g_at_delivered == thread_restart_state_abort);   /* units wake_timer_thread / suspend_until */
  return g_at_delivered;
}
#define AT_FIRED (g_at_yields == 1 && g_at_delivered == thread_restart_state_timeout)
#define AT_REQUEST_OK (g_q_thrd == thrd && g_q_state == newstate && g_q_ex == newstate_ex && g_q_prio == priority)
#ifdef KNOWN_TIMED_UNSUPPORTED
#define KNOWN_PRE(thrd) ((thrd) == VX_INVALID_ID)   /* known finding F-TIMED-1: input class "valid target" excluded */
#else
#define KNOWN_PRE(thrd) 1
#endif
#ifdef U_AT_TIMER
//@FUNC
thread_result_type at_timer(struct scheduler_base *scheduler, long abs_time, thread_id_ref_type thrd, thread_schedule_state newstate,
                            thread_restart_state newstate_ex, thread_priority priority, struct atomic_flag_s *started, bool retry_on_active)
__CPROVER_requires(AT_TIMER_PRE)
/* null id: exception, nothing created, nothing requested */
__CPROVER_ensures(thrd == VX_INVALID_ID ==> (vx_exc && g_thrown_code == pika_error_null_thread_id && g_ct_calls == 0 && g_at_yields == 0))
/* not duplicated, not early, not stale: at most one request on the target, only after the timer task ITSELF was re-activated with
 * `timeout` (the deadline timer fired), and it is the caller's request unchanged.  Re-activated with anything else (the waiter was woken
 * early and cancelled): nothing is sent -- the cancelled timer must not hit the target's NEXT suspension */
__CPROVER_ensures(g_q_calls <= 1 && (g_q_calls == 1 ==> (AT_FIRED && AT_REQUEST_OK)))
__CPROVER_ensures(g_at_yields <= 1)
/* at most one waker; it carries the request unchanged plus the timer task's own id and ONE fresh flag that starts out false (a flag
 * that starts true turns the timer into a no-op: lost timed wake-up) */
__CPROVER_ensures(g_ct_calls <= 1 && g_ct_made <= 1)
__CPROVER_ensures(g_ct_made == 1 ==> (g_ct_fn.kind == 2 && CARRIES_REQUEST(g_ct_fn, thrd, newstate, newstate_ex, priority, retry_on_active) &&
                                      g_ct_fn.timer_id == &g_timer_td && g_shared_made == 1 && g_ct_fn.flag == &g_shared_flag && !g_shared_init && !g_ct_flag_at_creation))
/* the waker is created SUSPENDED: it must not run (and report `timeout`) before the deadline timer makes it runnable */
__CPROVER_ensures(g_ct_made == 1 ==> g_ct_initial == S_SUSPENDED)
/* the timer task waits SUSPENDED (a runnable timer task would be re-activated at once, with a stale restart state) */
__CPROVER_ensures(g_at_yields == 1 ==> g_at_y_state == S_SUSPENDED)
__CPROVER_assigns(CT_FRAME, EXC_FRAME, Q_FRAME, g_refs, g_shared_made, g_shared_init, g_shared_flag, g_started, g_flag_stores, g_at_yields, g_at_y_state,
                  g_at_delivered, g_at_started_at_yield)
//@LIFT body
#endif
#ifdef U_AT_TIMER_HANDS_OVER
//@FUNC
thread_result_type at_timer(struct scheduler_base *scheduler, long abs_time, thread_id_ref_type thrd, thread_schedule_state newstate,
                            thread_restart_state newstate_ex, thread_priority priority, struct atomic_flag_s *started, bool retry_on_active)
__CPROVER_requires(AT_TIMER_PRE && KNOWN_PRE(thrd))
/* "every path that registered a timer eventually either fires it or cancels it": a timer task that created its waker leaves only after
 * (fired) exactly one request on the target, or (not fired) `triggered` set so that the late waker is a no-op; and it has published
 * `*started` before handing itself over -- the waiter that was woken early waits for it before it cancels (thread_helpers.cpp:436) */
__CPROVER_ensures((g_ct_made == 1 && AT_FIRED) ==> (g_q_calls == 1 && AT_REQUEST_OK))
__CPROVER_ensures((g_ct_made == 1 && !AT_FIRED) ==> (g_shared_flag.v && g_q_calls == 0))
__CPROVER_ensures((g_ct_made == 1 && started != 0) ==> (g_started.v && (g_at_yields == 1 ==> g_at_started_at_yield)))
__CPROVER_assigns(CT_FRAME, EXC_FRAME, Q_FRAME, g_refs, g_shared_made, g_shared_init, g_shared_flag, g_started, g_flag_stores, g_at_yields, g_at_y_state,
                  g_at_delivered, g_at_started_at_yield)
//@LIFT body
#endif
#endif

#ifdef U_WAKE_TIMER
#define VX_EXC_RESULT result_make(thread_schedule_state_unknown, VX_INVALID_ID)
#define WT_VALID (thrd != VX_INVALID_ID && timer_id != VX_INVALID_ID)
//@FUNC
thread_result_type wake_timer_thread(thread_id_ref_type thrd, thread_schedule_state newstate, thread_restart_state newstate_ex, thread_priority priority,
                                     thread_id_type timer_id, struct atomic_flag_s *triggered, bool retry_on_active, thread_restart_state my_statex)
__CPROVER_requires((thrd == VX_INVALID_ID || thrd == &g_td) && (timer_id == VX_INVALID_ID || timer_id == &g_timer_td) && triggered == &g_shared_flag)
__CPROVER_requires(EXC_ZERO && g_q_calls == 0 && g_flag_loads == 0 && !g_flag_env_set)
/* the waker is made runnable by the deadline timer only: fired (`timeout`) or cancelled (`abort`) -- the authors' PIKA_ASSERT */
__CPROVER_requires(my_statex == thread_restart_state_abort || my_statex == thread_restart_state_timeout)
__CPROVER_ensures(!WT_VALID ==> (vx_exc && g_thrown_code == pika_error_null_thread_id && g_q_calls == 0))
__CPROVER_ensures(WT_VALID ==> (!vx_exc && g_flag_loads >= 1))
/* the flag decides: seen set (the waiter was woken early, the timer was cancelled) => the late timer is a no-op */
__CPROVER_ensures((WT_VALID && g_flag_seen) ==> g_q_calls == 0)
/* seen clear => exactly one request, addressed to the TIMER task (never to the target), pending, carrying the waker's own restart
 * state, retry_on_active as bound; issued after the flag was read */
__CPROVER_ensures((WT_VALID && !g_flag_seen) ==> (g_q_calls == 1 && g_q_thrd == timer_id && g_q_state == S_PENDING && g_q_ex == my_statex &&
                                                  g_q_retry == retry_on_active && g_q_flag_loads_at_request >= 1))
__CPROVER_ensures(g_q_calls >= 1 ==> g_q_thrd != &g_td)
__CPROVER_assigns(Q_FRAME, FLAG_FRAME, EXC_FRAME, g_shared_flag)
//@LIFT body
#endif

void harness(void)
{
  exc_init(); ct_init(); q_init(); flag_init(); timed_objects_init();
  vx_ec_obj.value = nondet_int();        /* whatever the caller left in its error_code */
  thread_data *thrd = nondet_bool() ? &g_td : VX_INVALID_ID;
  thread_schedule_state ns = nondet_i8();
  thread_restart_state nx = nondet_i8();
  thread_priority prio = nondet_i8();
  bool retry = nondet_bool();
  struct scheduler_base *sched = nondet_bool() ? &g_sched_obj : &g_sched_other;
#ifdef U_TIMED
  struct atomic_flag_s started_flag; started_flag.v = false;
  struct atomic_flag_s *started = nondet_bool() ? &started_flag : 0;
  struct steady_time_point t; t.v = nondet_long();
  struct thread_schedule_hint hint; hint.hint = nondet_i16(); hint.mode = nondet_i8();
  struct error_code *ec = nondet_bool() ? &vx_throws : &vx_ec_obj;
  g_ct_new = &g_timer_td; g_ct_sched_expect = sched; g_ct_ec_expect = ec;
  thread_data *r = set_thread_state_timed(sched, t, thrd, ns, nx, prio, hint, started, retry, ec);
  if (!vx_exc && r == &g_timer_td) VX_REACH("timer_registered");
  if (thrd == VX_INVALID_ID && vx_exc) VX_REACH("null_id_throws");
  if (thrd == VX_INVALID_ID && !vx_exc) VX_REACH("null_id_error_code");
  if (thrd != VX_INVALID_ID && g_ct_calls == 1 && g_ct_made == 0) VX_REACH("registration_failed_and_reported");
  if (g_ct_made == 1 && started == 0) VX_REACH("registered_without_started_flag");
#endif
#if defined(U_AT_TIMER) || defined(U_AT_TIMER_HANDS_OVER)
  g_started.v = false; g_at_yields = 0; g_at_y_state = 0; g_at_delivered = 0; g_at_started_at_yield = false;
  struct atomic_flag_s *started = nondet_bool() ? &g_started : 0;
  long t = nondet_long();
  g_ct_new = &g_wake_td; g_ct_sched_expect = sched; g_ct_ec_expect = &vx_throws;
#ifdef KNOWN_TIMED_UNSUPPORTED
  thrd = VX_INVALID_ID;
#endif
  at_timer(sched, t, thrd, ns, nx, prio, started, retry);
  if (thrd == VX_INVALID_ID && vx_exc) VX_REACH("null_id_throws");
#ifndef KNOWN_TIMED_UNSUPPORTED
  if (g_ct_made == 1) VX_REACH("waker_created_suspended");
  if (thrd != VX_INVALID_ID && g_ct_made == 0 && vx_exc) VX_REACH("create_thread_threw");
  /* pinned tree: the first disjunct (everything after the creation of the waker is disabled: finding F-TIMED-1); restored protocol: the second */
  if (g_ct_made == 1 && ((vx_exc && g_thrown_code == pika_error_invalid_status) || g_at_yields == 1)) VX_REACH("waker_exists_then_bailed_out_or_handed_over");
#endif
#endif
#ifdef U_WAKE_TIMER
  thread_data *timer_id = nondet_bool() ? &g_timer_td : VX_INVALID_ID;
  g_shared_flag.v = nondet_bool();       /* whatever at_timer has stored by now */
  thread_restart_state my = nondet_i8();
  wake_timer_thread(thrd, ns, nx, prio, timer_id, &g_shared_flag, retry, my);
  if (thrd == VX_INVALID_ID) VX_REACH("null_target_throws");
  if (thrd != VX_INVALID_ID && timer_id == VX_INVALID_ID) VX_REACH("null_timer_id_throws");
  if (!vx_exc && g_q_calls == 0) VX_REACH("triggered_seen_late_timer_is_a_noop");
  if (!vx_exc && g_q_calls == 0 && g_flag_env_set) VX_REACH("triggered_set_concurrently_before_the_load");
  if (g_q_calls == 1 && g_q_ex == thread_restart_state_timeout) VX_REACH("fired_timer_task_woken_with_timeout");
  if (g_q_calls == 1 && g_q_ex == thread_restart_state_abort) VX_REACH("cancelled_timer_task_woken_with_abort");
#endif
}
