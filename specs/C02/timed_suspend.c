/* C02 units timed.suspend_until / timed.suspend_until_cancels_on_every_exit / timed.helpers_set_thread_state /
 * timed.helpers_set_thread_state_abs   (threading_base/src/thread_helpers.cpp; T contracts)
 *
 * this_thread::suspend(abs_time, nextid, description, ec) -- the timed blocking primitive (this_thread::sleep_until, thread.cpp:290):
 *   1. registers a timer for ITSELF while still active:  set_thread_state(self, abs_time, &timer_started, pending, timeout, boost, true, ec)
 *      (-> set_thread_state_timed -> at_timer task; units timed.helpers_set_thread_state_abs / timed.set_thread_state_timed);
 *   2. hands itself to the worker in state `suspended`;
 *   3. when it runs again with a restart state other than `timeout` (woken EARLY by somebody else) it waits until the timer task has
 *      started (`timer_started`) and then CANCELS it: one request pending/abort to the timer id returned in step 1.  Waiting first is part
 *      of the protocol: a request sent to a timer task that is still `pending` is absorbed ("already pending", outcome (a) of
 *      sts.set_thread_state), the timer would stay armed and later deliver `timeout` to an unrelated, later suspension of this task.
 * Decided here (safety): never suspended without a registered timer; exactly one hand-over, in state suspended; woken early => exactly
 * one cancel request to exactly that timer id, after `timer_started` was seen set; woken by the timer => no cancel; the restart state
 * delivered by the waker is what the caller gets (`abort` => yield_aborted).
 */
#include "timed.h"

static void throws_if(struct error_code *ec, pika_error errcode)
//@LIFT throws_if
static thread_state thread_data_get_state(thread_data *self) { return self->current_state_; }   /* not used by these units */
static bool thread_data_restore_state(thread_data *self, thread_schedule_state new_state, thread_restart_state state_ex, thread_state old_state) { return false; }
#define EC_FAILED(ec) ((ec)->value != pika_error_success)

#if defined(U_SUSPEND_UNTIL)
/* ---- the running task: T ---- */
struct coroutine_self { thread_data *id; };
static struct coroutine_self g_self;
#define get_self() (g_self)
static thread_data *coroutine_get_thread_id(struct coroutine_self *c) { return c->id; }

/* threads::detail::interruption_point(id, ec) (thread_helpers.cpp:108): thread_data::interruption_point() throws thread_interrupted if an
 * interruption was requested and is enabled; otherwise the error_code is reset */
static long g_ipoints;                    /* saturating at 3 */
/* the request flag of the running task (requested_interrupt_ && enabled_interrupt_): set by interrupt_thread() of another thread at any
 * time, in particular while the task is suspended (interrupt_thread then wakes it with restart state `abort`); cleared when delivered */
static bool g_intr_pending, g_intr_at_entry, g_intr_while_suspended;
static void vx_interruption_point(thread_data *id, struct error_code *ec)
{
  if (g_ipoints < 3) g_ipoints++;
  if (g_intr_pending) { g_intr_pending = false; vx_throw_exception(VX_ERR_INTERRUPTED); return; }
  if (ec != &vx_throws) *ec = make_success_code();
}

/* T stub: set_thread_state(id, abs_time, &timer_started, state, ex, priority, retry_on_active, ec) -- the timer registration (body: units
 * timed.helpers_set_thread_state_abs + timed.set_thread_state_timed, whose contract this stub restates: a valid id is returned iff a
 * timer task was registered; a failure is never silent) */
static long g_reg_calls, g_reg_made;      /* saturating at 2 */
static thread_data *g_reg_thrd; static long g_reg_time; static struct atomic_flag_s *g_reg_started; static bool g_reg_started_init;
static thread_schedule_state g_reg_state; static thread_restart_state g_reg_ex; static thread_priority g_reg_prio; static bool g_reg_retry, g_reg_ec_ok;
static struct error_code *g_reg_ec_expect;
static long g_co_yields;                  /* hand-overs to the worker (saturating at 2) */
static thread_data *set_thread_state_abs(thread_data *id, struct steady_time_point abs_time, struct atomic_flag_s *started, thread_schedule_state state,
                                         thread_restart_state ex, thread_priority prio, bool retry, struct error_code *ec)
{
  VX_ASSERT(!vx_exc, "no request while an exception is in flight");
  if (g_reg_calls < 2) g_reg_calls++;
  g_reg_thrd = id; g_reg_time = abs_time.v; g_reg_started = started; g_reg_started_init = (started != 0) ? started->v : true;
  g_reg_state = state; g_reg_ex = ex; g_reg_prio = prio; g_reg_retry = retry; g_reg_ec_ok = (ec == g_reg_ec_expect);
  if (nondet_bool())
  {
    if (ec != &vx_throws && nondet_bool()) { *ec = make_error_code(VX_ERR_CALLEE); return VX_INVALID_ID; }
    vx_throw_exception(VX_ERR_CALLEE);
    return VX_INVALID_ID;
  }
  if (g_reg_made < 2) g_reg_made++;
  if (ec != &vx_throws) *ec = make_success_code();
  return &g_timer_td;
}
/* T stub: set_thread_state(id, state, ex, priority, retry_on_active, ec) (thread_helpers.cpp:43; unit timed.helpers_set_thread_state) */
static bool g_q_after_handover;           /* the request was issued after the task had been re-activated */
static bool g_q_started_seen;             /* ... and after `timer_started` had been seen set */
static thread_state set_thread_state_h6(thread_data *id, thread_schedule_state state, thread_restart_state ex, thread_priority prio, bool retry, struct error_code *ec)
{
  g_q_after_handover = (g_co_yields >= 1);
  g_q_started_seen = (g_flag_loads >= 1 && g_flag_seen);
  return set_thread_state(id, state, ex, prio, hint_make0(), retry, ec);
}
/* T stub: scheduler_base::schedule_thread(nextid, hint) for a `nextid` that lives on another scheduler */
static long g_sch_calls; static bool g_sch_on_ok; static thread_data *g_sch_thrd;
static void timed_schedule_thread(struct scheduler_base *s, thread_data *thrd, struct thread_schedule_hint h)
{
  VX_ASSERT(!vx_exc, "no scheduling while an exception is in flight");
  if (g_sch_calls < 2) g_sch_calls++;
  g_sch_on_ok = (thrd != 0 && s == thrd->scheduler_base_); g_sch_thrd = thrd;
}
/* T stub: coroutine_self::yield(result) -- the hand-over to the worker and, much later, the re-activation by a waker.  What comes back
 * is the restart state given by whoever woke the task: the timer (`timeout`) or somebody else (`signaled`, `abort`). */
static thread_schedule_state g_y_state; static thread_data *g_y_next; static thread_restart_state g_y_delivered;
static thread_restart_state coroutine_yield(struct coroutine_self *c, thread_result_type r)
{
  VX_ASSERT(!vx_exc, "no context switch while an exception is in flight");
  VX_ASSERT(g_reg_made == 1, "the task suspends only after its timer has been registered (nobody else would wake it at the deadline)");
  if (g_co_yields < 2) g_co_yields++;
  g_y_state = r.first; g_y_next = r.second;
  if (nondet_bool()) { g_intr_pending = true; g_intr_while_suspended = true; }   /* interrupted while suspended */
  g_y_delivered = nondet_i8();
  /* A-RESTART: wakers deliver signaled / timeout / abort only (census: no other restart state is ever passed to a set_thread_state call) */
  VX_ASSUME(g_y_delivered == thread_restart_state_signaled || g_y_delivered == thread_restart_state_timeout || g_y_delivered == thread_restart_state_abort);
  return g_y_delivered;
}
/* yield_k(k, desc) inside util::yield_while: execution_agent::yield_k -> do_yield -> interruption_point(): may throw thread_interrupted
 * (certainly does once k >= 16 if the early wake-up was an interrupt: the request flag is still set) */
static long g_wait_yields;                /* saturating at 2 */
static bool g_exc_in_wait;                /* the exception left the function from inside the wait loop */
static void vx_wait_yield(void)
{
  if (g_wait_yields < 2) g_wait_yields++;
#ifndef KNOWN_CANCEL_WAIT_THROWS
  if (nondet_bool()) g_intr_pending = true;   /* a request may arrive at any time */
  if (g_intr_pending && nondet_bool()) { g_intr_pending = false; vx_throw_exception(VX_ERR_INTERRUPTED); g_exc_in_wait = true; }
#endif
}

#define VX_EXC_RESULT thread_restart_state_unknown
#define FOREIGN_NEXT (nextid != VX_INVALID_ID && nextid->scheduler_base_ != g_td.scheduler_base_)
#define WOKEN_EARLY (g_co_yields == 1 && g_y_delivered != thread_restart_state_timeout)
#define CANCELLED (g_q_calls == 1 && g_q_thrd == &g_timer_td && g_q_state == S_PENDING && g_q_ex == thread_restart_state_abort && \
                   g_q_after_handover && g_q_started_seen)
#ifdef U_CANCEL_ON_EVERY_EXIT
#define CANCEL_EXEMPT 0
#else
#define CANCEL_EXEMPT g_exc_in_wait
#endif
//@FUNC
thread_restart_state suspend_until(struct steady_time_point abs_time, thread_id_type nextid, const char *description, struct error_code *ec)
__CPROVER_requires(g_self.id == &g_td && (nextid == VX_INVALID_ID || nextid == &g_next_td) && (ec == &vx_throws || ec == &vx_ec_obj) && g_reg_ec_expect == ec)
__CPROVER_requires(EXC_ZERO && g_refs == 0 && g_reg_calls == 0 && g_reg_made == 0 && g_co_yields == 0 && g_q_calls == 0 && g_sch_calls == 0 && g_ipoints == 0 &&
                   g_flag_loads == 0 && g_wait_yields == 0 && !g_exc_in_wait && !g_q_after_handover && !g_q_started_seen)
__CPROVER_requires(g_intr_pending == g_intr_at_entry && !g_intr_while_suspended)
/* C13: a request that is pending on entry, or that arrives while the task is suspended, ends this call by thread_interrupted (the one
 * exception thread_function_nullary swallows) -- not by yield_aborted, not by a normal return: interruption points BEFORE and AFTER the yield */
__CPROVER_ensures(g_intr_at_entry ==> (vx_exc && g_thrown_code == VX_ERR_INTERRUPTED && g_co_yields == 0 && g_reg_calls == 0))
__CPROVER_ensures((g_co_yields == 1 && g_intr_while_suspended) ==> (vx_exc && g_thrown_code == VX_ERR_INTERRUPTED))
/* registered as a waiter: at most one timer, for THIS task, at the caller's deadline, to make it pending with restart state `timeout`,
 * with a `started` flag that is initially clear */
__CPROVER_ensures(g_reg_calls <= 1)
__CPROVER_ensures(g_reg_calls == 1 ==> (g_reg_thrd == &g_td && g_reg_time == abs_time.v && g_reg_state == S_PENDING && g_reg_ex == thread_restart_state_timeout &&
                                        g_reg_started != 0 && !g_reg_started_init))
/* never suspended without a registered timer (stub order predicate + this): a failed registration ends the call, visibly */
__CPROVER_ensures(g_co_yields <= 1 && (g_co_yields == 1 ==> g_reg_made == 1))
__CPROVER_ensures((g_reg_calls == 1 && g_reg_made == 0) ==> (g_co_yields == 0 && (vx_exc || (ec == &vx_ec_obj && EC_FAILED(&vx_ec_obj) && __CPROVER_return_value == thread_restart_state_unknown))))
/* the hand-over: state `suspended`; a nextid of another scheduler is dispatched there exactly once and not handed to the own worker */
__CPROVER_ensures(g_co_yields == 1 ==> (g_y_state == S_SUSPENDED && g_y_next == (FOREIGN_NEXT ? VX_INVALID_ID : nextid)))
__CPROVER_ensures(g_sch_calls == ((g_co_yields == 1 && FOREIGN_NEXT) ? 1 : 0) && (g_sch_calls == 1 ==> (g_sch_thrd == nextid && g_sch_on_ok)))
/* woken by the timer: it is spent, nothing to cancel.  No request ever without a hand-over, none addressed to anybody but the timer */
__CPROVER_ensures((g_co_yields == 0 || g_y_delivered == thread_restart_state_timeout) ==> g_q_calls == 0)
__CPROVER_ensures(g_q_calls <= 1 && (g_q_calls == 1 ==> CANCELLED))
/* woken early => the timer is cancelled -- on EVERY exit, or it stays armed and hits a later, unrelated suspension of this task.  The unit
 * timed.suspend_until exempts the exit by thread_interrupted out of the wait for `timer_started` (finding F-TIMED-2); the unit
 * timed.suspend_until_cancels_on_every_exit (-DU_CANCEL_ON_EVERY_EXIT) does not */
__CPROVER_ensures((WOKEN_EARLY && !CANCEL_EXEMPT) ==> CANCELLED)
/* the caller learns how it was woken: a normal return yields the delivered restart state; `abort` is additionally reported as yield_aborted
 * (thrown if the caller asked for exceptions; observation O-T4: with a caller-provided error_code the error is immediately overwritten by
 * make_success_code(), only the return value tells) */
__CPROVER_ensures((!vx_exc && g_co_yields == 1) ==> __CPROVER_return_value == g_y_delivered)
__CPROVER_ensures((vx_exc && g_thrown_code == pika_error_yield_aborted) ==> (g_co_yields == 1 && g_y_delivered == thread_restart_state_abort && CANCELLED))
__CPROVER_ensures(g_errs >= 1 ==> g_err == pika_error_yield_aborted)
__CPROVER_assigns(EXC_FRAME, Q_FRAME, FLAG_FRAME, g_refs, g_reg_calls, g_reg_made, g_reg_thrd, g_reg_time, g_reg_started, g_reg_started_init, g_reg_state, g_reg_ex,
                  g_reg_prio, g_reg_retry, g_reg_ec_ok, g_co_yields, g_y_state, g_y_next, g_y_delivered, g_sch_calls, g_sch_on_ok, g_sch_thrd, g_ipoints,
                  g_wait_yields, g_exc_in_wait, g_q_after_handover, g_q_started_seen, g_intr_pending, g_intr_while_suspended)
//@LIFT body
#endif

#ifdef U_HELPERS6
#define VX_EXC_RESULT ts_make0()
//@FUNC
thread_state helpers_set_thread_state(thread_id_type id, thread_schedule_state state, thread_restart_state stateex, thread_priority priority,
                                      bool retry_on_active, struct error_code *ec)
__CPROVER_requires((id == VX_INVALID_ID || id == &g_td || id == &g_timer_td) && (ec == &vx_throws || ec == &vx_ec_obj) && EXC_ZERO && g_q_calls == 0)
/* a pure forwarder: exactly one request, unchanged, with the caller's error_code (errors of the callee reach the caller) */
__CPROVER_ensures(g_q_calls == 1 && g_q_thrd == id && g_q_state == state && g_q_ex == stateex && g_q_prio == priority && g_q_retry == retry_on_active &&
                  g_q_ec_nothrow == (ec != &vx_throws))
__CPROVER_ensures(!vx_exc && g_errs == 0)
__CPROVER_assigns(EXC_FRAME, Q_FRAME)
//@LIFT body
#endif

#ifdef U_HELPERS_ABS
/* T stub: set_thread_state_timed (body: unit timed.set_thread_state_timed) */
static long g_tm_calls; static struct scheduler_base *g_tm_sched; static long g_tm_time; static thread_data *g_tm_thrd; static thread_schedule_state g_tm_state;
static thread_restart_state g_tm_ex; static thread_priority g_tm_prio; static struct thread_schedule_hint g_tm_hint; static struct atomic_flag_s *g_tm_started;
static bool g_tm_retry; static struct error_code *g_tm_ec; static thread_data *g_tm_result;
static thread_data *set_thread_state_timed(struct scheduler_base *scheduler, struct steady_time_point abs_time, thread_id_type thrd, thread_schedule_state newstate,
                                           thread_restart_state newstate_ex, thread_priority priority, struct thread_schedule_hint schedulehint,
                                           struct atomic_flag_s *started, bool retry_on_active, struct error_code *ec)
{
  if (g_tm_calls < 2) g_tm_calls++;
  g_tm_sched = scheduler; g_tm_time = abs_time.v; g_tm_thrd = thrd; g_tm_state = newstate; g_tm_ex = newstate_ex; g_tm_prio = priority; g_tm_hint = schedulehint;
  g_tm_started = started; g_tm_retry = retry_on_active; g_tm_ec = ec;
  g_tm_result = nondet_bool() ? &g_timer_td : VX_INVALID_ID;
  return g_tm_result;
}
#define VX_EXC_RESULT VX_INVALID_ID
//@FUNC
thread_id_ref_type helpers_set_thread_state_abs(thread_id_type id, struct steady_time_point abs_time, struct atomic_flag_s *timer_started, thread_schedule_state state,
                                                thread_restart_state stateex, thread_priority priority, bool retry_on_active, struct error_code *ec)
/* observation O-T3: the id is dereferenced before set_thread_state_timed's null check: a valid id is a precondition of this overload */
__CPROVER_requires(id == &g_td && (ec == &vx_throws || ec == &vx_ec_obj) && EXC_ZERO && g_tm_calls == 0)
/* a pure forwarder: exactly one registration, request, started flag and error_code unchanged (a failure reported by the callee reaches
 * the caller); the timer id is passed back */
__CPROVER_ensures(g_tm_calls == 1 && g_tm_time == abs_time.v && g_tm_thrd == id && g_tm_state == state && g_tm_ex == stateex &&
                  g_tm_prio == priority && g_tm_started == timer_started && g_tm_retry == retry_on_active && g_tm_ec == ec)
__CPROVER_ensures(__CPROVER_return_value == g_tm_result && !vx_exc && g_errs == 0)
__CPROVER_assigns(g_tm_calls, g_tm_sched, g_tm_time, g_tm_thrd, g_tm_state, g_tm_ex, g_tm_prio, g_tm_hint, g_tm_started, g_tm_retry, g_tm_ec, g_tm_result)
//@LIFT body
#endif

void harness(void)
{
  exc_init(); ct_init(); q_init(); flag_init(); timed_objects_init();
  vx_ec_obj.value = nondet_int();        /* whatever the caller left in its error_code */
  struct error_code *ec = nondet_bool() ? &vx_throws : &vx_ec_obj;
  struct steady_time_point t; t.v = nondet_long();
#ifdef U_SUSPEND_UNTIL
  g_self.id = &g_td;
  g_reg_calls = 0; g_reg_made = 0; g_reg_thrd = 0; g_reg_time = 0; g_reg_started = 0; g_reg_started_init = false; g_reg_state = 0; g_reg_ex = 0; g_reg_prio = 0;
  g_reg_retry = false; g_reg_ec_ok = false; g_reg_ec_expect = ec;
  g_co_yields = 0; g_y_state = 0; g_y_next = 0; g_y_delivered = 0; g_sch_calls = 0; g_sch_on_ok = false; g_sch_thrd = 0; g_ipoints = 0; g_wait_yields = 0;
  g_exc_in_wait = false; g_q_after_handover = false; g_q_started_seen = false;
  g_intr_at_entry = nondet_bool(); g_intr_pending = g_intr_at_entry; g_intr_while_suspended = false;
  thread_data *nextid = nondet_bool() ? &g_next_td : VX_INVALID_ID;
  thread_restart_state r = suspend_until(t, nextid, "desc", ec);
  if (!vx_exc && g_errs == 0 && g_co_yields == 1 && r == thread_restart_state_timeout) VX_REACH("woken_by_the_timer_no_cancel");
  if (!vx_exc && g_errs == 0 && g_co_yields == 1 && r == thread_restart_state_signaled && g_q_calls == 1) VX_REACH("woken_early_timer_cancelled");
  if (g_q_calls == 1 && g_wait_yields >= 1) VX_REACH("cancelled_after_waiting_for_the_timer_to_start");
  if (g_co_yields == 1 && g_errs == 1 && ec == &vx_throws) VX_REACH("aborted_throws_after_cancel");
  if (g_co_yields == 1 && g_errs == 1 && ec == &vx_ec_obj && !vx_exc) VX_REACH("aborted_error_code_after_cancel");
  if (g_reg_calls == 1 && g_reg_made == 0 && vx_exc) VX_REACH("registration_threw_not_suspended");
  if (g_reg_calls == 1 && g_reg_made == 0 && !vx_exc) VX_REACH("registration_failed_error_code_not_suspended");
  if (g_reg_calls == 0 && vx_exc) VX_REACH("interrupted_before_registering");
  if (g_co_yields == 1 && vx_exc && g_thrown_code == VX_ERR_INTERRUPTED && g_q_calls == 1) VX_REACH("interrupted_after_cancel");
  if (g_co_yields == 1 && g_intr_while_suspended && g_y_delivered == thread_restart_state_abort) VX_REACH("interrupted_while_suspended");
  if (g_sch_calls == 1) VX_REACH("foreign_nextid_dispatched");
  if (g_co_yields == 1 && g_y_next == &g_next_td) VX_REACH("own_nextid_handed_to_the_worker");
#ifndef KNOWN_CANCEL_WAIT_THROWS
  if (g_co_yields == 1 && g_exc_in_wait && g_q_calls == 0) VX_REACH("O_wait_interrupted_timer_left_armed");
#endif
#endif
#ifdef U_HELPERS6
  thread_data *id = nondet_bool() ? &g_td : (nondet_bool() ? &g_timer_td : VX_INVALID_ID);
  thread_schedule_state st = nondet_i8(); thread_restart_state sx = nondet_i8(); thread_priority prio = nondet_i8(); bool retry = nondet_bool();
  helpers_set_thread_state(id, st, sx, prio, retry, ec);
  if (ec == &vx_throws) VX_REACH("forwarded_throwing");
  if (ec == &vx_ec_obj) VX_REACH("forwarded_with_error_code");
#endif
#ifdef U_HELPERS_ABS
  struct atomic_flag_s started_flag; started_flag.v = false;
  struct atomic_flag_s *started = nondet_bool() ? &started_flag : 0;
  thread_schedule_state st = nondet_i8(); thread_restart_state sx = nondet_i8(); thread_priority prio = nondet_i8(); bool retry = nondet_bool();
  g_tm_calls = 0; g_tm_sched = 0; g_tm_time = 0; g_tm_thrd = 0; g_tm_state = 0; g_tm_ex = 0; g_tm_prio = 0; g_tm_hint = hint_make1(0); g_tm_started = 0; g_tm_retry = false;
  g_tm_ec = 0; g_tm_result = 0;
  g_td.scheduler_base_ = nondet_bool() ? &g_sched_obj : &g_sched_other;
  thread_data *r = helpers_set_thread_state_abs(&g_td, t, started, st, sx, prio, retry, ec);
  if (r == &g_timer_td) VX_REACH("timer_id_passed_back");
  if (r == VX_INVALID_ID) VX_REACH("invalid_id_passed_back");
#endif
}
