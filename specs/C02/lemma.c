/* C02 lemma L2 (no lifted code; lemma over the CONTRACTS of the units, DESIGN 3.4):
 *
 *   in every state reachable by guarantee steps,
 *     "a wake-up has been issued for T and T's code has not (re)started since"      (iss)
 *   implies
 *     T is queued  \/  a worker has taken T and is starting it  \/  a helper exists that will not abort
 *     \/  a helper has passed its check and is committed to re-issue the request  \/  T is terminated.
 *
 * Abstract state (one symbolic thread T):
 *   w         T's state word
 *   q         T is in a scheduler queue, or in the hands of the party that just made it pending and is committed to
 *             queue it before it returns (set_thread_state outcome (d): CAS => schedule_thread; scheduling loop: C01-U4)
 *   starting  a worker performed pending -> active for T and has not yet delivered the restart state (T's code starts
 *             right after the delivery: thread_data_stackful::operator(): coroutine_(set_state_ex(signaled)))
 *   h, hp, react   a helper task (set_active_state) exists, the word it carries, and whether T was (re)activated since it
 *             was created
 *   hr        a helper has passed its abort check and is about to re-issue set_thread_state(retry_on_active = true)
 *   iss       see above; set by the deciding step of a wake-up request, cleared when T's code (re)starts
 *
 * Steps.  Own units, taken from their contracts (the very macros used in the ensures clauses, c02.h):
 *   WAKE      deciding step of set_thread_state(T, pending|pending_boost, ..., retry_on_active = true)   [OUT_WAKE]
 *   CHECK     set_active_state reads the word and aborts or commits to re-issue                           [ABORT_COND]
 *   REISSUE   deciding step of the re-issued request                                                      [OUT_WAKE]
 *   OTHER     the step of any other set_thread_state call on the word                                     [GUAR]
 * Steps of the worker (guarantees of C01-U2/U3/U4, restated here and ASSUMED -- proved by the C01 units):
 *   ACTIVATE  pending -> active, tag + 1, T taken from a queue;   DELIVER  state_ex := signaled on the active word, T's
 *   code starts;   STORE  active -> s' (tag + 1) with s' = pending | pending_boost  =>  T re-queued exactly once.
 * The harness takes ONE arbitrary state satisfying the invariant and ONE arbitrary step and checks the invariant again
 * (inductiveness); the induction over the history is the paper argument of DESIGN 3.4.
 */
#include "c02.h"
static void throws_if(struct error_code *ec, pika_error errcode) { }
static thread_state thread_data_get_state(thread_data *self) { return self->current_state_; }
static bool thread_data_restore_state(thread_data *self, thread_schedule_state a, thread_restart_state b, thread_state c) { return false; }

struct abs { thread_state w; bool q, starting, h, react, hr, iss; thread_state hp; };
/* coupling invariants */
#define C1(s) (!PENDINGISH((s).w.st) || (s).q)                                   /* a pending word is queued (C01-U4/U5, own outcome (d)) */
#define C2(s) (!(s).h || (s).hp.st == S_ACTIVE)                                  /* a helper was created on an active word */
#define C3(s) (!((s).h && !(s).react) || !ABORT_COND((s).w, (s).hp))             /* no abort unless T was re-activated since */
#define C4(s) (!(s).starting || (s).w.st == S_ACTIVE)
#define DH(s) ((s).h && !ABORT_COND((s).w, (s).hp))
#define L2(s) (!(s).iss || (s).q || (s).starting || DH(s) || (s).hr || (s).w.st == S_TERMINATED)
#define INV_ALL(s) (WINV((s).w) && C1(s) && C2(s) && C3(s) && C4(s) && L2(s))

/* worker guarantees (C01), on words */
#define G_ACTIVATE(o, n) ((o).st == S_PENDING && (n).st == S_ACTIVE && (n).ex == (o).ex && (n).tg == (o).tg + 1)
#define G_DELIVER(o, n) ((o).st == S_ACTIVE && (n).st == S_ACTIVE && (n).ex == thread_restart_state_signaled && (n).tg == (o).tg)
#define G_STORE(o, n) ((o).st == S_ACTIVE && REAL_STATE((n).st) && (n).st != S_ACTIVE && (n).ex == (o).ex && (n).tg == (o).tg + 1)

static thread_state nd_word(void) { thread_state t; t.st = nondet_i8(); t.ex = nondet_i8(); t.tg = nondet_i64(); return t; }

/* the ghost record of one set_thread_state call: arbitrary values; the contract's postcondition filters them */
static void havoc_record(void)
{
  lin = nondet_bool(); lin_old = nd_word(); lin_new = nd_word(); g_last_read = nd_word(); g_stale = nondet_bool();
  g_helpers = nondet_long(); g_sched = nondet_long(); g_dsw = nondet_long();
  g_h_fn_ok = nondet_bool(); g_h_thrd_is_T = nondet_bool(); g_h_on_ok = nondet_bool(); g_h_runnable = nondet_bool();
  g_h_state = nondet_i8(); g_h_ex = nondet_i8(); g_h_prio = nondet_i8(); g_h_prev = nd_word();
  g_s_thrd_is_T = nondet_bool(); g_s_on_ok = nondet_bool(); g_s_hint.hint = nondet_i16(); g_s_hint.mode = nondet_i8();
  g_d_on_ok = nondet_bool(); g_d_hint = nondet_i16();
  vx_exc = false; g_errs = 0;
}

void harness(void)
{
  ghost_init();
#ifdef L_RELY
  /* ---- side conditions of the rely/guarantee argument (full domain) ---- */
  thread_state o = nd_word(), m = nd_word(), n = nd_word();
  thread_schedule_state ns = nondet_i8();
  thread_restart_state nx = nondet_i8();
  if (!WINV(o)) return;
  VX_ASSERT(RELY_WAKER(o, o) && RELY_RUNNER(o, o), "relies are reflexive");
  VX_ASSERT(VX_IMPLIES(RELY_WAKER(o, m) && RELY_WAKER(m, n), RELY_WAKER(o, n)), "RELY_WAKER is transitive");
  VX_ASSERT(VX_IMPLIES(RELY_RUNNER(o, m) && RELY_RUNNER(m, n), RELY_RUNNER(o, n)), "RELY_RUNNER is transitive");
  VX_ASSERT(VX_IMPLIES(RELY_WAKER(o, n), WINV(n)), "the word invariant is stable under the rely");
  if (REAL_STATE(ns) && ns != S_ACTIVE && REAL_EX(nx) && o.tg < TAG_BIG)
  {
    VX_ASSERT(VX_IMPLIES(GUAR(o, n, ns, nx), RELY_WAKER(o, n)), "set_thread_state's own step is admissible interference for every other waker / helper");
    VX_ASSERT(VX_IMPLIES(GUAR(o, n, ns, nx), RELY_RUNNER(o, n) && o.st != S_ACTIVE), "set_thread_state never steps on an active word (C01-L1: an active word belongs to its runner)");
    if (GUAR(o, n, ns, nx) && o.st == S_SUSPENDED && ns == S_PENDING) VX_REACH("own_step");
  }
  if (o.tg < TAG_BIG)
  {
    VX_ASSERT(VX_IMPLIES(G_ACTIVATE(o, n) || G_DELIVER(o, n) || G_STORE(o, n), RELY_WAKER(o, n)), "wakers tolerate the worker's steps");
    if (G_DELIVER(o, n) && !TS_EQ(o, n)) VX_REACH("state_ex_changes_without_tag_bump");
  }
#endif
#ifdef L_L2
  struct abs s, t;
  s.w = nd_word(); s.hp = nd_word();
  s.q = nondet_bool(); s.starting = nondet_bool(); s.h = nondet_bool(); s.react = nondet_bool(); s.hr = nondet_bool(); s.iss = nondet_bool();
  if (!(INV_ALL(s) && s.w.tg < TAG_BIG)) return;
  t = s;
  /* the request carried by wakers / helpers in this lemma is a wake-up request */
  thread_schedule_state ns = nondet_i8();
  thread_restart_state nx = nondet_i8();
  thread_priority prio = nondet_i8();
  struct thread_schedule_hint hint; hint.hint = nondet_i16(); hint.mode = nondet_i8();
  if (!(WAKE(ns) && REAL_EX(nx))) return;
  int step = nondet_int();
  if (step == 0 || step == 1)
  {
    /* WAKE (fresh waker, step 0) / REISSUE (helper committed to re-issue, step 1): contract of sts.set_thread_state,
     * retry_on_active = true, normal return.  Linearisation: the deciding step acts on the current word. */
    if (step == 1 && !s.hr) return;
    havoc_record();
    lin_old = s.w;        /* linearisation: the word the deciding step acted on (CAS) ... */
    g_last_read = s.w;    /* ... or observed (load) is the current word */
    if (!OUT_WAKE(ns, nx, prio, hint, true)) return;
    if (lin) t.w = lin_new;
    if (g_sched == 1) t.q = true;                       /* schedule_thread(T) exactly once */
    if (g_helpers == 1) { t.h = true; t.hp = g_h_prev; t.react = false; }   /* the newest helper is the tracked one */
    if (step == 0) t.iss = true; else t.hr = false;
    VX_ASSERT(L2(t), "L2: every outcome (a) (b) (c) (d) (a') of a wake-up request establishes: queued, or helper that will not abort, or terminated");
    if (step == 0 && !s.iss && OUT_HELPER(ns, nx, prio, true)) VX_REACH("wake_issued_while_active_helper_created");
    if (step == 0 && !s.iss && OUT_SCHEDULED(ns, nx, hint)) VX_REACH("wake_issued_while_suspended_scheduled");
    if (step == 1 && s.iss && !s.q && !s.starting && !DH(s) && OUT_SCHEDULED(ns, nx, hint)) VX_REACH("helper_reissue_wakes_suspended_target");
    if (step == 1 && s.iss && !s.q && !s.starting && OUT_HELPER(ns, nx, prio, true)) VX_REACH("helper_reissue_target_still_active_new_helper");
  }
  else if (step == 2)
  {
    /* CHECK: contract of sts.set_active_state: reads the word once; re-issues iff not ABORT_COND */
    if (!s.h) return;
    g_last_read = s.w;
    t.h = false;
    t.hr = s.hr || !ABORT_COND(g_last_read, s.hp);
    if (ABORT_COND(g_last_read, s.hp))
    {
      VX_ASSERT(s.react, "set_active_state's abort condition implies T was (re)activated after the helper's request was recorded");
      if (s.w.tg == s.hp.tg) VX_REACH("abort_on_state_ex_delivery_of_the_same_activation");
      if (s.w.tg > s.hp.tg) VX_REACH("abort_after_target_left_active_and_came_back");
    }
    else if (s.iss && !s.q && !s.starting && s.w.st == S_SUSPENDED) VX_REACH("helper_commits_while_target_suspended");
  }
  else if (step == 3)
  {
    /* OTHER: the step of some other set_thread_state call (any valid request), from its contract: GUAR, a schedule iff it
     * moved T from a non-pending state to a pending one, suspended never forced */
    thread_schedule_state os = nondet_i8();
    thread_restart_state ox = nondet_i8();
    t.w = nd_word();
    if (!(REAL_STATE(os) && os != S_ACTIVE && os != S_SUSPENDED && REAL_EX(ox) && GUAR(s.w, t.w, os, ox))) return;
    if (WAKE(os) && !PENDINGISH(s.w.st)) t.q = true;
    if (s.iss && DH(s) && !s.q) VX_REACH("other_waker_steps_while_helper_pending");
  }
  else if (step == 4)
  {
    /* ACTIVATE (worker, C01): T taken from a queue, pending -> active */
    t.w = nd_word();
    if (!(s.q && G_ACTIVATE(s.w, t.w))) return;
    t.q = nondet_bool();          /* one queue entry consumed; stale entries may remain */
    t.starting = true;
    t.react = true;
    VX_REACH("activate");
  }
  else if (step == 5)
  {
    /* DELIVER (worker, C01): restart state delivered, T's code (re)starts: every wake-up issued so far is consumed */
    t.w = nd_word();
    if (!(s.starting && G_DELIVER(s.w, t.w))) return;
    t.starting = false;
    t.react = true;
    t.iss = false;
    VX_REACH("deliver");
  }
  else if (step == 6)
  {
    /* STORE (worker, C01-U3/U4): T's code returned state s'; re-queued exactly once if s' is pending / pending_boost */
    t.w = nd_word();
    if (!(!s.starting && G_STORE(s.w, t.w))) return;
    if (PENDINGISH(t.w.st)) t.q = true;
    if (s.iss && t.w.st == S_SUSPENDED && !s.q && !s.hr) VX_REACH("target_suspends_with_wake_up_in_flight");
  }
  else return;
  VX_ASSERT(WINV(t.w), "the word invariant is preserved");
  VX_ASSERT(C1(t), "coupling: a pending word is queued");
  VX_ASSERT(C2(t), "coupling: a helper carries an active word");
  VX_ASSERT(C3(t), "coupling: a helper can abort only after T was (re)activated");
  VX_ASSERT(C4(t), "coupling: a starting task's word is active");
  VX_ASSERT(L2(t), "L2 is preserved by every guarantee step: wake-up issued and not consumed => queued, starting, helper that will not abort, helper committed, or terminated");
#endif
}
