import re

from vx.lift import Lift, Sub, Call, Members, Guard, DropStmt, Rule, LiftError, Auto, match_close, split_args
from vx.run import Unit

STS = "libs/pika/threading_base/src/set_thread_state.cpp"
AGENT = "libs/pika/threading_base/src/execution_agent.cpp"
TD = "libs/pika/threading_base/include/pika/threading_base/thread_data.hpp"
THROW = "libs/pika/errors/src/throw_exception.cpp"


# ---- local helper rules (structural lowerings; Call0 / Method are copies of the ones in specs/C19/spec.py) ---------------
class Call0(Call):
    """Call with n (default: any) but WITHOUT the fixed-point re-scan of vx.lift.Call: needed when the replacement text
    contains the head again (callee -> same-named stub)."""

    def __init__(self, head, template, n=None, stmt=False):
        Call.__init__(self, head, template, n, stmt)

    def apply(self, text):
        self._nested = True
        return Call.apply(self, text)


class Method(Rule):
    """member call `RECV.name(args)` / `RECV->name(args)` -> template with {recv}, {0}, {1}, {args}; RECV is found by
    scanning backwards over identifiers, `::`, `.`, `->` and balanced (...) / [...] groups."""

    def __init__(self, name, template, n=None):
        self.name, self.template, self.n = name, template, n

    @staticmethod
    def _recv_start(text, dot):
        i = dot
        while True:
            if i >= 1 and text[i - 1] in ")]":
                close = text[i - 1]
                open_ = "(" if close == ")" else "["
                depth, q = 0, i - 1
                while q >= 0:
                    if text[q] == close:
                        depth += 1
                    elif text[q] == open_:
                        depth -= 1
                        if depth == 0:
                            break
                    q -= 1
                if q < 0:
                    raise LiftError("Method: unbalanced receiver")
                i = q
                continue
            mm = re.search(r"\w+$", text[:i])
            if mm:
                i = mm.start()
                if text[i - 2 : i] in ("::", "->"):
                    i -= 2
                    continue
                if text[i - 1 : i] == ".":
                    i -= 1
                    continue
            break
        return i

    def apply(self, text):
        k, scan = 0, 0
        rx = re.compile(r"(\.|->)%s\s*\(" % self.name)
        while True:
            m = rx.search(text, scan)
            if not m:
                break
            rs = self._recv_start(text, m.start())
            recv = text[rs : m.start()].strip()
            if not recv:
                raise LiftError("Method(%s): empty receiver" % self.name)
            if m.group(1) == "->":
                recv = "*(%s)" % recv
            op = m.end() - 1
            cl = match_close(text, op)
            args = split_args(text[op + 1 : cl])
            env = {"args": text[op + 1 : cl].strip(), "recv": recv}
            rep = re.sub(r"\{(\d+|args|recv)\}", lambda mo: args[int(mo.group(1))] if mo.group(1).isdigit() else env[mo.group(1)],
                         self.template)
            text = text[:rs] + rep + text[cl + 1 :]
            scan = rs + len(rep)
            k += 1
        self.check(k, "Method(%s)" % self.name)
        return text


class BraceCtor(Rule):
    """brace construction `TYPE{args}` -> `fn<N>(args)` and `TYPE name{args};` -> `CTYPE name = fn<N>(args);` (N = number of
    arguments: picks the constructor overload, nothing else)."""

    def __init__(self, type_pat, ctype, fn, n=None):
        self.type_pat, self.ctype, self.fn, self.n = type_pat, ctype, fn, n

    def apply(self, text):
        k, scan = 0, 0
        rx = re.compile(r"(?:%s)(\s+\w+)?\s*\{" % self.type_pat)
        while True:
            m = rx.search(text, scan)
            if not m:
                break
            op = m.end() - 1
            cl = match_close(text, op, "{", "}")
            args = split_args(text[op + 1 : cl])
            call = "%s%d(%s)" % (self.fn, len(args), ", ".join(args))
            rep = ("%s %s = %s" % (self.ctype, m.group(1).strip(), call)) if m.group(1) else call
            text = text[: m.start()] + rep + text[cl + 1 :]
            scan = m.start() + len(rep)
            k += 1
        self.check(k, "BraceCtor(%s)" % self.type_pat)
        return text


# ---- spelling rules (purely syntactic: C++ spelling -> C spelling, callee -> stub) ---------------------------------------
LOGS = DropStmt(r"\bPIKA_LOG", None)       # first, so that fire counts do not depend on what the log statements mention
ENUMS = [
    Sub(r"\bthread_schedule_state::(\w+)", r"thread_schedule_state_\1", None),
    Sub(r"\bthread_restart_state::(\w+)", r"thread_restart_state_\1", None),
    Sub(r"(?:\bexecution::)?\bthread_priority::(\w+)", r"thread_priority_\1", None),
    Sub(r"(?:\bexecution::)?\bthread_stacksize::(\w+)", r"thread_stacksize_\1", None),
    Sub(r"(?:\bpika::)?\berror::(\w+)", r"pika_error_\1", None),
    Sub(r"\bthrowmode::(\w+)", r"throwmode_\1", None),
    Sub(r"\binvalid_thread_id\b", "VX_INVALID_ID", None),
]
# thread_state value semantics: constructors (overload picked by the number of arguments), accessors, comparison
TS_CTOR = Call(r"(?<![\w:])thread_state", lambda args, env: "ts_make%d(%s)" % (len(args), ", ".join(args)), None)
TS_DECL = Sub(r"\bthread_state\s+(\w+);", r"thread_state \1 = ts_make0();", None)          # default constructor
TS_ACC = [Method("state", "ts_state({recv})"), Method("state_ex", "ts_state_ex({recv})"), Method("tag", "ts_tag({recv})")]
TS_CMP = Sub(r"\b(\w+_state)\s*(==|!=)\s*(\w+_state)\b(?!\s*[.(\w])",
             lambda m: "%sts_eq(%s, %s)" % ("!" if m.group(2) == "!=" else "", m.group(1), m.group(3)), None)
# thread_data / scheduler_base member calls -> C functions (get_state / restore_state are lifted, the rest are stubs)
TD_CALLS = [
    Method("get_state", "thread_data_get_state(&{recv})"),
    Method("restore_state", "thread_data_restore_state(&{recv}, {args})"),
    Method("get_scheduler_base", "thread_data_get_scheduler_base(&{recv})"),
    Method("get_priority", "thread_data_get_priority(&{recv})"),
    Method("get_last_worker_thread_num", "thread_data_get_last_worker_thread_num(&{recv})"),
    Method("schedule_thread", "sched_schedule_thread(&{recv}, {args})"),
    Method("do_some_work", "sched_do_some_work(&{recv}, {args})"),
    Method("noref", "tid_noref({recv})"),
    Sub(r"\bauto\*\s*(\w+)\s*=\s*([^;]+);", r"__typeof__(\2) \1 = \2;", None),
]
# error reporting.  PIKA_THROWS_IF(ec, code, ...): throws (ec is pika::throws) or sets ec and CONTINUES; the decision is made
# by the lifted pika::detail::throws_if; the exceptional edge ends the path.  PIKA_THROW_EXCEPTION(code, ...) always throws.
THROWS_IF = Call0(r"\bPIKA_THROWS_IF", "{ vx_throws_if({0}, {1}); if (vx_exc) return VX_EXC_RESULT; }", None, stmt=True)
THROW_EXC = Call0(r"\bPIKA_THROW_EXCEPTION", "{ vx_throw({0}); return VX_EXC_RESULT; }", None, stmt=True)
EC = [
    Sub(r"&ec\s*(!=|==)\s*&throws\b", r"ec \1 &vx_throws", None),                            # ec is a reference: a pointer in C
    Sub(r"(?<![\w&*.>])ec\s*=\s*make_success_code\(\)", "*ec = make_success_code()", None),
]
# calls of set_thread_state(id, state, ex, priority [, hint [, retry_on_active [, ec]]]): the omitted trailing arguments are
# the defaults of the declaration in set_thread_state.hpp (thread_schedule_hint(), true, throws)
STS_DEFAULTS = ["hint_make0()", "true", "&vx_throws"]


def _sts_call(args, env):
    if len(args) < 4 or len(args) > 7:
        raise LiftError("set_thread_state call with %d arguments" % len(args))
    return "set_thread_state(%s)" % ", ".join(args + STS_DEFAULTS[len(args) - 4:])


STS_CALL = Call0(r"(?<![\w:.>])(?:threads::detail::)?set_thread_state", _sts_call, None)
HINT = BraceCtor(r"execution::thread_schedule_hint", "struct thread_schedule_hint", "hint_make", None)

THROWS_IF_LIFT = Lift(THROW, r"void throws_if\(", rules=[
    Sub(r"&ec\b", "ec", "+"),
    Sub(r"&pika::throws\b", "&vx_throws", "+"),
    Sub(r"(?<![\w&*.>])ec(?=\s*=[^=])", "*ec", "+"),
    Call(r"pika::detail::throw_exception", "vx_throw_exception({0})", "+"),
    Call(r"\bmake_error_code", "make_error_code({0})", "+"),
    Sub(r"\bpika::error\b(?!::)", "pika_error", None)])
WORD_LIFTS = {
    "throws_if": THROWS_IF_LIFT,
    # thread_data::get_state(order): current_state_.load(order)
    "get_state": Lift(TD, r"thread_state get_state\(std::memory_order order", rules=[
        Method("load", "atomic_load_ts(&{recv})", 1), Members(["current_state_"])]),
    # thread_data::restore_state(new_state, state_ex, old_state): the tagged CAS used by set_thread_state
    "restore_state": Lift(TD, r"bool restore_state\(thread_schedule_state new_state, thread_restart_state state_ex,", rules=TS_ACC + [
        TS_CTOR, Method("compare_exchange_strong", "atomic_cas_strong_ts(&{recv}, &{0}, {1})", 1), Members(["current_state_"])]),
}

STS_RULES = [LOGS] + ENUMS + TS_ACC + [
    TS_CTOR, TS_DECL, TS_CMP,
    THROWS_IF, THROW_EXC] + EC + [
    DropStmt(r"std::string\s+\w+\s*=\s*fmt::format", None),                                   # message text of an error
    Call(r"\bthread_init_data\s+(\w+)", "struct thread_init_data {h1} = thread_init_data_make({args})", None),
    Call(r"\butil::detail::bind", "vx_bind({args})", None),
    Call(r"\bthread_id_ref_type", "tid_ref({0})", None),
    Call(r"\bthread_result_type", "result_make({args})", None),
    HINT, STS_CALL,
    Call0(r"(?<![\w:.>])create_work", "{ create_work({0}, &{1}, {2}); if (vx_exc) return VX_EXC_RESULT; }", None, stmt=True),
    Call(r"(?:pika::)?execution::this_thread::detail::yield_k", "vx_yield_k({0})", None),
    Sub(r"\berror_code\s+(\w+)\(([^();]*)\);", r"struct error_code vx_local_\1 = error_code_make(\2); struct error_code *\1 = &vx_local_\1;", None),
] + TD_CALLS

LOOP_RETRY = """
__CPROVER_assigns(previous_state, k, GHOST_FRAME)
__CPROVER_loop_invariant(WINV(g_td.current_state_) && !lin && g_helpers == 0 && g_cw_calls == 0 && g_sched == 0 && g_dsw == 0 && g_errs == 0 && !vx_exc)
__CPROVER_loop_invariant(g_reads >= 0 && g_reads <= 2 && g_cas_failed >= 0 && g_cas_failed <= 2 && g_yields >= 0 && g_yields <= 2 && g_refs == 0)
"""

UNITS = [
    Unit("sts.set_thread_state", "sts.c", defines=["U_SET_THREAD_STATE"], enforce="set_thread_state",
         lifts=dict(WORD_LIFTS, body=Lift(STS, r"thread_state set_thread_state\(thread_id_type const& thrd,", rules=STS_RULES,
                                          loops={1: LOOP_RETRY, "count": 1})),
         funcs=[STS + ": threads::detail::set_thread_state", TD + ": thread_data::get_state, thread_data::restore_state(state, state_ex, old)",
                THROW + ": pika::detail::throws_if"], min_obligations=60,
         doc="S/T: a wake-up request (pending / pending_boost) returns only with: word seen in the requested state; word seen active and "
             "exactly one helper carrying (thrd, state, ex, priority, observed word); word seen terminated; own CAS from suspended and "
             "schedule_thread exactly once with the caller's hint followed by do_some_work; own CAS from the other pending state and no "
             "second schedule; or create_work's exception.  Invalid requests: error and no step.  Never on a stale word."),
    Unit("sts.set_active_state", "sts.c", defines=["U_SET_ACTIVE_STATE"], enforce="set_active_state",
         lifts=dict(WORD_LIFTS, body=Lift(STS, r"thread_result_type set_active_state\(thread_id_ref_type thrd,", rules=STS_RULES)),
         funcs=[STS + ": threads::detail::set_active_state"], min_obligations=25,
         doc="T: the helper aborts only if the word's state field equals the recorded one and the word differs from it; otherwise it "
             "re-issues set_thread_state exactly once with the same request, retry_on_active = true, the last-worker hint and a "
             "non-throwing error_code; it never writes the word"),
]

# ---- execution_agent -------------------------------------------------------------------------------------------------
AGENT_RULES = [LOGS] + ENUMS + TS_ACC + [
    THROW_EXC,
    Sub(r"\bon_exit_reset_held_lock_data\s+\w+;", "", None),            # PIKA_HAVE_VERIFY_LOCKS bookkeeping (off in this build: empty struct)
    Sub(r"\bstd::uncaught_exceptions\(\)", "vx_uncaught_exceptions()", None),
    Sub(r"\bpika::get_local_worker_thread_num\(\)", "get_local_worker_thread_num()", None),
    Sub(r"\bpika::get_worker_thread_num\(\)", "get_worker_thread_num()", None),
    Method("get_thread_id", "coroutine_get_thread_id(&{recv})"),
    Method("yield", "coroutine_yield(&{recv}, {0})"),
    Method("interruption_point", "{ thread_data_interruption_point(&{recv}); if (vx_exc) return VX_EXC_RESULT; }"),   # may throw thread_interrupted
    Method("set_last_worker_thread_num", "thread_data_set_last_worker_thread_num(&{recv}, {0})"),
    Call(r"\bthread_result_type", "result_make({args})", None),
    HINT, STS_CALL,
    Call0(r"(?<![\w:.>])do_(resume|yield)", "do_{h1}(self, {args})"),
] + TD_CALLS + [Auto(None), Members(["self_"], optional=["self_"])]
AG_LIFTS = {"throws_if": THROWS_IF_LIFT, "get_state": WORD_LIFTS["get_state"]}

UNITS += [
    Unit("agent.do_resume", "agent.c", defines=["U_DO_RESUME"], enforce="do_resume",
         lifts=dict(AG_LIFTS, body=Lift(AGENT, r"void execution_agent::do_resume\(", rules=AGENT_RULES)),
         funcs=[AGENT + ": execution_agent::do_resume"], min_obligations=15,
         doc="T: exactly one set_thread_state request for the agent's task: pending, the given restart state, hint = thread hint of "
             "the stored last worker, retry_on_active = true"),
    Unit("agent.do_yield", "agent.c", defines=["U_DO_YIELD"], enforce="do_yield",
         lifts=dict(AG_LIFTS, body=Lift(AGENT, r"thread_restart_state execution_agent::do_yield\(", rules=AGENT_RULES)),
         funcs=[AGENT + ": execution_agent::do_yield"], min_obligations=40,
         doc="T: the worker is handed exactly the requested state (no next thread), at most once and only after the last worker was "
             "recorded; a normal return reports the restart state delivered by the waker; `abort` becomes yield_aborted"),
]
for (nm, what) in [("resume", "do_resume(desc, signaled)"), ("abort", "do_resume(desc, abort)"),
                   ("suspend", "do_yield(desc, suspended)"), ("yield", "do_yield(desc, pending)")]:
    UNITS.append(Unit("agent." + nm, "agent.c", defines=["U_ENTRY", "U_E_" + nm.upper()], enforce="agent_" + nm,
                      lifts=dict(AG_LIFTS, **{nm: Lift(AGENT, r"void execution_agent::%s\(char const\* desc\)" % nm, rules=AGENT_RULES)}),
                      funcs=[AGENT + ": execution_agent::" + nm], min_obligations=3,
                      doc="T: exactly one " + what + " and nothing else"))

# ---- lemma harnesses over the contracts (no lifted code) ---------------------------------------------------------------
UNITS += [
    Unit("lemma.rely_guarantee", "lemma.c", defines=["L_RELY"], kind="lemma", min_obligations=8, no_replay=True,
         doc="side conditions of the rely/guarantee argument on the thread state word: relies reflexive and transitive, word "
             "invariant stable, set_thread_state's step admissible for other wakers and never on an active word, the worker's "
             "steps (C01 guarantees, restated) admissible for wakers"),
    Unit("lemma.L2_no_lost_wakeup", "lemma.c", defines=["L_L2"], kind="lemma", min_obligations=6, no_replay=True,
         doc="L2: the invariant 'wake-up issued and T's code not restarted since => T queued, or being started, or a helper exists "
             "that will not abort, or a helper is committed to re-issue, or T terminated' (plus coupling invariants) is preserved by "
             "every guarantee step: outcomes (a)-(d),(a') of set_thread_state (the contract's own OUT_WAKE macro), set_active_state's "
             "check (ABORT_COND), other wakers' steps (GUAR), and the worker's activate / deliver / store steps (C01, assumed); "
             "set_active_state's abort implies T was (re)activated after the request was recorded"),
]

META = {
    "explanation":
        "C02 (no lost wake-up) is decided in its safety form on ONE symbolic task T (thread_data with its state word, last worker, "
        "scheduler, priority).  sts.set_thread_state (S/T, loop contract on the retry loop): a wake-up request returns only in one of "
        "the ghost-recorded outcomes (a) word seen in the requested state, (b) word seen active + retry_on_active: exactly one runnable "
        "helper carrying (T, state, ex, priority, observed word), (c) word seen terminated, (d) own CAS suspended -> requested state, "
        "tag + 1: schedule_thread(T, caller's hint) exactly once, then do_some_work, (a') own CAS pending <-> pending_boost: no second "
        "schedule, or with create_work's exception; invalid requests (null id, active as target, demoting a pending task) report an "
        "error and take no step; a non-CAS outcome is never decided on a word that a failed CAS has shown to be stale.  "
        "sts.set_active_state (T): aborts iff the word's state equals the recorded one and the word differs; otherwise re-issues the "
        "request once with retry_on_active = true and the last-worker hint.  agent.* (T): do_resume / do_yield / resume / abort / "
        "suspend / yield.  lemma.L2_no_lost_wakeup: the invariant 'wake-up issued and T's code not restarted since => T queued, or "
        "being started, or a non-aborting helper exists, or a helper is committed to re-issue, or T terminated' is inductive over the "
        "contracts' outcome predicates (the same macros as in the ensures clauses) and the worker's steps (C01 guarantees, restated).  "
        "OBSERVATIONS (no obligation fails on the pinned tree): (O1) set_active_state also aborts when only state_ex of the still "
        "active word changed - the worker's set_state_ex(signaled) at the start of an activation; benign because T's code starts after "
        "that delivery (lemma reach marker abort_on_state_ex_delivery_of_the_same_activation).  (O2) a wake-up with new_state = "
        "pending_boost leaves T queued with a pending_boost word (outcomes (d), (a')); the scheduling loop runs only `pending` words "
        "(scheduling_loop.hpp: neither the pending nor the active branch applies), so such a request is safe only in the sense of L2 "
        "(T is queued) - all internal wakers use `pending`.  (O3) an error reported by create_work through a non-throwing error_code "
        "would be overwritten by make_success_code(); unreachable today (create_work fails only by exception for this request).",
    "trusted_base": [
        "specs/C02/c02.h thread_state modelled as struct {state, state_ex, tag} with accessors state()/state_ex()/tag() and == "
        "(bit packing of combined_tagged_state is C01's subject); thread ids are pointers to the one thread object or NULL",
        "specs/C02/c02.h interfere(): VX_ASSUME(RELY(old, new)) - between two accesses of the call under verification the "
        "environment replaces T's word by any word allowed by the unit's rely (RELY_WAKER: valid word, tag never decreases, a state "
        "change bumps the tag, state_ex may change without a bump, terminated is final; RELY_RUNNER for do_yield: an active word is "
        "not changed by anybody else); reflexive/transitive/stable: lemma.rely_guarantee; std::atomic<thread_state> load / "
        "compare_exchange_strong are indivisible (A-SC)",
        "specs/C02/c02.h create_work: T stub (counts, records the bound function and its arguments, the scheduler, the initial state; "
        "may fail by an exception, then nothing was created); thread_init_data_make / vx_bind model the constructor defaults "
        "(initial_state = pending) and bind-by-value",
        "specs/C02/c02.h sched_schedule_thread / sched_do_some_work: T stubs of scheduler_base (count, record, order predicates "
        "'only after the own CAS', 'do_some_work after schedule_thread'); they are assumed not to throw",
        "specs/C02/c02.h vx_throws_if / vx_throw / `if (vx_exc) return`: a C++ throw is lowered to a flag plus an immediate return at "
        "every may-throw site; the throw-or-set-ec decision is the LIFTED pika::detail::throws_if",
        "specs/C02/c02.h thread_data_get_last_worker_thread_num: relaxed load; the environment may have stored a new number before it",
        "specs/C02/sts_stub.h set_thread_state as a callee (set_active_state, do_resume): T stub recording the request; composed with "
        "the real body's contract in lemma.L2_no_lost_wakeup",
        "specs/C02/agent.c coroutine_yield: the context switch to the worker and back - VX_ASSUME(tag advanced by >= 2, word active "
        "again, restart state delivered is a valid enumerator): T runs again only because a worker re-activated it (C01-U3/U4); "
        "thread_data_interruption_point may throw; vx_uncaught_exceptions() == 0 (precondition of do_yield)",
        "specs/C02/lemma.c G_ACTIVATE / G_DELIVER / G_STORE and the coupling 'a pending word is queued; the scheduling loop re-queues "
        "a task that returned pending / pending_boost exactly once': guarantees of the C01 units (switch_status, scheduling loop, "
        "thread_data_stackful::operator()), restated and ASSUMED here",
        "spec.py rules Method (receiver.method(args) -> stub(&receiver, args)), BraceCtor (T{args} -> ctorN(args)), Call0, the "
        "default-argument padding of set_thread_state calls (defaults of set_thread_state.hpp: hint(), true, throws): structural "
        "lowerings defined in specs/C02/spec.py",
    ],
    "assumptions": [
        "A-TAG: fewer than 2^47 state changes of one thread object (48-bit tag; C01)",
        "A-VALID-WORD: T's word only ever holds active / pending / suspended / terminated / pending_boost (the authors' "
        "PIKA_ASSERT_MSG(false) in the default branch of set_thread_state is discharged under this rely) and valid restart states",
        "requests carry a real schedule state (not unknown / staged / pending_do_not_schedule) and a valid restart state",
        "the caller of set_thread_state holds a reference to T: the object is not recycled during the call; a terminated word stays "
        "terminated",
        "scheduler_base::schedule_thread / do_some_work do not throw; create_work fails only by an exception; an exception thrown "
        "by create_work inside the helper task (allocation failure) is not modelled",
        "L2 takes the worker's steps and 'pending word => queued' from C01 (A-CLOSED census of writers of current_state_: "
        "set_thread_state (restore_state), switch_status, scheduling loop set_state(pending), thread_queue::create_thread, "
        "set_state_ex in thread_data_stackful/stackless::operator())",
    ],
    "not_decided": [
        "liveness: that T really runs again (needs C01's composition of queue hops, scheduler fairness, yield_k progress, and - for "
        "retry_on_active = false - termination of the yield loop); the contracts decide only the safety form",
        "quiescence detection (all workers idle while a woken task is suspended) as a run-time observable",
        "the window inside the assembly context switch (coroutine_yield is a stub)",
        "other blocking facilities built on the same path beyond the shared agent / cv units (C06-C09)",
        "wake-ups with new_state = pending_boost reaching the scheduling loop (observation O2)",
        "set_thread_state_timed / timer-based wake-ups (set_thread_state_timed.cpp)",
    ],
}


# ---- timed wake-ups (set_thread_state_timed.cpp, this_thread::suspend(abs_time), execution_agent sleep/yield_k): third sub-agent.
# ---- The two "finding" units of timed_spec.py are NOT run: at_timer deliberately throws "Timed suspension is currently not
# ---- supported" in this tree (the timer chain is a stub), see DESIGN.md 10.4 ------------------------------------------------
exec(open("/verif/specs/C02/timed_spec.py").read())
UNITS += TIMED_UNITS
for _k in ("trusted_base", "assumptions", "not_decided"):
    META[_k] = list(META.get(_k, [])) + list(TIMED_META.get(_k, []))
META["not_decided"] = [x for x in META["not_decided"] if not x.startswith("set_thread_state_timed / timer-based wake-ups")]
STATIC = list(globals().get("STATIC", [])) + list(TIMED_STATIC)


# ---- C01 units reused (added after seeded change C02-3 was missed): "the window in which the task has released the internal lock
# ---- but has not yet finished switching off its worker" is closed by the worker's switch_status::store_state -> restore_state CAS,
# ---- which must ignore state_ex (a waker may have changed it); those are the C01 units of the same name, run here as well
_c01 = {"UNITS": [], "VX_NO_REUSE": True}
if not globals().get("VX_NO_REUSE"):     # C01 runs the sts.* units of this file (below) and sets VX_NO_REUSE: no cycle
    exec(compile(open("/verif/specs/C01/spec.py").read(), "/verif/specs/C01/spec.py", "exec"), _c01)
for _u in _c01["UNITS"]:
    if _u.name in ("word.restore_state_1", "word.restore_state_2", "word.set_state_tagged", "sw.ctor", "sw.store_state", "sw.store_state.owner",
                   "sw.dtor", "sw.assign", "loop.run_one",
                   # the hand-off of a woken task: set_thread_state -> schedule_thread puts it into work_items_ and counts it; the counter
                   # never under-approximates the entries (a worker that reads 0 does not look) -- added after seeded change C02-6 was missed
                   "queue.schedule_thread", "queue.get_next_thread"):
        _u.name = "c01." + _u.name
        _u.template = "../C01/" + _u.template
        UNITS.append(_u)
META["trusted_base"] = list(META.get("trusted_base", [])) + ["units c01.* are the C01 units of the same name (specs/C01/word.c, loop.c) with their trusted base"]


# ---- C19 unit reused (added after seeded change C02-7 was missed): a woken task is handed to schedule_thread, which (elastic pools)
# ---- lets scheduler_base::select_active_pu pick the worker whose queue receives it: a sleeping worker only when no other is available
_c19 = {"UNITS": [], "VX_NO_REUSE": True}
if not globals().get("VX_NO_REUSE"):
    exec(compile(open("/verif/specs/C19/spec.py").read(), "/verif/specs/C19/spec.py", "exec"), _c19)
for _u in _c19["UNITS"]:
    if _u.name == "state.select_active_pu":
        _u.name = "c19." + _u.name
        _u.template = "../C19/" + _u.template
        UNITS.append(_u)
META["trusted_base"] = list(META.get("trusted_base", [])) + ["unit c19.state.select_active_pu is the C19 unit of the same name (specs/C19/state.c) with its trusted base"]


# ---- C17 units reused (added after seeded change C02-8 was missed): a woken task is made `pending` and handed to work_items_.push of the
# ---- queue back end; set_thread_state / schedule_thread ignore the result, so "push stores the element (enqueue, which grows the queue)"
# ---- is what keeps a resumed task from vanishing.  Same templates, same contracts as C17.
_c17 = {"UNITS": [], "VX_NO_REUSE": True}
if not globals().get("VX_NO_REUSE"):
    exec(compile(open("/verif/specs/C17/spec.py").read(), "/verif/specs/C17/spec.py", "exec"), _c17)
for _u in _c17["UNITS"]:
    if ((_u.name.startswith("backends.") and not _u.name.startswith("backends.ciq.")) or _u.name.startswith("backend.")) and _u.kind != "bounded":
        _u.name = "c17." + _u.name
        _u.template = "../C17/" + _u.template.replace("../C17/", "")
        UNITS.append(_u)
META["trusted_base"] = list(META.get("trusted_base", [])) + ["units c17.backend(s).* are the C17 units of the same name (specs/C17/backends*.c) with their trusted base"]


# ---- C10 unit reused (added after seeded change C02-9 was missed): the retry helper of a deferred wake-up is a STAGED task; it becomes
# ---- runnable through thread_queue::wait_or_add_new (own-queue overload), which must convert own staged tasks however many pending ones exist
_c10s = {"UNITS": [], "VX_NO_REUSE": True}
if not globals().get("VX_NO_REUSE"):
    exec(compile(open("/verif/specs/C10/spec.py").read(), "/verif/specs/C10/spec.py", "exec"), _c10s)
for _u in _c10s["UNITS"]:
    if _u.name in ("steal.tq.wait_or_add_new.self", "steal.tq.wait_or_add_new.from", "steal.lpq.wait_or_add_new"):
        _u.name = "c10." + _u.name
        _u.template = "../C10/" + _u.template.replace("../C10/", "")
        UNITS.append(_u)
META["trusted_base"] = list(META.get("trusted_base", [])) + ["units c10.steal.* are the C10 units of the same name (specs/C10/steal_tq.c, steal_lpq.c) with their trusted base"]
