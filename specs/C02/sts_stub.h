/* C02 -- T stub of threads::detail::set_thread_state for the units that CALL it (set_active_state, do_resume):
 * counts the requests and records the arguments.  The real body is the unit sts.set_thread_state. */
#ifndef C02_STS_STUB_H
#define C02_STS_STUB_H
static long g_reissue;                    /* set_thread_state calls (saturating at 2) */
static bool g_r_thrd_is_T, g_r_retry, g_r_ec_nothrow;
static thread_schedule_state g_r_state; static thread_restart_state g_r_ex; static thread_priority g_r_prio; static struct thread_schedule_hint g_r_hint;
static thread_state set_thread_state(thread_id_type thrd, thread_schedule_state new_state, thread_restart_state new_state_ex,
                                     thread_priority priority, struct thread_schedule_hint schedulehint, bool retry_on_active, struct error_code *ec)
{
  VX_ASSERT(!vx_exc, "no request while an exception is in flight");
  if (g_reissue < 2) g_reissue++;
  g_r_thrd_is_T = (thrd == &g_td); g_r_state = new_state; g_r_ex = new_state_ex; g_r_prio = priority; g_r_hint = schedulehint;
  g_r_retry = retry_on_active;
  g_r_ec_nothrow = (ec != &vx_throws);
  return ts_make0();
}
#define STS_STUB_FRAME g_reissue, g_r_thrd_is_T, g_r_retry, g_r_ec_nothrow, g_r_state, g_r_ex, g_r_prio, g_r_hint, g_lw_read, g_lw_reads, g_td.last_worker_thread_num_
#endif
