/* C02 units timed.agent_yield_k / timed.agent_sleep_until / timed.agent_sleep_for
 * (threading_base/src/execution_agent.cpp; T contracts, loop contract on the sleep loop).
 *
 * The agent's timed paths do not use a timer at all: they POLL.  The task keeps handing itself to the worker in a RUNNABLE state
 * (pending / pending_boost), so it needs no wake-up and none can be lost; what has to hold is
 *   - every hand-over goes through do_yield (unit agent.do_yield) with a runnable state -- never `suspended` (nobody would wake it),
 *     never `active` (do_yield's own precondition);
 *   - sleep_until returns normally only after the clock was seen at or past the deadline, re-reading the clock between two hand-overs;
 *   - an exception of do_yield (abort / interruption) ends the sleep at once.
 * util::yield_while loops built on yield_k (e.g. the wait for `timer_started` in this_thread::suspend(abs_time)) rely on the first item.
 */
#include "timed.h"

static void throws_if(struct error_code *ec, pika_error errcode)
//@LIFT throws_if
static thread_state thread_data_get_state(thread_data *self) { return self->current_state_; }   /* not used by these units */
static bool thread_data_restore_state(thread_data *self, thread_schedule_state new_state, thread_restart_state state_ex, thread_state old_state) { return false; }

struct execution_agent { thread_data *id; };

/* T stub of execution_agent::do_yield (contract: unit agent.do_yield): the hand-over; may leave by an exception (woken with `abort`,
 * interruption) */
static long g_dy_calls;                   /* saturating at 2 */
static thread_schedule_state g_dy_state;
static bool g_fresh_clock;                /* the clock was read since the previous hand-over */
static bool g_released;                   /* the task handed itself over since the previous clock reading */
static thread_restart_state do_yield(struct execution_agent *self, char const *desc, thread_schedule_state state)
{
  VX_ASSERT(!vx_exc, "no hand-over while an exception is in flight");
  VX_ASSERT(state != S_ACTIVE, "PIKA_ASSERT(state != active) of do_yield: caller's duty");
  VX_ASSERT(state == S_PENDING || state == S_BOOST, "a polling agent hands itself over in a runnable state only (nobody would wake it otherwise)");
  /* a sleeping agent re-evaluates its deadline on a fresh clock reading between two hand-overs (otherwise it polls forever) */
#ifdef U_SLEEP_UNTIL
  VX_ASSERT(g_dy_calls == 0 || g_fresh_clock, "the clock is read again between two hand-overs");
#endif
  if (g_dy_calls < 2) g_dy_calls++;
  g_dy_state = state; g_fresh_clock = false; g_released = true;
  if (nondet_bool()) { vx_throw_exception(nondet_bool() ? pika_error_yield_aborted : VX_ERR_INTERRUPTED); return thread_restart_state_unknown; }
  return thread_restart_state_signaled;
}
#define DY_FRAME g_dy_calls, g_dy_state, g_fresh_clock, g_released
/* std::chrono::steady_clock::now(): monotone */
static long g_clock; static long g_clock_reads;   /* saturating at 2 */
static long vx_clock_now(void)
{
#ifdef U_SLEEP_UNTIL
  /* "just yield until time has passed by": the worker is released between two clock readings (no busy wait on a worker other tasks,
   * possibly the waker of a cv the sleeper waits on, are queued behind).  Documented intent of sleep_until, not C02 proper. */
  VX_ASSERT(g_clock_reads == 0 || g_released, "the task hands itself over between two clock readings (no busy wait)");
#endif
  long t = nondet_long();
  VX_ASSUME(t >= g_clock);                /* steady_clock never goes back */
  g_clock = t; g_fresh_clock = true; g_released = false;
  if (g_clock_reads < 2) g_clock_reads++;
  return t;
}
#define VX_EXC_RESULT
#define PIKA_SMT_PAUSE ((void) 0)

#ifdef U_YIELD_K
//@FUNC
void agent_yield_k(struct execution_agent *self, size_t k, char const *desc)
__CPROVER_requires(EXC_ZERO && g_dy_calls == 0)
/* every hand-over in a runnable state (stub predicate); an exception only out of a hand-over */
__CPROVER_ensures(vx_exc ==> g_dy_calls >= 1)
__CPROVER_assigns(DY_FRAME, EXC_FRAME)
//@LIFT body
#endif

#ifdef U_SLEEP_UNTIL
//@FUNC
void agent_sleep_until(struct execution_agent *self, struct steady_time_point sleep_time, char const *desc)
__CPROVER_requires(EXC_ZERO && g_dy_calls == 0 && g_clock_reads == 0)
/* a normal return only after the clock was read at or past the deadline, and that reading is the last one; an exception only out of a
 * hand-over.  (That the function yields at least once even for a deadline in the past is the authors' documented intent, not part of C02:
 * no obligation.) */
__CPROVER_ensures(!vx_exc ==> (g_clock_reads >= 1 && g_clock >= sleep_time.v))
__CPROVER_ensures(vx_exc ==> g_dy_calls >= 1)
__CPROVER_assigns(DY_FRAME, EXC_FRAME, g_clock, g_clock_reads)
//@LIFT body
#endif

#ifdef U_SLEEP_FOR
struct steady_duration { long d; };
/* steady_duration::from_now(): now + d */
static long g_fn_calls; static struct steady_time_point g_fn_result; static long g_fn_dur;
static struct steady_time_point dur_from_now(struct steady_duration d) { if (g_fn_calls < 2) g_fn_calls++; g_fn_dur = d.d; g_fn_result.v = nondet_long(); return g_fn_result; }
static long g_su_calls; static long g_su_time; static const char *g_su_desc;
static void sleep_until(struct execution_agent *self, struct steady_time_point t, char const *desc) { if (g_su_calls < 2) g_su_calls++; g_su_time = t.v; g_su_desc = desc; }
//@FUNC
void agent_sleep_for(struct execution_agent *self, struct steady_duration sleep_duration, char const *desc)
__CPROVER_requires(g_fn_calls == 0 && g_su_calls == 0)
/* exactly one sleep_until, until (now + the given duration) */
__CPROVER_ensures(g_su_calls == 1 && g_fn_calls == 1 && g_fn_dur == sleep_duration.d && g_su_time == g_fn_result.v)
__CPROVER_assigns(g_fn_calls, g_fn_result, g_fn_dur, g_su_calls, g_su_time, g_su_desc)
//@LIFT body
#endif

void harness(void)
{
  exc_init();
  g_dy_calls = 0; g_dy_state = 0; g_fresh_clock = false; g_released = false; g_clock = nondet_long(); g_clock_reads = 0;
  struct execution_agent ag; ag.id = &g_td;
#ifdef U_YIELD_K
  size_t k = nondet_size();
  agent_yield_k(&ag, k, "d");
  if (g_dy_calls == 0) VX_REACH("spun_without_hand_over");
  if (g_dy_calls == 1 && g_dy_state == S_BOOST) VX_REACH("yielded_pending_boost");
  if (g_dy_calls == 1 && g_dy_state == S_PENDING) VX_REACH("yielded_pending");
  if (vx_exc) VX_REACH("do_yield_threw");
#endif
#ifdef U_SLEEP_UNTIL
  struct steady_time_point t; t.v = nondet_long();
  long c0 = g_clock;
  agent_sleep_until(&ag, t, "d");
  if (!vx_exc && c0 >= t.v) VX_REACH("deadline_already_passed");
  if (!vx_exc && c0 < t.v) VX_REACH("slept_until_the_deadline");
  if (vx_exc) VX_REACH("sleep_ended_by_abort_or_interruption");
  if (g_dy_state == S_PENDING) VX_REACH("yielded_pending");
  if (g_dy_state == S_BOOST) VX_REACH("yielded_pending_boost");
#endif
#ifdef U_SLEEP_FOR
  g_fn_calls = 0; g_su_calls = 0; g_fn_dur = 0; g_su_time = 0; g_su_desc = 0; g_fn_result.v = 0;
  struct steady_duration d; d.d = nondet_long();
  agent_sleep_for(&ag, d, "d");
  VX_REACH("returned");
#endif
}
