import re

from vx.lift import Lift, Sub, Call, Members, Guard, DropStmt, Rule, LiftError, match_close, split_args
from vx.run import Unit

import os
from vx.run import VERIF

HERE = os.path.join(VERIF, "specs", "C18")


def unit_template(master, defines, uname):
    """The master templates (sbo.c, fb.c, any.c) hold one `#ifdef U_<X>` block per function under contract.  vx.run's
    native replay wraps EVERY `//@FUNC` it finds, also those in inactive blocks (which have no body in this unit), so the
    masters carry `//@FUNC_IF U_X [U_Y ..]` instead and the per-unit template written here (gen/<unit>.c, regenerated on
    every load, never edited by hand) differs from its master in exactly that line: `//@FUNC` for the active block, nothing
    for the others."""
    text = open(os.path.join(HERE, master)).read()

    def rep(m):
        return "//@FUNC" if set(m.group(1).split()) & set(defines) else "/* (contract of another unit) */"

    text = re.sub(r"^//@FUNC_IF[ \t]+([\w \t]+?)[ \t]*$", rep, text, flags=re.M)
    text = "/* GENERATED from specs/C18/%s by spec.py -- do not edit */\n" % master + text
    os.makedirs(os.path.join(HERE, "gen"), exist_ok=True)
    rel = os.path.join("gen", uname + ".c")
    path = os.path.join(HERE, rel)
    if not os.path.exists(path) or open(path).read() != text:
        tmp = path + ".%d.tmp" % os.getpid()
        with open(tmp, "w") as f:
            f.write(text)
        os.replace(tmp, path)
    return rel


ANY = "libs/pika/execution_base/include/pika/execution_base/any_sender.hpp"
ANYCPP = "libs/pika/execution_base/src/any_sender.cpp"


# ---- local helper rules (purely syntactic) ---------------------------------------------------------------------------
class AssignFromThrowing(Rule):
    """`LHS = CALLEE(args);` where CALLEE may throw  ->  `{ T vx_t = CALLEE(args); if (vx_exc) return R; LHS = vx_t; }`
    (C++: the assignment does not happen when the right-hand side throws; the functions concerned have no try/catch,
    so the exception leaves the function)."""

    def __init__(self, callee, ctype, ret="", n=1):
        self.callee, self.ctype, self.ret, self.n = callee, ctype, ret, n

    def apply(self, text):
        rx = re.compile(r"([\w.>\-]+)\s*=\s*((?:%s))\s*\(" % self.callee)
        k, scan = 0, 0
        while True:
            m = rx.search(text, scan)
            if not m:
                break
            op = m.end() - 1
            cl = match_close(text, op)
            ms = re.match(r"\s*;", text[cl + 1:])
            if not ms:
                scan = m.end()
                continue
            rep = "{ %s vx_t = %s(%s); if (vx_exc) return %s; %s = vx_t; }" % (
                self.ctype, m.group(2), text[op + 1:cl], self.ret, m.group(1))
            text = text[:m.start()] + rep + text[cl + 1 + ms.end():]
            scan = m.start() + len(rep)
            k += 1
        self.check(k, "AssignFromThrowing(%s)" % self.callee)
        return text


def frag(src, start, rules):
    """one declaration statement `...;` lifted as a fragment (used for default member initialisers)"""
    return Lift(src, start, rules=rules, fragment_end=r";")


# ---- unit group 1: movable_sbo_storage / copyable_sbo_storage ------------------------------------------------------
EMPTYVT = Sub(r"const_cast<\s*base_type\s*\*\s*>\(\s*get_empty_vtable<\s*base_type\s*>\(\)\s*\)", "get_empty_vtable()", None)
REFS = [  # reference parameter `other` -> pointer; *this / this -> self
    Sub(r"&other\b", "other", None), Sub(r"\bother\.", "other->", None),
    Sub(r"\*this\b", "self", None), Sub(r"\bthis\b", "self", None),
]


def sbo_rules(ret="", move_overload="sbo_move_assign"):
    return [
        DropStmt(r"\bstatic_assert", None),
        EMPTYVT] + REFS + [
        # member function calls -> C functions taking the object (which overload / which object is decided by the text)
        Sub(r"\bother->(empty|reset_vtable)\(\)", r"sbo_\1(other)", None),
        Sub(r"\bother->get\(\)", "sbo_get_c(other)", None),
        Sub(r"(?<![\w.>:])(empty|release|reset_vtable)\(\)", r"sbo_\1(self)", None),
        Sub(r"(?<![\w.>:])get\(\)", "sbo_get_c(self)", None),
        # virtual calls through the Base reference returned by get()
        Sub(r"(sbo_get(?:_c)?\(\w+\))\.(empty|clone)\(\)", r"base_\2(\1)", None),
        Call(r"(?<![\w.>:])move_assign", move_overload + "(self, {0})", None),
        Call(r"(?<![\w.>:])copy_assign", "{ sbo_copy_assign(self, {0}); if (vx_exc) return %s; }" % ret, None, stmt=True),
        Sub(r"\bdelete\s+(\w+)\s*;", r"base_delete(\1);", None),
        Sub(r"\bnew\s+Impl\s*\(\s*std::forward<Ts>\((\w+)\)\.\.\.\s*\)", r"impl_new(\1)", None),
        Members(["heap_storage", "object"], optional=["heap_storage", "object"]),
        AssignFromThrowing(r"impl_new|base_clone", "struct base *", ret, None),
    ]


REFRET = Sub(r"\breturn\s*\*\s*(\w+)\s*;", r"return \1;", 1)   # `T& f() { return *p; }` -> pointer-returning C function
NSDMI = Sub(r"^\s*base_type\s*\*\s*(\w+)\s*=", r"self->\1 =", 1)

SBO_COMMON = {
    "init_heap_storage": frag(ANY, r"base_type\* heap_storage\s*=", [NSDMI]),
    "init_object": frag(ANY, r"base_type\* object\s*=", [NSDMI, EMPTYVT]),
    "get_c": Lift(ANY, r"base_type const& get\(\) const noexcept", rules=[REFRET, Members(["object"])]),
    "get": Lift(ANY, r"base_type& get\(\) noexcept", rules=[REFRET, Members(["object"])]),
    "reset_vtable": Lift(ANY, r"void reset_vtable\(\)", rules=sbo_rules()),
    "move_assign": Lift(ANY, r"void move_assign\(movable_sbo_storage&& other\) &", rules=sbo_rules()),
    "empty": Lift(ANY, r"bool empty\(\) const noexcept", expect=8, which=0, rules=sbo_rules()),
    "release": Lift(ANY, r"void release\(\) noexcept", rules=sbo_rules()),
}
MOVE_C = {"move_assign_c": Lift(ANY, r"void move_assign\(copyable_sbo_storage<T, embedded_storage_size, alignment_size>&& other\)",
                                rules=sbo_rules())}
COPY = {
    "copy_assign": Lift(ANY, r"void copy_assign\(copyable_sbo_storage const& other\) &", rules=sbo_rules()),
    "vimpl_clone": Lift(ANY, r"any_sender_base<Ts\.\.\.>\* clone\(\) const override", expect=2, which=1, rules=[
        Sub(r"\bnew\s+any_sender_impl\s*\((\w+)\)", r"impl_new(\1)", 1), Members(["sender"])]),
    "vempty_clone": Lift(ANY, r"any_sender_base<Ts\.\.\.>\* clone\(\) const override", expect=2, which=0),
}
# the three Base types the storage is instantiated with, and where their virtual empty() is defined
BASES = {
    "opstate": (dict(SBO_COMMON,
                     vbase_empty=Lift(ANYCPP, r"bool any_operation_state_holder_base::empty\(\) const noexcept"),
                     vempty_empty=Lift(ANYCPP, r"bool empty_any_operation_state_holder_state::empty\(\) const noexcept")),
                [], "movable_sbo_storage<any_operation_state_holder_base, 8 * sizeof(void*)>"),
    "unique": (dict(SBO_COMMON, **MOVE_C,
                    vbase_empty=Lift(ANY, r"bool empty\(\) const noexcept", expect=8, which=3),
                    vempty_empty=Lift(ANY, r"bool empty\(\) const noexcept", expect=8, which=4)),
               ["HAS_MOVE_FROM_COPYABLE"], "movable_sbo_storage<unique_any_sender_base<Ts...>, 4 * sizeof(void*)>"),
    "any": (dict(SBO_COMMON, **COPY,
                 vbase_empty=Lift(ANY, r"bool empty\(\) const noexcept", expect=8, which=3),
                 vempty_empty=Lift(ANY, r"bool empty\(\) const noexcept", expect=8, which=5)),
            ["HAS_COPY"], "copyable_sbo_storage<any_sender_base<Ts...>, 4 * sizeof(void*)>"),
}

UNITS = []


def sbo_unit(base, name, define, enforce, body_key, body_lift, what, min_ob=8):
    lifts, defs, tname = BASES[base]
    lifts = dict(lifts)
    if body_key:
        lifts[body_key] = body_lift
    if define == "U_EMPTY":
        pass
    uname = "sbo.%s.%s" % (base, name)
    UNITS.append(Unit(uname, unit_template("sbo.c", defs + [define], uname), defines=defs + [define], enforce=enforce, lifts=lifts,
                      funcs=["%s: pika::detail::%s::%s" % (ANY, tname, what)], min_obligations=min_ob))


for base in ("opstate", "unique", "any"):
    sbo_unit(base, "empty", "U_EMPTY", "sbo_empty", None, None, "empty, get")
    sbo_unit(base, "release", "U_RELEASE", "sbo_release", None, None, "release, reset_vtable")
    sbo_unit(base, "default_ctor", "U_DEFAULT_CTOR", "sbo_default_ctor", None, None, "default member initialisers", min_ob=3)
    sbo_unit(base, "reset", "U_RESET", "sbo_reset", "reset",
             Lift(ANY, r"void reset\(\)", expect=3, which=0, rules=sbo_rules()), "reset")
    sbo_unit(base, "dtor", "U_DTOR", "sbo_dtor", "dtor",
             Lift(ANY, r"~movable_sbo_storage\(\) noexcept", rules=sbo_rules()), "~movable_sbo_storage")
    sbo_unit(base, "store", "U_STORE", "sbo_store", "store",
             Lift(ANY, r"void store\(Ts&&\.\.\. ts\)", rules=sbo_rules()), "store<Impl>")
    sbo_unit(base, "move_ctor", "U_MOVE_CTOR", "sbo_move_ctor", "move_ctor",
             Lift(ANY, r"(?<![=\w~])movable_sbo_storage\(movable_sbo_storage&& other\)", rules=sbo_rules()),
             "movable_sbo_storage(movable_sbo_storage&&), move_assign")
    sbo_unit(base, "move_assign", "U_MOVE_ASSIGN", "sbo_op_move", "op_move",
             Lift(ANY, r"movable_sbo_storage& operator=\(movable_sbo_storage&& other\)", rules=sbo_rules("self")),
             "operator=(movable_sbo_storage&&), move_assign, release")

CSIG = r"copyable_sbo_storage<T, embedded_storage_size, alignment_size>&& other\)"
sbo_unit("unique", "move_ctor_from_copyable", "U_MOVE_CTOR_C", "sbo_move_ctor", "move_ctor",
         Lift(ANY, r"explicit movable_sbo_storage\(\s*" + CSIG, rules=sbo_rules(move_overload="sbo_move_assign_c")),
         "movable_sbo_storage(copyable_sbo_storage<T>&&), move_assign<T>")
sbo_unit("unique", "move_assign_from_copyable", "U_MOVE_ASSIGN_C", "sbo_op_move", "op_move",
         Lift(ANY, r"operator=\(" + CSIG, rules=sbo_rules("self", move_overload="sbo_move_assign_c")),
         "operator=(copyable_sbo_storage<T>&&), move_assign<T>, release")
sbo_unit("any", "copy_ctor", "U_COPY_CTOR", "sbo_copy_ctor", "copy_ctor",
         Lift(ANY, r"(?<![=\w~])copyable_sbo_storage\(copyable_sbo_storage const& other\)", ctor=True, rules=sbo_rules()),
         "copyable_sbo_storage(copyable_sbo_storage const&), copy_assign, any_sender_impl::clone")
sbo_unit("any", "copy_assign", "U_COPY_ASSIGN", "sbo_op_copy", "op_copy",
         Lift(ANY, r"copyable_sbo_storage& operator=\(copyable_sbo_storage const& other\)", rules=sbo_rules("self")),
         "operator=(copyable_sbo_storage const&), copy_assign, release, any_sender_impl::clone")

META = {
    "trusted_base": [],
    "assumptions": [],
    "not_decided": [],
}


# ---- unit group 2: function_base / basic_function -------------------------------------------------------------------
FCPP = "libs/pika/functional/src/basic_function.cpp"
FHPP = "libs/pika/functional/include/pika/functional/detail/basic_function.hpp"
VT = "libs/pika/functional/include/pika/functional/detail/vtable/vtable.hpp"
CVT = "libs/pika/functional/include/pika/functional/detail/vtable/copyable_vtable.hpp"
CALLVT = "libs/pika/functional/include/pika/functional/detail/vtable/callable_vtable.hpp"
EFH = "libs/pika/functional/include/pika/functional/detail/empty_function.hpp"
EFC = "libs/pika/functional/src/empty_function.cpp"


class CtorLift(Lift):
    """A constructor: the mem-initialiser list `: a(x), b(y)` is part of the lifted text; it becomes the statements
    `a = x; b = y;` at the beginning of the body (`a()` -> `a = 0;`), before the unit rules run."""

    def run(self):
        from vx import lift as L
        body, line, header = L.locate(self.src, self.locate, self.which, self.expect, True)
        op = header.index("(")
        rest = header[match_close(header, op) + 1:].strip()
        rest = re.sub(r"^noexcept\b", "", rest).strip()
        stmts = []
        if rest:
            if not rest.startswith(":"):
                raise LiftError("CtorLift: unexpected text between parameter list and body: %r" % rest[:40])
            for item in split_args(rest[1:]):
                mi = re.match(r"^(\w+)\s*[\(\{](.*)[\)\}]$", item.strip(), re.S)
                if not mi:
                    raise LiftError("CtorLift: cannot parse mem-initialiser %r" % item)
                stmts.append("%s = %s;" % (mi.group(1), mi.group(2).strip() or "0"))
        raw = body
        body = "{ " + " ".join(stmts) + body[1:]
        body = L.resolve_pp(body)
        body = L.apply_rules(body, self.rules)
        if self.generic:
            body = L.apply_rules(body, L.GENERIC_RULES)
        body = L.apply_rules(body, self.post)
        body, nloops = L.splice_loops(body, self.loops)
        return {"text": body, "line": line, "file": self.src, "raw": header + raw, "nloops": nloops, "header": header}


def fb_rules(ret=""):
    return [
        # reference parameters other / f -> pointers
        Sub(r"\b(other|f)\.", r"\1->", None), Sub(r"&(other|f)\b(?!->)", r"\1", None),
        Sub(r"\*this\b", "self", None), Sub(r"\bthis\b", "self", None),
        Sub(r"\bstd::size_t\((-?\w+)\)", r"((size_t)(\1))", None),
        Sub(r"\b(?:detail::)?function_storage_size\b", "function_storage_size", None),
        Sub(r"\bstd::memcpy\(", "vx_memcpy(", None),
        Call(r"\bstd::swap", "VX_SWAP({0}, {1})", None),
        # member function calls
        Sub(r"(?<![\w.>:])destroy\(\)", "fb_destroy(self)", None),
        Call(r"(?<![\w.>:])swap", "fb_swap(self, {0})", None),
        Call(r"\bother->reset", "fb_reset(other, {0})", None),
        Call(r"base_type::reset", "fb_reset(self, {0})", None),
        Call(r"(?<![\w.>:])reset", "fb_reset(self, {0})", None),
        Sub(r"(?<![\w:>.])get_empty_vtable\(\)", "bf_get_empty_vtable()", None),
        Sub(r"\bstorage_init\b", "storage[0]", None),
        Members(["vptr", "object", "storage"], optional=["vptr", "object", "storage"]),
        # calls through a vtable pointer: `p->entry(args)` -> vt_entry(p, args)
        Call(r"([\w>.\-]+)->(copy|deallocate|invoke)", "vt_{h2}({h1}, {args})", None),
        AssignFromThrowing(r"vt_copy", "void *", ret, None),
    ]


VT_RULES = [
    Sub(r"\bsizeof\(T\)", "VX_SIZEOF(T)", None),
    Sub(r"\bnew\s+aligned_storage_helper<T>", "blk_new(T)", None),
    Sub(r"(?:vtable::)?get<T>\((\w+)\)\.~T\(\)", r"T_destroy(T, \1)", None),
    Sub(r"\bdelete\s+static_cast<aligned_storage_helper<T>\s*\*>\((\w+)\)\s*;", r"blk_delete(T, \1);", None),
    Sub(r"(?:vtable::)?allocate<T>\(", "vt_allocate(T, ", None),
    Sub(r"::new\s*\((\w+)\)\s*T\((?:vtable::)?get<T>\((\w+)\)\)", r"T_copy_construct(T, \1, \2)", None),
]
FB_COMMON = {
    "consts": frag(FHPP, r"static std::size_t const function_storage_size\s*=",
                   [Sub(r"static std::size_t const (\w+)\s*=\s*([^;]+);", r"enum { \1 = \2 };", 1)]),
    "vt_allocate": Lift(VT, r"static void\* allocate\(void\* storage, std::size_t storage_size\)", rules=VT_RULES),
    "vt_deallocate": Lift(VT, r"static void _deallocate\(", rules=VT_RULES),
    "vt_copy": Lift(CVT, r"static void\* _copy\(", rules=VT_RULES),
    "throw_bad_function_call": Lift(EFC, r"void throw_bad_function_call\(\)", rules=[
        Call(r"pika::throw_exception", "vx_throw({0})", 1), Sub(r"pika::error::(\w+)", r"pika_error_\1", None)]),
    "throw_bad_function_call_R": Lift(EFH, r"inline R throw_bad_function_call\(\)"),
    "vt_empty_invoke": Lift(CALLVT, r"static R _empty_invoke\(", rules=[
        Sub(r"\bthrow_bad_function_call<R>\(\)", "throw_bad_function_call_R()", 1)]),
    "destroy": Lift(FCPP, r"void function_base::destroy\(\) noexcept", rules=fb_rules()),
    "reset": Lift(FCPP, r"void function_base::reset\(vtable const\* empty_vptr\) noexcept", rules=fb_rules()),
    "swap": Lift(FCPP, r"void function_base::swap\(function_base& f\) noexcept", rules=fb_rules()),
    "bf_get_empty_vtable": Lift(FHPP, r"static constexpr vtable const\* get_empty_vtable\(\) noexcept", rules=[
        Sub(r"\bdetail::get_empty_function_vtable<R\(Ts\.\.\.\)>\(\)", "get_empty_function_vtable()", 1)]),
}
BF_ASSIGN_RULES = [
    DropStmt(r"\bstatic_assert", None),
    Sub(r"\busing T = std::decay_t<F>;", "const struct fvt *T = callable_type(f);", 1),
    Sub(r"\bdetail::is_empty_function\(", "is_empty_function(", None),
    Sub(r"\bvtable const\*", "const struct fvt *", None),
    Sub(r"\bget_vtable<T>\(\)", "get_vtable(T)", None),
    Sub(r"vtable::template get<T>\((\w+)\)\.~T\(\)", r"T_destroy(T, \1)", None),
    Sub(r"vtable::template allocate<T>\(", "vt_allocate(T, ", None),
    Sub(r"::new\s*\((\w+)\)\s*T\(std::forward<F>\((\w+)\)\)", r"T_construct_from(T, \1, \2)", None),
]


def fb_unit(name, define, enforce, key, lift, what, src=FCPP, min_ob=20, **kw):
    lifts = dict(FB_COMMON)
    if key:
        lifts[key] = lift
    UNITS.append(Unit("fb." + name, unit_template("fb.c", [define], "fb." + name), defines=[define] + kw.pop("defines", []), enforce=enforce, lifts=lifts,
                      funcs=["%s: pika::util::detail::%s" % (src, what),
                             VT + ": vtable::allocate<T>, vtable::_deallocate<T>", CVT + ": copyable_vtable::_copy<T>"],
                      min_obligations=min_ob, **kw))


fb_unit("default_ctor", "U_DEFAULT_CTOR", "fb_ctor", "ctor",
        CtorLift(FHPP, r"constexpr explicit function_base\(function_base_vtable const\* empty_vptr\) noexcept", rules=fb_rules()),
        "function_base::function_base(vtable const*)", src=FHPP, min_ob=5)
fb_unit("copy_ctor", "U_COPY_CTOR", "fb_copy_ctor", "copy_ctor",
        CtorLift(FCPP, r"function_base::function_base\(function_base const& other, vtable const\*", rules=fb_rules()),
        "function_base::function_base(function_base const&, vtable const*)")
fb_unit("move_ctor", "U_MOVE_CTOR", "fb_move_ctor", "move_ctor",
        CtorLift(FCPP, r"function_base::function_base\(function_base&& other, vtable const\* empty_vptr\)", rules=fb_rules()),
        "function_base::function_base(function_base&&, vtable const*)")
fb_unit("dtor", "U_DTOR", "fb_dtor", "dtor", Lift(FCPP, r"function_base::~function_base\(\)", rules=fb_rules()),
        "function_base::~function_base, destroy")
fb_unit("reset", "U_RESET", "fb_reset", None, None, "function_base::reset, destroy")
fb_unit("swap", "U_SWAP", "fb_swap", None, None, "function_base::swap")
fb_unit("op_assign_copy", "U_OP_ASSIGN_COPY", "fb_op_assign_copy", "op_assign_copy",
        Lift(FCPP, r"void function_base::op_assign\(function_base const& other, vtable const\*", rules=fb_rules()),
        "function_base::op_assign(function_base const&, vtable const*), destroy")
fb_unit("op_assign_move", "U_OP_ASSIGN_MOVE", "fb_op_assign_move", "op_assign_move",
        Lift(FCPP, r"void function_base::op_assign\(function_base&& other, vtable const\* empty_vtable\)", rules=fb_rules()),
        "function_base::op_assign(function_base&&, vtable const*), swap, reset, destroy")
fb_unit("bf_assign", "U_BF_ASSIGN", "bf_assign", "bf_assign",
        Lift(FHPP, r"void assign\(F&& f\)", rules=BF_ASSIGN_RULES + fb_rules() + [
            AssignFromThrowing(r"T_construct_from", "void *", "", None)]),
        "basic_function::assign(F&&), function_base::destroy, reset", src=FHPP)
fb_unit("bf_assign_nullptr", "U_BF_ASSIGN_NULLPTR", "bf_assign_nullptr", "bf_assign_nullptr",
        Lift(FHPP, r"void assign\(std::nullptr_t\) noexcept", rules=fb_rules()),
        "basic_function::assign(nullptr_t), get_empty_vtable", src=FHPP)
fb_unit("bf_reset", "U_BF_RESET", "bf_reset", "bf_reset",
        Lift(FHPP, r"void reset\(\) noexcept", rules=fb_rules()), "basic_function::reset, get_empty_vtable", src=FHPP)
fb_unit("bf_call", "U_BF_CALL", "bf_call", "bf_call",
        Lift(FHPP, r"PIKA_FORCEINLINE R operator\(\)\(Ts\.\.\. vs\) const", rules=[
            Sub(r"\bvtable const\*", "const struct fvt *", None),
            Sub(r"\bbase_type::vptr\b", "self->vptr", None),
            Sub(r"std::forward<Ts>\((\w+)\)\.\.\.", r"\1", None),
            Members(["object"]),
            Call(r"([\w>.\-]+)->(invoke)", "vt_{h2}({h1}, {args})", 1)]),
        "basic_function::operator(), callable_vtable::_empty_invoke, throw_bad_function_call", src=FHPP, min_ob=10)
fb_unit("empty", "U_EMPTY", "fb_empty", "empty", Lift(FHPP, r"bool empty\(\) const noexcept", rules=fb_rules()),
        "function_base::empty", src=FHPP, min_ob=3)

# twins of the two units above that fail on the pinned tree: same contract, callable constructors that do not throw
fb_unit("op_assign_copy.nothrow", "U_OP_ASSIGN_COPY", "fb_op_assign_copy", "op_assign_copy",
        Lift(FCPP, r"void function_base::op_assign\(function_base const& other, vtable const\*", rules=fb_rules()),
        "function_base::op_assign(function_base const&, vtable const*), destroy", defines=["VX_NO_THROWING_CTOR"])
fb_unit("bf_assign.nothrow", "U_BF_ASSIGN", "bf_assign", "bf_assign",
        Lift(FHPP, r"void assign\(F&& f\)", rules=BF_ASSIGN_RULES + fb_rules() + [
            AssignFromThrowing(r"T_construct_from", "void *", "", None)]),
        "basic_function::assign(F&&), function_base::destroy, reset", src=FHPP, defines=["VX_NO_THROWING_CTOR"])
