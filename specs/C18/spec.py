import re

from vx.lift import Lift, Sub, Call, Members, Guard, DropStmt, Rule, LiftError, match_close, split_args
from vx.run import Unit

import os
from vx.run import VERIF

HERE = os.path.join(VERIF, "specs", "C18")


def unit_template(master, defines, uname):
    """The master templates (sbo.c, fb.c, any.c) hold one `#ifdef U_<X>` block per function under contract.  vx.run's
    native replay wraps EVERY `//@FUNC` it finds, also those in inactive blocks (which have no body in this unit), so the
    masters carry `//@FUNC_IF U_X [U_Y ..]` instead and the per-unit template written here (gen/<unit>.c, regenerated on
    every load, never edited by hand) differs from its master in exactly that line: `//@FUNC` for the active block, nothing
    for the others."""
    masters = [master] if isinstance(master, str) else list(master)
    text = "".join(open(os.path.join(HERE, m)).read() for m in masters)
    master = " + ".join(masters)

    def rep(m):
        return "//@FUNC" if set(m.group(1).split()) & set(defines) else "/* (contract of another unit) */"

    text = re.sub(r"^//@FUNC_IF[ \t]+([\w \t]+?)[ \t]*$", rep, text, flags=re.M)
    text = "/* GENERATED from specs/C18/%s by spec.py -- do not edit */\n" % master + text
    os.makedirs(os.path.join(HERE, "gen"), exist_ok=True)
    rel = os.path.join("gen", uname + ".c")
    path = os.path.join(HERE, rel)
    if not os.path.exists(path) or open(path).read() != text:
        tmp = path + ".%d.tmp" % os.getpid()
        with open(tmp, "w") as f:
            f.write(text)
        os.replace(tmp, path)
    return rel


ANY = "libs/pika/execution_base/include/pika/execution_base/any_sender.hpp"
ANYCPP = "libs/pika/execution_base/src/any_sender.cpp"


# ---- local helper rules (purely syntactic) ---------------------------------------------------------------------------
class AssignFromThrowing(Rule):
    """`LHS = CALLEE(args);` where CALLEE may throw  ->  `{ T vx_t = CALLEE(args); if (vx_exc) return R; LHS = vx_t; }`
    (C++: the assignment does not happen when the right-hand side throws; the functions concerned have no try/catch,
    so the exception leaves the function)."""

    def __init__(self, callee, ctype, ret="", n=1):
        self.callee, self.ctype, self.ret, self.n = callee, ctype, ret, n

    def apply(self, text):
        rx = re.compile(r"([\w.>\-]+)\s*=\s*((?:%s))\s*\(" % self.callee)
        k, scan = 0, 0
        while True:
            m = rx.search(text, scan)
            if not m:
                break
            op = m.end() - 1
            cl = match_close(text, op)
            ms = re.match(r"\s*;", text[cl + 1:])
            if not ms:
                scan = m.end()
                continue
            rep = "{ %s vx_t = %s(%s); if (vx_exc) return %s; %s = vx_t; }" % (
                self.ctype, m.group(2), text[op + 1:cl], self.ret, m.group(1))
            text = text[:m.start()] + rep + text[cl + 1 + ms.end():]
            scan = m.start() + len(rep)
            k += 1
        self.check(k, "AssignFromThrowing(%s)" % self.callee)
        return text


def frag(src, start, rules):
    """one declaration statement `...;` lifted as a fragment (used for default member initialisers)"""
    return Lift(src, start, rules=rules, fragment_end=r";")


# ---- unit group 1: movable_sbo_storage / copyable_sbo_storage ------------------------------------------------------
EMPTYVT = Sub(r"const_cast<\s*base_type\s*\*\s*>\(\s*get_empty_vtable<\s*base_type\s*>\(\)\s*\)", "get_empty_vtable()", None)
REFS = [  # reference parameter `other` -> pointer; *this / this -> self
    Sub(r"&other\b(?!\s*->)", "other", None), Sub(r"\bother\.", "other->", None),
    Sub(r"\*this\b", "self", None), Sub(r"\bthis\b", "self", None),
]


def sbo_rules(ret="", move_overload="sbo_move_assign"):
    return [
        DropStmt(r"\bstatic_assert", None),
        EMPTYVT] + REFS + [
        # member function calls -> C functions taking the object (which overload / which object is decided by the text)
        Sub(r"\bother->(empty|reset_vtable)\(\)", r"sbo_\1(other)", None),
        Sub(r"\bother->get\(\)", "sbo_get_c(other)", None),
        Sub(r"(?<![\w.>:])(empty|release|reset_vtable)\(\)", r"sbo_\1(self)", None),
        Sub(r"(?<![\w.>:])get\(\)", "sbo_get_c(self)", None),
        # virtual calls through the Base reference returned by get()
        Sub(r"(sbo_get(?:_c)?\(\w+\))\.(empty|clone)\(\)", r"base_\2(\1)", None),
        Call(r"(?<![\w.>:])move_assign", move_overload + "(self, {0})", None),
        Call(r"(?<![\w.>:])copy_assign", "{ sbo_copy_assign(self, {0}); if (vx_exc) return %s; }" % ret, None, stmt=True),
        Sub(r"\bdelete\s+(\w+)\s*;", r"base_delete(\1);", None),
        Sub(r"\bnew\s+Impl\s*\(\s*std::forward<Ts>\((\w+)\)\.\.\.\s*\)", r"impl_new(\1)", None),
        Members(["heap_storage", "object"], optional=["heap_storage", "object"]),
        AssignFromThrowing(r"impl_new|base_clone", "struct base *", ret, None),
    ]


REFRET = Sub(r"\breturn\s*\*\s*(\w+)\s*;", r"return \1;", 1)   # `T& f() { return *p; }` -> pointer-returning C function
NSDMI = Sub(r"^\s*base_type\s*\*\s*(\w+)\s*=", r"self->\1 =", 1)

SBO_COMMON = {
    "init_heap_storage": frag(ANY, r"base_type\* heap_storage\s*=", [NSDMI]),
    "init_object": frag(ANY, r"base_type\* object\s*=", [NSDMI, EMPTYVT]),
    "get_c": Lift(ANY, r"base_type const& get\(\) const noexcept", rules=[REFRET, Members(["object"])]),
    "get": Lift(ANY, r"base_type& get\(\) noexcept", rules=[REFRET, Members(["object"])]),
    "reset_vtable": Lift(ANY, r"void reset_vtable\(\)", rules=sbo_rules()),
    "move_assign": Lift(ANY, r"void move_assign\(movable_sbo_storage&& other\) &", rules=sbo_rules()),
    "empty": Lift(ANY, r"bool empty\(\) const noexcept", expect=8, which=0, rules=sbo_rules()),
    "release": Lift(ANY, r"void release\(\) noexcept", rules=sbo_rules()),
}
MOVE_C = {"move_assign_c": Lift(ANY, r"void move_assign\(copyable_sbo_storage<T, embedded_storage_size, alignment_size>&& other\)",
                                rules=sbo_rules())}
COPY = {
    "copy_assign": Lift(ANY, r"void copy_assign\(copyable_sbo_storage const& other\) &", rules=sbo_rules()),
    "vimpl_clone": Lift(ANY, r"any_sender_base<Ts\.\.\.>\* clone\(\) const override", expect=2, which=1, rules=[
        Sub(r"\bnew\s+any_sender_impl\s*\((\w+)\)", r"impl_new(\1)", 1), Members(["sender"])]),
    "vempty_clone": Lift(ANY, r"any_sender_base<Ts\.\.\.>\* clone\(\) const override", expect=2, which=0),
}
# the three Base types the storage is instantiated with, and where their virtual empty() is defined
BASES = {
    "opstate": (dict(SBO_COMMON,
                     vbase_empty=Lift(ANYCPP, r"bool any_operation_state_holder_base::empty\(\) const noexcept"),
                     vempty_empty=Lift(ANYCPP, r"bool empty_any_operation_state_holder_state::empty\(\) const noexcept")),
                [], "movable_sbo_storage<any_operation_state_holder_base, 8 * sizeof(void*)>"),
    "unique": (dict(SBO_COMMON, **MOVE_C,
                    vbase_empty=Lift(ANY, r"bool empty\(\) const noexcept", expect=8, which=3),
                    vempty_empty=Lift(ANY, r"bool empty\(\) const noexcept", expect=8, which=4)),
               ["HAS_MOVE_FROM_COPYABLE"], "movable_sbo_storage<unique_any_sender_base<Ts...>, 4 * sizeof(void*)>"),
    "any": (dict(SBO_COMMON, **COPY,
                 vbase_empty=Lift(ANY, r"bool empty\(\) const noexcept", expect=8, which=3),
                 vempty_empty=Lift(ANY, r"bool empty\(\) const noexcept", expect=8, which=5)),
            ["HAS_COPY"], "copyable_sbo_storage<any_sender_base<Ts...>, 4 * sizeof(void*)>"),
}

UNITS = []


def sbo_unit(base, name, define, enforce, body_key, body_lift, what, min_ob=60):
    lifts, defs, tname = BASES[base]
    lifts = dict(lifts)
    if body_key:
        lifts[body_key] = body_lift
    uname = "sbo.%s.%s" % (base, name)
    UNITS.append(Unit(uname, unit_template(["sbo_core.c", "sbo_units.c"], defs + [define], uname), defines=defs + [define], enforce=enforce, lifts=lifts,
                      funcs=["%s: pika::detail::%s::%s" % (ANY, tname, what)], min_obligations=min_ob))


for base in ("opstate", "unique", "any"):
    sbo_unit(base, "empty", "U_EMPTY", "sbo_empty", None, None, "empty, get")
    sbo_unit(base, "release", "U_RELEASE", "sbo_release", None, None, "release, reset_vtable")
    sbo_unit(base, "default_ctor", "U_DEFAULT_CTOR", "sbo_default_ctor", None, None, "default member initialisers")
    sbo_unit(base, "reset", "U_RESET", "sbo_reset", "reset",
             Lift(ANY, r"void reset\(\)", expect=3, which=0, rules=sbo_rules()), "reset")
    sbo_unit(base, "dtor", "U_DTOR", "sbo_dtor", "dtor",
             Lift(ANY, r"~movable_sbo_storage\(\) noexcept", rules=sbo_rules()), "~movable_sbo_storage")
    sbo_unit(base, "store", "U_STORE", "sbo_store", "store",
             Lift(ANY, r"void store\(Ts&&\.\.\. ts\)", rules=sbo_rules()), "store<Impl>")
    sbo_unit(base, "move_ctor", "U_MOVE_CTOR", "sbo_move_ctor", "move_ctor",
             Lift(ANY, r"(?<![=\w~])movable_sbo_storage\(movable_sbo_storage&& other\)", rules=sbo_rules()),
             "movable_sbo_storage(movable_sbo_storage&&), move_assign")
    sbo_unit(base, "move_assign", "U_MOVE_ASSIGN", "sbo_op_move", "op_move",
             Lift(ANY, r"movable_sbo_storage& operator=\(movable_sbo_storage&& other\)", rules=sbo_rules("self")),
             "operator=(movable_sbo_storage&&), move_assign, release")

CSIG = r"copyable_sbo_storage<T, embedded_storage_size, alignment_size>&& other\)"
sbo_unit("unique", "move_ctor_from_copyable", "U_MOVE_CTOR_C", "sbo_move_ctor", "move_ctor",
         Lift(ANY, r"explicit movable_sbo_storage\(\s*" + CSIG, rules=sbo_rules(move_overload="sbo_move_assign_c")),
         "movable_sbo_storage(copyable_sbo_storage<T>&&), move_assign<T>")
sbo_unit("unique", "move_assign_from_copyable", "U_MOVE_ASSIGN_C", "sbo_op_move", "op_move",
         Lift(ANY, r"operator=\(" + CSIG, rules=sbo_rules("self", move_overload="sbo_move_assign_c")),
         "operator=(copyable_sbo_storage<T>&&), move_assign<T>, release")
sbo_unit("any", "copy_ctor", "U_COPY_CTOR", "sbo_copy_ctor", "copy_ctor",
         Lift(ANY, r"(?<![=\w~])copyable_sbo_storage\(copyable_sbo_storage const& other\)", ctor=True, rules=sbo_rules()),
         "copyable_sbo_storage(copyable_sbo_storage const&), copy_assign, any_sender_impl::clone")
sbo_unit("any", "copy_assign", "U_COPY_ASSIGN", "sbo_op_copy", "op_copy",
         Lift(ANY, r"copyable_sbo_storage& operator=\(copyable_sbo_storage const& other\)", rules=sbo_rules("self")),
         "operator=(copyable_sbo_storage const&), copy_assign, release, any_sender_impl::clone")

META = {}   # filled in at the end of the file


# ---- unit group 2: function_base / basic_function -------------------------------------------------------------------
FCPP = "libs/pika/functional/src/basic_function.cpp"
FHPP = "libs/pika/functional/include/pika/functional/detail/basic_function.hpp"
VT = "libs/pika/functional/include/pika/functional/detail/vtable/vtable.hpp"
CVT = "libs/pika/functional/include/pika/functional/detail/vtable/copyable_vtable.hpp"
CALLVT = "libs/pika/functional/include/pika/functional/detail/vtable/callable_vtable.hpp"
EFH = "libs/pika/functional/include/pika/functional/detail/empty_function.hpp"
EFC = "libs/pika/functional/src/empty_function.cpp"


class CtorLift(Lift):
    """A constructor: the mem-initialiser list `: a(x), b(y)` is part of the lifted text; it becomes the statements
    `a = x; b = y;` at the beginning of the body (`a()` -> `a = 0;`), before the unit rules run."""

    def run(self):
        from vx import lift as L
        body, line, header = L.locate(self.src, self.locate, self.which, self.expect, True)
        op = header.index("(")
        rest = header[match_close(header, op) + 1:].strip()
        rest = re.sub(r"^noexcept\b", "", rest).strip()
        stmts = []
        if rest:
            if not rest.startswith(":"):
                raise LiftError("CtorLift: unexpected text between parameter list and body: %r" % rest[:40])
            for item in split_args(rest[1:]):
                mi = re.match(r"^(\w+)\s*[\(\{](.*)[\)\}]$", item.strip(), re.S)
                mb = re.match(r"^([\w:]+<[^()]*>)\s*[\(\{](.*)[\)\}]$", item.strip(), re.S)
                if mi:      # data member: the left-hand side is the member even if a parameter has the same name
                    stmts.append("this->%s = %s;" % (mi.group(1), mi.group(2).strip() or "0"))
                elif mb:    # base class (template-id): constructor call statement, mapped by a unit rule
                    stmts.append("%s(%s);" % (mb.group(1), mb.group(2).strip()))
                else:
                    raise LiftError("CtorLift: cannot parse mem-initialiser %r" % item)
        raw = body
        body = "{ " + " ".join(stmts) + body[1:]
        body = L.resolve_pp(body)
        body = L.apply_rules(body, self.rules)
        if self.generic:
            body = L.apply_rules(body, L.GENERIC_RULES)
        body = L.apply_rules(body, self.post)
        body, nloops = L.splice_loops(body, self.loops)
        return {"text": body, "line": line, "file": self.src, "raw": header + raw, "nloops": nloops, "header": header}


def fb_rules(ret=""):
    return [
        # reference parameters other / f -> pointers
        Sub(r"\b(other|f)\.", r"\1->", None), Sub(r"&(other|f)\b(?!->)", r"\1", None),
        Sub(r"\*this\b", "self", None), Sub(r"\bthis\b", "self", None),
        Sub(r"\bself->storage_init\b", "self->storage[0]", None),
        Sub(r"\bstd::size_t\((-?\w+)\)", r"((size_t)(\1))", None),
        Sub(r"\b(?:detail::)?function_storage_size\b", "function_storage_size", None),
        Sub(r"\bstd::memcpy\(", "vx_memcpy(", None),
        Call(r"\bstd::swap", "VX_SWAP({0}, {1})", None),
        # member function calls
        Sub(r"(?<![\w.>:])destroy\(\)", "fb_destroy(self)", None),
        Call(r"(?<![\w.>:])swap", "fb_swap(self, {0})", None),
        Call(r"\bother->reset", "fb_reset(other, {0})", None),
        Call(r"base_type::reset", "fb_reset(self, {0})", None),
        Call(r"(?<![\w.>:])reset", "fb_reset(self, {0})", None),
        Sub(r"(?<![\w:>.])get_empty_vtable\(\)", "bf_get_empty_vtable()", None),
        Sub(r"\bstorage_init\b", "storage[0]", None),
        Members(["vptr", "object", "storage"], optional=["vptr", "object", "storage"]),
        # calls through a vtable pointer: `p->entry(args)` -> vt_entry(p, args)
        Call(r"([\w>.\-]+)->(copy|deallocate|invoke)", "vt_{h2}({h1}, {args})", None),
        AssignFromThrowing(r"vt_copy", "void *", ret, None),
    ]


def _policy(m):
    return "#define VX_HEAP_POLICY(T, storage_size) (%s)" % " ".join(m.group(1).split())


VT_RULES = [
    Sub(r"\bsizeof\(T\)", "VX_SIZEOF(T)", None),
    Sub(r"\balignof\(T\)", "VX_ALIGNOF(T)", None), Sub(r"\balignof\(", "_Alignof(", None),
    Sub(r"\bstd::size_t\((-?\w+)\)", r"((size_t)(\1))", None),
    Sub(r"\bnew\s+aligned_storage_helper<T>", "blk_new(T)", None),
    Sub(r"(?:vtable::)?get<T>\((\w+)\)\.~T\(\)", r"T_destroy(T, \1)", None),
    Sub(r"\bdelete\s+static_cast<aligned_storage_helper<T>\s*\*>\((\w+)\)\s*;", r"blk_delete(T, \1);", None),
    Sub(r"(?:vtable::)?allocate<T>\(", "vt_allocate(T, ", None),
    Sub(r"::new\s*\((\w+)\)\s*T\((?:vtable::)?get<T>\((\w+)\)\)", r"T_copy_construct(T, \1, \2)", None),
]
ERRH = "libs/pika/errors/include/pika/errors/error.hpp"
ERRORS = Lift(ERRH, r"enum class error\s*\{", fragment_end=r"\};", rules=[
    Sub(r"enum class error\s*\{", "enum pika_error {", 1),
    Sub(r"(?m)^(\s*)(\w+)(\s*=\s*[^,\n]+)?(,?)[ \t]*$", r"\1pika_error_\2\3\4", "+")])
FB_COMMON = {
    "errors": ERRORS,
    "consts": frag(FHPP, r"static std::size_t const function_storage_size\s*=",
                   [Sub(r"static std::size_t const (\w+)\s*=\s*([^;]+);", r"enum { \1 = \2 };", 1)]),
    "vt_allocate": Lift(VT, r"static void\* allocate\(void\* storage, std::size_t storage_size\)", rules=VT_RULES),
    # the condition of allocate<T>'s `if` as a macro (fragment: from the signature to the `) {` that closes the condition)
    "heap_policy": Lift(VT, r"static void\* allocate\(void\* storage, std::size_t storage_size\)\s*\{\s*if\s*\(", fragment_end=r"\)\s*\{",
                        rules=[Sub(r"^.*?\bif\s*\((.*)\)\s*\{$", _policy, 1)] + VT_RULES),
    "vt_deallocate": Lift(VT, r"static void _deallocate\(", rules=VT_RULES),
    "vt_copy": Lift(CVT, r"static void\* _copy\(", rules=VT_RULES),
    "throw_bad_function_call": Lift(EFC, r"void throw_bad_function_call\(\)", rules=[
        Call(r"pika::throw_exception", "vx_throw({0})", None), Sub(r"pika::error::(\w+)", r"pika_error_\1", None)]),
    "throw_bad_function_call_R": Lift(EFH, r"inline R throw_bad_function_call\(\)"),
    "vt_empty_invoke": Lift(CALLVT, r"static R _empty_invoke\(", rules=[
        Sub(r"\bthrow_bad_function_call<R>\(\)", "throw_bad_function_call_R()", None), Sub(r"\bR\(\)", "0", None)]),
    "destroy": Lift(FCPP, r"void function_base::destroy\(\) noexcept", rules=fb_rules()),
    "reset": Lift(FCPP, r"void function_base::reset\(vtable const\*[^)]*\) noexcept", rules=fb_rules()),
    "swap": Lift(FCPP, r"void function_base::swap\(function_base& f\) noexcept", rules=fb_rules()),
    "bf_get_empty_vtable": Lift(FHPP, r"static constexpr vtable const\* get_empty_vtable\(\) noexcept", rules=[
        Sub(r"\bdetail::get_empty_function_vtable<R\(Ts\.\.\.\)>\(\)", "get_empty_function_vtable()", 1)]),
}
BF_ASSIGN_RULES = [
    DropStmt(r"\bstatic_assert", None),
    Sub(r"\busing T = std::decay_t<F>;", "const struct fvt *T = callable_type(f);", 1),
    Sub(r"\bdetail::is_empty_function\(", "is_empty_function(", None),
    Sub(r"\bvtable const\*", "const struct fvt *", None),
    Sub(r"\bget_vtable<T>\(\)", "get_vtable(T)", None),
    Sub(r"vtable::template get<T>\((\w+)\)\.~T\(\)", r"T_destroy(T, \1)", None),
    Sub(r"vtable::template allocate<T>\(", "vt_allocate(T, ", None),
    Sub(r"::new\s*\((\w+)\)\s*T\(std::forward<F>\((\w+)\)\)", r"T_construct_from(T, \1, \2)", None),
]


def fb_unit(name, define, enforce, key, lift, what, src=FCPP, min_ob=80, **kw):
    lifts = dict(FB_COMMON)
    if key:
        lifts[key] = lift
    UNITS.append(Unit("fb." + name, unit_template("fb.c", [define], "fb." + name), defines=[define] + kw.pop("defines", []), enforce=enforce, lifts=lifts,
                      funcs=["%s: pika::util::detail::%s" % (src, what),
                             VT + ": vtable::allocate<T>, vtable::_deallocate<T>", CVT + ": copyable_vtable::_copy<T>"],
                      min_obligations=min_ob, **kw))


fb_unit("embedded_alignment", "U_ALLOCATE", "vt_allocate", None, None, "vtable::allocate<T> (placement decision)", src=VT)
fb_unit("default_ctor", "U_DEFAULT_CTOR", "fb_ctor", "ctor",
        CtorLift(FHPP, r"constexpr explicit function_base\(function_base_vtable const\* empty_vptr\) noexcept", rules=fb_rules()),
        "function_base::function_base(vtable const*)", src=FHPP)
fb_unit("copy_ctor", "U_COPY_CTOR", "fb_copy_ctor", "copy_ctor",
        CtorLift(FCPP, r"function_base::function_base\(function_base const& other, vtable const\*", rules=fb_rules()),
        "function_base::function_base(function_base const&, vtable const*)")
fb_unit("move_ctor", "U_MOVE_CTOR", "fb_move_ctor", "move_ctor",
        CtorLift(FCPP, r"function_base::function_base\(function_base&& other, vtable const\* empty_vptr\)", rules=fb_rules()),
        "function_base::function_base(function_base&&, vtable const*)")
fb_unit("dtor", "U_DTOR", "fb_dtor", "dtor", Lift(FCPP, r"function_base::~function_base\(\)", rules=fb_rules()),
        "function_base::~function_base, destroy")
fb_unit("reset", "U_RESET", "fb_reset", None, None, "function_base::reset, destroy")
fb_unit("swap", "U_SWAP", "fb_swap", None, None, "function_base::swap")
fb_unit("op_assign_copy", "U_OP_ASSIGN_COPY", "fb_op_assign_copy", "op_assign_copy",
        Lift(FCPP, r"void function_base::op_assign\(function_base const& other, vtable const\*", rules=fb_rules()),
        "function_base::op_assign(function_base const&, vtable const*), destroy")
fb_unit("op_assign_move", "U_OP_ASSIGN_MOVE", "fb_op_assign_move", "op_assign_move",
        Lift(FCPP, r"void function_base::op_assign\(function_base&& other, vtable const\*[^)]*\)", rules=fb_rules()),
        "function_base::op_assign(function_base&&, vtable const*), swap, reset, destroy")
fb_unit("bf_assign", "U_BF_ASSIGN", "bf_assign", "bf_assign",
        Lift(FHPP, r"void assign\(F&& f\)", rules=BF_ASSIGN_RULES + fb_rules() + [
            AssignFromThrowing(r"T_construct_from", "void *", "", None)]),
        "basic_function::assign(F&&), function_base::destroy, reset", src=FHPP)
fb_unit("bf_assign_nullptr", "U_BF_ASSIGN_NULLPTR", "bf_assign_nullptr", "bf_assign_nullptr",
        Lift(FHPP, r"void assign\(std::nullptr_t\) noexcept", rules=fb_rules()),
        "basic_function::assign(nullptr_t), get_empty_vtable", src=FHPP)
fb_unit("bf_reset", "U_BF_RESET", "bf_reset", "bf_reset",
        Lift(FHPP, r"void reset\(\) noexcept", rules=fb_rules()), "basic_function::reset, get_empty_vtable", src=FHPP)
fb_unit("bf_call", "U_BF_CALL", "bf_call", "bf_call",
        Lift(FHPP, r"PIKA_FORCEINLINE R operator\(\)\(Ts\.\.\. vs\) const", rules=[
            Sub(r"\bvtable const\*", "const struct fvt *", None),
            Sub(r"\bbase_type::vptr\b", "self->vptr", None),
            Sub(r"std::forward<Ts>\((\w+)\)\.\.\.", r"\1", None),
            Members(["object"], optional=["object"]),
            Call(r"([\w>.\-]+)->(invoke)", "vt_{h2}({h1}, {args})", 1)]),
        "basic_function::operator(), callable_vtable::_empty_invoke, throw_bad_function_call", src=FHPP)
fb_unit("empty", "U_EMPTY", "fb_empty", "empty", Lift(FHPP, r"bool empty\(\) const noexcept", rules=fb_rules()),
        "function_base::empty", src=FHPP)

# twins of the two units above that fail on the pinned tree: same contract, callable constructors that do not throw
fb_unit("op_assign_copy.nothrow", "U_OP_ASSIGN_COPY", "fb_op_assign_copy", "op_assign_copy",
        Lift(FCPP, r"void function_base::op_assign\(function_base const& other, vtable const\*", rules=fb_rules()),
        "function_base::op_assign(function_base const&, vtable const*), destroy", defines=["VX_NO_THROWING_CTOR"])
fb_unit("bf_assign.nothrow", "U_BF_ASSIGN", "bf_assign", "bf_assign",
        Lift(FHPP, r"void assign\(F&& f\)", rules=BF_ASSIGN_RULES + fb_rules() + [
            AssignFromThrowing(r"T_construct_from", "void *", "", None)]),
        "basic_function::assign(F&&), function_base::destroy, reset", src=FHPP, defines=["VX_NO_THROWING_CTOR"])


# ---- unit group 3: unique_any_sender / any_sender / any_receiver / any_operation_state ----------------------------------
from vx.lift import TryCatch

THROW_PIKA = [Call(r"\bPIKA_THROW_EXCEPTION", "vx_throw_pika({0})", None), Sub(r"pika::error::(\w+)", r"pika_error_\1", None)]
FWD = Sub(r"std::forward<\w+>\((\w+)\)(\.\.\.)?", r"\1", None)


def wrapper_rules(ret=""):
    return [
        DropStmt(r"\bstatic_assert", None),
        Members(["storage"], optional=["storage"]),
        Sub(r"\bother\.storage\b", "other->storage", None),
        Sub(r"std::move\(([\w>\-]+)\.get\(\)\)", r"VX_RVALUE(sbo_get(&\1))", None),      # rvalue reference to the stored Base
        Sub(r"(?<!sbo_get\(&)(?<![\w>\-])([\w>\-]+)\.get\(\)", r"VX_LVALUE(sbo_get_c(&\1))", None),  # (const) lvalue reference to it
        FWD,
        Sub(r"\breturn\s*\{\s*(.+?)\s*\};", r"return aos_make(\1);", None),           # return {sender, receiver}; -> constructs the result
        Call(r"\bself->storage\.template store<impl_type<Sender>>", "{ sbo_store(&self->storage, {0}); if (vx_exc) return %s; }" % ret, None, stmt=True),
        Sub(r"\bself->storage\.(reset|empty)\(\)", r"sbo_\1(&self->storage)", None),
        Sub(r"\bother\.reset\(\)", "as_reset(other)", None),
        Sub(r"\bthis->storage = std::move\(other->storage\);", "sbo_move_ctor_c(&self->storage, &other->storage);", None),
        Sub(r"\bself->storage = std::move\(other->storage\);", "sbo_op_move_c(&self->storage, &other->storage);", None),
        Sub(r"(?<![\w.>:])empty\(\)", "as_empty(self)", None),
        Sub(r"\*this\b", "self", None),
        # a local storage object: constructed by moving the member, destroyed at every scope exit
        Guard(r"auto (\w+) = std::move\(self->storage\);", r"struct sbo \1; sbo_move_ctor(&\1, &self->storage);", r"sbo_dtor(&\1);", None),
    ]


def storage_lifts(base):
    lifts, defs, tname = BASES[base]
    lifts = dict(lifts)
    lifts.update({
        "store": Lift(ANY, r"void store\(Ts&&\.\.\. ts\)", rules=sbo_rules()),
        "reset": Lift(ANY, r"void reset\(\)", expect=3, which=0, rules=sbo_rules()),
        "dtor": Lift(ANY, r"~movable_sbo_storage\(\) noexcept", rules=sbo_rules()),
        "move_ctor": Lift(ANY, r"(?<![=\w~])movable_sbo_storage\(movable_sbo_storage&& other\)", rules=sbo_rules()),
        "op_move": Lift(ANY, r"movable_sbo_storage& operator=\(movable_sbo_storage&& other\)", rules=sbo_rules("self")),
        "errors": ERRORS,
        "throw_bad_any_call": Lift(ANYCPP, r"void throw_bad_any_call\(char const\* class_name, char const\* function_name\)", rules=THROW_PIKA),
    })
    if "HAS_MOVE_FROM_COPYABLE" in defs:
        lifts["move_ctor_c"] = Lift(ANY, r"explicit movable_sbo_storage\(\s*" + CSIG, rules=sbo_rules(move_overload="sbo_move_assign_c"))
        lifts["op_move_c"] = Lift(ANY, r"operator=\(" + CSIG, rules=sbo_rules("self", move_overload="sbo_move_assign_c"))
    return lifts, list(defs)


def any_unit(base, name, group, define, enforce, extra, what, min_ob=60):
    lifts, defs = storage_lifts(base)
    lifts.update(extra)
    uname = "any.%s.%s" % (base, name)
    defs = defs + [group, define]
    UNITS.append(Unit(uname, unit_template(["sbo_core.c", "any_units.c"], defs, uname), defines=defs, enforce=enforce, lifts=lifts,
                      funcs=["%s: %s" % (ANY, what)], min_obligations=min_ob))


# -- the wrappers themselves (aos constructor = T-stub) --
WIDX = {"unique": 0, "any": 1}
for base, cls in (("unique", "unique_any_sender"), ("any", "any_sender")):
    k = WIDX[base]
    as_reset = Lift(ANY, r"void reset\(\)", expect=3, which=1 + k, rules=wrapper_rules())
    W = {"as_reset": as_reset}
    any_unit(base, "connect_rvalue", "G_WRAPPER", "U_CONNECT_RVALUE", "as_connect_rvalue", dict(W, connect_rvalue=Lift(
        ANY, r"detail::any_operation_state<Receiver, Ts\.\.\.> connect\(Receiver&& receiver\) &&", expect=2, which=k,
        rules=wrapper_rules())), cls + "::connect(Receiver&&) &&")
    any_unit(base, "from_sender_ctor", "G_WRAPPER", "U_FROM_SENDER_CTOR", "as_from_sender_ctor", dict(W, from_sender_ctor=Lift(
        ANY, r"(?<![\w])%s\(Sender&& sender\)" % cls, rules=wrapper_rules())), cls + "::" + cls + "(Sender&&)")
    any_unit(base, "from_sender_assign", "G_WRAPPER", "U_FROM_SENDER_ASSIGN", "as_from_sender_assign", dict(W, from_sender_assign=Lift(
        ANY, r"(?<![\w])%s& operator=\(Sender&& sender\)" % cls, rules=wrapper_rules("self"))), cls + "::operator=(Sender&&)")
    any_unit(base, "reset", "G_WRAPPER", "U_AS_RESET", "as_reset", W, cls + "::reset()")
    any_unit(base, "empty", "G_WRAPPER", "U_AS_EMPTY", "as_bool", dict(
        W, as_empty=Lift(ANY, r"bool empty\(\) const noexcept", expect=8, which=6 + k, rules=wrapper_rules()),
        as_bool=Lift(ANY, r"explicit operator bool\(\) const noexcept", expect=2, which=k, rules=wrapper_rules())),
        cls + "::empty, operator bool")
any_unit("any", "connect_lvalue", "G_WRAPPER", "U_CONNECT_LVALUE", "as_connect_lvalue", {
    "as_reset": Lift(ANY, r"void reset\(\)", expect=3, which=2, rules=wrapper_rules()),
    "connect_lvalue": Lift(ANY, r"connect\(Receiver&& receiver\) const&", rules=wrapper_rules())},
    "any_sender::connect(Receiver&&) const&")
# unique_any_sender from any_sender: `other` is an any_sender (its reset() is the third reset() of the header)
FROM_ANY = {"as_reset": Lift(ANY, r"void reset\(\)", expect=3, which=2, rules=wrapper_rules())}
any_unit("unique", "from_any_ctor", "G_WRAPPER", "U_FROM_ANY_CTOR", "uas_from_any_ctor", dict(FROM_ANY, from_any_ctor=CtorLift(
    ANY, r"unique_any_sender\(any_sender<Ts\.\.\.>&& other\)", rules=wrapper_rules() + REFS)),
    "unique_any_sender::unique_any_sender(any_sender&&)")
any_unit("unique", "from_any_assign", "G_WRAPPER", "U_FROM_ANY_ASSIGN", "uas_from_any_assign", dict(FROM_ANY, from_any_assign=Lift(
    ANY, r"unique_any_sender& operator=\(any_sender<Ts\.\.\.>&& other\)", rules=wrapper_rules("self") + REFS)),
    "unique_any_sender::operator=(any_sender&&)")


# -- any_operation_state constructor + the virtual connect() of the sender Base types (holder constructor = T-stub) --
def holder_init(m):
    a = [x.strip() for x in split_args(m.group(1))]
    mm = re.match(r"^std::move\((\w+)\)$", a[0])
    first = "VX_MOVED(self->%s)" % mm.group(1) if mm else "VX_COPIED(self->%s)" % a[0]
    return "{ holder_ctor(vx_out, %s); return; }" % ", ".join([first] + a[1:])


HOLDER_INIT = Sub(r"\breturn\s+any_operation_state_holder\s*\{([^{}]*)\}\s*;", holder_init, None)
AOS_CTOR_RULES = [
    Sub(r"\bthis->receiver_ref = ([^;]+);", r"any_receiver_ref_ctor(&self->receiver_ref, \1);", None),
    Sub(r"\bthis->op_state = std::forward<Sender>\(sender\)\.connect\((.*?)\);", r"base_connect(&self->op_state, sender, \1);", None),
    Sub(r"\bany_receiver<Ts\.\.\.>\(([^()]*)\)", r"any_receiver_make(\1)", None),
    FWD,
    Sub(r"(?<![\w>.])receiver_ref\b", "self->receiver_ref", None),
    Sub(r"\bthis\b", "self", None),
]
for base in ("unique", "any"):
    k = WIDX[base]
    ex = {
        "aos_ctor": CtorLift(ANY, r"any_operation_state\(Sender&& sender, Receiver_&& receiver\)", rules=AOS_CTOR_RULES),
        "any_receiver_ref_base_ctor": CtorLift(ANY, r"explicit any_receiver_ref_base\(Receiver\* receiver\)", rules=[Sub(r"\bthis\b", "self", None)]),
        "any_receiver_ref_ctor": CtorLift(ANY, r"explicit any_receiver_ref\(Receiver_\* receiver\)", rules=[
            Sub(r"\bany_receiver_ref_base<Ts\.\.\.>\((\w+)\);", r"any_receiver_ref_base_ctor(self, \1);", 1)]),
        "any_receiver_ctor": CtorLift(ANY, r"explicit any_receiver\(any_receiver_ref_base<Ts\.\.\.>\* receiver\)", rules=[Sub(r"\bthis\b", "self", None)]),
        "vempty_connect_rvalue": Lift(ANY, r"any_operation_state_holder connect\(any_receiver<Ts\.\.\.>&&\) && override", expect=2, which=k),
        "vimpl_connect_rvalue": Lift(ANY, r"any_operation_state_holder connect\(any_receiver<Ts\.\.\.>&& receiver\) && override", expect=2, which=k,
                                     rules=[HOLDER_INIT]),
    }
    if base == "any":
        ex["vempty_connect_lvalue"] = Lift(ANY, r"any_operation_state_holder connect\(any_receiver<Ts\.\.\.>&&\) const& override")
        ex["vimpl_connect_lvalue"] = Lift(ANY, r"any_operation_state_holder connect\(any_receiver<Ts\.\.\.>&& receiver\) const& override", rules=[HOLDER_INIT])
    any_unit(base, "opstate_ctor", "G_OPSTATE_CTOR", "U_OPSTATE_CTOR", "aos_ctor", ex,
             "any_operation_state::any_operation_state(Sender&&, Receiver&&), any_receiver_ref(_base)/any_receiver constructors, "
             "empty_%s::connect, %s_impl::connect, throw_bad_any_call" % (("unique_any_sender", "unique_any_sender") if base == "unique" else ("any_sender", "any_sender")))

# -- start --
START = {
    "holder_start": Lift(ANYCPP, r"void any_operation_state_holder::start\(\) & noexcept", rules=[
        Sub(r"\bstorage\.get\(\)\.start\(\)", "base_start(sbo_get(&self->storage))", None)]),
    "vempty_start": Lift(ANYCPP, r"void empty_any_operation_state_holder_state::start\(\) & noexcept", rules=THROW_PIKA),
    "vimpl_start": Lift(ANY, r"void start\(\) & noexcept override", expect=2, which=1, rules=[
        Sub(r"\boperation_state\.has_value\(\)", "opt_has_value(self)", None),
        Sub(r"\bpika::execution::experimental::start\(\*operation_state\)", "wrapped_start(self)", None)]),
}
any_unit("opstate", "holder_start", "G_START", "U_HOLDER_START", "holder_start", START,
         "any_operation_state_holder::start, any_operation_state_holder_impl::start")
any_unit("opstate", "empty_start", "G_START", "U_EMPTY_START", "holder_start_empty", START,
         "any_operation_state_holder::start, empty_any_operation_state_holder_state::start")
any_unit("opstate", "aos_start", "G_START", "U_AOS_START", "aos_start", dict(START, aos_start=Lift(
    ANY, r"void start\(\) & noexcept", expect=5, which=4, rules=[Sub(r"\bop_state\.start\(\)", "holder_start(&self->op_state)", None)])),
    "any_operation_state::start, any_operation_state_holder::start, any_operation_state_holder_impl::start")

# -- receiver signals --
def _sig(args, env):
    return "ref_%s(%s)" % (env["h2"], ", ".join([env["h1"]] + [a for a in args if a]))


REF_RULES = [
    Sub(r"\bpika::execution::experimental::(set_value|set_error|set_stopped)\(", r"real_\1(", None),
    Sub(r"std::move\(\*static_cast<std::decay_t<Receiver>\*>\((\w+)\)\)", r"(struct real_receiver *)(\1)", None),
    Sub(r"std::move\((\w+)\)\.\.\.", r"\1", None),
    Members(["receiver"], optional=["receiver"]),
]
RCV_RULES = [
    Sub(r"\bauto (\w+) = std::move\(\*this\);", r"struct any_receiver \1 = *self;", None),
    Call(r"([\w.]+)->(set_value|set_error|set_stopped)", _sig, None),
    FWD,
    Sub(r"\bstd::current_exception\(\)", "vx_current_exception()", None),
    Members(["receiver"], optional=["receiver"]),
]
SIG = {
    "ref_set_value": Lift(ANY, r"void set_value\(Ts\.\.\. ts\) noexcept override", rules=REF_RULES),
    "ref_set_error": Lift(ANY, r"void set_error\(std::exception_ptr ep\) noexcept override", rules=REF_RULES),
    "ref_set_stopped": Lift(ANY, r"void set_stopped\(\) noexcept override", rules=REF_RULES),
}
for ch in ("value", "error", "stopped"):
    any_unit("opstate", "receiver_ref.set_" + ch, "G_RECEIVER", "U_REF_SET_" + ch.upper(), "ref_set_" + ch, SIG,
             "any_receiver_ref<Receiver, Ts...>::set_" + ch)
any_unit("opstate", "receiver.set_value", "G_RECEIVER", "U_RCV_SET_VALUE", "rcv_set_value", dict(SIG, rcv_set_value=Lift(
    ANY, r"auto set_value\(\s*Ts_&&\.\.\. ts\) && noexcept", rules=RCV_RULES + [TryCatch(None)])),
    "any_receiver<Ts...>::set_value, any_receiver_ref::set_value, set_error")
any_unit("opstate", "receiver.set_error", "G_RECEIVER", "U_RCV_SET_ERROR", "rcv_set_error", dict(SIG, rcv_set_error=Lift(
    ANY, r"void set_error\(std::exception_ptr ep\) && noexcept", rules=RCV_RULES)),
    "any_receiver<Ts...>::set_error, any_receiver_ref::set_error")
any_unit("opstate", "receiver.set_stopped", "G_RECEIVER", "U_RCV_SET_STOPPED", "rcv_set_stopped", dict(SIG, rcv_set_stopped=Lift(
    ANY, r"void set_stopped\(\) && noexcept", rules=RCV_RULES)),
    "any_receiver<Ts...>::set_stopped, any_receiver_ref::set_stopped")

# -- any_operation_state_holder constructor + any_operation_state_holder_impl constructor (the wrapped connect = T-stub) --
any_unit("opstate", "holder_ctor", "G_HOLDER", "U_HOLDER_CTOR", "holder_ctor_real", {
    "holder_ctor": Lift(ANY, r"any_operation_state_holder\(Sender&& sender, any_receiver<Ts\.\.\.>&& receiver\)", rules=[
        FWD, Call(r"\bstorage\.template store<impl_type<Sender, Ts\.\.\.>>",
                  "{ sbo_store(&self->storage, vx_pack({0}, {1})); if (vx_exc) return; }", None, stmt=True)]),
    "holder_impl_ctor": CtorLift(ANY, r"any_operation_state_holder_impl\(Sender_&& sender, any_receiver<Ts\.\.\.>&& receiver\)", rules=[
        # with_result_of(f): the value of f() constructed in place
        Sub(r"\bpika::detail::with_result_of\(\[[^\]]*\]\(\)\s*(?:mutable\s*)?\{\s*return\s+(.*?);\s*\}\)", r"\1", 1),
        Sub(r"\bpika::execution::experimental::connect\(", "wrapped_connect(", None),
        FWD, Sub(r"\bthis\b", "self", None)]),
}, "any_operation_state_holder::any_operation_state_holder(Sender&&, any_receiver&&), any_operation_state_holder_impl constructor, "
   "movable_sbo_storage::store")
UNITS[-1].defines.append("VX_CUSTOM_IMPL_CTOR")


META = {
    "trusted_base": [
        "specs/C18/sbo.h get_empty_vtable / vx_virtual_call / base_delete / vx_alloc+impl_new+vx_impl_ctor: the C++ run time for a "
        "polymorphic contained object -- `new Impl(..)` (constructor may throw: nothing constructed, storage given back), "
        "`delete p` (virtual destructor, does not throw), a virtual call needs a live object (or the static empty-vtable object); "
        "ghost ledger g_live and per-object liveness",
        "specs/C18/sbo_core.c base_empty / base_clone, any_units.c base_connect / base_start: virtual dispatch on the dynamic type "
        "(empty vtable type vs. Impl) and on the ref-qualifier written by hand; the bodies dispatched to are lifted",
        "specs/C18/fb.c slot_of / vx_fits / T_destroy / vx_construct / T_copy_construct / T_construct_from / T_invoke: the stored "
        "callable type T (opaque): construction may throw, destruction does not, one ghost slot {constructed, type, payload} per "
        "location (embedded storage of a wrapper, heap block)",
        "specs/C18/fb.c blk_new / blk_delete: `new aligned_storage_helper<T>` / `delete` of it (allocation failure not modelled)",
        "specs/C18/fb.c vx_memcpy / VX_SWAP+vx_swap_ghost: std::memcpy / std::swap on the embedded storage copy the bytes AND what "
        "they represent (trivially-relocatable reading of pika's own technique)",
        "specs/C18/fb.c vt_deallocate / vt_copy / vt_invoke / vx_vtable: a call `vptr->entry(..)` dispatches to the lifted template "
        "entry with T = the table (never through a null table); get_vtable<T>() is T's token; get_empty_function_vtable() is the "
        "distinguished constant g_vt_empty; is_empty_function(f) is an input bit of the callable",
        "specs/C18/fb.c vx_throw, any_units.c vx_throw_pika: pika::throw_exception / PIKA_THROW_EXCEPTION record the error code and "
        "raise (lowered to: set vx_exc, callers return)",
        "specs/C18/any_units.c aos_make / holder_ctor / wrapped_connect / wrapped_start / real_set_value|error|stopped / "
        "vx_current_exception / opt_has_value: call-trace stubs (count, arguments) for the next layer, each of which is itself a "
        "unit (opstate_ctor, holder_ctor) or the user's sender/receiver (opaque); they may throw where the real callee may",
        "specs/C18/spec.py helper rules AssignFromThrowing (assignment from a throwing call), CtorLift (mem-initialiser list -> "
        "statements), unit_template (per-unit template = masters with exactly one //@FUNC marker), holder_init, _policy",
        "no VX_ASSUME anywhere in specs/C18",
    ],
    "assumptions": [
        "configuration: PIKA_DETAIL_ENABLE_ANY_SENDER_SBO off (shipped): any_sender storage is heap only; the SBO-on branches are "
        "dropped by the lifter exactly as by the compiler and are NOT verified",
        "payloads (senders, callables, receivers, values) are opaque tokens: 'same object' = same address / same token",
        "exceptions: only constructors of contained objects, the wrapped sender's connect and the defined bad_function_call errors "
        "throw; destructors and the receiver signals (noexcept) do not; allocation never fails",
        "universe per operation: at most two wrappers, two pre-existing contained objects / heap blocks and one allocation "
        "(asserted: a second allocation in one operation fails the unit)",
        "function_base: embedded callables are relocated by memcpy / byte swap; whether an arbitrary T tolerates that (self-"
        "referential small objects such as libstdc++ std::list) is not decided",
        "placement policy of function storage (embedded vs heap) is read from vtable::allocate<T>'s own condition (lifted as "
        "VX_HEAP_POLICY) and the representation invariant is stated relative to it",
    ],
    "not_decided": [
        "behavioural equivalence of arbitrary wrapped programs (payloads are tokens)",
        "PIKA_DETAIL_ENABLE_ANY_SENDER_SBO configuration; allocator failures",
        "basic_function's one-line forwarding constructors/assignment operators, target<T>(), get_function_address/annotation, "
        "unique_any_sender::reset(Sender&&), make_[unique_]any_sender",
        "heap block leak (not an object-ledger violation) when a heap-stored callable's constructor throws inside copyable_vtable::_copy / "
        "basic_function::assign",
    ],
    "explanation": "I: representation invariant + ledger of live contained objects for every storage/wrapper operation (sbo.*, fb.*); "
                   "T: exactly-once forwarding on the same channel with the same arguments (any.*). Units fb.op_assign_copy, fb.bf_assign and "
                   "fb.embedded_alignment FAIL on the pinned tree (genuine defects, see report); their input classes are excluded by "
                   "-DVX_NO_THROWING_CTOR resp. -DVX_NO_OVERALIGNED (twins fb.*.nothrow prove).",
}


# ---- remaining any_sender bodies (Impl constructors, clone/move_into/clone_into, reset(Sender&&), factories, get_empty_vtable,
# ---- placement predicates, end-to-end pipelines): second sub-agent ---------------------------------------------------------
exec(open("/verif/specs/C18/fwd_spec.py").read())
UNITS += FWD_UNITS
for _k in ("trusted_base", "assumptions", "not_decided"):
    META[_k] = list(META.get(_k, [])) + list(FWD_META.get(_k, []))
STATIC = list(globals().get("STATIC", [])) + list(FWD_STATIC)
