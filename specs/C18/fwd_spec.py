# C18 extension "fwd": the parts of any_sender.hpp that the first C18 spec left as hand-written stubs or undecided
# (Impl constructors / clone / relocation, the full wrap-a-sender chain, reset(Sender&&), the factories, the vtable selection
# helper get_empty_vtable<T>(), the placement predicates, any_receiver::get_env), census facts for the special members that have
# no body (= default / = delete), and two END-TO-END units (fwd.pipeline.*) that run connect -> start -> completion -> destruction
# over the lifted bodies of all layers at once (reusing the very Lift objects of the per-layer units of spec.py).
# Merged into specs/C18/spec.py by `exec(open(".../fwd_spec.py").read()); UNITS += FWD_UNITS` (the names of spec.py are then
# already there), or run alone through specs/C18X/spec.py (the names are then fetched from specs/C18/spec.py below).
import os as _os
import re as _re

from vx.lift import Lift, Sub, Call, Members, DropStmt, LiftError
from vx.run import Unit, VERIF
from vx import census as _census

_HERE = _os.path.join(VERIF, "specs", "C18")
if "storage_lifts" not in globals() or "CtorLift" not in globals():
    _base = {}
    exec(compile(open(_os.path.join(_HERE, "spec.py")).read(), _os.path.join(_HERE, "spec.py"), "exec"), _base)
    for _n in ("storage_lifts", "CtorLift", "sbo_rules", "BASES", "FWD", "ANY", "ANYCPP", "REFS"):
        globals()[_n] = _base[_n]
    _BASE_UNITS = {u.name: u for u in _base["UNITS"] if not u.name.startswith("fwd.")}
else:
    _BASE_UNITS = {u.name: u for u in globals()["UNITS"] if not u.name.startswith("fwd.")}


def _fwd_template(masters, defines, uname):
    """per-unit template gen/<uname>.c = the master files concatenated, with `//@FUNC_IF U_X` turned into `//@FUNC` for the
    unit's own define and into a comment otherwise (same scheme as spec.py's unit_template; regenerated on every load)."""
    text = "".join(open(_os.path.join(_HERE, m)).read() for m in masters)

    def rep(m):
        return "//@FUNC" if set(m.group(1).split()) & set(defines) else "/* (contract of another unit) */"

    text = _re.sub(r"^//@FUNC_IF[ \t]+([\w \t]+?)[ \t]*$", rep, text, flags=_re.M)
    text = "/* GENERATED from specs/C18/%s by fwd_spec.py -- do not edit */\n" % " + ".join(masters) + text
    _os.makedirs(_os.path.join(_HERE, "gen"), exist_ok=True)
    path = _os.path.join(_HERE, "gen", uname + ".c")
    if not _os.path.exists(path) or open(path).read() != text:
        tmp = path + ".%d.tmp" % _os.getpid()
        with open(tmp, "w") as f:
            f.write(text)
        _os.replace(tmp, path)
    return _os.path.join("..", "C18", "gen", uname + ".c"), text


FWD_UNITS = []

# ---- purely syntactic rules ----------------------------------------------------------------------------------------------
# std::move(x) of a PARAMETER x: the value category becomes rvalue (must run before the generic rule that drops std::move)
def _rval(fn="vx_as_rvalue"):
    return Sub(r"\bstd::move\((\w+)\)", r"%s(\1)" % fn, None)


_RVAL_PARAM = _rval()
# mem-initialiser `member(expr)` (CtorLift turns it into `this->member = expr;`): construction of the member from expr
_MEMBER_INIT = Sub(r"\bthis->(\w+) = ([^;]+);", r"VX_MEMBER_INIT(self->\1, \2);", None)


def _cat(expr):
    """an argument expression naming the Impl's data member: std::move(m) -> moved out of it, m -> copied from it"""
    e = expr.strip()
    m = _re.match(r"^std::move\((\w+)\)$", e)
    if m:
        return "VX_MOVED(self->%s)" % m.group(1)
    if _re.match(r"^\w+$", e):
        return "VX_COPIED(self->%s)" % e
    raise LiftError("fwd: constructor argument %r is neither a member nor std::move(member)" % e)


_ARGS = r"((?:[^()]|\([^()]*\))*)"
_HEAP_NEW = Sub(r"\bnew\s+(\w+_impl)\s*\(" + _ARGS + r"\)", lambda m: "impl_new(vx_ts(%s))" % _cat(m.group(2)), None)
_PLACEMENT_NEW = Sub(r"\bnew\s*\((\w+)\)\s*(\w+_impl)\s*\(" + _ARGS + r"\)",
                     lambda m: "impl_placement_new(%s, %s)" % (m.group(1), _cat(m.group(3))), None)
_IMPL_CTOR_RULES = [_RVAL_PARAM, FWD, _MEMBER_INIT, Sub(r"\bthis\b", "self", None)]

_IMPL = {   # per storage Base: the Impl class stored in it
    "unique": ("unique_any_sender_impl", "unique_any_sender", 0),
    "any": ("any_sender_impl", "any_sender", 1),
}


def _impl_ctor(base):
    return CtorLift(ANY, r"explicit %s\(Sender_&& sender\)" % _IMPL[base][0], rules=_IMPL_CTOR_RULES)


def _wrap_rules(ret="", conv="{0}", rval="vx_as_rvalue"):
    return [
        DropStmt(r"\bstatic_assert", None),
        # `if constexpr (.. std::is_same_v<std::decay_t<Sender>, cls> ..)`: which arm is instantiated depends on the argument type
        Sub(r"\bif\s+constexpr\s*\(", "if (", None),
        Sub(r"\bstd::is_same_v<\s*std::decay_t<Sender>\s*,\s*(\w+)\s*>", r"VX_SENDER_IS(\1, sender)", None),
        _rval(rval), FWD,
        Sub(r"\bthis->storage\b", "storage", None),
        Sub(r"\*this\s*=\s*([^;]+);", r"{ vx_wrapper_assign(self, \1); if (vx_exc) return %s; }" % ret, None),
        Members(["storage"], optional=["storage"]),
        Call(r"\bself->storage\.template store<impl_type<Sender>>", "{ sbo_store(&self->storage, vx_ts(%s)); if (vx_exc) return %s; }" % (conv, ret), None, stmt=True),
        Sub(r"\*this\b", "self", None),
    ]


def _lifts_for(base, text, extra):
    lifts, defs = storage_lifts(base)
    lifts = dict(lifts)
    if base == "any":
        lifts["copy_ctor"] = Lift(ANY, r"(?<![=\w~])copyable_sbo_storage\(copyable_sbo_storage const& other\)", ctor=True, rules=sbo_rules())
        lifts["op_copy"] = Lift(ANY, r"copyable_sbo_storage& operator=\(copyable_sbo_storage const& other\)", rules=sbo_rules("self"))
        # any_sender_impl::clone() with the REAL constructor behind `new` (spec.py's version passes the bare payload to a stub)
        lifts["vimpl_clone"] = Lift(ANY, r"any_sender_base<Ts\.\.\.>\* clone\(\) const override", expect=2, which=1, rules=[
            _HEAP_NEW, Sub(r"\bconst_cast<[^<>]*(?:<[^<>]*>)?[^<>]*>\s*\(", "(struct base *)(", None), Sub(r"\bthis\b", "self", None)])
    lifts["impl_ctor"] = _impl_ctor(base)
    lifts.update(extra)
    used = set(_re.findall(r"^[ \t]*//@LIFT[ \t]+(\w+)[ \t]*$", text, flags=_re.M))
    missing = [k for k in extra if k not in used]
    if missing:
        raise LiftError("fwd: template has no //@LIFT marker for %s" % missing)
    return {k: v for k, v in lifts.items() if k in used}, list(defs)


def _unit(base, name, group, define, enforce, extra, what, min_ob=40, **kw):
    uname = "fwd.%s.%s" % (base, name)
    _, defs0, _ = BASES[base]
    defs = list(defs0) + ["VX_CUSTOM_IMPL_CTOR", define] + ([group] if group else [])
    tpl, text = _fwd_template(["fwd_pre.c", "sbo_core.c", "fwd_units.c"], defs, uname)
    lifts, _ = _lifts_for(base, text, extra)
    FWD_UNITS.append(Unit(uname, tpl, defines=defs, enforce=enforce, lifts=lifts, funcs=["%s: %s" % (ANY, what)], min_obligations=min_ob, **kw))


for _b in ("unique", "any"):
    _impl, _cls, _k = _IMPL[_b]
    _unit(_b, "impl_ctor", None, "U_IMPL_CTOR", "impl_ctor", {}, "%s::%s(Sender_&&)" % (_impl, _impl), min_ob=5)
    _unit(_b, "impl_move_into", "G_RELOCATE", "U_MOVE_INTO", "impl_move_into", {
        "move_into": Lift(ANY, r"void move_into\(void\* p\) override", expect=2, which=_k, rules=[_PLACEMENT_NEW, _HEAP_NEW])},
        "%s::move_into(void*), %s constructor (SBO configuration only: not called in the shipped one)" % (_impl, _impl))
    _unit(_b, "wrap_ctor", None, "U_WRAP_CTOR", "as_from_sender_ctor", {
        "wrap_ctor": Lift(ANY, r"(?<![\w])%s\(Sender&& sender\)" % _cls, rules=_wrap_rules())},
        "%s::%s(Sender&&), movable_sbo_storage::store<Impl>, %s constructor" % (_cls, _cls, _impl))
    _unit(_b, "wrap_assign", None, "U_WRAP_ASSIGN", "as_from_sender_assign", {
        "wrap_assign": Lift(ANY, r"(?<![\w])%s& operator=\(Sender&& sender\)" % _cls, rules=_wrap_rules("self"))},
        "%s::operator=(Sender&&), movable_sbo_storage::store<Impl>/release, %s constructor" % (_cls, _impl))
    _unit(_b, "reset_sender", None, "U_RESET_SENDER", "as_reset_sender", {
        "reset_sender": Lift(ANY, r"void reset\(Sender&& sender\)", expect=2, which=_k, rules=_wrap_rules(conv="({0}).sender", rval="vx_arg_as_rvalue"))},
        "%s::reset(Sender&&) (both if-constexpr arms), storage operator=(&&)%s, store<Impl>, %s constructor" % (
            _cls, "/operator=(const&)/clone" if _b == "any" else "", _impl))
_unit("any", "impl_clone_into", "G_RELOCATE", "U_CLONE_INTO", "impl_clone_into", {
    "clone_into": Lift(ANY, r"void clone_into\(void\* p\) const override", rules=[_PLACEMENT_NEW, _HEAP_NEW])},
    "any_sender_impl::clone_into(void*), any_sender_impl constructor (SBO configuration only: not called in the shipped one)")
_unit("any", "impl_clone", None, "U_CLONE", "impl_clone_real", {}, "any_sender_impl::clone(), any_sender_impl constructor")
_unit("any", "copy_full", None, "U_COPY_FULL", "sbo_copy_ctor", {},
      "any_sender(any_sender const&) = copyable_sbo_storage(copyable_sbo_storage const&), copy_assign, any_sender_impl::clone, any_sender_impl constructor")

# ---- factories ----
_USING = Sub(r"\busing\s+\w+\s*=[^;]*;", "", None)   # alias declarations (types only)
_MAKE = {
    "make_impl": Lift(ANY, r"auto make_any_sender_impl\(Sender&& sender\)", rules=[
        DropStmt(r"\bstatic_assert", None), _USING, _RVAL_PARAM, FWD, Sub(r"\bany_sender_type\(", "wrapper_ctor(AnySender, ", None)]),
}
_MAKE_CALL = Sub(r"\bdetail::make_any_sender_impl<(\w+)>\(", r"make_any_sender_impl(VX_CLS_\1, ", None)
for _nm, _def in (("make_unique_any_sender", "U_MAKE_UNIQUE"), ("make_any_sender", "U_MAKE_ANY")):
    _key = "make_unique" if _def == "U_MAKE_UNIQUE" else "make_any"
    _unit("unique" if _def == "U_MAKE_UNIQUE" else "any", _nm, "G_MAKE", _def, _nm, dict(_MAKE, **{
        _key: Lift(ANY, r"auto %s\(Sender&& sender\)" % _nm, rules=[_RVAL_PARAM, FWD, _MAKE_CALL])}),
        "%s(Sender&&), detail::make_any_sender_impl<AnySender>(Sender&&)" % _nm, min_ob=5)


# ---- stand-alone small units (fwd_misc.c) ----
class _ActiveVariant(Lift):
    """a function that is defined once per arm of a file-level #if/#else/#endif: the fragment from the #if to the #endif is
    resolved with the build's defines and the definition that survives is sliced out (header dropped, body kept)."""

    def __init__(self, src, start, end, header, rules=()):
        Lift.__init__(self, src, start, rules=rules, fragment_end=end)
        self.header = header

    def run(self):
        from vx import lift as L
        frag, line, _ = L.locate_fragment(self.src, self.locate, self.fragment_end)
        act = L.resolve_pp(frag)
        ms = list(_re.finditer(self.header, act))
        if len(ms) != 1:
            raise LiftError("ActiveVariant: /%s/ defined %d times in the active arm" % (self.header, len(ms)))
        op = act.index("{", ms[0].end())
        body = act[op:L.match_close(act, op, "{", "}") + 1]
        line += act.count("\n", 0, op)
        raw = body
        body = L.apply_rules(body, self.rules)
        body = L.apply_rules(body, L.GENERIC_RULES)
        return {"text": body, "line": line, "file": self.src, "raw": raw, "nloops": 0, "header": ms[0].group(0)}


def _local_object(m):   # `[static] empty_vtable_t<T> x;` -> a C object + the C++ initialisation semantics of its storage class
    return "%sstruct base %s; %s(&%s);" % (m.group(1) or "", m.group(2), "vx_function_static_init" if m.group(1) else "vx_automatic_init", m.group(2))


_GET_EMPTY_VTABLE = _ActiveVariant(
    ANY, r"#if defined\(PIKA_HAVE_CXX20_TRIVIAL_VIRTUAL_DESTRUCTOR\) &&", r"#endif", r"\bT const\*\s*get_empty_vtable\(\)",
    rules=[DropStmt(r"\bstatic_assert", None), Sub(r"\b(static\s+)?empty_vtable_t<T>\s+(\w+)\s*;", _local_object, None)])
_EMPTY_OF = {  # the virtual empty() of (Base, empty_vtable_t<Base>) as spec.py's BASES table has them
    b: {"vbase_empty": BASES[b][0]["vbase_empty"], "vempty_empty": BASES[b][0]["vempty_empty"]} for b in ("opstate", "unique", "any")}


def _misc(name, group, define, enforce, lifts, what, min_ob=3):
    uname = "fwd." + name
    defs = [group, define]
    tpl, text = _fwd_template(["fwd_misc.c"], defs, uname)
    FWD_UNITS.append(Unit(uname, tpl, defines=defs, enforce=enforce, lifts=lifts, funcs=["%s: %s" % (ANY, what)], min_obligations=min_ob))


for _b in ("opstate", "unique", "any"):
    _misc("vtable.get_empty_vtable." + _b, "G_VTABLE", "U_GET_EMPTY_VTABLE", "get_empty_vtable_real",
          dict(_EMPTY_OF[_b], get_empty_vtable=_GET_EMPTY_VTABLE),
          "pika::detail::get_empty_vtable<%s>(), empty_vtable_t<..>::empty" % BASES[_b][2].split("<")[1].split(",")[0])
_misc("vtable.static_helper", "G_VTABLE", "U_STATIC_HELPER", "static_helper_ctor",
      dict(_EMPTY_OF["opstate"], get_empty_vtable=_GET_EMPTY_VTABLE, static_helper=Lift(
          ANY, r"any_sender_static_empty_vtable_helper\(\)", rules=[
              Sub(r"\bpika::detail::get_empty_vtable<(\w+)(?:<[^<>]*>)?>\(\)", r"vx_get_empty_vtable(VX_T_\1)", None)])),
      "any_sender_static_empty_vtable_helper::any_sender_static_empty_vtable_helper(), get_empty_vtable<any_operation_state_holder_base>()")
_misc("sbo.placement", "G_PLACEMENT", "U_PLACEMENT", "sbo_using_embedded_storage", {
    "can_use_embedded": Lift(ANY, r"static constexpr bool can_use_embedded_storage\(\)"),
    "using_embedded": Lift(ANY, r"bool using_embedded_storage\(\) const noexcept", rules=[Members(["object"], optional=["object"])])},
    "movable_sbo_storage::can_use_embedded_storage<Impl>(), using_embedded_storage()")


def _sig(args, env):
    return "ref_%s(%s)" % (env["h2"], ", ".join([env["h1"]] + [a for a in args if a]))


_misc("receiver.get_env", "G_ENV", "U_GET_ENV", "rcv_get_env", {
    "get_env": Lift(ANY, r"empty_env get_env\(\) const& noexcept", rules=[
        Sub(r"\breturn\s*\{\s*\}\s*;", "return vx_empty_env();", None),
        Call(r"([\w.]+)->(set_value|set_error|set_stopped)", _sig, None),
        Members(["receiver"], optional=["receiver"])])},
    "any_receiver<Ts...>::get_env()")

# ---- end-to-end unit: connect -> start -> completion -> destruction over the lifted bodies of ALL layers ------------------------
import copy as _copy


def _bound(lift, prefix):
    """the same lift, with its calls of storage member functions bound to the storage instantiation `prefix`"""
    l = _copy.copy(lift)
    l.post = list(lift.post) + [Sub(r"(?<![\w>.])(sbo_\w+|base_empty|get_empty_vtable)(?=\s*\()", prefix + r"\1", None)]
    return l


def _pipe_template(uname):
    core = open(_os.path.join(_HERE, "fwd_core_tpl.c")).read()
    text = open(_os.path.join(_HERE, "fwd_pipe_pre.c")).read()
    text += core.replace("@P@", "snd_").replace("@K@", "SND") + core.replace("@P@", "ops_").replace("@K@", "OPS")
    text += open(_os.path.join(_HERE, "fwd_pipe.c")).read()
    text = "/* GENERATED from specs/C18/fwd_pipe_pre.c + 2 x fwd_core_tpl.c + fwd_pipe.c by fwd_spec.py -- do not edit */\n" + text
    path = _os.path.join(_HERE, "gen", uname + ".c")
    _os.makedirs(_os.path.dirname(path), exist_ok=True)
    if not _os.path.exists(path) or open(path).read() != text:
        tmp = path + ".%d.tmp" % _os.getpid()
        with open(tmp, "w") as f:
            f.write(text)
        _os.replace(tmp, path)
    return _os.path.join("..", "C18", "gen", uname + ".c")


_CORE_KEYS = ["vbase_empty", "vempty_empty", "init_heap_storage", "init_object", "get_c", "get", "reset_vtable", "move_assign", "empty", "release", "dtor"]


def _pipeline(base):
    """every lift is THE lift object of the corresponding per-layer unit of spec.py (same locator, same rules)"""
    def of(unit, key):
        return _BASE_UNITS[unit].lifts[key]

    snd, _ = storage_lifts(base)
    ops, _ = storage_lifts("opstate")
    lifts = {}
    for k in _CORE_KEYS + ["move_ctor"]:
        lifts["snd_" + k] = _bound(snd[k], "snd_")
    for k in _CORE_KEYS + ["store"]:
        lifts["ops_" + k] = _bound(ops[k], "ops_")
    lifts["errors"] = snd["errors"]
    lifts["throw_bad_any_call"] = snd["throw_bad_any_call"]
    lifts["connect_rvalue"] = _bound(of("any.%s.connect_rvalue" % base, "connect_rvalue"), "snd_")
    for k in ("aos_ctor", "any_receiver_ref_base_ctor", "any_receiver_ref_ctor", "any_receiver_ctor", "vempty_connect_rvalue", "vimpl_connect_rvalue"):
        lifts[k] = of("any.%s.opstate_ctor" % base, k)
    if base == "any":
        lifts["connect_lvalue"] = _bound(of("any.any.connect_lvalue", "connect_lvalue"), "snd_")
        for k in ("vempty_connect_lvalue", "vimpl_connect_lvalue"):
            lifts[k] = of("any.any.opstate_ctor", k)
    lifts["holder_ctor"] = _bound(of("any.opstate.holder_ctor", "holder_ctor"), "ops_")
    lifts["holder_impl_ctor"] = of("any.opstate.holder_ctor", "holder_impl_ctor")
    lifts["holder_start"] = _bound(of("any.opstate.aos_start", "holder_start"), "ops_")
    for k in ("vempty_start", "vimpl_start", "aos_start"):
        lifts[k] = of("any.opstate.aos_start", k)
    for ch in ("value", "error", "stopped"):
        lifts["ref_set_" + ch] = of("any.opstate.receiver.set_value", "ref_set_" + ch)
        lifts["rcv_set_" + ch] = of("any.opstate.receiver.set_" + ch, "rcv_set_" + ch)
    uname = "fwd.pipeline." + base
    cls = _IMPL[base][1]
    FWD_UNITS.append(Unit(
        uname, _pipe_template(uname), defines=["VX_CUSTOM_IMPL_CTOR"] + (["HAS_COPY"] if base == "any" else []), enforce=None, lifts=lifts,
        min_obligations=60, kind="proof",
        funcs=["%s: end-to-end client program connect(%s) -> start -> completion -> destruction over the lifted bodies of "
               "%s::connect, movable_sbo_storage (move ctor, dtor, store, release, empty, get), any_operation_state ctor/start, "
               "any_receiver_ref/any_receiver ctors and set_value/set_error/set_stopped, %s_impl::connect, empty_%s::connect, "
               "any_operation_state_holder ctor/start, any_operation_state_holder_impl ctor/start" % (ANY, "&&" if base == "unique" else "&& | const&", cls, cls, cls),
               "%s: throw_bad_any_call, any_operation_state_holder::start, empty_any_operation_state_holder_state" % ANYCPP],
        doc="loop-free scenario: complete for all inputs; the only stubs are the user's sender / operation state / receiver"))


_pipeline("unique")
_pipeline("any")

# ---- census: the special members that have no body to lift --------------------------------------------------------------
_A = [ANY]


def _site(name, pattern, n=1, note=""):
    return _census.sites("fwd." + name, _A, pattern, n, note)


FWD_STATIC = [
    # any_operation_state / any_operation_state_holder are immovable (all four copy/move members deleted) and have defaulted
    # destructors: the contained operation state is destroyed by ~movable_sbo_storage (unit sbo.opstate.dtor), exactly once
    _site("immovable.any_operation_state", r"\bany_operation_state(?:& operator=)?\(any_operation_state(?:&&| const&)\) = delete;", 4),
    _site("immovable.any_operation_state_holder", r"\bany_operation_state_holder(?:& operator=)?\(any_operation_state_holder(?:&&| const&)\) = delete;", 4),
    _site("defaulted_dtor.any_operation_state", r"~any_operation_state\(\) noexcept = default;", 1),
    _site("defaulted_dtor.any_operation_state_holder", r"~any_operation_state_holder\(\) noexcept = default;", 1),
    # the wrappers: one data member `storage`; special members defaulted (member-wise = the lifted storage operators) or deleted
    _site("single_member.storage", r"\bstorage_type storage\{\};", 3, "holder, unique_any_sender, any_sender"),
    _site("unique_any_sender.move_defaulted", r"\bunique_any_sender(?:& operator=)?\(unique_any_sender&&\) = default;", 2),
    _site("unique_any_sender.copy_deleted", r"\bunique_any_sender(?:& operator=)?\(unique_any_sender const&\) = delete;", 2),
    _site("any_sender.copy_move_defaulted", r"\bany_sender(?:& operator=)?\(any_sender(?:&&| const&)\) = default;", 4),
    _site("copyable_sbo_storage.move_defaulted", r"\bcopyable_sbo_storage(?:& operator=)?\(copyable_sbo_storage&&\) = default;", 2),
    _site("movable_sbo_storage.copy_deleted", r"\bmovable_sbo_storage(?:& operator=)?\(movable_sbo_storage const&\) = delete;", 2),
    # a moved-from any_receiver keeps its pointer (defaulted move of a raw pointer member): `auto r = std::move(*this)` is a copy
    _site("any_receiver.move_defaulted", r"\bany_receiver(?:& operator=)?\(any_receiver&&\) noexcept = default;", 2),
    # which class is the empty vtable of which Base (spec.py's BASES table pairs their empty() bodies by position)
    _site("empty_vtable_of.any_operation_state_holder_base",
          r"empty_vtable_type<pika::execution::experimental::detail::any_operation_state_holder_base>\s*\{\s*using type = pika::execution::experimental::detail::empty_any_operation_state_holder_state;", 1),
    _site("empty_vtable_of.unique_any_sender_base",
          r"empty_vtable_type<pika::execution::experimental::detail::unique_any_sender_base<Ts\.\.\.>>\s*\{\s*using type = pika::execution::experimental::detail::empty_unique_any_sender<Ts\.\.\.>;", 1),
    _site("empty_vtable_of.any_sender_base",
          r"empty_vtable_type<pika::execution::experimental::detail::any_sender_base<Ts\.\.\.>>\s*\{\s*using type = pika::execution::experimental::detail::empty_any_sender<Ts\.\.\.>;", 1),
]

FWD_META = {
    "trusted_base": [
        "specs/C18/fwd_units.c vx_sender_construct / VX_MEMBER_INIT: the copy/move constructor of the wrapped sender type (opaque "
        "T-stub: counts, records source token + value category + location, may throw); vx_as_rvalue / VX_MOVED / VX_COPIED: value "
        "category of an argument expression (std::forward keeps it, std::move forces rvalue) chosen by purely textual rules",
        "specs/C18/fwd_units.c impl_placement_new: `new (p) Impl(args)` = run the (lifted) Impl constructor on raw storage p",
        "specs/C18/fwd_units.c vx_wrapper_assign + VX_SENDER_IS: `*this = std::forward<Sender>(sender)` with Sender = the wrapper class "
        "is its DEFAULTED move/copy assignment = member-wise assignment of the one data member `storage` (census facts fwd.*defaulted, "
        "fwd.single_member.storage); the storage operators called are lifted bodies; std::is_same_v<decay_t<Sender>, cls> is an input "
        "bit of the argument",
        "specs/C18/fwd_units.c wrapper_ctor: T-stub for AnySender<Ts...>(Sender&&) inside make_any_sender_impl (its own contract: "
        "fwd.*.wrap_ctor)",
        "specs/C18/fwd_misc.c vx_function_static_init / vx_automatic_init: initialisation semantics of a block-scope static "
        "(once, on first pass) vs. an automatic object; vt_empty: virtual dispatch of empty() written by hand over lifted bodies",
        "specs/C18/fwd_pipe.c (end-to-end units fwd.pipeline.*): wrapped_connect / wrapped_start / real_set_* = the user's sender, "
        "operation state and receiver (call-trace ghosts; the operation state completes synchronously inside start() through the "
        "any_receiver it was connected with, on an input-chosen channel with an input-chosen payload; the user's connect throws iff an "
        "input bit says so); aos_make = `return {sender, receiver}` constructs the any_operation_state in place; holder_ctor's "
        "`if (vx_exc) ops_sbo_dtor(..)` = members of a throwing constructor are destroyed; the two closing *_sbo_dtor calls of the "
        "harness = the defaulted destructors of any_operation_state(_holder) and of the wrapper (census facts fwd.defaulted_dtor.*); "
        "base_connect / base_start / *_base_empty = virtual dispatch by hand over lifted bodies; fwd_core_tpl.c is instantiated twice "
        "(snd_: Base = [unique_]any_sender_base, ops_: Base = any_operation_state_holder_base), _bound() renames the storage calls of a "
        "lifted body to its instantiation",
        "specs/C18/fwd_spec.py helper rules _ActiveVariant (definition in the active arm of a file-level #if), _cat/_HEAP_NEW/"
        "_PLACEMENT_NEW (new-expressions), _local_object, _fwd_template (per-unit template with one //@FUNC marker)",
        "no VX_ASSUME anywhere in the fwd files",
    ],
    "assumptions": [
        "configuration: PIKA_HAVE_CXX20_TRIVIAL_VIRTUAL_DESTRUCTOR off (shipped): get_empty_vtable<T>() is the function-local-static "
        "variant and any_sender_static_empty_vtable_helper exists; the constexpr-variable variant is not verified",
        "sender payloads are tokens; VX_MOVED_FROM (-1) is the token of a moved-from sender object and is excluded as an input",
        "fwd.pipeline.*: the program starts from a wrapper in its representation invariant (empty, or owning one live Impl with "
        "payload S: exactly the postcondition of fwd.*.wrap_ctor / sbo.*), runs ONE connect + start + destruction; completion inside "
        "start(); at most one allocation (the operation state holder's Impl)",
    ],
    "not_decided": [
        "move_into / clone_into are proved as stand-alone functions only: their callers exist only under PIKA_DETAIL_ENABLE_ANY_SENDER_SBO "
        "(not shipped, not verified); reading note: in that configuration move_assign() relocates with move_into and then only "
        "reset_vtable()s the source, so the moved-from Impl in the source's embedded buffer is never destroyed",
        "static destruction order of the function-local empty vtable objects (the reason any_sender_static_empty_vtable_helper exists)",
        "fwd.pipeline.*: operation states that complete later / on another thread, several connects of one any_sender in one run, "
        "a second start() (precondition violation of the sender/receiver protocol)",
        "make_any_sender_impl's compile-time selection of Ts... from the sender's value_types (type computation)",
    ],
}
