/* C18 -- world model for pika::detail::movable_sbo_storage / copyable_sbo_storage (any_sender.hpp), shipped
 * configuration (PIKA_DETAIL_ENABLE_ANY_SENDER_SBO off: heap storage only; the lifter resolves the #if).
 *
 * The stored object is an instance of a class derived from Base with virtual functions.  A C `struct base` stands for
 * such an object: vx_kind is its dynamic type ("which vtable"): VX_EMPTY_VT = empty_vtable_t<Base> (the one static
 * object get_empty_vtable<Base>() points to), VX_IMPL = any Impl stored by store<Impl>().  vx_live is the C++ lifetime
 * (constructed and not yet destroyed), `sender` an opaque token for the wrapped sender / operation state (the data
 * member of the same name of unique_any_sender_impl / any_sender_impl).
 *
 * Universe: g_empty_obj; g_pool[0], g_pool[1] heap objects that may exist before the operation (owned by the storages
 * taking part in the operation or by nobody we know); g_pool[2] the object the (at most one) allocation of the
 * operation returns.  Ledger: g_live = constructions - destructions of contained objects.
 */
#ifndef C18_SBO_H
#define C18_SBO_H
#include "vx.h"

#define VX_EMPTY_VT 1
#define VX_IMPL 2
#define VX_BIG 1000000000L
struct base { int vx_kind; bool vx_live; union { int sender; int operation_state; }; };
struct sbo { struct base *heap_storage; struct base *object; };

static struct base g_empty_obj;
static struct base g_pool[3];
static long g_live;    /* ledger: number of live contained objects in the whole program */
static bool g_newed;   /* the operation has allocated its object */
static bool vx_exc;    /* an exception (thrown by the constructor of a contained object) is in flight */
static long g_foreign0; /* ghost snapshot: live objects not owned by the participating storages, before the operation */
static int g_virtual_calls; /* ghost: virtual calls made through `object` (T-stub counter, saturating) */

#define IN_POOL(p) ((p) == &g_pool[0] || (p) == &g_pool[1] || (p) == &g_pool[2])
#define EMPTY_REP(s) ((s)->heap_storage == NULL && (s)->object == &g_empty_obj)
#define FULL_REP(s) (IN_POOL((s)->heap_storage) && (s)->object == (s)->heap_storage && (s)->heap_storage->vx_live && \
                     (s)->heap_storage->vx_kind == VX_IMPL)
/* representation invariant (DESIGN C18): empty <=> heap_storage == NULL and object == the empty vtable;
 * non-empty => object == heap_storage is one live contained object */
#define WF(s) (EMPTY_REP(s) || FULL_REP(s))
#define OWNS(s) (EMPTY_REP(s) ? 0 : 1)
/* two different storages never own the same object */
#define DISJOINT(a, b) ((a) == (b) || EMPTY_REP(a) || EMPTY_REP(b) || (a)->heap_storage != (b)->heap_storage)
/* live objects NOT owned by the storages taking part in the operation: must never change (no leak, nothing foreign destroyed) */
#define FOREIGN1(a) (g_live - OWNS(a))
#define FOREIGN2(a, b) (g_live - OWNS(a) - ((b) != (a) ? OWNS(b) : 0))
#define WORLD_OK (g_empty_obj.vx_kind == VX_EMPTY_VT && g_pool[0].vx_kind == VX_IMPL && g_pool[1].vx_kind == VX_IMPL && \
                  !g_pool[2].vx_live && !g_newed && !vx_exc && g_live >= 2 && g_live <= VX_BIG)
#define POOL_FRAME g_pool[0].vx_live, g_pool[1].vx_live, g_pool[2], g_live, g_newed, vx_exc, g_virtual_calls

/* ---- environment: the C++ run time and the contained type (trusted; listed in META) ---- */
/* get_empty_vtable<Base>(): address of the one static empty_vtable_t<Base> object */
static struct base *get_empty_vtable(void) { return &g_empty_obj; }

/* a virtual call through a Base pointer needs a live object of dynamic type Base-or-derived (or the static empty object) */
static void vx_virtual_call(const struct base *b)
{
  VX_ASSERT(b == &g_empty_obj || IN_POOL(b), "virtual call through a pointer that is neither the empty vtable nor a contained object");
  VX_ASSERT(b == &g_empty_obj || b->vx_live, "virtual call on a destroyed contained object");
  if (g_virtual_calls < 8) g_virtual_calls++;
}

/* `delete p` (p of type Base*, virtual destructor) */
static void base_delete(struct base *p)
{
  if (p == NULL) return;
  VX_ASSERT(IN_POOL(p), "delete of a pointer that is not a heap-allocated contained object");
  VX_ASSERT(p->vx_live, "contained object destroyed twice");
  p->vx_live = false;
  g_live--;
}

/* what `new Impl(ts...)` passes to Impl's constructor, and that constructor (default: Impl stores the sender; it may throw) */
#ifndef VX_CUSTOM_IMPL_CTOR
#define VX_TS_T int
static void vx_impl_ctor(struct base *obj, VX_TS_T ts)
{
  if (nondet_bool()) vx_exc = true; else obj->sender = ts;
}
#else
/* Impl = any_operation_state_holder_impl<Sender, Ts...>: constructed from (sender, receiver); its real constructor is
 * lifted in any_units.c */
struct any_receiver_ref { void *receiver; };                 /* any_receiver_ref<Receiver, Ts...> : any_receiver_ref_base<Ts...> */
struct any_receiver { struct any_receiver_ref *receiver; };  /* any_receiver<Ts...> */
struct sender_arg { int token; bool moved; };                /* a wrapped sender passed on: moved (rvalue) or copied (lvalue) */
struct conn_args { struct sender_arg sender; struct any_receiver receiver; };
#define VX_TS_T struct conn_args
static void vx_impl_ctor(struct base *obj, VX_TS_T ts);
#endif
/* new-expression: allocate, run the constructor; if it throws the storage is given back and nothing was constructed */
static struct base *vx_alloc(VX_TS_T ts)
{
  VX_ASSERT(!g_newed, "ledger universe: at most one allocation per operation");
  g_newed = true;
  g_pool[2].vx_kind = VX_IMPL;
  vx_impl_ctor(&g_pool[2], ts);
  if (vx_exc) return NULL;
  g_pool[2].vx_live = true;
  g_live++;
  return &g_pool[2];
}
/* `new Impl(std::forward<Ts>(ts)...)` */
static struct base *impl_new(VX_TS_T ts) { return vx_alloc(ts); }
#endif
