/* GENERATED from specs/C18/sbo_core.c + any_units.c by spec.py -- do not edit */
/* C18 unit group 1 -- movable_sbo_storage<Base,..> / copyable_sbo_storage<Base,..>: I-contracts (representation
 * invariant WF + ledger of live contained objects + full frame) for every public operation.
 * All function bodies below come from the lifter; the helpers (empty/get/release/reset_vtable/move_assign/copy_assign)
 * are used as lifted BODIES by the operation under contract (no callee contract in between).
 * A C++ reference parameter `T& other` is the C pointer `other`; `*this` is `self`. */
#include "sbo.h"

/* ---- the virtual functions of Base that the storage calls: real bodies, dispatch on the dynamic type by hand ---- */
static bool impl_empty(const struct base *self)      /* Base::empty() (inherited by every Impl) */
//@LIFT vbase_empty
static bool emptyvt_empty(const struct base *self)   /* empty_vtable_t<Base>::empty() */
//@LIFT vempty_empty
static bool base_empty(const struct base *b)
{
  vx_virtual_call(b);
  return b->vx_kind == VX_EMPTY_VT ? emptyvt_empty(b) : impl_empty(b);
}
#ifdef HAS_COPY
static struct base *impl_clone(const struct base *self)     /* any_sender_impl<Sender, Ts...>::clone() */
//@LIFT vimpl_clone
static struct base *emptyvt_clone(const struct base *self)  /* empty_any_sender<Ts...>::clone() */
//@LIFT vempty_clone
static struct base *base_clone(const struct base *b)
{
  vx_virtual_call(b);
  return b->vx_kind == VX_EMPTY_VT ? emptyvt_clone(b) : impl_clone(b);
}
#endif

/* ---- default member initialisers (run by every constructor before its body) ---- */
static void sbo_nsdmi(struct sbo *self)
{
//@LIFT init_heap_storage
//@LIFT init_object
}

/* ---- protected/private helpers ---- */
static bool sbo_empty(const struct sbo *self);
static void sbo_release(struct sbo *self);
static const struct base *sbo_get_c(const struct sbo *self)
//@LIFT get_c
static struct base *sbo_get(struct sbo *self)
//@LIFT get
static void sbo_reset_vtable(struct sbo *self)
//@LIFT reset_vtable
static void sbo_move_assign(struct sbo *self, struct sbo *other)
//@LIFT move_assign
#ifdef HAS_MOVE_FROM_COPYABLE
static void sbo_move_assign_c(struct sbo *self, struct sbo *other)
//@LIFT move_assign_c
#endif
#ifdef HAS_COPY
static void sbo_copy_assign(struct sbo *self, const struct sbo *other)
//@LIFT copy_assign
#endif

#ifndef U_EMPTY
static bool sbo_empty(const struct sbo *self)
//@LIFT empty
#endif
#ifndef U_RELEASE
static void sbo_release(struct sbo *self)
//@LIFT release
#endif


/* ===================================================================================================================
 * C18 unit group 3 -- unique_any_sender / any_sender / any_receiver / any_operation_state (any_sender.hpp, any_sender.cpp)
 * T-contracts: what is forwarded where, exactly once, on which channel; I-contracts where a wrapper changes its storage.
 * This file follows sbo_core.c (the storage helpers, lifted) in the generated per-unit template.
 * =================================================================================================================== */

/* ---- the storage operations as plain lifted bodies (their own contracts are the sbo.* units) ---- */
static void sbo_store(struct sbo *self, VX_TS_T ts)
//@LIFT store
static void sbo_reset(struct sbo *self)
//@LIFT reset
static void sbo_dtor(struct sbo *self)
//@LIFT dtor
static void sbo_move_ctor(struct sbo *self, struct sbo *other)
{
  sbo_nsdmi(self);
//@LIFT move_ctor
}
static struct sbo *sbo_op_move(struct sbo *self, struct sbo *other)
//@LIFT op_move
#ifdef HAS_MOVE_FROM_COPYABLE
static void sbo_move_ctor_c(struct sbo *self, struct sbo *other)
{
  sbo_nsdmi(self);
//@LIFT move_ctor_c
}
static struct sbo *sbo_op_move_c(struct sbo *self, struct sbo *other)
//@LIFT op_move_c
#endif

/* ---- C shapes of the wrapper types ---- */
struct any_sender_w { struct sbo storage; };                 /* unique_any_sender<Ts...> / any_sender<Ts...>: one member `storage` */
struct real_receiver { int id; };                            /* the user's receiver (opaque) */
#ifndef VX_CUSTOM_IMPL_CTOR
struct any_receiver_ref { void *receiver; };                 /* any_receiver_ref<Receiver, Ts...> : any_receiver_ref_base<Ts...> */
struct any_receiver { struct any_receiver_ref *receiver; };  /* any_receiver<Ts...> */
struct sender_arg { int token; bool moved; };                /* a wrapped sender passed on: moved (rvalue) or copied (lvalue) */
#endif
struct holder { struct sbo storage; };                       /* any_operation_state_holder */
struct aos { struct real_receiver receiver; struct any_receiver_ref receiver_ref; struct holder op_state; }; /* any_operation_state */
struct sender_ref { struct base *p; bool rvalue; };          /* a Base reference together with its value category */
static struct sender_ref vx_sref(const struct base *p, bool rvalue) { struct sender_ref s; s.p = (struct base *) p; s.rvalue = rvalue; return s; }
#define VX_RVALUE(p) vx_sref((p), true)
#define VX_LVALUE(p) vx_sref((p), false)
#define VX_MOVED_FROM (-1)
static struct sender_arg vx_moved(int *x) { struct sender_arg a; a.token = *x; a.moved = true; *x = VX_MOVED_FROM; return a; }
static struct sender_arg vx_copied(const int *x) { struct sender_arg a; a.token = *x; a.moved = false; return a; }
#define VX_MOVED(x) vx_moved(&(x))
#define VX_COPIED(x) vx_copied(&(x))
static struct real_receiver g_rcv;      /* harness objects the receiver contracts talk about */
static struct any_receiver_ref g_ref;
static int g_pay_sender0;               /* ghost snapshot: the stored sender before the operation */

/* ---- the defined error ---- */
//@LIFT errors
static int g_thrown;   /* error code of the exception in flight (0: none or a foreign exception) */
static void vx_throw_pika(int code) { vx_exc = true; g_thrown = code; }
static void throw_bad_any_call(char const *class_name, char const *function_name)   /* any_sender.cpp */
//@LIFT throw_bad_any_call

/* ---- call-trace ghosts ---- */
static int g_aos_made; static struct base *g_aos_sender; static bool g_aos_rvalue; static int g_aos_receiver;
static int g_holders; static int g_h_sender; static bool g_h_moved; static struct any_receiver_ref *g_h_receiver; static struct holder *g_h_where;
static int g_starts; static const struct base *g_started;
static int g_sig_value, g_sig_error, g_sig_stopped; static int g_sig_payload; static struct real_receiver *g_sig_receiver;
#define TRACE_FRAME g_aos_made, g_aos_sender, g_aos_rvalue, g_aos_receiver, g_holders, g_h_sender, g_h_moved, g_h_receiver, g_h_where, \
                    g_starts, g_started, g_sig_value, g_sig_error, g_sig_stopped, g_sig_payload, g_sig_receiver, g_thrown
#define TRACE_ZERO (g_aos_made == 0 && g_holders == 0 && g_starts == 0 && g_sig_value == 0 && g_sig_error == 0 && g_sig_stopped == 0 && g_thrown == 0)
#define VALID_BASE(p) ((p) == &g_empty_obj || (IN_POOL(p) && (p)->vx_live && (p)->vx_kind == VX_IMPL))

#if defined(G_WRAPPER)
/* T-stub: detail::any_operation_state<Receiver, Ts...>{sender, receiver} (its own contract: unit any.*.opstate_ctor) */
static int aos_make(struct sender_ref s, struct real_receiver r)
{
  vx_virtual_call(s.p); /* the constructor calls connect() on it: must (still) be alive */
  if (g_aos_made < 2) g_aos_made++;
  g_aos_sender = s.p;
  g_aos_rvalue = s.rvalue;
  g_aos_receiver = r.id;
  if (nondet_bool()) vx_exc = true; /* it throws when s is the empty vtable, and may throw otherwise */
  return 0;
}
#ifndef U_AS_RESET
static void as_reset(struct any_sender_w *self)     /* [unique_]any_sender::reset() */
//@LIFT as_reset
#endif
#endif

#if defined(G_OPSTATE_CTOR)
/* T-stub: any_operation_state_holder{sender, receiver} constructed in place at `out` (its own contract: unit any.holder_ctor) */
static void holder_ctor(struct holder *out, struct sender_arg s, struct any_receiver r)
{
  if (g_holders < 2) g_holders++;
  g_h_where = out;
  g_h_sender = s.token;
  g_h_moved = s.moved;
  g_h_receiver = r.receiver;
  if (nondet_bool()) vx_exc = true; /* connecting the wrapped sender may throw */
}
static void any_receiver_ref_base_ctor(struct any_receiver_ref *self, struct real_receiver *receiver)
//@LIFT any_receiver_ref_base_ctor
static void any_receiver_ref_ctor(struct any_receiver_ref *self, struct real_receiver *receiver)
//@LIFT any_receiver_ref_ctor
static void any_receiver_ctor(struct any_receiver *self, struct any_receiver_ref *receiver)
//@LIFT any_receiver_ctor
static struct any_receiver any_receiver_make(struct any_receiver_ref *p) { struct any_receiver r; any_receiver_ctor(&r, p); return r; }

/* the virtual connect() of the Base types: real bodies, dispatch on dynamic type and ref-qualifier by hand */
static void emptyvt_connect_rvalue(struct holder *vx_out, struct base *self, struct any_receiver vx_unnamed)
//@LIFT vempty_connect_rvalue
static void impl_connect_rvalue(struct holder *vx_out, struct base *self, struct any_receiver receiver)
//@LIFT vimpl_connect_rvalue
#ifdef HAS_COPY
static void emptyvt_connect_lvalue(struct holder *vx_out, const struct base *self, struct any_receiver vx_unnamed)
//@LIFT vempty_connect_lvalue
static void impl_connect_lvalue(struct holder *vx_out, const struct base *self, struct any_receiver receiver)
//@LIFT vimpl_connect_lvalue
#endif
static void base_connect(struct holder *vx_out, struct sender_ref s, struct any_receiver receiver)
{
  vx_virtual_call(s.p);
  if (s.rvalue)
  {
    if (s.p->vx_kind == VX_EMPTY_VT) emptyvt_connect_rvalue(vx_out, s.p, receiver); else impl_connect_rvalue(vx_out, s.p, receiver);
  }
  else
  {
#ifdef HAS_COPY
    if (s.p->vx_kind == VX_EMPTY_VT) emptyvt_connect_lvalue(vx_out, s.p, receiver); else impl_connect_lvalue(vx_out, s.p, receiver);
#else
    VX_ASSERT(0, "unique_any_sender_base has no const& connect");
#endif
  }
}
#endif

#if defined(G_HOLDER)
/* T-stub: pika::execution::experimental::connect(wrapped sender, any_receiver) -> the wrapped operation state */
static int g_connects, g_conn_sender, g_conn_result; static bool g_conn_moved; static struct any_receiver_ref *g_conn_receiver;
static int wrapped_connect(struct sender_arg s, struct any_receiver r)
{
  if (g_connects < 2) g_connects++;
  g_conn_sender = s.token;
  g_conn_moved = s.moved;
  g_conn_receiver = r.receiver;
  if (nondet_bool()) { vx_exc = true; return VX_MOVED_FROM; } /* connecting the wrapped sender may throw */
  g_conn_result = nondet_int();
  if (g_conn_result == VX_MOVED_FROM) g_conn_result = 0;
  return g_conn_result;
}
static void holder_impl_ctor(struct base *self, struct sender_arg sender, struct any_receiver receiver)   /* any_operation_state_holder_impl(Sender_&&, any_receiver&&) */
//@LIFT holder_impl_ctor
static void vx_impl_ctor(struct base *obj, VX_TS_T ts) { holder_impl_ctor(obj, ts.sender, ts.receiver); }
static struct conn_args vx_pack(struct sender_arg s, struct any_receiver r) { struct conn_args a; a.sender = s; a.receiver = r; return a; }
#endif

#if defined(G_START)
/* T-stub: pika::execution::experimental::start(*operation_state) on the wrapped operation state */
static void wrapped_start(const struct base *impl)
{
  if (g_starts < 2) g_starts++;
  g_started = impl;
}
static bool opt_has_value(const struct base *impl) { return impl->sender != VX_MOVED_FROM; } /* std::optional<op state>::has_value(): engaged by the constructor */
static void emptyvt_start(struct base *self)   /* empty_any_operation_state_holder_state::start() */
//@LIFT vempty_start
static void impl_start(struct base *self)      /* any_operation_state_holder_impl<Sender, Ts...>::start() */
//@LIFT vimpl_start
static void base_start(struct base *b)
{
  vx_virtual_call(b);
  if (b->vx_kind == VX_EMPTY_VT) emptyvt_start(b); else impl_start(b);
}
#ifndef U_HOLDER_START
static void holder_start(struct holder *self)
//@LIFT holder_start
#endif
#endif

#if defined(G_RECEIVER)
/* T-stubs: the set_value / set_error / set_stopped customisation points applied to the user's receiver */
static void real_set_value(struct real_receiver *r, int ts) { if (g_sig_value < 2) g_sig_value++; g_sig_receiver = r; g_sig_payload = ts; }
static void real_set_error(struct real_receiver *r, int ep) { if (g_sig_error < 2) g_sig_error++; g_sig_receiver = r; g_sig_payload = ep; }
static void real_set_stopped(struct real_receiver *r) { if (g_sig_stopped < 2) g_sig_stopped++; g_sig_receiver = r; }
static int vx_current_exception(void) { return nondet_int(); }
/* any_receiver_ref<Receiver, Ts...>: the overriders of any_receiver_ref_base's pure virtuals (the only dynamic type there is) */
#ifndef U_REF_SET_VALUE
static void ref_set_value(struct any_receiver_ref *self, int ts)
//@LIFT ref_set_value
#endif
#ifndef U_REF_SET_ERROR
static void ref_set_error(struct any_receiver_ref *self, int ep)
//@LIFT ref_set_error
#endif
#ifndef U_REF_SET_STOPPED
static void ref_set_stopped(struct any_receiver_ref *self)
//@LIFT ref_set_stopped
#endif
#endif

/* =============================================== functions under contract =============================================== */
#define SENDER_PRE (WORLD_OK && WF(&self->storage) && TRACE_ZERO && g_foreign0 == FOREIGN1(&self->storage))

#ifdef U_CONNECT_RVALUE
/* connect(receiver) &&: the operation state is built exactly once from the STORED sender as an rvalue (from the empty vtable
 * if the wrapper is empty or moved-from -- which makes that constructor throw, see any.*.opstate_ctor), while it is still
 * alive; afterwards the wrapper is empty and the contained object has been destroyed exactly once -- also if the
 * construction throws */
/* (contract of another unit) */
int as_connect_rvalue(struct any_sender_w *self, struct real_receiver receiver)
__CPROVER_requires(SENDER_PRE)
__CPROVER_ensures(g_aos_made == 1 && g_aos_rvalue && g_aos_receiver == receiver.id && g_aos_sender == __CPROVER_old(self->storage.object))
__CPROVER_ensures(EMPTY_REP(&self->storage) && g_live == g_foreign0)
__CPROVER_ensures(__CPROVER_old(self->storage.heap_storage) != NULL ==> !__CPROVER_old(self->storage.heap_storage)->vx_live)
__CPROVER_assigns(self->storage.heap_storage, self->storage.object, POOL_FRAME, TRACE_FRAME)
//@LIFT connect_rvalue
#endif

#ifdef U_CONNECT_LVALUE
/* connect(receiver) const&: the operation state is built exactly once from the stored sender as an LVALUE (it will be
 * copied); the wrapper keeps its content */
/* (contract of another unit) */
int as_connect_lvalue(const struct any_sender_w *self, struct real_receiver receiver)
__CPROVER_requires(SENDER_PRE)
__CPROVER_ensures(g_aos_made == 1 && !g_aos_rvalue && g_aos_receiver == receiver.id && g_aos_sender == self->storage.object)
__CPROVER_ensures(WF(&self->storage) && self->storage.object == __CPROVER_old(self->storage.object) && g_live == __CPROVER_old(g_live))
__CPROVER_assigns(vx_exc, g_virtual_calls, TRACE_FRAME)
//@LIFT connect_lvalue
#endif

#ifdef U_FROM_ANY_CTOR
/* unique_any_sender(any_sender&& other): takes over other's object (no copy); other is empty afterwards */
/* (contract of another unit) */
void uas_from_any_ctor(struct any_sender_w *self, struct any_sender_w *other)
__CPROVER_requires(WORLD_OK && WF(&other->storage) && self != other)
__CPROVER_ensures(WF(&self->storage) && EMPTY_REP(&other->storage) && self->storage.heap_storage == __CPROVER_old(other->storage.heap_storage))
__CPROVER_ensures(g_live == __CPROVER_old(g_live) && !vx_exc && !g_newed)
__CPROVER_assigns(self->storage.heap_storage, self->storage.object, other->storage.heap_storage, other->storage.object, POOL_FRAME)
//@LIFT from_any_ctor
#endif

#ifdef U_FROM_ANY_ASSIGN
/* unique_any_sender::operator=(any_sender&& other): previous content destroyed exactly once, takes over other's object */
/* (contract of another unit) */
struct any_sender_w *uas_from_any_assign(struct any_sender_w *self, struct any_sender_w *other)
__CPROVER_requires(WORLD_OK && WF(&self->storage) && WF(&other->storage) && self != other && DISJOINT(&self->storage, &other->storage))
__CPROVER_requires(g_foreign0 == FOREIGN2(&self->storage, &other->storage))
__CPROVER_ensures(WF(&self->storage) && EMPTY_REP(&other->storage) && self->storage.heap_storage == __CPROVER_old(other->storage.heap_storage))
__CPROVER_ensures(FOREIGN2(&self->storage, &other->storage) == g_foreign0 && !vx_exc && !g_newed && __CPROVER_return_value == self)
__CPROVER_ensures(__CPROVER_old(self->storage.heap_storage) != NULL ==> !__CPROVER_old(self->storage.heap_storage)->vx_live)
__CPROVER_assigns(self->storage.heap_storage, self->storage.object, other->storage.heap_storage, other->storage.object, POOL_FRAME)
//@LIFT from_any_assign
#endif

#ifdef U_FROM_SENDER_CTOR
/* [unique_]any_sender(Sender&& sender): non-empty, holds one new object built from sender (if its constructor does not throw) */
/* (contract of another unit) */
void as_from_sender_ctor(struct any_sender_w *self, int sender)
__CPROVER_requires(WORLD_OK)
__CPROVER_ensures(WF(&self->storage) && g_live - OWNS(&self->storage) == __CPROVER_old(g_live))
__CPROVER_ensures(!vx_exc ==> (FULL_REP(&self->storage) && self->storage.object == &g_pool[2] && self->storage.object->sender == sender))
__CPROVER_assigns(self->storage.heap_storage, self->storage.object, POOL_FRAME)
{
  sbo_nsdmi(&self->storage); /* member `storage_type storage{}` */
//@LIFT from_sender_ctor
}
#endif

#ifdef U_FROM_SENDER_ASSIGN
/* (contract of another unit) */
struct any_sender_w *as_from_sender_assign(struct any_sender_w *self, int sender)
__CPROVER_requires(WORLD_OK && WF(&self->storage) && g_foreign0 == FOREIGN1(&self->storage))
__CPROVER_ensures(WF(&self->storage) && FOREIGN1(&self->storage) == g_foreign0)
__CPROVER_ensures(__CPROVER_old(self->storage.heap_storage) != NULL ==> !__CPROVER_old(self->storage.heap_storage)->vx_live)
__CPROVER_ensures(!vx_exc ==> (FULL_REP(&self->storage) && self->storage.object == &g_pool[2] && self->storage.object->sender == sender && __CPROVER_return_value == self))
__CPROVER_assigns(self->storage.heap_storage, self->storage.object, POOL_FRAME)
//@LIFT from_sender_assign
#endif

#ifdef U_AS_RESET
/* (contract of another unit) */
void as_reset(struct any_sender_w *self)
__CPROVER_requires(WORLD_OK && WF(&self->storage) && g_foreign0 == FOREIGN1(&self->storage))
__CPROVER_ensures(EMPTY_REP(&self->storage) && g_live == g_foreign0)
__CPROVER_assigns(self->storage.heap_storage, self->storage.object, POOL_FRAME)
//@LIFT as_reset
#endif

#ifdef U_AS_EMPTY
/* empty() / operator bool: default-constructed and moved-from wrappers report empty */
static bool as_empty(const struct any_sender_w *self)
//@LIFT as_empty
/* (contract of another unit) */
bool as_bool(const struct any_sender_w *self)
__CPROVER_requires(WORLD_OK && WF(&self->storage))
__CPROVER_ensures(__CPROVER_return_value == !EMPTY_REP(&self->storage))
__CPROVER_assigns(g_virtual_calls)
//@LIFT as_bool
#endif

#ifdef U_OPSTATE_CTOR
/* any_operation_state(sender, receiver): stores the receiver, points receiver_ref at ITS OWN copy of it, and calls the
 * stored sender's connect exactly once: on an empty (default-constructed / moved-from) wrapper that throws the defined
 * error (bad_function_call) and builds nothing; otherwise exactly one holder is built in place from the stored sender --
 * moved for the rvalue form, copied (stored sender untouched) for the const& form -- with an any_receiver that refers to
 * this operation state's receiver_ref */
#ifndef HAS_COPY   /* unique_any_sender_base has only the rvalue connect */
#define VX_FORM_OK(s) ((s).rvalue)
#else
#define VX_FORM_OK(s) 1
#endif
//@FUNC
void aos_ctor(struct aos *self, struct sender_ref sender, struct real_receiver receiver)
__CPROVER_requires(WORLD_OK && TRACE_ZERO && VALID_BASE(sender.p) && g_pay_sender0 == sender.p->sender)
__CPROVER_requires(VX_FORM_OK(sender))
__CPROVER_ensures(self->receiver.id == receiver.id && self->receiver_ref.receiver == (void *) &self->receiver)
__CPROVER_ensures(sender.p == &g_empty_obj ==> (vx_exc && g_thrown == pika_error_bad_function_call && g_holders == 0))
__CPROVER_ensures(sender.p != &g_empty_obj ==> (g_thrown == 0 && g_holders == 1 && g_h_where == &self->op_state && g_h_sender == g_pay_sender0 && g_h_moved == sender.rvalue && g_h_receiver == &self->receiver_ref))
__CPROVER_ensures(sender.p != &g_empty_obj && !sender.rvalue ==> sender.p->sender == g_pay_sender0)
__CPROVER_ensures(g_live == __CPROVER_old(g_live))
__CPROVER_assigns(self->receiver, self->receiver_ref, g_pool[0].sender, g_pool[1].sender, vx_exc, g_virtual_calls, TRACE_FRAME)
//@LIFT aos_ctor
#endif

#ifdef U_HOLDER_CTOR
/* any_operation_state_holder(sender, receiver): connects the given sender (still moved / copied as given) to the given
 * any_receiver exactly once and stores the resulting operation state; if that connect throws nothing is leaked */
/* (contract of another unit) */
void holder_ctor_real(struct holder *self, struct sender_arg sender, struct any_receiver receiver)
__CPROVER_requires(WORLD_OK && TRACE_ZERO && g_connects == 0)
__CPROVER_ensures(g_connects == 1 && g_conn_sender == sender.token && g_conn_moved == sender.moved && g_conn_receiver == receiver.receiver)
__CPROVER_ensures(WF(&self->storage) && g_live - OWNS(&self->storage) == __CPROVER_old(g_live))
__CPROVER_ensures(!vx_exc ==> (FULL_REP(&self->storage) && self->storage.object == &g_pool[2] && self->storage.object->operation_state == g_conn_result))
__CPROVER_assigns(self->storage.heap_storage, self->storage.object, POOL_FRAME, g_connects, g_conn_sender, g_conn_moved, g_conn_receiver, g_conn_result)
{
  sbo_nsdmi(&self->storage); /* member `storage_type storage{}` */
//@LIFT holder_ctor
}
#endif

#ifdef U_HOLDER_START
/* any_operation_state_holder::start(): the wrapped operation state is started exactly once */
/* (contract of another unit) */
void holder_start(struct holder *self)
__CPROVER_requires(WORLD_OK && TRACE_ZERO && FULL_REP(&self->storage) && self->storage.object->sender != VX_MOVED_FROM)
__CPROVER_ensures(g_starts == 1 && g_started == self->storage.object && !vx_exc && g_live == __CPROVER_old(g_live) && FULL_REP(&self->storage))
__CPROVER_assigns(vx_exc, g_virtual_calls, TRACE_FRAME)
//@LIFT holder_start
#endif

#ifdef U_AOS_START
/* any_operation_state::start(): forwards to its holder: exactly one start of the wrapped operation state */
/* (contract of another unit) */
void aos_start(struct aos *self)
__CPROVER_requires(WORLD_OK && TRACE_ZERO && FULL_REP(&self->op_state.storage) && self->op_state.storage.object->sender != VX_MOVED_FROM)
__CPROVER_ensures(g_starts == 1 && g_started == self->op_state.storage.object && !vx_exc && g_live == __CPROVER_old(g_live))
__CPROVER_assigns(vx_exc, g_virtual_calls, TRACE_FRAME)
//@LIFT aos_start
#endif

#ifdef U_EMPTY_START
/* start on the empty vtable (unreachable through the public interface: an any_operation_state is never empty): raises
 * bad_function_call and starts nothing */
/* (contract of another unit) */
void holder_start_empty(struct holder *self)
__CPROVER_requires(WORLD_OK && TRACE_ZERO && EMPTY_REP(&self->storage))
__CPROVER_ensures(g_starts == 0 && vx_exc && g_thrown == pika_error_bad_function_call)
__CPROVER_assigns(vx_exc, g_virtual_calls, TRACE_FRAME)
{
  holder_start(self);
}
#endif

/* receiver signals: each is forwarded exactly once, on the same channel, with the same payload, to the receiver that the
 * any_receiver_ref points to; nothing on the other channels */
#define SIG_PRE (WORLD_OK && TRACE_ZERO)
#ifdef U_REF_SET_VALUE
/* (contract of another unit) */
void ref_set_value(struct any_receiver_ref *self, int ts)
__CPROVER_requires(SIG_PRE && self->receiver == (void *) &g_rcv)
__CPROVER_ensures(g_sig_value == 1 && g_sig_error == 0 && g_sig_stopped == 0 && g_sig_payload == ts && g_sig_receiver == &g_rcv)
__CPROVER_assigns(TRACE_FRAME)
//@LIFT ref_set_value
#endif
#ifdef U_REF_SET_ERROR
/* (contract of another unit) */
void ref_set_error(struct any_receiver_ref *self, int ep)
__CPROVER_requires(SIG_PRE && self->receiver == (void *) &g_rcv)
__CPROVER_ensures(g_sig_value == 0 && g_sig_error == 1 && g_sig_stopped == 0 && g_sig_payload == ep && g_sig_receiver == &g_rcv)
__CPROVER_assigns(TRACE_FRAME)
//@LIFT ref_set_error
#endif
#ifdef U_REF_SET_STOPPED
/* (contract of another unit) */
void ref_set_stopped(struct any_receiver_ref *self)
__CPROVER_requires(SIG_PRE && self->receiver == (void *) &g_rcv)
__CPROVER_ensures(g_sig_value == 0 && g_sig_error == 0 && g_sig_stopped == 1 && g_sig_receiver == &g_rcv)
__CPROVER_assigns(TRACE_FRAME)
//@LIFT ref_set_stopped
#endif
#ifdef U_RCV_SET_VALUE
/* (contract of another unit) */
void rcv_set_value(struct any_receiver *self, int ts)
__CPROVER_requires(SIG_PRE && self->receiver == &g_ref && g_ref.receiver == (void *) &g_rcv)
__CPROVER_ensures(g_sig_value == 1 && g_sig_error == 0 && g_sig_stopped == 0 && g_sig_payload == ts && g_sig_receiver == &g_rcv && !vx_exc)
__CPROVER_assigns(vx_exc, TRACE_FRAME)
//@LIFT rcv_set_value
#endif
#ifdef U_RCV_SET_ERROR
/* (contract of another unit) */
void rcv_set_error(struct any_receiver *self, int ep)
__CPROVER_requires(SIG_PRE && self->receiver == &g_ref && g_ref.receiver == (void *) &g_rcv)
__CPROVER_ensures(g_sig_value == 0 && g_sig_error == 1 && g_sig_stopped == 0 && g_sig_payload == ep && g_sig_receiver == &g_rcv && !vx_exc)
__CPROVER_assigns(vx_exc, TRACE_FRAME)
//@LIFT rcv_set_error
#endif
#ifdef U_RCV_SET_STOPPED
/* (contract of another unit) */
void rcv_set_stopped(struct any_receiver *self)
__CPROVER_requires(SIG_PRE && self->receiver == &g_ref && g_ref.receiver == (void *) &g_rcv)
__CPROVER_ensures(g_sig_value == 0 && g_sig_error == 0 && g_sig_stopped == 1 && g_sig_receiver == &g_rcv && !vx_exc)
__CPROVER_assigns(vx_exc, TRACE_FRAME)
//@LIFT rcv_set_stopped
#endif

/* ==================================================== harness ==================================================== */
static struct base g_garbage;
static struct base *pick(int k)
{
  return k == 0 ? NULL : k == 1 ? &g_empty_obj : k == 2 ? &g_pool[0] : k == 3 ? &g_pool[1] : k == 4 ? &g_pool[2] : &g_garbage;
}

void harness(void)
{
  struct any_sender_w a, b;
  struct real_receiver rcv;
  g_empty_obj.vx_kind = VX_EMPTY_VT; g_empty_obj.vx_live = false; g_empty_obj.sender = 0;
  g_garbage.vx_kind = nondet_int(); g_garbage.vx_live = nondet_bool(); g_garbage.sender = nondet_int();
  g_pool[0].vx_kind = VX_IMPL; g_pool[0].vx_live = nondet_bool(); g_pool[0].sender = nondet_int();
  g_pool[1].vx_kind = VX_IMPL; g_pool[1].vx_live = nondet_bool(); g_pool[1].sender = nondet_int();
  g_pool[2].vx_kind = nondet_int(); g_pool[2].vx_live = false; g_pool[2].sender = nondet_int();
  g_live = nondet_long();
  g_newed = false;
  vx_exc = false;
  g_virtual_calls = 0;
  g_foreign0 = nondet_long();
  g_pay_sender0 = nondet_int();
  g_thrown = 0;
  g_aos_made = 0; g_aos_sender = NULL; g_aos_rvalue = false; g_aos_receiver = 0;
  g_holders = 0; g_h_sender = 0; g_h_moved = false; g_h_receiver = NULL; g_h_where = NULL;
  g_starts = 0; g_started = NULL;
  g_sig_value = 0; g_sig_error = 0; g_sig_stopped = 0; g_sig_payload = 0; g_sig_receiver = NULL;
  a.storage.heap_storage = pick(nondet_int()); a.storage.object = pick(nondet_int());
  b.storage.heap_storage = pick(nondet_int()); b.storage.object = pick(nondet_int());
  rcv.id = nondet_int();
  g_rcv.id = nondet_int();
  g_ref.receiver = nondet_bool() ? (void *) &g_rcv : (void *) &rcv;
  bool a_full = a.storage.heap_storage != NULL, b_full = b.storage.heap_storage != NULL;
  (void) a_full; (void) b_full;
#ifdef U_CONNECT_RVALUE
  as_connect_rvalue(&a, rcv);
  if (a_full) VX_REACH("connected_full"); else VX_REACH("connected_empty");
  if (vx_exc) VX_REACH("opstate_ctor_threw");
#endif
#ifdef U_CONNECT_LVALUE
  as_connect_lvalue(&a, rcv);
  if (a_full) VX_REACH("connected_full"); else VX_REACH("connected_empty");
  if (vx_exc) VX_REACH("opstate_ctor_threw");
#endif
#ifdef U_FROM_ANY_CTOR
  uas_from_any_ctor(&a, &b);
  if (b_full) VX_REACH("took_full"); else VX_REACH("took_empty");
#endif
#ifdef U_FROM_ANY_ASSIGN
  uas_from_any_assign(&a, &b);
  if (a_full && b_full) VX_REACH("full_to_full"); else if (a_full) VX_REACH("empty_to_full"); else if (b_full) VX_REACH("full_to_empty"); else VX_REACH("empty_to_empty");
#endif
#ifdef U_FROM_SENDER_CTOR
  as_from_sender_ctor(&a, nondet_int());
  if (vx_exc) VX_REACH("ctor_threw"); else VX_REACH("constructed");
#endif
#ifdef U_FROM_SENDER_ASSIGN
  as_from_sender_assign(&a, nondet_int());
  if (vx_exc) VX_REACH("ctor_threw"); else if (a_full) VX_REACH("replaced"); else VX_REACH("assigned_into_empty");
#endif
#ifdef U_AS_RESET
  as_reset(&a);
  if (a_full) VX_REACH("was_full"); else VX_REACH("was_empty");
#endif
#ifdef U_AS_EMPTY
  if (as_bool(&a)) VX_REACH("non_empty"); else VX_REACH("empty");
#endif
#ifdef U_HOLDER_CTOR
  struct holder h;
  struct sender_arg sa;
  struct any_receiver ar;
  sa.token = nondet_int(); sa.moved = nondet_bool();
  ar.receiver = &g_ref;
  g_connects = 0; g_conn_sender = 0; g_conn_result = 0; g_conn_moved = false; g_conn_receiver = NULL;
  h.storage = a.storage;
  holder_ctor_real(&h, sa, ar);
  if (vx_exc) VX_REACH("wrapped_connect_threw"); else if (sa.moved) VX_REACH("connected_moved_sender"); else VX_REACH("connected_copied_sender");
#endif
#ifdef U_OPSTATE_CTOR
  struct aos op;
  struct sender_ref s;
  s.p = pick(nondet_int());
  s.rvalue = nondet_bool();
  aos_ctor(&op, s, rcv);
  if (s.p == &g_empty_obj) VX_REACH("empty_sender_throws");
  else if (s.rvalue) VX_REACH("connected_moving");
#ifdef HAS_COPY
  else VX_REACH("connected_copying");
#endif
  if (s.p != &g_empty_obj && vx_exc) VX_REACH("wrapped_connect_threw");
#endif
#if defined(U_HOLDER_START) || defined(U_EMPTY_START)
  struct holder h;
  h.storage = a.storage;
#ifdef U_HOLDER_START
  holder_start(&h);
  VX_REACH("started");
#else
  holder_start_empty(&h);
  VX_REACH("empty_start_raises");
#endif
#endif
#ifdef U_AOS_START
  struct aos op;
  op.receiver = rcv;
  op.receiver_ref.receiver = &op.receiver;
  op.op_state.storage = a.storage;
  aos_start(&op);
  VX_REACH("started");
#endif
#if defined(U_REF_SET_VALUE)
  ref_set_value(&g_ref, nondet_int()); VX_REACH("forwarded");
#elif defined(U_REF_SET_ERROR)
  ref_set_error(&g_ref, nondet_int()); VX_REACH("forwarded");
#elif defined(U_REF_SET_STOPPED)
  ref_set_stopped(&g_ref); VX_REACH("forwarded");
#endif
#if defined(G_RECEIVER) && (defined(U_RCV_SET_VALUE) || defined(U_RCV_SET_ERROR) || defined(U_RCV_SET_STOPPED))
  struct any_receiver ar;
  ar.receiver = nondet_bool() ? &g_ref : NULL;
#if defined(U_RCV_SET_VALUE)
  rcv_set_value(&ar, nondet_int()); VX_REACH("forwarded");
#elif defined(U_RCV_SET_ERROR)
  rcv_set_error(&ar, nondet_int()); VX_REACH("forwarded");
#else
  rcv_set_stopped(&ar); VX_REACH("forwarded");
#endif
#endif
}
