/* GENERATED from specs/C18/fb.c by spec.py -- do not edit */
/* C18 unit group 2 -- pika::util::detail::function_base (basic_function.cpp) and basic_function<R(Ts...), Copyable>
 * (basic_function.hpp): I-contracts (representation invariant FWF + ledger of live callable objects + frame) and the
 * T-contract of operator() (empty wrapper -> the empty vtable's throwing entry, never a null call).
 *
 * vtables are opaque function-pointer tables.  `struct fvt` is one function_vtable<Sig, Copyable> instance, i.e. one stored
 * callable type T; its identity is its address; the only attribute of T the storage management depends on is sizeof(T).
 * g_vt_empty is THE empty vtable (get_empty_function_vtable<Sig>(), T = trivial_empty_function); g_vt[0], g_vt[1] are two
 * arbitrary callable types (any size: embedded or heap).  The ENTRIES of a table are the real templates of
 * vtable/vtable.hpp, vtable/copyable_vtable.hpp and vtable/callable_vtable.hpp (allocate<T>, _deallocate<T>, _copy<T>,
 * _empty_invoke), lifted with `T` = the table; only T's own special members (construction, destruction, call operator)
 * are stubs that keep the ledger.
 *
 * A T object lives at a LOCATION: the embedded storage of a wrapper or a heap block (aligned_storage_helper<T>).  Each
 * location carries a ghost slot {cons, type, payload}: what the bytes at this location currently represent.  Copying the
 * bytes (memcpy, std::swap of the storage arrays) copies the slot: the trivially-relocatable reading pika relies on.
 * Ledger: g_live = constructions - destructions of callable objects; g_blocks = heap blocks allocated - freed.
 * A C++ reference parameter is a C pointer of the same name; `*this` is `self`. */
#include "vx.h"
#include <string.h>

#define VX_BIG 1000000000L
struct fvt { size_t sizeof_T; size_t alignof_T; };
struct slot { bool cons; const struct fvt *type; int payload; };
struct blk { bool alloc; const struct fvt *for_type; struct slot s; };

/* static std::size_t const function_storage_size = 3 * sizeof(void*);  (basic_function.hpp) */
//@LIFT consts

struct function_base
{
  const struct fvt *vptr;
  void *object;
  unsigned char storage[function_storage_size];
  struct slot vx_emb; /* ghost: what the bytes of `storage` represent */
};
/* the argument of basic_function::assign(F&& f): a callable of type `type` (or a null function pointer / empty pika function) */
struct callable { const struct fvt *type; int payload; bool is_null; };

/* the placement policy of vtable::allocate<T> (its `if` condition, lifted): true = heap block, false = the given storage.
 * The representation invariant below is stated relative to it, so that it describes exactly the states pika creates. */
#define VX_SIZEOF(T) ((T)->sizeof_T)
#define VX_ALIGNOF(T) ((T)->alignof_T)
//@LIFT heap_policy
/* alignment every wrapper guarantees for its embedded storage: `storage` sits at a multiple of alignof(function_base) */
#define VX_STORAGE_ALIGN (offsetof(struct function_base, storage) % _Alignof(struct function_base) == 0 ? _Alignof(struct function_base) : 1)

static struct fvt g_vt_empty, g_vt[2];
static struct blk g_blk[3];            /* [0],[1] may exist before the operation, [2] is what the operation's `new` returns */
static struct function_base *g_fb[2];  /* the wrappers taking part in the operation */
static long g_live, g_blocks;
static bool g_newed;
static int vx_exc;                     /* exception in flight: 0 none, VX_EXC_CTOR, VX_EXC_BAD_CALL */
#define VX_EXC_CTOR 1
#define VX_EXC_BAD_CALL 2
static long g_foreign0, g_fblocks0;    /* ghost snapshots (pinned by the preconditions) */
static int g_pay_self0, g_pay_other0;
static int g_invocations, g_inv_payload, g_inv_arg, g_inv_result;
static struct slot g_bad_slot;

#define IS_TYPE(v) ((v) == &g_vt[0] || (v) == &g_vt[1])
#define IS_BLK(p) ((p) == (void *) &g_blk[0] || (p) == (void *) &g_blk[1] || (p) == (void *) &g_blk[2])
#define AS_BLK(p) ((struct blk *) (p))
#define F_EMPTY(f) ((f)->object == NULL && (f)->vptr == &g_vt_empty)
#define F_EMB(f) ((f)->object == (void *) (f)->storage && IS_TYPE((f)->vptr) && !VX_HEAP_POLICY((f)->vptr, function_storage_size) && \
                  (f)->vx_emb.cons && (f)->vx_emb.type == (f)->vptr)
#define F_HEAP(f) (IS_BLK((f)->object) && IS_TYPE((f)->vptr) && VX_HEAP_POLICY((f)->vptr, function_storage_size) && \
                   AS_BLK((f)->object)->alloc && AS_BLK((f)->object)->for_type == (f)->vptr && \
                   AS_BLK((f)->object)->s.cons && AS_BLK((f)->object)->s.type == (f)->vptr)
/* representation invariant (DESIGN C18): object == NULL <=> vptr == the empty vtable; an embedded object lives in the
 * storage of ITS OWN wrapper; otherwise object is a heap block holding one live T of the vtable's type */
#define FWF(f) (F_EMPTY(f) || F_EMB(f) || F_HEAP(f))
#define F_OWNS(f) ((f)->object != NULL ? 1 : 0)
#define F_HOWNS(f) (IS_BLK((f)->object) ? 1 : 0)
#define F_PAYLOAD(f) ((f)->object == (void *) (f)->storage ? (f)->vx_emb.payload : IS_BLK((f)->object) ? AS_BLK((f)->object)->s.payload : 0)
#define F_DISJOINT(a, b) ((a) == (b) || !IS_BLK((a)->object) || (a)->object != (b)->object)
#define F_FOREIGN1(a) (g_live - F_OWNS(a))
#define F_FOREIGN2(a, b) (g_live - F_OWNS(a) - ((b) != (a) ? F_OWNS(b) : 0))
#define F_FBLOCKS1(a) (g_blocks - F_HOWNS(a))
#define F_FBLOCKS2(a, b) (g_blocks - F_HOWNS(a) - ((b) != (a) ? F_HOWNS(b) : 0))
#define POW2(a) ((a) == 1 || (a) == 2 || (a) == 4 || (a) == 8 || (a) == 16 || (a) == 32 || (a) == 64)
#define FB_WORLD (g_vt_empty.sizeof_T == 1 && g_vt_empty.alignof_T == 1 && g_vt[0].sizeof_T >= 1 && g_vt[1].sizeof_T >= 1 && \
                  POW2(g_vt[0].alignof_T) && POW2(g_vt[1].alignof_T) && !g_blk[2].alloc && !g_newed && \
                  vx_exc == 0 && g_live >= 2 && g_live <= VX_BIG && g_blocks >= 2 && g_blocks <= VX_BIG && g_invocations == 0)
#define GHOST_FRAME g_blk, g_live, g_blocks, g_newed, vx_exc, g_invocations, g_inv_payload, g_inv_arg, g_inv_result
#define FB_FIELDS(f) (f)->vptr, (f)->object, (f)->storage, (f)->vx_emb

/* ---- environment (trusted; listed in META) ----------------------------------------------------------------------- */
static struct slot *slot_of(const void *p)
{
  if (p == (const void *) g_fb[0]->storage) return &g_fb[0]->vx_emb;
  if (p == (const void *) g_fb[1]->storage) return &g_fb[1]->vx_emb;
  if (IS_BLK(p)) return &AS_BLK(p)->s;
  VX_ASSERT(0, "callable object accessed at an address that is neither a wrapper's embedded storage nor a heap block");
  return &g_bad_slot;
}
static void vx_fits(const struct fvt *T, const void *p)
{
  if (IS_BLK(p))
    VX_ASSERT(AS_BLK(p)->alloc && AS_BLK(p)->for_type == T, "callable constructed in a heap block that is freed or was allocated for another type");
  else
    VX_ASSERT(T->sizeof_T <= function_storage_size, "callable constructed in embedded storage that is too small for it");
}
/* get<T>(obj).~T() */
static void T_destroy(const struct fvt *T, void *obj)
{
  struct slot *s = slot_of(obj);
  VX_ASSERT(s->cons, "callable object destroyed twice (or never constructed)");
  VX_ASSERT(s->type == T, "callable object destroyed through the vtable of another type");
  s->cons = false;
  g_live--;
}
static void *vx_construct(const struct fvt *T, void *buffer, int payload)
{
#ifndef VX_NO_THROWING_CTOR
  if (nondet_bool())
  {
    vx_exc = VX_EXC_CTOR; /* the callable's copy/move constructor throws: nothing was constructed */
    return NULL;
  }
#endif
  struct slot *d = slot_of(buffer);
  vx_fits(T, buffer);
  d->cons = true;
  d->type = T;
  d->payload = payload;
  g_live++;
  return buffer;
}
/* ::new (buffer) T(get<T>(src)) */
static void *T_copy_construct(const struct fvt *T, void *buffer, const void *src)
{
  struct slot *s = slot_of(src);
  VX_ASSERT(s->cons && s->type == T, "copy construction from something that is not a live object of the vtable's type");
  return vx_construct(T, buffer, s->payload);
}
/* ::new (buffer) T(std::forward<F>(f)) */
static void *T_construct_from(const struct fvt *T, void *buffer, struct callable f)
{
  VX_ASSERT(f.type == T, "constructed type differs from the vtable's type");
  return vx_construct(T, buffer, f.payload);
}
/* new aligned_storage_helper<T> (allocation failure is not modelled) */
static void *blk_new(const struct fvt *T)
{
  VX_ASSERT(!g_newed, "ledger universe: at most one allocation per operation");
  g_newed = true;
  g_blk[2].alloc = true;
  g_blk[2].for_type = T;
  g_blk[2].s.cons = false;
  g_blocks++;
  return &g_blk[2];
}
/* delete static_cast<aligned_storage_helper<T>*>(obj) */
static void blk_delete(const struct fvt *T, void *obj)
{
  VX_ASSERT(IS_BLK(obj), "delete of a pointer that is not a heap block");
  VX_ASSERT(AS_BLK(obj)->alloc, "heap block freed twice");
  VX_ASSERT(AS_BLK(obj)->for_type == T, "heap block freed through the vtable of another type");
  VX_ASSERT(!AS_BLK(obj)->s.cons, "heap block freed while the callable in it is still alive");
  AS_BLK(obj)->alloc = false;
  g_blocks--;
}
/* std::memcpy between embedded storages: the bytes, and with them what they represent */
static void vx_memcpy(void *dst, const void *src, size_t n)
{
  VX_ASSERT(dst != src, "memcpy with overlapping ranges");
  VX_ASSERT(n <= function_storage_size, "memcpy beyond the embedded storage");
  /* the type of the embedded callable is erased here: relocating it means relocating the whole buffer */
  VX_ASSERT(n == function_storage_size || !slot_of(src)->cons, "an embedded callable is relocated with all of its bytes (the whole embedded storage)");
  *slot_of(dst) = *slot_of(src);
  memcpy(dst, src, n);
}
/* std::swap(a, b) on members (pointers or the storage arrays) */
static void vx_swap_ghost(void *a, void *b)
{
  bool a_st = a == (void *) g_fb[0]->storage || a == (void *) g_fb[1]->storage;
  bool b_st = b == (void *) g_fb[0]->storage || b == (void *) g_fb[1]->storage;
  if (a_st && b_st)
  {
    struct slot t = *slot_of(a);
    *slot_of(a) = *slot_of(b);
    *slot_of(b) = t;
  }
}
#define VX_SWAP(a, b) do { __typeof__(a) *vx_pa = &(a), *vx_pb = &(b); __typeof__(a) vx_t; \
    if (vx_pa != vx_pb) { vx_swap_ghost(vx_pa, vx_pb); memcpy(&vx_t, vx_pa, sizeof(a)); memcpy(vx_pa, vx_pb, sizeof(a)); memcpy(vx_pb, &vx_t, sizeof(a)); } } while (0)
/* enum class pika::error (errors/error.hpp) */
//@LIFT errors
/* pika::throw_exception(pika::error::bad_function_call, ...) */
static void vx_throw(int code)
{
  VX_ASSERT(code == pika_error_bad_function_call, "the defined error of an empty function is bad_function_call");
  vx_exc = VX_EXC_BAD_CALL;
}
/* T::operator()(vs...) on the stored callable */
static int T_invoke(const struct fvt *T, void *obj, int vs)
{
  struct slot *s = slot_of(obj);
  VX_ASSERT(s->cons && s->type == T, "invocation of something that is not a live callable of the vtable's type");
  if (g_invocations < 2) g_invocations++;
  g_inv_payload = s->payload;
  g_inv_arg = vs;
  g_inv_result = nondet_int();
  return g_inv_result;
}
static const struct fvt *get_empty_function_vtable(void) { return &g_vt_empty; }
static const struct fvt *callable_type(struct callable f) { return f.type; }
/* get_vtable<T>(): the table of type T is T's token itself */
static const struct fvt *get_vtable(const struct fvt *T) { return T; }
/* detail::is_empty_function(f): null function pointer / member pointer / empty pika function */
static bool is_empty_function(struct callable f) { return f.is_null; }

/* ---- the entries of a vtable: real templates, T = the table ------------------------------------------------------- */
#ifndef U_ALLOCATE
static void *vt_allocate(const struct fvt *T, void *storage, size_t storage_size)                /* vtable::allocate<T> */
//@LIFT vt_allocate
#else
/* vtable::allocate<T>(storage, storage_size) as called by function_base / basic_function with a wrapper's embedded storage:
 * a callable is placed in the embedded storage only if it FITS there and the storage is SUITABLY ALIGNED for it (otherwise
 * constructing it there is undefined behaviour: the wrapped callable would not behave like the original); else it gets a
 * heap block of its own (aligned_storage_helper<T> is alignas(T)) */
#ifdef VX_NO_OVERALIGNED   /* input class of the known finding excluded: no over-aligned callable types */
#define VX_ALIGN_CLASS(T) ((T)->alignof_T <= _Alignof(void *))
#else
#define VX_ALIGN_CLASS(T) 1
#endif
/* (contract of another unit) */
void *vt_allocate(const struct fvt *T, void *storage, size_t storage_size)
__CPROVER_requires(FB_WORLD && IS_TYPE(T) && storage == (void *) g_fb[0]->storage && storage_size == function_storage_size)
__CPROVER_requires(VX_ALIGN_CLASS(T))
__CPROVER_ensures(__CPROVER_return_value == storage ==> (T->sizeof_T <= storage_size && T->alignof_T <= VX_STORAGE_ALIGN))
__CPROVER_ensures(__CPROVER_return_value != storage ==> (__CPROVER_return_value == (void *) &g_blk[2] && g_blk[2].alloc && g_blk[2].for_type == T && g_blocks == __CPROVER_old(g_blocks) + 1))
__CPROVER_ensures(g_live == __CPROVER_old(g_live))
__CPROVER_assigns(g_blk[2], g_blocks, g_newed)
//@LIFT vt_allocate
#endif
static void vt_deallocate_T(const struct fvt *T, void *obj, size_t storage_size, bool destroy)   /* vtable::_deallocate<T> */
//@LIFT vt_deallocate
static void *vt_copy_T(const struct fvt *T, void *storage, size_t storage_size, void const *src, bool destroy) /* copyable_vtable::_copy<T> */
//@LIFT vt_copy
static void throw_bad_function_call(void)                                                         /* empty_function.cpp */
//@LIFT throw_bad_function_call
static int throw_bad_function_call_R(void)                                                        /* template <typename R> R throw_bad_function_call() */
//@LIFT throw_bad_function_call_R
static int vt_empty_invoke(void *vx_unnamed, int vs)                                              /* callable_vtable<R(Ts...)>::_empty_invoke */
//@LIFT vt_empty_invoke

/* calls through a vtable pointer: dispatch on the table (the one hand-written step of a `vptr->entry(...)` call) */
static void vx_vtable(const struct fvt *vptr)
{
  VX_ASSERT(vptr != NULL, "call through a null vtable pointer");
  VX_ASSERT(vptr == &g_vt_empty || IS_TYPE(vptr), "call through something that is not a vtable");
}
static void vt_deallocate(const struct fvt *vptr, void *obj, size_t storage_size, bool destroy)
{
  vx_vtable(vptr);
  vt_deallocate_T(vptr, obj, storage_size, destroy);
}
static void *vt_copy(const struct fvt *vptr, void *storage, size_t storage_size, void const *src, bool destroy)
{
  vx_vtable(vptr);
  return vt_copy_T(vptr, storage, storage_size, src, destroy);
}
static int vt_invoke(const struct fvt *vptr, void *obj, int vs)
{
  vx_vtable(vptr);
  if (vptr == &g_vt_empty) return vt_empty_invoke(obj, vs);  /* callable_vtable(construct_vtable<trivial_empty_function>): invoke = &_empty_invoke */
  return T_invoke(vptr, obj, vs);                            /* invoke = &_invoke<T>: PIKA_INVOKE_R(R, get<T>(f), vs...) */
}

/* ---- function_base members used as lifted bodies by the operations under contract ---- */
static void fb_swap(struct function_base *self, struct function_base *f);
static void fb_reset(struct function_base *self, const struct fvt *empty_vptr);
static void fb_destroy(struct function_base *self)
//@LIFT destroy
#ifndef U_RESET
static void fb_reset(struct function_base *self, const struct fvt *empty_vptr)
//@LIFT reset
#endif
#ifndef U_SWAP
static void fb_swap(struct function_base *self, struct function_base *f)
//@LIFT swap
#endif
static const struct fvt *bf_get_empty_vtable(void)      /* basic_function::get_empty_vtable() */
//@LIFT bf_get_empty_vtable

/* ================================== functions under contract ================================== */
#ifdef U_DEFAULT_CTOR
/* function_base(empty_vptr): mem-initialisers only */
/* (contract of another unit) */
void fb_ctor(struct function_base *self, const struct fvt *empty_vptr)
__CPROVER_requires(FB_WORLD && empty_vptr == &g_vt_empty)
__CPROVER_ensures(F_EMPTY(self) && g_live == __CPROVER_old(g_live))
__CPROVER_assigns(self->vptr, self->object, self->storage[0])
//@LIFT ctor
#endif

#ifdef U_COPY_CTOR
/* copy construction: +1 (a distinct clone with the same payload and type), the source is untouched; if T's copy
 * constructor throws no object is leaked */
/* (contract of another unit) */
void fb_copy_ctor(struct function_base *self, const struct function_base *other, const struct fvt *empty_vtable)
__CPROVER_requires(FB_WORLD && FWF(other) && self != other && empty_vtable == &g_vt_empty)
__CPROVER_requires(g_pay_other0 == F_PAYLOAD(other))
__CPROVER_ensures(FWF(other) && other->vptr == __CPROVER_old(other->vptr) && other->object == __CPROVER_old(other->object))
__CPROVER_ensures(vx_exc == 0 ==> (FWF(self) && F_DISJOINT(self, other) && self->vptr == other->vptr))
__CPROVER_ensures(vx_exc == 0 ==> g_live == __CPROVER_old(g_live) + F_OWNS(other) && g_blocks == __CPROVER_old(g_blocks) + F_HOWNS(other))
__CPROVER_ensures(vx_exc == 0 && F_OWNS(other) == 1 ==> (self->object != other->object && F_PAYLOAD(self) == g_pay_other0 && F_PAYLOAD(other) == g_pay_other0))
__CPROVER_ensures(vx_exc != 0 ==> g_live == __CPROVER_old(g_live))
__CPROVER_assigns(FB_FIELDS(self), GHOST_FRAME)
//@LIFT copy_ctor
#endif

#ifdef U_MOVE_CTOR
/* move construction: +-0; the target owns the source's object (an embedded one re-pointed to the target's OWN storage),
 * the source is empty */
/* (contract of another unit) */
void fb_move_ctor(struct function_base *self, struct function_base *other, const struct fvt *empty_vptr)
__CPROVER_requires(FB_WORLD && FWF(other) && self != other && empty_vptr == &g_vt_empty)
__CPROVER_requires(g_pay_other0 == F_PAYLOAD(other))
__CPROVER_ensures(FWF(self) && FWF(other) && F_EMPTY(other) && self->vptr == __CPROVER_old(other->vptr))
__CPROVER_ensures(g_live == __CPROVER_old(g_live) && g_blocks == __CPROVER_old(g_blocks) && vx_exc == 0)
__CPROVER_ensures(F_OWNS(self) == 1 ==> F_PAYLOAD(self) == g_pay_other0)
__CPROVER_ensures(IS_BLK(__CPROVER_old(other->object)) ==> self->object == __CPROVER_old(other->object))
__CPROVER_assigns(FB_FIELDS(self), FB_FIELDS(other), GHOST_FRAME)
//@LIFT move_ctor
#endif

#ifdef U_DTOR
/* (contract of another unit) */
void fb_dtor(struct function_base *self)
__CPROVER_requires(FB_WORLD && FWF(self) && g_foreign0 == F_FOREIGN1(self) && g_fblocks0 == F_FBLOCKS1(self))
/* destroy exactly once: -1 iff non-empty; the heap block goes with it */
__CPROVER_ensures(g_live == g_foreign0 && g_blocks == g_fblocks0 && vx_exc == 0)
__CPROVER_assigns(FB_FIELDS(self), GHOST_FRAME)
//@LIFT dtor
#endif

#ifdef U_RESET
/* (contract of another unit) */
void fb_reset(struct function_base *self, const struct fvt *empty_vptr)
__CPROVER_requires(FB_WORLD && FWF(self) && empty_vptr == &g_vt_empty && g_foreign0 == F_FOREIGN1(self) && g_fblocks0 == F_FBLOCKS1(self))
/* reset: -1 iff non-empty, afterwards empty */
__CPROVER_ensures(F_EMPTY(self) && g_live == g_foreign0 && g_blocks == g_fblocks0 && vx_exc == 0)
__CPROVER_assigns(FB_FIELDS(self), GHOST_FRAME)
//@LIFT reset
#endif

#ifdef U_SWAP
/* (contract of another unit) */
void fb_swap(struct function_base *self, struct function_base *f)
__CPROVER_requires(FB_WORLD && FWF(self) && FWF(f) && F_DISJOINT(self, f))
__CPROVER_requires(g_pay_self0 == F_PAYLOAD(self) && g_pay_other0 == F_PAYLOAD(f))
/* swap: nothing constructed or destroyed; contents exchanged; embedded objects re-pointed to their new owner's storage */
__CPROVER_ensures(FWF(self) && FWF(f) && F_DISJOINT(self, f))
__CPROVER_ensures(g_live == __CPROVER_old(g_live) && g_blocks == __CPROVER_old(g_blocks) && vx_exc == 0 && !g_newed)
__CPROVER_ensures(self->vptr == __CPROVER_old(f->vptr) && f->vptr == __CPROVER_old(self->vptr))
__CPROVER_ensures(F_OWNS(self) == 1 ==> F_PAYLOAD(self) == g_pay_other0)
__CPROVER_ensures(F_OWNS(f) == 1 ==> F_PAYLOAD(f) == g_pay_self0)
__CPROVER_assigns(FB_FIELDS(self), FB_FIELDS(f), GHOST_FRAME)
//@LIFT swap
#endif

#ifdef U_OP_ASSIGN_COPY
/* copy assignment: previous target content destroyed exactly once, +1 clone of the source (distinct object, same
 * payload and type), source untouched; self-assignment is a no-op; if T's copy constructor throws, the wrapper stays
 * well-formed (so that its destructor destroys nothing twice) and nothing is leaked */
/* (contract of another unit) */
void fb_op_assign_copy(struct function_base *self, const struct function_base *other, const struct fvt *empty_vtable)
__CPROVER_requires(FB_WORLD && FWF(self) && FWF(other) && F_DISJOINT(self, other) && empty_vtable == &g_vt_empty)
__CPROVER_requires(g_foreign0 == F_FOREIGN2(self, other) && g_fblocks0 == F_FBLOCKS2(self, other) && g_pay_other0 == F_PAYLOAD(other) && g_pay_self0 == F_PAYLOAD(self))
__CPROVER_ensures(FWF(self) && FWF(other) && F_DISJOINT(self, other))
__CPROVER_ensures(F_FOREIGN2(self, other) == g_foreign0)
__CPROVER_ensures(other->vptr == __CPROVER_old(other->vptr) && other->object == __CPROVER_old(other->object))
__CPROVER_ensures(vx_exc == 0 ==> (self->vptr == other->vptr && F_FBLOCKS2(self, other) == g_fblocks0))
__CPROVER_ensures(vx_exc == 0 && F_OWNS(other) == 1 ==> ((self != other ==> self->object != other->object) && F_PAYLOAD(self) == g_pay_other0 && F_PAYLOAD(other) == g_pay_other0))
__CPROVER_ensures(self == other ==> (vx_exc == 0 && !g_newed && g_live == __CPROVER_old(g_live) && (F_OWNS(self) == 1 ==> F_PAYLOAD(self) == g_pay_self0)))
__CPROVER_assigns(FB_FIELDS(self), GHOST_FRAME)
//@LIFT op_assign_copy
#endif

#ifdef U_OP_ASSIGN_MOVE
/* move assignment: previous target content destroyed exactly once, the target owns the source's object, the source is
 * empty, total -(old target); self-assignment is a no-op */
/* (contract of another unit) */
void fb_op_assign_move(struct function_base *self, struct function_base *other, const struct fvt *empty_vtable)
__CPROVER_requires(FB_WORLD && FWF(self) && FWF(other) && F_DISJOINT(self, other) && empty_vtable == &g_vt_empty)
__CPROVER_requires(g_foreign0 == F_FOREIGN2(self, other) && g_fblocks0 == F_FBLOCKS2(self, other))
__CPROVER_requires(g_pay_other0 == F_PAYLOAD(other) && g_pay_self0 == F_PAYLOAD(self))
__CPROVER_ensures(FWF(self) && FWF(other) && F_DISJOINT(self, other) && vx_exc == 0 && !g_newed)
__CPROVER_ensures(F_FOREIGN2(self, other) == g_foreign0 && F_FBLOCKS2(self, other) == g_fblocks0)
__CPROVER_ensures(self != other ==> (F_EMPTY(other) && self->vptr == __CPROVER_old(other->vptr) && (F_OWNS(self) == 1 ==> F_PAYLOAD(self) == g_pay_other0)))
__CPROVER_ensures(self != other && IS_BLK(__CPROVER_old(other->object)) ==> self->object == __CPROVER_old(other->object))
__CPROVER_ensures(self == other ==> (self->vptr == __CPROVER_old(self->vptr) && g_live == __CPROVER_old(g_live) && (F_OWNS(self) == 1 ==> F_PAYLOAD(self) == g_pay_self0)))
__CPROVER_assigns(FB_FIELDS(self), FB_FIELDS(other), GHOST_FRAME)
//@LIFT op_assign_move
#endif

#ifdef U_BF_ASSIGN
/* basic_function::assign(F&& f): previous content destroyed exactly once; afterwards the wrapper holds one NEW object of
 * f's type built from f (or is empty when f is a null function pointer / empty function); if T's constructor throws, the
 * wrapper stays well-formed and no callable object is leaked */
//@FUNC
void bf_assign(struct function_base *self, struct callable f)
__CPROVER_requires(FB_WORLD && FWF(self) && IS_TYPE(f.type) && g_foreign0 == F_FOREIGN1(self) && g_fblocks0 == F_FBLOCKS1(self))
__CPROVER_ensures(FWF(self) && F_FOREIGN1(self) == g_foreign0)
__CPROVER_ensures(vx_exc == 0 ==> F_FBLOCKS1(self) == g_fblocks0)
__CPROVER_ensures(vx_exc == 0 && f.is_null ==> F_EMPTY(self))
__CPROVER_ensures(vx_exc == 0 && !f.is_null ==> (F_OWNS(self) == 1 && self->vptr == f.type && F_PAYLOAD(self) == f.payload))
__CPROVER_assigns(FB_FIELDS(self), GHOST_FRAME)
//@LIFT bf_assign
#endif

#ifdef U_BF_ASSIGN_NULLPTR
/* (contract of another unit) */
void bf_assign_nullptr(struct function_base *self)
__CPROVER_requires(FB_WORLD && FWF(self) && g_foreign0 == F_FOREIGN1(self) && g_fblocks0 == F_FBLOCKS1(self))
__CPROVER_ensures(F_EMPTY(self) && g_live == g_foreign0 && g_blocks == g_fblocks0 && vx_exc == 0)
__CPROVER_assigns(FB_FIELDS(self), GHOST_FRAME)
//@LIFT bf_assign_nullptr
#endif

#ifdef U_BF_RESET
/* (contract of another unit) */
void bf_reset(struct function_base *self)
__CPROVER_requires(FB_WORLD && FWF(self) && g_foreign0 == F_FOREIGN1(self) && g_fblocks0 == F_FBLOCKS1(self))
__CPROVER_ensures(F_EMPTY(self) && g_live == g_foreign0 && g_blocks == g_fblocks0 && vx_exc == 0)
__CPROVER_assigns(FB_FIELDS(self), GHOST_FRAME)
//@LIFT bf_reset
#endif

#ifdef U_BF_CALL
/* operator(): an empty wrapper reaches the empty vtable's throwing entry (bad_function_call) and invokes nothing -- never
 * a call through a null pointer; a non-empty wrapper invokes ITS callable exactly once with the given argument and
 * returns its result unchanged; the wrapper is not modified */
/* (contract of another unit) */
int bf_call(const struct function_base *self, int vs)
__CPROVER_requires(FB_WORLD && FWF(self) && g_pay_self0 == F_PAYLOAD(self))
__CPROVER_ensures(F_EMPTY(self) ==> (vx_exc == VX_EXC_BAD_CALL && g_invocations == 0))
__CPROVER_ensures(!F_EMPTY(self) ==> (vx_exc == 0 && g_invocations == 1 && g_inv_payload == g_pay_self0 && g_inv_arg == vs && __CPROVER_return_value == g_inv_result))
__CPROVER_ensures(FWF(self) && g_live == __CPROVER_old(g_live))
__CPROVER_assigns(vx_exc, g_invocations, g_inv_payload, g_inv_arg, g_inv_result)
//@LIFT bf_call
#endif

#ifdef U_EMPTY
/* (contract of another unit) */
bool fb_empty(const struct function_base *self)
__CPROVER_requires(FB_WORLD && FWF(self))
__CPROVER_ensures(__CPROVER_return_value == F_EMPTY(self))
__CPROVER_assigns()
//@LIFT empty
#endif

/* ========================================== harness ========================================== */
static const struct fvt *pick_vt(int k) { return k == 0 ? NULL : k == 1 ? &g_vt_empty : k == 2 ? &g_vt[0] : &g_vt[1]; }
static void *pick_obj(int k, struct function_base *own, struct function_base *foreign)
{
  return k == 0 ? NULL : k == 1 ? (void *) own->storage : k == 2 ? (void *) foreign->storage : k == 3 ? (void *) &g_blk[0] : k == 4 ? (void *) &g_blk[1] : (void *) &g_blk[2];
}
static struct slot pick_slot(void)
{
  struct slot s;
  s.cons = nondet_bool();
  s.type = pick_vt(nondet_int());
  s.payload = nondet_int();
  return s;
}

void harness(void)
{
  struct function_base a, b;
  g_fb[0] = &a;
  g_fb[1] = &b;
  g_vt_empty.sizeof_T = 1; g_vt_empty.alignof_T = 1;
  g_vt[0].sizeof_T = nondet_size(); g_vt[0].alignof_T = nondet_size();
  g_vt[1].sizeof_T = nondet_size(); g_vt[1].alignof_T = nondet_size();
  g_blk[0].alloc = nondet_bool(); g_blk[0].for_type = pick_vt(nondet_int()); g_blk[0].s = pick_slot();
  g_blk[1].alloc = nondet_bool(); g_blk[1].for_type = pick_vt(nondet_int()); g_blk[1].s = pick_slot();
  g_blk[2].alloc = false; g_blk[2].for_type = pick_vt(nondet_int()); g_blk[2].s = pick_slot();
  g_live = nondet_long();
  g_blocks = nondet_long();
  g_newed = false;
  vx_exc = 0;
  g_invocations = 0; g_inv_payload = 0; g_inv_arg = 0; g_inv_result = 0;
  g_bad_slot.cons = false; g_bad_slot.type = NULL; g_bad_slot.payload = 0;
  g_foreign0 = nondet_long(); g_fblocks0 = nondet_long();   /* pinned by the preconditions */
  g_pay_self0 = nondet_int(); g_pay_other0 = nondet_int();
  /* two wrappers in arbitrary representation states; the preconditions keep the well-formed ones */
  a.vptr = pick_vt(nondet_int()); a.object = pick_obj(nondet_int(), &a, &b); a.vx_emb = pick_slot();
  b.vptr = pick_vt(nondet_int()); b.object = pick_obj(nondet_int(), &b, &a); b.vx_emb = pick_slot();
  struct function_base *other = nondet_bool() ? &a : &b;
  bool a_full = a.object != NULL, a_emb = a.object == (void *) a.storage;
  bool o_full = other->object != NULL, o_emb = other->object == (void *) other->storage;
  bool same_type = a.vptr == other->vptr;
  (void) a_full; (void) a_emb; (void) o_full; (void) o_emb; (void) same_type;
#ifdef U_ALLOCATE
  const struct fvt *T = pick_vt(nondet_int());
  void *buf = vt_allocate(T, a.storage, function_storage_size);
  if (buf == (void *) a.storage) VX_REACH("embedded"); else VX_REACH("heap");
#endif
#ifdef U_DEFAULT_CTOR
  fb_ctor(&a, &g_vt_empty);
  VX_REACH("constructed");
#endif
#ifdef U_COPY_CTOR
  fb_copy_ctor(&a, other, &g_vt_empty);
  if (vx_exc) VX_REACH("copy_threw");
  else if (!o_full) VX_REACH("copied_empty");
  else if (o_emb) VX_REACH("copied_embedded");
  else VX_REACH("copied_heap");
#endif
#ifdef U_MOVE_CTOR
  fb_move_ctor(&a, other, &g_vt_empty);
  if (!o_full) VX_REACH("moved_empty");
  else if (o_emb) VX_REACH("moved_embedded");
  else VX_REACH("moved_heap");
#endif
#ifdef U_DTOR
  fb_dtor(&a);
  if (!a_full) VX_REACH("was_empty"); else if (a_emb) VX_REACH("was_embedded"); else VX_REACH("was_heap");
#endif
#ifdef U_RESET
  fb_reset(&a, &g_vt_empty);
  if (!a_full) VX_REACH("was_empty"); else if (a_emb) VX_REACH("was_embedded"); else VX_REACH("was_heap");
#endif
#ifdef U_SWAP
  fb_swap(&a, other);
  if (other == &a) VX_REACH("self_swap");
  else if (a_emb && o_emb) VX_REACH("embedded_embedded");
  else if (a_emb && o_full) VX_REACH("embedded_heap");
  else if (a_emb) VX_REACH("embedded_empty");
  else if (a_full && o_emb) VX_REACH("heap_embedded");
  else if (a_full && o_full) VX_REACH("heap_heap");
  else if (!a_full && !o_full) VX_REACH("empty_empty");
#endif
#ifdef U_OP_ASSIGN_COPY
  fb_op_assign_copy(&a, other, &g_vt_empty);
  if (other == &a) VX_REACH("self_assignment");
#ifndef VX_NO_THROWING_CTOR
  else if (vx_exc) VX_REACH("copy_threw");
#endif
  else if (same_type && a_full) VX_REACH("same_type_storage_reused");
  else if (a_full && o_full) VX_REACH("full_to_full_other_type");
  else if (a_full) VX_REACH("empty_to_full");
  else if (o_full) VX_REACH("full_to_empty");
  else VX_REACH("empty_to_empty");
#endif
#ifdef U_OP_ASSIGN_MOVE
  fb_op_assign_move(&a, other, &g_vt_empty);
  if (other == &a) VX_REACH("self_assignment");
  else if (a_full && o_emb) VX_REACH("embedded_to_full");
  else if (a_full && o_full) VX_REACH("heap_to_full");
  else if (a_full) VX_REACH("empty_to_full");
  else if (o_full) VX_REACH("full_to_empty");
  else VX_REACH("empty_to_empty");
#endif
#ifdef U_BF_ASSIGN
  struct callable f;
  f.type = pick_vt(nondet_int());
  f.payload = nondet_int();
  f.is_null = nondet_bool();
  bool reuse = a.vptr == f.type;
  bf_assign(&a, f);
#ifndef VX_NO_THROWING_CTOR
  if (vx_exc) VX_REACH("ctor_threw"); else
#endif
  if (f.is_null) VX_REACH("assigned_null_callable");
  else if (reuse) VX_REACH("same_type_storage_reused");
  else if (a_full) VX_REACH("replaced_other_type");
  else VX_REACH("assigned_into_empty");
#endif
#ifdef U_BF_ASSIGN_NULLPTR
  bf_assign_nullptr(&a);
  if (a_full) VX_REACH("was_full"); else VX_REACH("was_empty");
#endif
#ifdef U_BF_RESET
  bf_reset(&a);
  if (a_full) VX_REACH("was_full"); else VX_REACH("was_empty");
#endif
#ifdef U_BF_CALL
  int r = bf_call(&a, nondet_int());
  (void) r;
  if (vx_exc) VX_REACH("empty_throws_bad_function_call"); else if (a_emb) VX_REACH("invoked_embedded"); else VX_REACH("invoked_heap");
#endif
#ifdef U_EMPTY
  if (fb_empty(&a)) VX_REACH("empty"); else VX_REACH("non_empty");
#endif
}
