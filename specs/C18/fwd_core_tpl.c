
/* ---- one instantiation of movable_sbo_storage<Base, ..> (prefix @P@: its Base has the dynamic types @K@_EMPTY / @K@_IMPL and the
 * empty vtable object @P@g_empty_vt); every body is lifted, calls are bound to THIS instantiation by a renaming rule ---- */
static struct base @P@g_empty_vt;
static struct base *@P@get_empty_vtable(void) { return &@P@g_empty_vt; }   /* get_empty_vtable<Base>() (own unit: fwd.vtable.*) */
static void @P@virtual_call(const struct base *b)
{
  VX_ASSERT(b == &@P@g_empty_vt || IN_POOL(b), "virtual call through a pointer that is neither this Base's empty vtable nor a contained object");
  VX_ASSERT(b == &@P@g_empty_vt || (b->vx_live && b->vx_kind == @K@_IMPL), "virtual call on a destroyed object or on an object of another Base");
  VX_ASSERT(b != &@P@g_empty_vt || b->vx_kind == @K@_EMPTY, "empty vtable object of the wrong dynamic type");
}
static bool @P@impl_empty(const struct base *self)
//@LIFT @P@vbase_empty
static bool @P@emptyvt_empty(const struct base *self)
//@LIFT @P@vempty_empty
static bool @P@base_empty(const struct base *b)
{
  @P@virtual_call(b);
  return b->vx_kind == @K@_EMPTY ? @P@emptyvt_empty(b) : @P@impl_empty(b);
}
static void @P@sbo_nsdmi(struct sbo *self)
{
//@LIFT @P@init_heap_storage
//@LIFT @P@init_object
}
static bool @P@sbo_empty(const struct sbo *self);
static void @P@sbo_release(struct sbo *self);
static const struct base *@P@sbo_get_c(const struct sbo *self)
//@LIFT @P@get_c
static struct base *@P@sbo_get(struct sbo *self)
//@LIFT @P@get
static void @P@sbo_reset_vtable(struct sbo *self)
//@LIFT @P@reset_vtable
static void @P@sbo_move_assign(struct sbo *self, struct sbo *other)
//@LIFT @P@move_assign
static bool @P@sbo_empty(const struct sbo *self)
//@LIFT @P@empty
static void @P@sbo_release(struct sbo *self)
//@LIFT @P@release
#if @K@_HAS_STORE
static void @P@sbo_store(struct sbo *self, VX_TS_T ts)
//@LIFT @P@store
#endif
static void @P@sbo_dtor(struct sbo *self)
//@LIFT @P@dtor
#if @K@_HAS_MOVE_CTOR
static void @P@sbo_move_ctor(struct sbo *self, struct sbo *other)
{
  @P@sbo_nsdmi(self);
//@LIFT @P@move_ctor
}
#endif
