/* =============================== functions under contract =============================== */
#ifdef U_EMPTY
/* empty(): reports the representation ("default-constructed and moved-from wrappers report empty") */
//@FUNC_IF U_EMPTY
bool sbo_empty(const struct sbo *self)
__CPROVER_requires(WORLD_OK && WF(self))
__CPROVER_ensures(__CPROVER_return_value == EMPTY_REP(self))
__CPROVER_assigns(g_virtual_calls)
//@LIFT empty
#endif

#ifdef U_RELEASE
/* release(): PIKA_ASSERT(!empty()) is the caller's duty (re-proved at every lifted call site) */
//@FUNC_IF U_RELEASE
void sbo_release(struct sbo *self)
__CPROVER_requires(WORLD_OK && WF(self) && !EMPTY_REP(self))
__CPROVER_ensures(EMPTY_REP(self) && !__CPROVER_old(self->heap_storage)->vx_live && g_live == __CPROVER_old(g_live) - 1)
__CPROVER_assigns(self->heap_storage, self->object, POOL_FRAME)
//@LIFT release
#endif

#ifdef U_DEFAULT_CTOR
/* movable_sbo_storage() = default: the member initialisers alone */
//@FUNC_IF U_DEFAULT_CTOR
void sbo_default_ctor(struct sbo *self)
__CPROVER_requires(WORLD_OK)
__CPROVER_ensures(EMPTY_REP(self) && g_live == __CPROVER_old(g_live))
__CPROVER_assigns(self->heap_storage, self->object)
{
  sbo_nsdmi(self);
}
#endif

#ifdef U_RESET
//@FUNC_IF U_RESET
void sbo_reset(struct sbo *self)
__CPROVER_requires(WORLD_OK && WF(self) && g_foreign0 == FOREIGN1(self))
/* reset: -1 iff non-empty; afterwards empty */
__CPROVER_ensures(EMPTY_REP(self) && FOREIGN1(self) == g_foreign0)
__CPROVER_ensures(__CPROVER_old(self->heap_storage) != NULL ==> !__CPROVER_old(self->heap_storage)->vx_live)
__CPROVER_assigns(self->heap_storage, self->object, POOL_FRAME)
//@LIFT reset
#endif

#ifdef U_DTOR
//@FUNC_IF U_DTOR
void sbo_dtor(struct sbo *self)
__CPROVER_requires(WORLD_OK && WF(self) && g_foreign0 == FOREIGN1(self))
/* destructor: -1 iff non-empty (the storage itself is dead afterwards: only the ledger is observable) */
__CPROVER_ensures(g_live == g_foreign0)
__CPROVER_ensures(__CPROVER_old(self->heap_storage) != NULL ==> !__CPROVER_old(self->heap_storage)->vx_live)
__CPROVER_assigns(self->heap_storage, self->object, POOL_FRAME)
//@LIFT dtor
#endif

#ifdef U_STORE
//@FUNC_IF U_STORE
void sbo_store(struct sbo *self, int ts)
__CPROVER_requires(WORLD_OK && WF(self) && g_foreign0 == FOREIGN1(self))
/* store: previous content destroyed exactly once, then +1: afterwards it owns one NEW object built from ts */
__CPROVER_ensures(WF(self) && FOREIGN1(self) == g_foreign0)
__CPROVER_ensures(__CPROVER_old(self->heap_storage) != NULL ==> !__CPROVER_old(self->heap_storage)->vx_live)
__CPROVER_ensures(!vx_exc ==> (FULL_REP(self) && self->object == &g_pool[2] && self->object->sender == ts))
__CPROVER_assigns(self->heap_storage, self->object, POOL_FRAME)
//@LIFT store
#endif

/* move construction / assignment: the source becomes empty, the total is unchanged, the target owns THE SAME object
 * (not a copy), previous target content destroyed exactly once; self-assignment is a no-op */
#if defined(U_MOVE_CTOR) || defined(U_MOVE_CTOR_C)
//@FUNC_IF U_MOVE_CTOR U_MOVE_CTOR_C
void sbo_move_ctor(struct sbo *self, struct sbo *other)
__CPROVER_requires(WORLD_OK && WF(other) && self != other)
__CPROVER_ensures(WF(self) && WF(other) && DISJOINT(self, other))
__CPROVER_ensures(g_live == __CPROVER_old(g_live))
__CPROVER_ensures(EMPTY_REP(other) && self->heap_storage == __CPROVER_old(other->heap_storage))
__CPROVER_ensures(!vx_exc && !g_newed)
__CPROVER_assigns(self->heap_storage, self->object, other->heap_storage, other->object, POOL_FRAME)
{
  sbo_nsdmi(self);
//@LIFT move_ctor
}
#endif

#if defined(U_MOVE_ASSIGN) || defined(U_MOVE_ASSIGN_C)
//@FUNC_IF U_MOVE_ASSIGN U_MOVE_ASSIGN_C
struct sbo *sbo_op_move(struct sbo *self, struct sbo *other)
__CPROVER_requires(WORLD_OK && WF(self) && WF(other) && DISJOINT(self, other) && g_foreign0 == FOREIGN2(self, other))
__CPROVER_ensures(WF(self) && WF(other) && DISJOINT(self, other))
__CPROVER_ensures(FOREIGN2(self, other) == g_foreign0)
__CPROVER_ensures(other != self ==> (EMPTY_REP(other) && self->heap_storage == __CPROVER_old(other->heap_storage)))
__CPROVER_ensures(other == self ==> (self->heap_storage == __CPROVER_old(self->heap_storage) && self->object == __CPROVER_old(self->object)))
__CPROVER_ensures(!vx_exc && !g_newed)
__CPROVER_ensures(other != self && __CPROVER_old(self->heap_storage) != NULL ==> !__CPROVER_old(self->heap_storage)->vx_live)
__CPROVER_ensures(__CPROVER_return_value == self)
__CPROVER_assigns(self->heap_storage, self->object, other->heap_storage, other->object, POOL_FRAME)
//@LIFT op_move
#endif

/* copy construction / assignment: +1 clone (a NEW object carrying the source's payload), the source keeps its own
 * object, previous target content destroyed exactly once; self-assignment is a no-op; if the clone throws nothing leaks */
#ifdef U_COPY_CTOR
//@FUNC_IF U_COPY_CTOR
void sbo_copy_ctor(struct sbo *self, const struct sbo *other)
__CPROVER_requires(WORLD_OK && WF(other) && self != other)
__CPROVER_ensures(WF(self) && WF(other) && DISJOINT(self, other))
__CPROVER_ensures(g_live - OWNS(self) == __CPROVER_old(g_live))
__CPROVER_ensures(!vx_exc ==> (OWNS(self) == OWNS(other) && (OWNS(other) == 1 ==> (self->object == &g_pool[2] && self->object->sender == other->object->sender))))
__CPROVER_assigns(self->heap_storage, self->object, POOL_FRAME)
{
  sbo_nsdmi(self); /* mem-initialiser `storage_base_type()` */
//@LIFT copy_ctor
}
#endif

#ifdef U_COPY_ASSIGN
//@FUNC_IF U_COPY_ASSIGN
struct sbo *sbo_op_copy(struct sbo *self, const struct sbo *other)
__CPROVER_requires(WORLD_OK && WF(self) && WF(other) && DISJOINT(self, other) && g_foreign0 == FOREIGN2(self, other))
__CPROVER_ensures(WF(self) && WF(other) && DISJOINT(self, other))
__CPROVER_ensures(FOREIGN2(self, other) == g_foreign0)
__CPROVER_ensures(other != self && __CPROVER_old(self->heap_storage) != NULL ==> !__CPROVER_old(self->heap_storage)->vx_live)
__CPROVER_ensures(other != self && !vx_exc ==> (OWNS(self) == OWNS(other) && (OWNS(other) == 1 ==> (self->object == &g_pool[2] && self->object->sender == other->object->sender))))
__CPROVER_ensures(other == self ==> (self->heap_storage == __CPROVER_old(self->heap_storage) && self->object == __CPROVER_old(self->object) && !vx_exc && !g_newed))
__CPROVER_ensures(__CPROVER_return_value == self || vx_exc)
__CPROVER_assigns(self->heap_storage, self->object, POOL_FRAME)
//@LIFT op_copy
#endif

/* ======================================= harness ======================================= */
static struct base g_garbage;
static struct base *pick(int k)
{
  return k == 0 ? NULL : k == 1 ? &g_empty_obj : k == 2 ? &g_pool[0] : k == 3 ? &g_pool[1] : k == 4 ? &g_pool[2] : &g_garbage;
}

void harness(void)
{
  struct sbo a, b;
  /* the world: everything explicit (dfcc havocs statics) */
  g_empty_obj.vx_kind = VX_EMPTY_VT; g_empty_obj.vx_live = false; g_empty_obj.sender = 0;
  g_garbage.vx_kind = nondet_int(); g_garbage.vx_live = nondet_bool(); g_garbage.sender = nondet_int();
  g_pool[0].vx_kind = VX_IMPL; g_pool[0].vx_live = nondet_bool(); g_pool[0].sender = nondet_int();
  g_pool[1].vx_kind = VX_IMPL; g_pool[1].vx_live = nondet_bool(); g_pool[1].sender = nondet_int();
  g_pool[2].vx_kind = nondet_int(); g_pool[2].vx_live = false; g_pool[2].sender = nondet_int();
  g_live = nondet_long();
  g_newed = false;
  vx_exc = false;
  g_virtual_calls = 0;
  g_foreign0 = nondet_long(); /* pinned by the preconditions to the number of live objects nobody in this operation owns */
  /* two storages in arbitrary representation states (the preconditions keep the well-formed ones) */
  a.heap_storage = pick(nondet_int()); a.object = pick(nondet_int());
  b.heap_storage = pick(nondet_int()); b.object = pick(nondet_int());
  struct sbo *other = nondet_bool() ? &a : &b;
  bool a_was_full = a.heap_storage != NULL;
  bool o_was_full = other->heap_storage != NULL;
  (void) a_was_full; (void) o_was_full;
#ifdef U_EMPTY
  if (sbo_empty(&a)) VX_REACH("empty"); else VX_REACH("non_empty");
#endif
#ifdef U_RELEASE
  sbo_release(&a);
  VX_REACH("released");
#endif
#ifdef U_DEFAULT_CTOR
  sbo_default_ctor(&a);
  VX_REACH("constructed");
#endif
#ifdef U_RESET
  sbo_reset(&a);
  if (a_was_full) VX_REACH("was_full"); else VX_REACH("was_empty");
#endif
#ifdef U_DTOR
  sbo_dtor(&a);
  if (a_was_full) VX_REACH("was_full"); else VX_REACH("was_empty");
#endif
#ifdef U_STORE
  sbo_store(&a, nondet_int());
  if (vx_exc) VX_REACH("ctor_threw");
  else if (a_was_full) VX_REACH("replaced"); else VX_REACH("stored_into_empty");
#endif
#if defined(U_MOVE_CTOR) || defined(U_MOVE_CTOR_C)
  sbo_move_ctor(&a, other);
  if (o_was_full) VX_REACH("moved_full"); else VX_REACH("moved_empty");
#endif
#if defined(U_MOVE_ASSIGN) || defined(U_MOVE_ASSIGN_C)
  sbo_op_move(&a, other);
  if (other == &a) VX_REACH("self_assignment");
  else if (a_was_full && o_was_full) VX_REACH("full_to_full");
  else if (a_was_full) VX_REACH("empty_to_full");
  else if (o_was_full) VX_REACH("full_to_empty");
  else VX_REACH("empty_to_empty");
#endif
#ifdef U_COPY_CTOR
  sbo_copy_ctor(&a, other);
  if (vx_exc) VX_REACH("clone_threw");
  else if (o_was_full) VX_REACH("copied_full"); else VX_REACH("copied_empty");
#endif
#ifdef U_COPY_ASSIGN
  sbo_op_copy(&a, other);
  if (other == &a) VX_REACH("self_assignment");
  else if (vx_exc) VX_REACH("clone_threw");
  else if (a_was_full && o_was_full) VX_REACH("full_to_full");
  else if (a_was_full) VX_REACH("empty_to_full");
  else if (o_was_full) VX_REACH("full_to_empty");
  else VX_REACH("empty_to_empty");
#endif
}
