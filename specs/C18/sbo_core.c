/* C18 unit group 1 -- movable_sbo_storage<Base,..> / copyable_sbo_storage<Base,..>: I-contracts (representation
 * invariant WF + ledger of live contained objects + full frame) for every public operation.
 * All function bodies below come from the lifter; the helpers (empty/get/release/reset_vtable/move_assign/copy_assign)
 * are used as lifted BODIES by the operation under contract (no callee contract in between).
 * A C++ reference parameter `T& other` is the C pointer `other`; `*this` is `self`. */
#include "sbo.h"

/* ---- the virtual functions of Base that the storage calls: real bodies, dispatch on the dynamic type by hand ---- */
static bool impl_empty(const struct base *self)      /* Base::empty() (inherited by every Impl) */
//@LIFT vbase_empty
static bool emptyvt_empty(const struct base *self)   /* empty_vtable_t<Base>::empty() */
//@LIFT vempty_empty
static bool base_empty(const struct base *b)
{
  vx_virtual_call(b);
  return b->vx_kind == VX_EMPTY_VT ? emptyvt_empty(b) : impl_empty(b);
}
#ifdef HAS_COPY
static struct base *impl_clone(const struct base *self)     /* any_sender_impl<Sender, Ts...>::clone() */
//@LIFT vimpl_clone
static struct base *emptyvt_clone(const struct base *self)  /* empty_any_sender<Ts...>::clone() */
//@LIFT vempty_clone
static struct base *base_clone(const struct base *b)
{
  vx_virtual_call(b);
  return b->vx_kind == VX_EMPTY_VT ? emptyvt_clone(b) : impl_clone(b);
}
#endif

/* ---- default member initialisers (run by every constructor before its body) ---- */
static void sbo_nsdmi(struct sbo *self)
{
//@LIFT init_heap_storage
//@LIFT init_object
}

/* ---- protected/private helpers ---- */
static bool sbo_empty(const struct sbo *self);
static void sbo_release(struct sbo *self);
static const struct base *sbo_get_c(const struct sbo *self)
//@LIFT get_c
static struct base *sbo_get(struct sbo *self)
//@LIFT get
static void sbo_reset_vtable(struct sbo *self)
//@LIFT reset_vtable
static void sbo_move_assign(struct sbo *self, struct sbo *other)
//@LIFT move_assign
#ifdef HAS_MOVE_FROM_COPYABLE
static void sbo_move_assign_c(struct sbo *self, struct sbo *other)
//@LIFT move_assign_c
#endif
#ifdef HAS_COPY
static void sbo_copy_assign(struct sbo *self, const struct sbo *other)
//@LIFT copy_assign
#endif

#ifndef U_EMPTY
static bool sbo_empty(const struct sbo *self)
//@LIFT empty
#endif
#ifndef U_RELEASE
static void sbo_release(struct sbo *self)
//@LIFT release
#endif

