/* C18 extension "fwd": declarations that the lifted bodies in sbo_core.c already need (this file precedes sbo_core.c in the
 * generated per-unit template) */
#include "sbo.h"
#define VX_MOVED_FROM (-1)                     /* token of a sender object that has been moved from */
/* value categories.  A function parameter `Sender_&& sender` is a struct sender_arg {token, moved}: `moved` says that the
 * argument was an rvalue, i.e. std::forward<Sender_>(sender) is an rvalue and constructing from it MOVES.
 *   std::forward<S>(x)      -> x                     (category kept; rule FWD)
 *   std::move(x), x a parameter  -> vx_as_rvalue(x)  (category forced to rvalue)
 *   std::move(m) / m, m the data member `sender` of an Impl -> VX_MOVED(self->m) / VX_COPIED(self->m) */
static struct sender_arg vx_as_rvalue(struct sender_arg a) { a.moved = true; return a; }
static struct sender_arg vx_moved(int *x) { struct sender_arg a; a.token = *x; a.moved = true; *x = VX_MOVED_FROM; return a; }
static struct sender_arg vx_copied(const int *x) { struct sender_arg a; a.token = *x; a.moved = false; return a; }
#define VX_MOVED(x) vx_moved(&(x))
#define VX_COPIED(x) vx_copied(&(x))
static struct conn_args vx_ts(struct sender_arg s) { struct conn_args a; a.sender = s; a.receiver.receiver = NULL; return a; }

