
/* ===================================================================================================================
 * C18 extension "fwd" -- the parts of any_sender.hpp that specs/C18/spec.py left as hand-written stubs or undecided:
 *   - the constructors of unique_any_sender_impl / any_sender_impl (the object `new Impl(..)` really builds), clone(),
 *     and the relocation functions move_into / clone_into (only called in the SBO configuration),
 *   - the whole chain wrapper(Sender&&) / operator=(Sender&&) / copy -> store -> new Impl -> Impl constructor: the wrapped
 *     sender is constructed exactly once, from the given sender, with the given value category (object ledger of the
 *     WRAPPED object, not only of the Impl box around it),
 *   - [unique_]any_sender::reset(Sender&&) (both `if constexpr` arms),
 *   - make_unique_any_sender / make_any_sender / detail::make_any_sender_impl.
 * Generated per-unit template gen/fwd.<unit>.c = fwd_pre.c (value-category helpers the lifted bodies need) + sbo_core.c (the
 * storage helpers, lifted) + this file; always built with -DVX_CUSTOM_IMPL_CTOR: sbo.h then leaves the Impl constructor to this file (lifted below).
 * =================================================================================================================== */
#ifndef VX_CUSTOM_IMPL_CTOR
#error "fwd units lift the Impl constructor: build with -DVX_CUSTOM_IMPL_CTOR"
#endif

/* ---- the storage operations as plain lifted bodies (their own contracts are the sbo.* units) ---- */
static void sbo_store(struct sbo *self, VX_TS_T ts)
//@LIFT store
static void sbo_reset(struct sbo *self)
//@LIFT reset
static void sbo_dtor(struct sbo *self)
//@LIFT dtor
static void sbo_move_ctor(struct sbo *self, struct sbo *other)
{
  sbo_nsdmi(self);
//@LIFT move_ctor
}
static struct sbo *sbo_op_move(struct sbo *self, struct sbo *other)
//@LIFT op_move
#ifdef HAS_COPY
static struct sbo *sbo_op_copy(struct sbo *self, const struct sbo *other)
//@LIFT op_copy
#endif

/* ---- C shapes ---- */
struct any_sender_w { struct sbo storage; };   /* unique_any_sender<Ts...> / any_sender<Ts...>: one data member `storage` */
#define VX_CLS_unique_any_sender 1
#define VX_CLS_any_sender 2
#ifdef HAS_COPY
#define VX_THIS_CLS VX_CLS_any_sender
#else
#define VX_THIS_CLS VX_CLS_unique_any_sender
#endif

/* ---- T-stub: the copy / move constructor of the wrapped sender type std::decay_t<Sender> (opaque; may throw) ---- */
static int g_sctor;          /* number of wrapped-sender objects constructed in this operation (saturating) */
static int g_sctor_from;     /* ... from which sender (token) */
static bool g_sctor_moved;   /* ... by move (true) or by copy (false) */
static int *g_sctor_where;   /* ... where (which `sender` data member) */
static int g_pay0;           /* ghost snapshot: payload of the source object before the operation */
#define SCTOR_FRAME g_sctor, g_sctor_from, g_sctor_moved, g_sctor_where
static void vx_sender_construct(int *where, struct sender_arg from)
{
  if (g_sctor < 2) g_sctor++;
  g_sctor_from = from.token;
  g_sctor_moved = from.moved;
  g_sctor_where = where;
  if (nondet_bool()) { vx_exc = true; return; }   /* the user's constructor throws: nothing constructed */
  *where = from.token;
}
/* mem-initialiser `member(expr)` of a constructor: construct the member from expr; an exception leaves the constructor */
#define VX_MEMBER_INIT(m, from) { vx_sender_construct(&(m), (from)); if (vx_exc) return; }

/* ---- the Impl types: unique_any_sender_impl<Sender, Ts...> / any_sender_impl<Sender, Ts...> ---- */
#ifdef U_IMPL_CTOR
/* Impl(Sender_&& sender): the wrapped sender is constructed exactly once, in the Impl's own `sender` member, from the given
 * sender and with the given value category (an lvalue argument is copied, never moved from) */
//@FUNC_IF U_IMPL_CTOR
void impl_ctor(struct base *self, struct sender_arg sender)
__CPROVER_requires(!vx_exc && g_sctor == 0 && sender.token != VX_MOVED_FROM)
__CPROVER_ensures(g_sctor == 1 && g_sctor_from == sender.token && g_sctor_moved == sender.moved && g_sctor_where == &self->sender)
__CPROVER_ensures(!vx_exc ==> self->sender == sender.token)
__CPROVER_assigns(self->sender, vx_exc, SCTOR_FRAME)
//@LIFT impl_ctor
#else
static void impl_ctor(struct base *self, struct sender_arg sender)
//@LIFT impl_ctor
#endif
/* what sbo.h's `new Impl(ts...)` runs as the constructor */
static void vx_impl_ctor(struct base *obj, VX_TS_T ts) { impl_ctor(obj, ts.sender); }

#ifdef G_RELOCATE
/* placement new `new (p) Impl(args)`: p is raw storage (the embedded buffer of the target storage); trusted C++ run time */
static int g_placed; static struct base *g_placed_at;
static void impl_placement_new(void *p, struct sender_arg s)
{
  struct base *o = (struct base *) p;
  VX_ASSERT(o == &g_pool[2], "placement new into something that is not the designated raw storage");
  VX_ASSERT(!o->vx_live, "placement new over a live object");
  if (g_placed < 2) g_placed++;
  g_placed_at = o;
  o->vx_kind = VX_IMPL;
  impl_ctor(o, s);
  if (vx_exc) return;
  o->vx_live = true;
  g_live++;
}
#define RELOC_PRE (WORLD_OK && IN_POOL(self) && self != &g_pool[2] && self->vx_live && self->vx_kind == VX_IMPL && \
                   self->sender != VX_MOVED_FROM && g_pay0 == self->sender && g_sctor == 0 && g_placed == 0 && p == (void *) &g_pool[2])
#ifdef U_MOVE_INTO
/* move_into(p): exactly one new Impl at p whose sender is MOVE-constructed from the stored one; the source object stays
 * alive (moved-from; destroying it is the caller's business) */
//@FUNC_IF U_MOVE_INTO
void impl_move_into(struct base *self, void *p)
__CPROVER_requires(RELOC_PRE)
__CPROVER_ensures(g_placed == 1 && g_placed_at == &g_pool[2] && g_sctor == 1 && g_sctor_moved && g_sctor_from == g_pay0 && g_sctor_where == &g_pool[2].sender)
__CPROVER_ensures(self->vx_live)
__CPROVER_ensures(!vx_exc ==> (g_pool[2].vx_live && g_pool[2].sender == g_pay0 && g_live == __CPROVER_old(g_live) + 1))
__CPROVER_ensures(vx_exc ==> (!g_pool[2].vx_live && g_live == __CPROVER_old(g_live)))
__CPROVER_assigns(self->sender, POOL_FRAME, SCTOR_FRAME, g_placed, g_placed_at)
//@LIFT move_into
#endif
#ifdef U_CLONE_INTO
/* clone_into(p): exactly one new Impl at p whose sender is COPY-constructed from the stored one; the source is untouched */
//@FUNC_IF U_CLONE_INTO
void impl_clone_into(const struct base *self, void *p)
__CPROVER_requires(RELOC_PRE)
__CPROVER_ensures(g_placed == 1 && g_placed_at == &g_pool[2] && g_sctor == 1 && !g_sctor_moved && g_sctor_from == g_pay0 && g_sctor_where == &g_pool[2].sender)
__CPROVER_ensures(self->vx_live && self->sender == g_pay0)
__CPROVER_ensures(!vx_exc ==> (g_pool[2].vx_live && g_pool[2].sender == g_pay0 && g_live == __CPROVER_old(g_live) + 1))
__CPROVER_ensures(vx_exc ==> (!g_pool[2].vx_live && g_live == __CPROVER_old(g_live)))
__CPROVER_assigns(POOL_FRAME, SCTOR_FRAME, g_placed, g_placed_at)
//@LIFT clone_into
#endif
#endif

#ifdef U_CLONE
/* any_sender_impl::clone(): exactly one new heap Impl whose sender is COPY-constructed from the stored one; the source is
 * untouched ("copies of a copyable wrapper are independent"); if the copy throws nothing is leaked */
//@FUNC_IF U_CLONE
struct base *impl_clone_real(const struct base *self)
__CPROVER_requires(WORLD_OK && IN_POOL(self) && self != &g_pool[2] && self->vx_live && self->vx_kind == VX_IMPL && self->sender != VX_MOVED_FROM && g_pay0 == self->sender && g_sctor == 0)
__CPROVER_ensures(g_sctor == 1 && !g_sctor_moved && g_sctor_from == g_pay0 && g_sctor_where == &g_pool[2].sender)
__CPROVER_ensures(self->vx_live && self->sender == g_pay0)
__CPROVER_ensures(!vx_exc ==> (__CPROVER_return_value == &g_pool[2] && g_pool[2].vx_live && g_pool[2].vx_kind == VX_IMPL && g_pool[2].sender == g_pay0 && g_live == __CPROVER_old(g_live) + 1))
__CPROVER_ensures(vx_exc ==> (!g_pool[2].vx_live && g_live == __CPROVER_old(g_live)))
__CPROVER_assigns(POOL_FRAME, SCTOR_FRAME)
{
  return impl_clone(self);   /* the lifted body (sbo_core.c, key vimpl_clone) */
}
#endif

/* =============================================== wrappers =============================================== */
#define FULL_OLD(s) ((s)->heap_storage != NULL)

#ifdef U_WRAP_CTOR
/* [unique_]any_sender(Sender&& sender): ONE wrapped-sender object is constructed, from `sender`, moved iff `sender` was
 * an rvalue; it lives in the one new contained object; if its constructor throws nothing is leaked */
//@FUNC_IF U_WRAP_CTOR
void as_from_sender_ctor(struct any_sender_w *self, struct sender_arg sender)
__CPROVER_requires(WORLD_OK && g_sctor == 0 && sender.token != VX_MOVED_FROM)
__CPROVER_ensures(g_sctor == 1 && g_sctor_from == sender.token && g_sctor_moved == sender.moved && g_sctor_where == &g_pool[2].sender)
__CPROVER_ensures(WF(&self->storage) && g_live - OWNS(&self->storage) == __CPROVER_old(g_live))
__CPROVER_ensures(!vx_exc ==> (FULL_REP(&self->storage) && self->storage.object == &g_pool[2] && self->storage.object->sender == sender.token))
__CPROVER_assigns(self->storage.heap_storage, self->storage.object, POOL_FRAME, SCTOR_FRAME)
{
  sbo_nsdmi(&self->storage); /* member `storage_type storage{}` */
//@LIFT wrap_ctor
}
#endif

#ifdef U_WRAP_ASSIGN
/* operator=(Sender&& sender): as the constructor; the previous content is destroyed exactly once */
//@FUNC_IF U_WRAP_ASSIGN
struct any_sender_w *as_from_sender_assign(struct any_sender_w *self, struct sender_arg sender)
__CPROVER_requires(WORLD_OK && WF(&self->storage) && g_foreign0 == FOREIGN1(&self->storage) && g_sctor == 0 && sender.token != VX_MOVED_FROM)
__CPROVER_ensures(g_sctor == 1 && g_sctor_from == sender.token && g_sctor_moved == sender.moved && g_sctor_where == &g_pool[2].sender)
__CPROVER_ensures(WF(&self->storage) && FOREIGN1(&self->storage) == g_foreign0)
__CPROVER_ensures(__CPROVER_old(self->storage.heap_storage) != NULL ==> !__CPROVER_old(self->storage.heap_storage)->vx_live)
__CPROVER_ensures(!vx_exc ==> (FULL_REP(&self->storage) && self->storage.object == &g_pool[2] && self->storage.object->sender == sender.token && __CPROVER_return_value == self))
__CPROVER_assigns(self->storage.heap_storage, self->storage.object, POOL_FRAME, SCTOR_FRAME)
//@LIFT wrap_assign
#endif

#ifdef U_COPY_FULL
/* copy construction of an any_sender (defaulted: copy construction of its storage): a non-empty source is cloned -- ONE
 * wrapped-sender object is COPY-constructed from the source's, the source keeps its own object and payload, the copy
 * owns a different object; an empty source gives an empty copy and constructs nothing */
//@FUNC_IF U_COPY_FULL
void sbo_copy_ctor(struct sbo *self, const struct sbo *other)
__CPROVER_requires(WORLD_OK && WF(other) && self != other && g_sctor == 0)
__CPROVER_requires(FULL_REP(other) ==> (other->object != &g_pool[2] && other->object->sender != VX_MOVED_FROM && g_pay0 == other->object->sender))
__CPROVER_ensures(WF(self) && WF(other) && DISJOINT(self, other) && g_live - OWNS(self) == __CPROVER_old(g_live))
__CPROVER_ensures(other->heap_storage == __CPROVER_old(other->heap_storage) && other->object == __CPROVER_old(other->object))
__CPROVER_ensures(g_sctor == OWNS(other))
__CPROVER_ensures(OWNS(other) == 1 ==> (!g_sctor_moved && g_sctor_from == g_pay0 && g_sctor_where == &g_pool[2].sender && other->object->sender == g_pay0))
__CPROVER_ensures(!vx_exc ==> (OWNS(self) == OWNS(other) && (OWNS(other) == 1 ==> (self->object == &g_pool[2] && self->object->sender == g_pay0))))
__CPROVER_assigns(self->heap_storage, self->object, POOL_FRAME, SCTOR_FRAME)
{
  sbo_nsdmi(self); /* mem-initialiser `storage_base_type()` */
//@LIFT copy_ctor
}
#endif

#ifdef U_RESET_SENDER
/* reset(Sender&& sender).  `sender` is either another wrapper of the same class (first `if constexpr` arm: plain
 * assignment) or any other sender (second arm: stored like operator=(Sender&&)). */
struct reset_arg { bool is_wrapper; struct any_sender_w *wrapper; bool rvalue; struct sender_arg sender; };
/* std::is_same_v<std::decay_t<Sender>, cls>: Sender is this wrapper class itself */
#define VX_SENDER_IS(cls, s) ((s).is_wrapper && VX_CLS_##cls == VX_THIS_CLS)
/* std::move(sender) on the parameter: whatever it is, it is passed on as an rvalue */
static struct reset_arg vx_arg_as_rvalue(struct reset_arg a) { a.rvalue = true; a.sender.moved = true; return a; }
/* `*this = std::forward<Sender>(sender)` with Sender = the wrapper class: its DEFAULTED move / copy assignment operator,
 * i.e. member-wise assignment of the one data member `storage` (census facts in fwd_spec.py); trusted C++ semantics, the
 * storage operators themselves are the lifted bodies */
static void vx_wrapper_assign(struct any_sender_w *self, struct reset_arg a)
{
  VX_ASSERT(a.is_wrapper, "wrapper assignment selected for something that is not a wrapper");
  if (a.rvalue) sbo_op_move(&self->storage, &a.wrapper->storage);
  else
  {
#ifdef HAS_COPY
    sbo_op_copy(&self->storage, &a.wrapper->storage);
#else
    VX_ASSERT(0, "unique_any_sender is not copy-assignable");
#endif
  }
}
#define W(a) (&(a).wrapper->storage)
#define RS_SELF (&self->storage)
//@FUNC_IF U_RESET_SENDER
void as_reset_sender(struct any_sender_w *self, struct reset_arg sender)
__CPROVER_requires(WORLD_OK && WF(RS_SELF) && g_sctor == 0)
__CPROVER_requires(sender.is_wrapper ==> (WF(W(sender)) && DISJOINT(RS_SELF, W(sender)) && g_foreign0 == FOREIGN2(RS_SELF, W(sender))))
__CPROVER_requires(sender.is_wrapper && FULL_REP(W(sender)) ==> (W(sender)->object->sender != VX_MOVED_FROM && g_pay0 == W(sender)->object->sender))
__CPROVER_requires(!sender.is_wrapper ==> (g_foreign0 == FOREIGN1(RS_SELF) && sender.sender.token != VX_MOVED_FROM))
#ifndef HAS_COPY
__CPROVER_requires(sender.is_wrapper ==> sender.rvalue)   /* reset(unique_any_sender&) does not compile: copy assignment is deleted */
#endif
/* always: representation invariant, previous content destroyed exactly once (unless self-assignment), nothing leaked */
__CPROVER_ensures(WF(RS_SELF))
__CPROVER_ensures(sender.is_wrapper ==> (WF(W(sender)) && DISJOINT(RS_SELF, W(sender)) && FOREIGN2(RS_SELF, W(sender)) == g_foreign0))
__CPROVER_ensures(!sender.is_wrapper ==> FOREIGN1(RS_SELF) == g_foreign0)
__CPROVER_ensures(!(sender.is_wrapper && sender.wrapper == self) && __CPROVER_old(self->storage.heap_storage) != NULL ==> !__CPROVER_old(self->storage.heap_storage)->vx_live)
/* a wrapper rvalue: *this takes over THE SAME object (no sender is constructed), the argument is empty afterwards */
__CPROVER_ensures(sender.is_wrapper && sender.rvalue && sender.wrapper != self ==> (EMPTY_REP(W(sender)) && self->storage.heap_storage == __CPROVER_old(sender.wrapper->storage.heap_storage) && g_sctor == 0 && !vx_exc))
/* the wrapper itself: no-op */
__CPROVER_ensures(sender.is_wrapper && sender.wrapper == self ==> (self->storage.heap_storage == __CPROVER_old(self->storage.heap_storage) && self->storage.object == __CPROVER_old(self->storage.object) && g_sctor == 0 && !vx_exc))
/* a wrapper lvalue (any_sender only): an independent copy; the argument keeps its object and payload */
__CPROVER_ensures(sender.is_wrapper && !sender.rvalue && sender.wrapper != self ==> (g_sctor == OWNS(W(sender)) && W(sender)->object == __CPROVER_old(sender.wrapper->storage.object)))
__CPROVER_ensures(sender.is_wrapper && !sender.rvalue && sender.wrapper != self && OWNS(W(sender)) == 1 ==> (!g_sctor_moved && g_sctor_from == g_pay0 && W(sender)->object->sender == g_pay0))
__CPROVER_ensures(sender.is_wrapper && !sender.rvalue && sender.wrapper != self && !vx_exc ==> (OWNS(RS_SELF) == OWNS(W(sender)) && (OWNS(W(sender)) == 1 ==> (self->storage.object == &g_pool[2] && self->storage.object->sender == g_pay0))))
/* any other sender: exactly one wrapped-sender object is constructed from it (moved iff rvalue) in one new contained object */
__CPROVER_ensures(!sender.is_wrapper ==> (g_sctor == 1 && g_sctor_from == sender.sender.token && g_sctor_moved == sender.sender.moved && g_sctor_where == &g_pool[2].sender))
__CPROVER_ensures(!sender.is_wrapper && !vx_exc ==> (FULL_REP(RS_SELF) && self->storage.object == &g_pool[2] && self->storage.object->sender == sender.sender.token))
__CPROVER_assigns(self->storage.heap_storage, self->storage.object, sender.wrapper->storage.heap_storage, sender.wrapper->storage.object, POOL_FRAME, SCTOR_FRAME)
//@LIFT reset_sender
#endif

/* =============================================== factories =============================================== */
#ifdef G_MAKE
/* T-stub: the converting constructor AnySender<Ts...>(Sender&&) of the selected wrapper class (its own contract: U_WRAP_CTOR) */
static int g_wctor; static int g_wctor_cls; static int g_wctor_token; static bool g_wctor_moved;
#define MAKE_FRAME g_wctor, g_wctor_cls, g_wctor_token, g_wctor_moved, vx_exc
static int wrapper_ctor(int cls, struct sender_arg s)
{
  if (g_wctor < 2) g_wctor++;
  g_wctor_cls = cls;
  g_wctor_token = s.token;
  g_wctor_moved = s.moved;
  if (nondet_bool()) vx_exc = true;   /* the wrapped sender's constructor may throw */
  return cls;
}
static int make_any_sender_impl(int AnySender, struct sender_arg sender)   /* detail::make_any_sender_impl<AnySender>(Sender&&) */
//@LIFT make_impl
/* make_unique_any_sender(s) / make_any_sender(s): exactly one wrapper of the class the name promises is constructed, from s,
 * with s's value category (an lvalue is copied into the wrapper, never moved from) */
#ifdef U_MAKE_UNIQUE
//@FUNC_IF U_MAKE_UNIQUE
int make_unique_any_sender(struct sender_arg sender)
__CPROVER_requires(!vx_exc && g_wctor == 0)
__CPROVER_ensures(g_wctor == 1 && g_wctor_cls == VX_CLS_unique_any_sender && g_wctor_token == sender.token && g_wctor_moved == sender.moved)
__CPROVER_ensures(!vx_exc ==> __CPROVER_return_value == VX_CLS_unique_any_sender)
__CPROVER_assigns(MAKE_FRAME)
//@LIFT make_unique
#endif
#ifdef U_MAKE_ANY
//@FUNC_IF U_MAKE_ANY
int make_any_sender(struct sender_arg sender)
__CPROVER_requires(!vx_exc && g_wctor == 0)
__CPROVER_ensures(g_wctor == 1 && g_wctor_cls == VX_CLS_any_sender && g_wctor_token == sender.token && g_wctor_moved == sender.moved)
__CPROVER_ensures(!vx_exc ==> __CPROVER_return_value == VX_CLS_any_sender)
__CPROVER_assigns(MAKE_FRAME)
//@LIFT make_any
#endif
#endif

/* ==================================================== harness ==================================================== */
static struct base g_garbage;
static struct base *pick(int k)
{
  return k == 0 ? NULL : k == 1 ? &g_empty_obj : k == 2 ? &g_pool[0] : k == 3 ? &g_pool[1] : k == 4 ? &g_pool[2] : &g_garbage;
}

void harness(void)
{
  struct any_sender_w a, b;
  struct sender_arg sa;
  g_empty_obj.vx_kind = VX_EMPTY_VT; g_empty_obj.vx_live = false; g_empty_obj.sender = 0;
  g_garbage.vx_kind = nondet_int(); g_garbage.vx_live = nondet_bool(); g_garbage.sender = nondet_int();
  g_pool[0].vx_kind = VX_IMPL; g_pool[0].vx_live = nondet_bool(); g_pool[0].sender = nondet_int();
  g_pool[1].vx_kind = VX_IMPL; g_pool[1].vx_live = nondet_bool(); g_pool[1].sender = nondet_int();
  g_pool[2].vx_kind = nondet_int(); g_pool[2].vx_live = false; g_pool[2].sender = nondet_int();
  g_live = nondet_long();
  g_newed = false;
  vx_exc = false;
  g_virtual_calls = 0;
  g_foreign0 = nondet_long();
  g_pay0 = nondet_int();
  g_sctor = 0; g_sctor_from = 0; g_sctor_moved = false; g_sctor_where = NULL;
  a.storage.heap_storage = pick(nondet_int()); a.storage.object = pick(nondet_int());
  b.storage.heap_storage = pick(nondet_int()); b.storage.object = pick(nondet_int());
  sa.token = nondet_int(); sa.moved = nondet_bool();
  bool a_full = a.storage.heap_storage != NULL, b_full = b.storage.heap_storage != NULL;
  (void) a_full; (void) b_full;
#ifdef U_IMPL_CTOR
  struct base obj;
  obj.vx_kind = VX_IMPL; obj.vx_live = false; obj.sender = nondet_int();
  impl_ctor(&obj, sa);
  if (vx_exc) VX_REACH("sender_ctor_threw"); else if (sa.moved) VX_REACH("constructed_by_move"); else VX_REACH("constructed_by_copy");
#endif
#ifdef G_RELOCATE
  g_placed = 0; g_placed_at = NULL;
  struct base *src = pick(nondet_int());
#ifdef U_MOVE_INTO
  impl_move_into(src, &g_pool[2]);
#else
  impl_clone_into(src, &g_pool[2]);
#endif
  if (vx_exc) VX_REACH("sender_ctor_threw"); else VX_REACH("relocated");
#endif
#ifdef U_CLONE
  struct base *src = pick(nondet_int());
  struct base *cl = impl_clone_real(src);
  if (vx_exc) VX_REACH("sender_copy_threw"); else VX_REACH("cloned");
  (void) cl;
#endif
#ifdef U_WRAP_CTOR
  as_from_sender_ctor(&a, sa);
  if (vx_exc) VX_REACH("sender_ctor_threw"); else if (sa.moved) VX_REACH("wrapped_by_move"); else VX_REACH("wrapped_by_copy");
#endif
#ifdef U_WRAP_ASSIGN
  as_from_sender_assign(&a, sa);
  if (vx_exc) VX_REACH("sender_ctor_threw"); else if (a_full) VX_REACH("replaced"); else VX_REACH("assigned_into_empty");
#endif
#ifdef U_COPY_FULL
  sbo_copy_ctor(&a.storage, &b.storage);
  if (vx_exc) VX_REACH("sender_copy_threw"); else if (b_full) VX_REACH("copied_full"); else VX_REACH("copied_empty");
#endif
#ifdef U_RESET_SENDER
  struct reset_arg ra;
  ra.is_wrapper = nondet_bool();
  ra.wrapper = nondet_bool() ? &a : &b;
  ra.rvalue = nondet_bool();
  ra.sender = sa;
  as_reset_sender(&a, ra);
  if (!ra.is_wrapper) { if (vx_exc) VX_REACH("sender_ctor_threw"); else if (a_full) VX_REACH("sender_replaced"); else VX_REACH("sender_into_empty"); }
  else if (ra.wrapper == &a) VX_REACH("self");
  else if (ra.rvalue) { if (a_full && b_full) VX_REACH("moved_full_to_full"); else if (b_full) VX_REACH("moved_full_to_empty"); else if (a_full) VX_REACH("moved_empty_to_full"); else VX_REACH("moved_empty_to_empty"); }
#ifdef HAS_COPY
  else { if (vx_exc) VX_REACH("copy_threw"); else if (b_full) VX_REACH("copied_full"); else VX_REACH("copied_empty"); }
#endif
#endif
#ifdef G_MAKE
  g_wctor = 0; g_wctor_cls = 0; g_wctor_token = 0; g_wctor_moved = false;
#ifdef U_MAKE_UNIQUE
  make_unique_any_sender(sa);
#else
  make_any_sender(sa);
#endif
  if (vx_exc) VX_REACH("wrapper_ctor_threw"); else if (sa.moved) VX_REACH("made_from_rvalue"); else VX_REACH("made_from_lvalue");
#endif
}
