/* C18 extension "fwd" -- END-TO-END unit: a client program  `auto op = connect(std::move(w) | w, r); start(op); ~op; ~w`  run
 * over the LIFTED bodies of every layer of any_sender.hpp / any_sender.cpp at once (no contract or stub between the layers):
 *   [unique_]any_sender::connect -> movable_sbo_storage move ctor/dtor -> any_operation_state ctor -> any_receiver_ref /
 *   any_receiver ctors -> Base::connect (empty_* / *_impl) -> any_operation_state_holder ctor -> store<Impl> ->
 *   any_operation_state_holder_impl ctor -> [user's connect] ... any_operation_state::start -> holder::start -> Impl::start ->
 *   [user's start, which completes] -> any_receiver::set_value|set_error|set_stopped -> any_receiver_ref::set_* -> [user's receiver]
 * Only the user's sender / operation state / receiver are stubs (call-trace ghosts).  Loop-free: the check is complete for
 * all inputs (payload tokens, channel, which calls throw, empty or full wrapper, rvalue or lvalue connect).
 * Two storage instantiations live in one program: snd_ (Base = [unique_]any_sender_base) and ops_ (Base =
 * any_operation_state_holder_base); fwd_core_tpl.c is instantiated once for each by fwd_spec.py. */
#include "sbo.h"
#define SND_EMPTY VX_EMPTY_VT
#define SND_IMPL VX_IMPL
#define OPS_EMPTY 3
#define OPS_IMPL 4
#define SND_HAS_STORE 0
#define SND_HAS_MOVE_CTOR 1
#define OPS_HAS_STORE 1
#define OPS_HAS_MOVE_CTOR 0
#define VX_MOVED_FROM (-1)
static struct sender_arg vx_moved(int *x) { struct sender_arg a; a.token = *x; a.moved = true; *x = VX_MOVED_FROM; return a; }
static struct sender_arg vx_copied(const int *x) { struct sender_arg a; a.token = *x; a.moved = false; return a; }
#define VX_MOVED(x) vx_moved(&(x))
#define VX_COPIED(x) vx_copied(&(x))
