/* C18 extension "fwd", stand-alone small units of any_sender.hpp (shipped configuration: PIKA_DETAIL_ENABLE_ANY_SENDER_SBO off,
 * PIKA_HAVE_CXX20_TRIVIAL_VIRTUAL_DESTRUCTOR off -- the lifter resolves the #if blocks with the build's defines):
 *   G_VTABLE    pika::detail::get_empty_vtable<T>() (the vtable selection helper every default-constructed / moved-from
 *               storage points to) and any_sender_static_empty_vtable_helper's constructor
 *   G_PLACEMENT movable_sbo_storage::can_use_embedded_storage<Impl>() / using_embedded_storage()
 *   G_ENV       any_receiver<Ts...>::get_env()
 * Types, ledger and the virtual-call discipline come from sbo.h. */
#include "sbo.h"

#ifdef G_VTABLE
/* ---- trusted C++ semantics: a block-scope `static T x;` is initialised the first time control passes through its
 * declaration and never again; its dynamic type is the declared type (here empty_vtable_t<T>: VX_EMPTY_VT); it keeps its
 * state and its address between calls.  An automatic `T x;` is constructed every time and dies when the function returns.
 * (dfcc allows ONE call of the function under contract and havocs every static at the start of the harness, so "an earlier
 * call has already initialised the object" is the input bit g_static_done, and the stub re-establishes what that first
 * initialisation left in the object instead of constructing it again.) ---- */
static bool g_static_done;           /* the function-local static has been initialised (by an earlier call or by this one) */
static int g_static_ctors;           /* how often it has been constructed (saturating) */
static struct base *g_static_addr;   /* the object the declaration that was passed names */
static int g_auto_ctors;             /* automatic empty-vtable objects constructed (must stay 0) */
#define VT_FRAME g_static_done, g_static_ctors, g_static_addr, g_auto_ctors
#define VT_PRE (g_auto_ctors == 0 && g_static_addr == NULL && g_static_ctors == (g_static_done ? 1 : 0))
static void vx_function_static_init(struct base *p)
{
  g_static_addr = p;
  p->vx_kind = VX_EMPTY_VT; p->vx_live = false; p->sender = 0;   /* state after the one and only initialisation */
  if (!g_static_done)
  {
    g_static_done = true;
    if (g_static_ctors < 2) g_static_ctors++;
  }
}
static void vx_automatic_init(struct base *p)
{
  p->vx_kind = VX_EMPTY_VT; p->vx_live = false; p->sender = 0;
  if (g_auto_ctors < 2) g_auto_ctors++;
}

/* the virtual empty() of the two dynamic types (lifted), dispatched by hand */
static bool impl_empty(const struct base *self)
//@LIFT vbase_empty
static bool emptyvt_empty(const struct base *self)
//@LIFT vempty_empty
static bool vt_empty(const struct base *b) { return b->vx_kind == VX_EMPTY_VT ? emptyvt_empty(b) : impl_empty(b); }

#ifdef U_GET_EMPTY_VTABLE
/* get_empty_vtable<T>(): a non-null pointer to an object of dynamic type empty_vtable_t<T> that outlives the call (static
 * storage duration: the same object on every call), constructed at most once in the whole program, never a contained
 * object (ledger untouched).  (That this object reports empty() == true and raises the defined error when used are the
 * lifted empty_* members: checked in the harness with the lifted empty(), and in units any.*.opstate_ctor /
 * any.opstate.empty_start.) */
//@FUNC_IF U_GET_EMPTY_VTABLE
const struct base *get_empty_vtable_real(void)
__CPROVER_requires(VT_PRE)
__CPROVER_ensures(__CPROVER_return_value != NULL && __CPROVER_return_value->vx_kind == VX_EMPTY_VT)
__CPROVER_ensures(g_static_done && __CPROVER_return_value == g_static_addr && g_static_ctors == 1 && g_auto_ctors == 0)
__CPROVER_ensures(g_live == __CPROVER_old(g_live))
__CPROVER_assigns(VT_FRAME)
//@LIFT get_empty_vtable
#else
static const struct base *get_empty_vtable_real(void)
//@LIFT get_empty_vtable
#endif

#ifdef U_STATIC_HELPER
/* which instantiation the helper asks for */
#define VX_T_any_operation_state_holder_base 1
#define VX_T_unique_any_sender_base 2
#define VX_T_any_sender_base 3
static int g_helper_asked;
static const struct base *vx_get_empty_vtable(int T)
{
  g_helper_asked = T;
  return get_empty_vtable_real();   /* this template instantiates the lifted body for T = any_operation_state_holder_base */
}
/* any_sender_static_empty_vtable_helper(): (base-class constructor of both wrappers) makes sure that the empty vtable object
 * of any_operation_state_holder_base exists from now on; it constructs no contained object and at most one vtable object */
//@FUNC_IF U_STATIC_HELPER
void static_helper_ctor(void)
__CPROVER_requires(VT_PRE)
__CPROVER_ensures(g_static_done && g_static_addr != NULL && g_static_ctors == 1 && g_auto_ctors == 0 && g_helper_asked == VX_T_any_operation_state_holder_base)
__CPROVER_ensures(g_live == __CPROVER_old(g_live))
__CPROVER_assigns(VT_FRAME, g_helper_asked)
//@LIFT static_helper
#endif
#endif

#ifdef G_PLACEMENT
/* shipped configuration: there is no embedded buffer; every contained object lives on the heap (DESIGN C18: "shipped
 * configuration = heap only"), so the two placement predicates must say "not embedded" for every Impl and every state */
static bool sbo_can_use_embedded_storage(void)
//@LIFT can_use_embedded
//@FUNC_IF U_PLACEMENT
bool sbo_using_embedded_storage(const struct sbo *self)
__CPROVER_requires(WORLD_OK && WF(self))
__CPROVER_ensures(__CPROVER_return_value == false)
__CPROVER_assigns()
//@LIFT using_embedded
#endif

#ifdef G_ENV
struct any_receiver_ref_m { void *receiver; };
struct any_receiver_m { struct any_receiver_ref_m *receiver; };
struct empty_env { char vx_nothing; };
static struct empty_env vx_empty_env(void) { struct empty_env e; e.vx_nothing = 0; return e; }
/* T-stubs: the three completion functions of the any_receiver_ref the any_receiver points to */
static int g_sig_value, g_sig_error, g_sig_stopped;
static void ref_set_value(struct any_receiver_ref_m *r, int ts) { (void) r; (void) ts; if (g_sig_value < 2) g_sig_value++; }
static void ref_set_error(struct any_receiver_ref_m *r, int ep) { (void) r; (void) ep; if (g_sig_error < 2) g_sig_error++; }
static void ref_set_stopped(struct any_receiver_ref_m *r) { (void) r; if (g_sig_stopped < 2) g_sig_stopped++; }
/* get_env() const&: a pure query -- completes nothing and leaves the receiver usable (still refers to the same receiver_ref) */
//@FUNC_IF U_GET_ENV
struct empty_env rcv_get_env(const struct any_receiver_m *self)
__CPROVER_requires(g_sig_value == 0 && g_sig_error == 0 && g_sig_stopped == 0)
__CPROVER_ensures(g_sig_value == 0 && g_sig_error == 0 && g_sig_stopped == 0 && self->receiver == __CPROVER_old(self->receiver))
__CPROVER_assigns()
//@LIFT get_env
#endif

static struct base g_garbage;
static struct base *pick(int k)
{
  return k == 0 ? NULL : k == 1 ? &g_empty_obj : k == 2 ? &g_pool[0] : k == 3 ? &g_pool[1] : k == 4 ? &g_pool[2] : &g_garbage;
}

void harness(void)
{
  g_empty_obj.vx_kind = VX_EMPTY_VT; g_empty_obj.vx_live = false; g_empty_obj.sender = 0;
  g_garbage.vx_kind = nondet_int(); g_garbage.vx_live = nondet_bool(); g_garbage.sender = nondet_int();
  g_pool[0].vx_kind = VX_IMPL; g_pool[0].vx_live = nondet_bool(); g_pool[0].sender = nondet_int();
  g_pool[1].vx_kind = VX_IMPL; g_pool[1].vx_live = nondet_bool(); g_pool[1].sender = nondet_int();
  g_pool[2].vx_kind = nondet_int(); g_pool[2].vx_live = false; g_pool[2].sender = nondet_int();
  g_live = nondet_long();
  g_newed = false; vx_exc = false; g_virtual_calls = 0; g_foreign0 = nondet_long();
#ifdef G_VTABLE
  g_static_done = nondet_bool(); g_static_ctors = g_static_done ? 1 : 0; g_static_addr = NULL; g_auto_ctors = 0;
  bool existed = g_static_done;
#ifdef U_GET_EMPTY_VTABLE
  const struct base *p = get_empty_vtable_real();
  if (existed) VX_REACH("later_call"); else VX_REACH("first_call");
  VX_ASSERT(vt_empty(p), "the empty vtable object reports empty() (lifted empty_*::empty through the lifted get_empty_vtable)");
#endif
#ifdef U_STATIC_HELPER
  g_helper_asked = 0;
  static_helper_ctor();
  if (existed) VX_REACH("vtable_existed_before"); else VX_REACH("vtable_created");
  VX_ASSERT(vt_empty(g_static_addr), "the object the helper made sure of is the empty vtable");
#endif
#endif
#ifdef G_PLACEMENT
  struct sbo a;
  a.heap_storage = pick(nondet_int()); a.object = pick(nondet_int());
  bool full = a.heap_storage != NULL;
  bool e = sbo_using_embedded_storage(&a);
  if (full) VX_REACH("asked_full"); else VX_REACH("asked_empty");
  VX_ASSERT(!sbo_can_use_embedded_storage(), "shipped configuration: no Impl is placed in an embedded buffer");
  (void) e;
#endif
#ifdef G_ENV
  struct any_receiver_ref_m ref;
  struct any_receiver_m r;
  ref.receiver = NULL;
  r.receiver = nondet_bool() ? &ref : NULL;
  g_sig_value = 0; g_sig_error = 0; g_sig_stopped = 0;
  (void) rcv_get_env(&r);
  VX_REACH("queried");
#endif
}
