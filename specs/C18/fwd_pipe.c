
/* ================================ the layers above the storage (all lifted) ================================ */
struct any_sender_w { struct sbo storage; };                 /* unique_any_sender<Ts...> / any_sender<Ts...> */
struct real_receiver { int id; };                            /* the user's receiver (opaque) */
struct holder { struct sbo storage; };                       /* any_operation_state_holder */
struct aos { struct real_receiver receiver; struct any_receiver_ref receiver_ref; struct holder op_state; }; /* any_operation_state */
struct sender_ref { struct base *p; bool rvalue; };          /* a Base reference together with its value category */
static struct sender_ref vx_sref(const struct base *p, bool rvalue) { struct sender_ref s; s.p = (struct base *) p; s.rvalue = rvalue; return s; }
#define VX_RVALUE(p) vx_sref((p), true)
#define VX_LVALUE(p) vx_sref((p), false)

/* ---- the defined error ---- */
//@LIFT errors
static int g_thrown;   /* error code of the exception in flight (0: none, or an exception of the user's code) */
static void vx_throw_pika(int code) { vx_exc = true; g_thrown = code; }
static void throw_bad_any_call(char const *class_name, char const *function_name)
//@LIFT throw_bad_any_call

/* ---- the user's world: call-trace ghosts ---- */
static int g_connects, g_conn_sender, g_conn_result; static bool g_conn_moved; static struct any_receiver g_conn_receiver;
static int g_starts;
static int g_sig_value, g_sig_error, g_sig_stopped, g_sig_payload; static struct real_receiver *g_sig_receiver;
static int g_chan, g_payload;    /* inputs: what the wrapped operation does when it is started */
static bool g_connect_throws;    /* input: the wrapped sender's connect throws */

/* pika::execution::experimental::connect(wrapped sender, any_receiver): the user's sender builds its operation state, which
 * keeps the any_receiver it was given */
static int wrapped_connect(struct sender_arg s, struct any_receiver r)
{
  if (g_connects < 2) g_connects++;
  g_conn_sender = s.token;
  g_conn_moved = s.moved;
  g_conn_receiver = r;
  if (g_connect_throws) { vx_exc = true; return VX_MOVED_FROM; }
  return g_conn_result;
}
static void holder_impl_ctor(struct base *self, struct sender_arg sender, struct any_receiver receiver)   /* any_operation_state_holder_impl(Sender_&&, any_receiver&&) */
//@LIFT holder_impl_ctor
/* `new Impl(ts...)` of the ops_ instantiation (the only allocation of the program): Impl = any_operation_state_holder_impl */
static void vx_impl_ctor(struct base *obj, VX_TS_T ts) { obj->vx_kind = OPS_IMPL; holder_impl_ctor(obj, ts.sender, ts.receiver); }
static struct conn_args vx_pack(struct sender_arg s, struct any_receiver r) { struct conn_args a; a.sender = s; a.receiver = r; return a; }

/* ---- completion path ---- */
static void real_set_value(struct real_receiver *r, int ts) { if (g_sig_value < 2) g_sig_value++; g_sig_receiver = r; g_sig_payload = ts; }
static void real_set_error(struct real_receiver *r, int ep) { if (g_sig_error < 2) g_sig_error++; g_sig_receiver = r; g_sig_payload = ep; }
static void real_set_stopped(struct real_receiver *r) { if (g_sig_stopped < 2) g_sig_stopped++; g_sig_receiver = r; }
static int vx_current_exception(void) { return nondet_int(); }
static void ref_set_value(struct any_receiver_ref *self, int ts)
//@LIFT ref_set_value
static void ref_set_error(struct any_receiver_ref *self, int ep)
//@LIFT ref_set_error
static void ref_set_stopped(struct any_receiver_ref *self)
//@LIFT ref_set_stopped
static void rcv_set_value(struct any_receiver *self, int ts)
//@LIFT rcv_set_value
static void rcv_set_error(struct any_receiver *self, int ep)
//@LIFT rcv_set_error
static void rcv_set_stopped(struct any_receiver *self)
//@LIFT rcv_set_stopped

/* ---- start path ---- */
/* start(*operation_state) of the user's operation state: it completes (here: immediately) through the any_receiver it holds */
static void wrapped_start(const struct base *impl)
{
  if (g_starts < 2) g_starts++;
  VX_ASSERT(impl->operation_state == g_conn_result, "the operation state that is started is the one the wrapped sender's connect returned");
  struct any_receiver r = g_conn_receiver;   /* std::move(receiver) */
  if (g_chan == 0) rcv_set_value(&r, g_payload);
  else if (g_chan == 1) rcv_set_error(&r, g_payload);
  else rcv_set_stopped(&r);
}
static bool opt_has_value(const struct base *impl) { return impl->operation_state != VX_MOVED_FROM; }   /* std::optional<op state>::has_value() */
static void emptyvt_start(struct base *self)   /* empty_any_operation_state_holder_state::start() */
//@LIFT vempty_start
static void impl_start(struct base *self)      /* any_operation_state_holder_impl<Sender, Ts...>::start() */
//@LIFT vimpl_start
static void base_start(struct base *b)
{
  ops_virtual_call(b);
  if (b->vx_kind == OPS_EMPTY) emptyvt_start(b); else impl_start(b);
}
static void holder_start(struct holder *self)
//@LIFT holder_start
static void aos_start(struct aos *self)
//@LIFT aos_start

/* ---- connect path ---- */
static void holder_ctor(struct holder *self, struct sender_arg sender, struct any_receiver receiver)
{
  ops_sbo_nsdmi(&self->storage);   /* member `storage_type storage{}` */
//@LIFT holder_ctor
  if (vx_exc) ops_sbo_dtor(&self->storage);   /* C++: a constructor body that throws destroys the members constructed so far */
}
static void any_receiver_ref_base_ctor(struct any_receiver_ref *self, struct real_receiver *receiver)
//@LIFT any_receiver_ref_base_ctor
static void any_receiver_ref_ctor(struct any_receiver_ref *self, struct real_receiver *receiver)
//@LIFT any_receiver_ref_ctor
static void any_receiver_ctor(struct any_receiver *self, struct any_receiver_ref *receiver)
//@LIFT any_receiver_ctor
static struct any_receiver any_receiver_make(struct any_receiver_ref *p) { struct any_receiver r; any_receiver_ctor(&r, p); return r; }
static void emptyvt_connect_rvalue(struct holder *vx_out, struct base *self, struct any_receiver vx_unnamed)
//@LIFT vempty_connect_rvalue
static void impl_connect_rvalue(struct holder *vx_out, struct base *self, struct any_receiver receiver)
//@LIFT vimpl_connect_rvalue
#ifdef HAS_COPY
static void emptyvt_connect_lvalue(struct holder *vx_out, const struct base *self, struct any_receiver vx_unnamed)
//@LIFT vempty_connect_lvalue
static void impl_connect_lvalue(struct holder *vx_out, const struct base *self, struct any_receiver receiver)
//@LIFT vimpl_connect_lvalue
#endif
static void base_connect(struct holder *vx_out, struct sender_ref s, struct any_receiver receiver)
{
  snd_virtual_call(s.p);
  if (s.rvalue)
  {
    if (s.p->vx_kind == SND_EMPTY) emptyvt_connect_rvalue(vx_out, s.p, receiver); else impl_connect_rvalue(vx_out, s.p, receiver);
  }
  else
  {
#ifdef HAS_COPY
    if (s.p->vx_kind == SND_EMPTY) emptyvt_connect_lvalue(vx_out, s.p, receiver); else impl_connect_lvalue(vx_out, s.p, receiver);
#else
    VX_ASSERT(0, "unique_any_sender_base has no const& connect");
#endif
  }
}
static void aos_ctor(struct aos *self, struct sender_ref sender, struct real_receiver receiver)
//@LIFT aos_ctor
/* `return {sender, receiver};`: the any_operation_state is constructed in place in the caller's object (here: g_op) */
static struct aos g_op;
static int g_aos_made;
static int aos_make(struct sender_ref s, struct real_receiver r)
{
  if (g_aos_made < 2) g_aos_made++;
  aos_ctor(&g_op, s, r);
  return 0;
}
static int as_connect_rvalue(struct any_sender_w *self, struct real_receiver receiver)
//@LIFT connect_rvalue
#ifdef HAS_COPY
static int as_connect_lvalue(const struct any_sender_w *self, struct real_receiver receiver)
//@LIFT connect_lvalue
#endif

/* ================================ the client program and what the property promises about it ================================ */
void harness(void)
{
  /* world */
  g_empty_obj.vx_kind = nondet_int(); g_empty_obj.vx_live = false; g_empty_obj.sender = 0;   /* sbo.h's unprefixed object: unused here */
  snd_g_empty_vt.vx_kind = SND_EMPTY; snd_g_empty_vt.vx_live = false; snd_g_empty_vt.sender = 0;
  ops_g_empty_vt.vx_kind = OPS_EMPTY; ops_g_empty_vt.vx_live = false; ops_g_empty_vt.sender = 0;
  int S = nondet_int();                 /* the wrapped sender (token) */
  bool full = nondet_bool();            /* the wrapper holds a sender / is default-constructed or moved-from */
  long L0 = nondet_long();              /* live contained objects in the whole program before */
  if (S == VX_MOVED_FROM) S = 0;
  if (L0 < 2 || L0 > VX_BIG) L0 = 2;
  g_pool[0].vx_kind = SND_IMPL; g_pool[0].vx_live = full; g_pool[0].sender = S;
  g_pool[1].vx_kind = nondet_bool() ? SND_IMPL : OPS_IMPL; g_pool[1].vx_live = nondet_bool(); g_pool[1].sender = nondet_int();   /* a foreign object */
  g_pool[2].vx_kind = nondet_int(); g_pool[2].vx_live = false; g_pool[2].sender = nondet_int();
  bool foreign_live0 = g_pool[1].vx_live; int foreign_pay0 = g_pool[1].sender;
  g_live = L0; g_newed = false; vx_exc = false; g_virtual_calls = 0; g_thrown = 0;
  g_connects = 0; g_conn_sender = 0; g_conn_moved = false; g_conn_receiver.receiver = NULL; g_starts = 0;
  g_sig_value = 0; g_sig_error = 0; g_sig_stopped = 0; g_sig_payload = 0; g_sig_receiver = NULL; g_aos_made = 0;
  g_conn_result = nondet_int(); if (g_conn_result == VX_MOVED_FROM) g_conn_result = 0;
  g_connect_throws = nondet_bool();
  g_chan = nondet_int(); if (g_chan < 0 || g_chan > 2) g_chan = 2;
  g_payload = nondet_int();
  struct real_receiver rcv; rcv.id = nondet_int();
  struct any_sender_w w;                /* the wrapper in its representation (invariant of units sbo.*, fwd.*.wrap_ctor) */
  w.storage.heap_storage = full ? &g_pool[0] : NULL;
  w.storage.object = full ? &g_pool[0] : &snd_g_empty_vt;
  bool lvalue = false;
#ifdef HAS_COPY
  lvalue = nondet_bool();
#endif

  /* client:  auto op = connect(std::move(w), rcv);   resp.   auto op = connect(w, rcv); */
#ifdef HAS_COPY
  if (lvalue) as_connect_lvalue(&w, rcv); else
#endif
  as_connect_rvalue(&w, rcv);

  /* in every case: an rvalue-connected wrapper is empty afterwards and its sender object has been destroyed exactly once; an
   * lvalue-connected wrapper still owns its untouched sender */
  if (!lvalue)
  {
    VX_ASSERT(w.storage.heap_storage == NULL && w.storage.object == &snd_g_empty_vt, "rvalue connect leaves the wrapper empty");
    VX_ASSERT(!g_pool[0].vx_live, "rvalue connect: the contained sender object is gone");
  }
  else
  {
    VX_ASSERT(w.storage.heap_storage == (full ? &g_pool[0] : NULL) && w.storage.object == (full ? &g_pool[0] : &snd_g_empty_vt), "lvalue connect leaves the wrapper as it was");
    VX_ASSERT(!full || (g_pool[0].vx_live && g_pool[0].sender == S), "lvalue connect: the contained sender is alive and was not moved from");
  }
  VX_ASSERT(g_aos_made == 1, "one operation state is being built");

  if (vx_exc)
  {
    /* no operation state exists */
    if (!full)
    {
      VX_ASSERT(g_thrown == pika_error_bad_function_call && g_connects == 0, "connecting an empty wrapper raises bad_function_call and connects nothing");
      VX_REACH("empty_wrapper_throws");
    }
    else
    {
      VX_ASSERT(g_thrown == 0 && g_connects == 1 && g_connect_throws, "the only other exception is the one of the wrapped sender's own connect");
      VX_REACH("wrapped_connect_threw");
    }
    VX_ASSERT(!g_pool[2].vx_live, "no operation state object survives a failed connect");
    VX_ASSERT(g_live == L0 - ((full && !lvalue) ? 1 : 0), "failed connect: nothing leaked, nothing destroyed twice");
    VX_ASSERT(g_starts == 0 && g_sig_value == 0 && g_sig_error == 0 && g_sig_stopped == 0, "failed connect: nothing started, nothing completed");
    snd_sbo_dtor(&w.storage);   /* ~w */
    VX_ASSERT(g_live == L0 - (full ? 1 : 0) && !g_pool[0].vx_live, "after ~w the sender object has been destroyed exactly once");
    VX_ASSERT(g_pool[1].vx_live == foreign_live0 && g_pool[1].sender == foreign_pay0, "foreign objects untouched");
    return;
  }
  VX_ASSERT(full && !g_connect_throws, "a successful connect needs a non-empty wrapper");
#ifdef HAS_COPY
  if (lvalue) VX_REACH("connected_lvalue"); else
#endif
  VX_REACH("connected_rvalue");
  /* the wrapped sender was connected exactly once: the stored sender itself, moved for the rvalue form / copied for the const&
   * form, to an any_receiver that leads to THIS operation state's own copy of the user's receiver */
  VX_ASSERT(g_connects == 1 && g_conn_sender == S && g_conn_moved == !lvalue, "the stored sender is connected exactly once with the right value category");
  VX_ASSERT(g_conn_receiver.receiver == &g_op.receiver_ref && g_op.receiver_ref.receiver == (void *) &g_op.receiver && g_op.receiver.id == rcv.id,
            "the wrapped operation completes into the operation state's own copy of the user's receiver");
  VX_ASSERT(g_op.op_state.storage.heap_storage == &g_pool[2] && g_op.op_state.storage.object == &g_pool[2] && g_pool[2].vx_live &&
            g_pool[2].vx_kind == OPS_IMPL && g_pool[2].operation_state == g_conn_result, "the operation state holder owns the wrapped operation state");
  VX_ASSERT(g_live == L0 + 1 - (lvalue ? 0 : 1), "ledger after connect");
  VX_ASSERT(g_starts == 0 && g_sig_value == 0 && g_sig_error == 0 && g_sig_stopped == 0, "connect starts nothing and completes nothing");

  /* client:  start(op); */
  aos_start(&g_op);
  VX_ASSERT(!vx_exc && g_starts == 1, "start starts the wrapped operation state exactly once");
  VX_ASSERT(g_sig_value + g_sig_error + g_sig_stopped == 1, "exactly one completion signal reaches the user's receiver");
  VX_ASSERT((g_chan == 0) == (g_sig_value == 1) && (g_chan == 1) == (g_sig_error == 1) && (g_chan == 2) == (g_sig_stopped == 1), "on the channel the wrapped operation used");
  VX_ASSERT(g_chan == 2 || g_sig_payload == g_payload, "with the payload the wrapped operation sent");
  VX_ASSERT(g_sig_receiver == &g_op.receiver, "to the receiver stored in the operation state");
  if (g_chan == 0) VX_REACH("completed_value"); else if (g_chan == 1) VX_REACH("completed_error"); else VX_REACH("completed_stopped");

  /* client:  op and w go out of scope (~any_operation_state and ~any_operation_state_holder are defaulted: member-wise) */
  ops_sbo_dtor(&g_op.op_state.storage);
  VX_ASSERT(!g_pool[2].vx_live && g_live == L0 - (lvalue ? 0 : 1), "~op destroys the wrapped operation state exactly once");
  snd_sbo_dtor(&w.storage);
  VX_ASSERT(!g_pool[0].vx_live && !g_pool[2].vx_live && g_live == L0 - 1, "at the end every contained object has been destroyed exactly once");
  VX_ASSERT(g_pool[1].vx_live == foreign_live0 && g_pool[1].sender == foreign_pay0, "foreign objects untouched");
  VX_ASSERT(g_starts == 1 && g_sig_value + g_sig_error + g_sig_stopped == 1 && g_connects == 1, "destruction starts / completes / connects nothing");
}
