exec(open("/verif/specs/C07/agent_spec.py").read()); UNITS = AGENT_UNITS; META = AGENT_META
STATIC = globals().get("AGENT_STATIC", [])
