import os
exec(open('/verif/specs/C19/more_spec.py').read()); UNITS = MORE_UNITS; META = MORE_META
try:
    STATIC = MORE_STATIC
except NameError:
    pass
# development aid: VX_KNOWN=<define> adds the define to every unit (what the known-finding re-run does)
if os.environ.get("VX_KNOWN"):
    for u in UNITS:
        u.defines = list(u.defines) + [os.environ["VX_KNOWN"]]
if os.environ.get("VX_O1"):
    UNITS = [Unit("o1.sched_suspend", "o1.c", defines=["U_SCHED_SUSPEND"], enforce="sched_suspend",
         lifts=dict(STATE_HELPERS, body=Lift(SB_CPP, r"void scheduler_base::suspend\(std::size_t num_thread\)", rules=SCHED)))]
