/* C01 U5 -- thread_queue::add_new_always(added, addfrom, lk, steal): decides how many staged tasks to convert and calls add_new
 * at most once.  T contract over the contract of add_new (unit hops.tq.add_new): source queue and lock are passed
 * through unchanged (the steal flag only selects the end of the container: policy), add_new's precondition on add_count holds, `added` grows by exactly what add_new converted, and the
 * result says whether anything was converted.  (HOW MANY are asked for is scheduling policy and not decided here.)
 * Assumption: the thread_queue_init_parameters involved are in [0, 10^9]. */
#include "../C01/hops.h"
static size_t g_added0; static int g_from; static bool g_steal0;
#define PARAM_OK(v) ((v) >= 0 && (v) <= VX_BIG)

//@FUNC
bool add_new_always(struct tq *self, size_t *added, struct tq *addfrom, struct ulock *lk, bool steal)
__CPROVER_requires(self == g_self && OWNS(lk) && lk->m == &self->mtx_ && lk == g_exp_lk && *added == g_added0 && g_added0 <= (size_t) VX_BIG && Q_ID(addfrom) == g_from && g_from != 0 && steal == g_steal0)
__CPROVER_requires(AN.calls == 0 && MAPRANGE(self, 8) && MAPINV(self) && PARAM_OK(self->parameters_.max_thread_count_) && PARAM_OK(self->parameters_.min_add_new_count_) && PARAM_OK(self->parameters_.max_add_new_count_))
__CPROVER_ensures(AN.calls <= 1 && OWNS(lk))
__CPROVER_ensures(AN.calls == 1 ==> (AN.from == g_from && AN.lk_ok && *added == g_added0 + AN.ret && __CPROVER_return_value == (AN.ret != 0)))
__CPROVER_ensures(AN.calls == 0 ==> (*added == g_added0 && !__CPROVER_return_value))
__CPROVER_assigns(AN, *added, self->parameters_.max_thread_count_)
//@LIFT ana_body

void harness(void)
{
  hops_ghost_init();
  hops_queue_init(&g_q0); hops_queue_init(&g_q1);
  CFG.self = 1; AN = (struct addnew_rec){0};
  g_map = nondet_long(); g_q0.thread_map_count_ = g_map;
  struct ulock lk; lk.m = &g_q0.mtx_; lk.owns = true; g_q0.mtx_.held = true; g_exp_lk = &lk;
  struct tq *from = nondet_bool() ? &g_q0 : &g_q1;
  g_from = Q_ID(from); g_steal0 = nondet_bool();
  size_t added = nondet_size(); g_added0 = added;
  bool r = add_new_always(&g_q0, &added, from, &lk, g_steal0);
  if (r) VX_REACH("converted_some");
  if (!r && AN.calls == 1) VX_REACH("nothing_converted");
  if (AN.calls == 0) VX_REACH("thread_limit_reached_and_work_pending");
  if (AN.calls == 1 && AN.add_count == -1) VX_REACH("no_limit");
  if (AN.calls == 1 && AN.add_count > 0) VX_REACH("limited");
}
