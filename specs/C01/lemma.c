/* C01 L1 -- ownership lemmas over the U2/U3 contracts (no lifted code except the enum lists and the layout constants;
 * full 64-bit domain, loop free).  The contracts enter through the named postcondition macros of word.h, which are the
 * very macros the enforced contracts of word.set_state_tagged / sw.ctor / sw.store_state / word.restore_state_1 use:
 *   SST_OK / SST_SUCCESS   set_state_tagged, switch_status::switch_status
 *   RST_OK / RST_SUCCESS   restore_state(new, old), switch_status::store_state / ~switch_status
 *   STEP                   asserted at every successful CAS of every unit (the common guarantee)
 *   STEP_OTHER             asserted at every successful CAS of the units that are NOT the runner (other.*)
 * Together with the history induction of DESIGN 3.4 (paper) these give "never on two workers at once".
 */
#include "vx.h"
//@LIFT enum_schedule
//@LIFT enum_restart
#include "cts_types.h"
//@LIFT consts
#include "word.h"
#ifdef U_OWNERSHIP
//@LIFT census
#endif

static struct thread_state any_word(void) { struct thread_state w; w.state_ = nondet_i64(); return w; }

void harness(void)
{
#ifdef U_RELY
  /* side conditions of the rely/guarantee argument */
  struct thread_state o = any_word(), m = any_word(), n = any_word();
  if (!(WF(o) && A_TAG1(o))) return;
  /* every single step (STEP, asserted at each CAS of each unit) is admissible interference for everybody else;
   * A_TAG(n) is the assumption A-TAG, not a consequence */
  if (STEP(o, n) && A_TAG(n)) { VX_ASSERT(RELY_GEN(o, n), "guarantee inside rely: STEP => RELY_GEN"); VX_REACH("step"); }
  /* a step of a non-runner never starts from an active word, so it is admissible for the runner */
  if (STEP_OTHER(o, n) && A_TAG(n)) { VX_ASSERT(RELY_OWNER(o, n), "guarantee of the other writers inside the runner's rely: STEP_OTHER => RELY_OWNER"); VX_REACH("other_step"); }
  /* the relies are reflexive and transitive: "havoc once before each access" covers any number of environment steps */
  if (A_TAG(o)) VX_ASSERT(RELY_GEN(o, o) && RELY_OWNER(o, o), "relies are reflexive (on every word inside A-TAG)");
  if (RELY_GEN(o, m) && RELY_GEN(m, n)) { VX_ASSERT(RELY_GEN(o, n), "RELY_GEN is transitive"); VX_REACH("gen_chain"); }
  if (RELY_OWNER(o, m) && RELY_OWNER(m, n)) { VX_ASSERT(RELY_OWNER(o, n), "RELY_OWNER is transitive"); VX_REACH("owner_chain"); }
  /* the word invariant is stable under the rely */
  if (RELY_GEN(o, n)) VX_ASSERT(WF(n) && A_TAG(n) && A_TAG1(n), "WF and A-TAG are stable under the rely");
  /* the runner's own steps: switch-in and store are STEPs (so they are admissible for everybody else) */
  if (SST_SUCCESS(o, n, o, S_ACTIVE)) { VX_ASSERT(STEP(o, n), "switch-in is a STEP"); VX_REACH("switch_in"); }
  if (WF(m) && RST_SUCCESS(o, n, m, o)) { VX_ASSERT(STEP(o, n), "store_state / restore is a STEP"); VX_REACH("store"); }
#endif
#ifdef U_OWNERSHIP
  /* (1) from a word (pending, e, t): of two workers that both attempt set_state_tagged(active, prev = (pending, e, t))
   *     at most one succeeds -- whatever happens in between, including the first one finishing its whole phase */
  struct thread_state w0 = any_word(), seenA = any_word(), afterA = any_word(), seenB = any_word();
  if (!(WF(w0) && A_TAG1(w0) && W_STATE(w0) == S_PENDING)) return;
  if (!RELY_GEN(w0, seenA)) return;                      /* environment before A's CAS */
  bool okA = SST_OK(seenA, w0);                          /* contract of set_state_tagged / switch_status(): valid <=> word == prev */
  if (okA) { if (!SST_SUCCESS(seenA, afterA, w0, S_ACTIVE)) return; } else afterA = seenA;
  if (!RELY_GEN(afterA, seenB)) return;                  /* ANY environment between the two attempts (owner's store included) */
  bool okB = SST_OK(seenB, w0);
  VX_ASSERT(!(okA && okB), "two switch-ins from the same (pending, e, t) never both succeed (the tag is consumed)");
  if (okA) VX_REACH("first_wins");
  if (!okA && okB) VX_REACH("second_wins");
  if (!okA && !okB) VX_REACH("both_refused");
  /* (2) while A runs (between its successful switch-in and its store) the word is active, so NO switch-in that expects a
   *     pending word can succeed: the body is entered only behind such a switch-in (unit loop.run_one) */
  if (okA)
  {
    struct thread_state during = any_word(), p = any_word();
    if (RELY_OWNER(afterA, during) && WF(p) && W_STATE(p) == S_PENDING)
    {
      VX_ASSERT(WEQ(during, afterA), "active words belong to their runner: the word A wrote is untouched while A runs");
      VX_ASSERT(!SST_OK(during, p), "no second runner: a switch-in from a pending prev is refused while the word is active");
      /* (3) and A's store is then not refused (sw.store_state.owner), publishing tag + 2: the next switch-in needs a fresh read */
      struct thread_state want = any_word(), pub = any_word();
      if (WF(want) && RST_OK(during, afterA, during) && RST_SUCCESS(during, pub, want, afterA) && W_STATE(want) != S_ACTIVE)
      {
        VX_ASSERT(W_TAG(pub) == W_TAG(w0) + 2 && W_STATE(pub) == W_STATE(want) && W_EX(pub) == W_EX(during), "the phase publishes (returned state, ex, tag + 2)");
        VX_ASSERT(!SST_OK(pub, w0), "a stale prev from before the phase can never switch in afterwards");
        VX_REACH("phase_published");
      }
      VX_REACH("running");
    }
  }
#endif
}
