/* C01 U5 -- lemma over the hop contracts (the contract stubs of hops.h / hops_lpq.h, i.e. exactly the texts the units above are
 * proved against): from ANY state in which the victim is in exactly one place (VP_OK), ANY single hop whose precondition holds
 * leaves it in exactly one place (or recycled), and the victim passes from a shared container into somebody's hands only through
 * a successful pop of that container; in particular a thread that sits in the pending queue reaches a worker ("being executed":
 * in the map, in no queue, in the scheduling loop's hands) only through the single successful pop of get_next_thread.
 * The hops' own preconditions on the victim are ASSUMED here (CFG.lemma); every unit proves them at its call sites. */
#include "../C01/hops_lpq.h"

enum { H_STAGE = 1, H_UNSTAGE, H_MAKE_OBJECT, H_MAP_INSERT, H_SCHEDULE, H_SCHEDULE_VIA_SCHEDULER, H_GET_NEXT, H_TERMINATE, H_TERMINATE_VIA_SCHEDULER,
       H_TERM_POP, H_ERASE_AND_RECYCLE, H_HEAP_PUSH, H_HEAP_POP, H_LAST };

void harness(void)
{
  static struct lpqs s;
  hops_ghost_init(); lpq_ghost_init(&s);
  hops_queue_init(&g_q0); hops_queue_init(&g_q1);
  CFG.self = 1; CFG.lemma = true; CFG.term_pops_by_others = false;
  g_q0.mtx_.held = true;                                        /* (the hops on thread_map_ / free lists need the lock) */
  struct ulock lk; lk.m = &g_q0.mtx_; lk.owns = true;
  /* any place the victim may be in, ledgers consistent with it */
  g_q0.gs_victim = nondet_bool(); gv_mine = nondet_bool(); gv_map = nondet_bool(); gv_queued = nondet_bool(); gv_term = nondet_bool(); gv_heap = nondet_bool();
  g_map = nondet_long(); g_q0.thread_map_count_ = g_map; g_term = nondet_long();
  g_q0.thread_heap_small_.has_victim = gv_heap; L.np_mine.has_victim = gv_queued;
  g_victim_td.queue_ = 1; g_other_td.queue_ = 1;
  if (!(VP_OK && NTRANGE(&g_q0, 8) && NTINV(&g_q0) && MAPRANGE(&g_q0, 8) && MAPINV(&g_q0) && TERMRANGE(&g_q0, 8) && TERMINV(&g_q0) && HEAPS_OK(&g_q0))) return;
  bool mine0 = gv_mine, queued0 = gv_queued, staged0 = g_q0.gs_victim, term0 = gv_term, heap0 = gv_heap, map0 = gv_map;
  int hop = nondet_int();
  bool popped = false;
  thread_id_ref_type t = NULL; task_handle th = 0; td_handle dh = 0;
  if (hop == H_STAGE) { G.ctor_from = 3; g_task_allocs = 1; atomic_inc_new_tasks_count_(&g_q0); nt_push(&g_q0, 3); }
  else if (hop == H_UNSTAGE) { popped = nt_pop(&g_q0, &th, false) && th == 1; }
  else if (hop == H_MAKE_OBJECT) { cto(&g_q0, &t, &G.victim_task.data, &lk); }
  else if (hop == H_MAP_INSERT) { map_insert(&g_q0, &g_victim_td); }
  else if (hop == H_SCHEDULE) { tq_schedule_thread(&g_q0, &g_victim_td, nondet_bool()); }
  else if (hop == H_SCHEDULE_VIA_SCHEDULER) { s.num_queues_ = 1; q_schedule_thread(&s, K_NP, 0, &g_victim_td, nondet_bool()); }
  else if (hop == H_GET_NEXT) { popped = tq_get_next_thread3(&L.np_mine, &t, false, false) && t == &g_victim_td; }
  else if (hop == H_TERMINATE) { term_push(&g_q0, &g_victim_td); }
  else if (hop == H_TERMINATE_VIA_SCHEDULER) { own_queue_destroy_thread(&s, &g_victim_td, &g_victim_td); }
  else if (hop == H_TERM_POP) { popped = term_pop_h(&g_q0, &dh) && dh == 1; }
  else if (hop == H_ERASE_AND_RECYCLE) { if (map_erase(&g_q0, &g_victim_td) != 0) tq_recycle_thread(&g_q0, &g_victim_td); }
  else if (hop == H_HEAP_PUSH) { if (gv_map) return; /* recycle_thread's contract: the object left the map (unit hops.heap.recycle_thread) */ heap_push_back(&g_q0.thread_heap_small_, &g_victim_td); }
  else if (hop == H_HEAP_POP) { if (!heap_empty(&g_q0.thread_heap_small_)) { t = heap_back(&g_q0.thread_heap_small_); heap_pop_back(&g_q0.thread_heap_small_); popped = (t == &g_victim_td); } }
  else return;
  /* L1: exactly one place after any single hop */
  VX_ASSERT(VP_OK, "L1: after any single hop the victim is in exactly one place (or recycled)");
  /* L2: nothing is duplicated or dropped by a hop: a membership bit only changes together with the hand-over it belongs to */
  VX_ASSERT(!(queued0 && gv_queued && gv_mine), "L2: never both queued and in somebody's hands");
  VX_ASSERT(G.env_moved || gv_mine || g_q0.gs_victim || gv_map || gv_heap || !(mine0 || staged0 || map0 || heap0), "L2: a hop never makes the victim vanish (only another worker's own hop can take it away)");
  /* L3: the victim comes into a call's hands only through a successful pop that returned it */
  VX_ASSERT(G.env_moved || !(!mine0 && gv_mine) || popped, "L3: the victim passes from a container into somebody's hands only by a pop that returned it");
  /* L4: pending -> worker only through get_next_thread's pop; the entry is removed by that pop */
  VX_ASSERT(G.env_moved || !(queued0 && !gv_queued) || (hop == H_GET_NEXT && popped && gv_mine && gv_map), "L4: a pending thread leaves the queue only into the hands of the worker whose single pop returned it");
  VX_ASSERT(!(popped && hop == H_GET_NEXT) || (queued0 && !mine0), "L4: what get_next_thread hands out was pending and in nobody's hands");
  if (hop == H_STAGE && g_q0.gs_victim) VX_REACH("staged");
  if (hop == H_UNSTAGE && popped) VX_REACH("unstaged");
  if (hop == H_MAKE_OBJECT && t == &g_victim_td) VX_REACH("object_made");
  if (hop == H_MAP_INSERT && !map0 && gv_map) VX_REACH("inserted");
  if (hop == H_SCHEDULE && gv_queued && !queued0) VX_REACH("scheduled");
  if (hop == H_SCHEDULE_VIA_SCHEDULER && gv_queued && !queued0) VX_REACH("scheduled_via_scheduler");
  if (hop == H_GET_NEXT && popped) VX_REACH("taken_by_worker");
  if (hop == H_TERMINATE && gv_term && !term0) VX_REACH("terminated");
  if (hop == H_TERMINATE_VIA_SCHEDULER && gv_term && !term0) VX_REACH("terminated_via_scheduler");
  if (hop == H_TERM_POP && popped) VX_REACH("taken_by_cleaner");
  if (hop == H_ERASE_AND_RECYCLE && gv_heap && !heap0) VX_REACH("erased_and_recycled");
  if (hop == H_HEAP_PUSH && gv_heap && !heap0) VX_REACH("pushed_on_free_list");
  if (hop == H_HEAP_POP && popped) VX_REACH("reused");
}
