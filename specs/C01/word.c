/* C01 U2 / U3 -- steps on the thread state word (S contracts: rely/guarantee on thread_data::current_state_)
 *   U2  thread_data::{set_state, set_state_tagged, restore_state (2 overloads), set_state_ex, get_state}
 *   U3  switch_status::{switch_status, ~switch_status, store_state, operator=} (constructor / destructor as explicit units)
 * The combined_tagged_state member functions used by these bodies are the lifted ones (inlined), proved in U1.
 */
#include "vx.h"
//@LIFT enum_schedule
//@LIFT enum_restart
#include "cts_types.h"
//@LIFT consts
static tag_type extract_tag(tagged_state_type i)
//@LIFT extract_tag
static thread_state_type extract_state(tagged_state_type i)
//@LIFT extract_state
static thread_state_ex_type extract_state_ex(tagged_state_type i)
//@LIFT extract_state_ex
static tagged_state_type pack_state(T1 state_, T2 state_ex_, tag_type tag)
//@LIFT pack_state
static T1 cts_state(const struct thread_state *self)
//@LIFT state
static T2 cts_state_ex(const struct thread_state *self)
//@LIFT state_ex
static tag_type cts_tag(const struct thread_state *self)
//@LIFT tag
static void cts_ctor(struct thread_state *self, T1 state, T2 state_ex, tag_type t)
//@LIFT ctor
static struct thread_state cts_make(T1 state, T2 state_ex, tag_type t) { struct thread_state r; cts_ctor(&r, state, state_ex, t); return r; }

#ifdef U_OWNER_RELY
/* the runner's rely: while the word is active (and the runner is us) nobody else moves it (lemma.ownership: every other
 * writer's guarantee is inside this rely) */
#define RELY(o, n) RELY_OWNER(o, n)
#endif
#include "word.h"

/* ghost copies of arguments at entry */
static struct thread_state g_prev0, g_new0;
static thread_restart_state g_arg_ex;
static struct thread_data g_td;                       /* the one thread object the units talk about */

/* ================================================= U2 ================================================= */
#ifdef U_SET_STATE
//@FUNC
struct thread_state set_state(struct thread_data *self, thread_schedule_state state, thread_restart_state state_ex)
__CPROVER_requires(lin_count == 0 && g_loads == 0 && g_cas == 0 && WF(self->current_state_) && A_TAG1(self->current_state_))
__CPROVER_requires(S_ENUM(state) && E_ENUM(state_ex) && state_ex == g_arg_ex)
/* returns only after exactly one successful step, and returns the word that step replaced */
__CPROVER_ensures(lin_count == 1 && WEQ(__CPROVER_return_value, lin_old))
/* the schedule-state field changes only as requested */
__CPROVER_ensures(W_STATE(lin_new) == state)
/* the tag is bumped by exactly +1 when the state changes, by 0 otherwise */
__CPROVER_ensures(W_TAG(lin_new) == W_TAG(lin_old) + (state != W_STATE(lin_old) ? 1 : 0))
/* state_ex is never touched unless asked (unknown == "keep") */
__CPROVER_ensures(W_EX(lin_new) == (state_ex == E_UNKNOWN ? W_EX(lin_old) : state_ex))
__CPROVER_ensures(WF(self->current_state_))
__CPROVER_assigns(self->current_state_, WORD_GHOST)
//@LIFT set_state_body
#endif

#ifdef U_SET_STATE_TAGGED
//@FUNC
bool set_state_tagged(struct thread_data *self, thread_schedule_state newstate, struct thread_state *prev_state, struct thread_state *new_tagged_state)
__CPROVER_requires(lin_count == 0 && g_loads == 0 && g_cas == 0 && WF(self->current_state_) && A_TAG1(self->current_state_))
__CPROVER_requires(S_ENUM(newstate) && WF(*prev_state) && A_TAG1(*prev_state) && WEQ(*prev_state, g_prev0))
/* true IFF the word equalled prev at its CAS ... */
__CPROVER_ensures(g_cas == 1 && __CPROVER_return_value == SST_OK(g_cas_seen, g_prev0))
__CPROVER_ensures(__CPROVER_return_value == (lin_count == 1))
/* ... and then the word is (new, prev.ex, prev.tag + 1) */
__CPROVER_ensures(__CPROVER_return_value ==> SST_SUCCESS(lin_old, lin_new, g_prev0, newstate))
__CPROVER_ensures(__CPROVER_return_value ==> WEQ(*new_tagged_state, lin_new))
/* failure leaves the word to the environment: no own step */
__CPROVER_ensures(!__CPROVER_return_value ==> lin_count == 0)
__CPROVER_ensures(WEQ(*prev_state, g_prev0))
__CPROVER_assigns(self->current_state_, *new_tagged_state, WORD_GHOST)
//@LIFT set_state_tagged_body
#endif

#ifdef U_RESTORE_STATE_1
/* the other overload (a forwarding implementation of this one calls it) */
static bool restore_state_2(struct thread_data *self, thread_schedule_state new_state, thread_restart_state state_ex, struct thread_state old_state)
//@LIFT restore_state_2_body
//@FUNC
bool restore_state_1(struct thread_data *self, struct thread_state new_state, struct thread_state old_state)
__CPROVER_requires(lin_count == 0 && g_loads == 0 && g_cas == 0 && WF(self->current_state_) && A_TAG1(self->current_state_))
__CPROVER_requires(WF(new_state) && WF(old_state) && A_TAG1(old_state))
/* caller's duty: old_state is a value this word held earlier (its only caller passes the word it wrote itself) */
__CPROVER_requires(W_TAG(self->current_state_) >= W_TAG(old_state))
/* succeeds IFF the word still has old_state's schedule state and tag at the CAS (state_ex is ignored: taken from the load) */
__CPROVER_ensures(g_cas == 1 && __CPROVER_return_value == RST_OK(g_cas_seen, old_state, g_first_read))
__CPROVER_ensures(__CPROVER_return_value == (lin_count == 1))
__CPROVER_ensures(__CPROVER_return_value ==> RST_SUCCESS(lin_old, lin_new, new_state, old_state))
__CPROVER_assigns(self->current_state_, WORD_GHOST)
//@LIFT restore_state_1_body
#endif

#ifdef U_RESTORE_STATE_2
//@FUNC
bool restore_state_2(struct thread_data *self, thread_schedule_state new_state, thread_restart_state state_ex, struct thread_state old_state)
__CPROVER_requires(lin_count == 0 && g_loads == 0 && g_cas == 0 && WF(self->current_state_) && A_TAG1(self->current_state_))
__CPROVER_requires(S_ENUM(new_state) && E_ENUM(state_ex) && WF(old_state) && A_TAG1(old_state))
__CPROVER_ensures(g_cas == 1 && __CPROVER_return_value == WEQ(g_cas_seen, old_state))
__CPROVER_ensures(__CPROVER_return_value == (lin_count == 1))
__CPROVER_ensures(__CPROVER_return_value ==> (WEQ(lin_old, old_state) && W_STATE(lin_new) == new_state && W_EX(lin_new) == state_ex))
__CPROVER_ensures(__CPROVER_return_value ==> W_TAG(lin_new) == W_TAG(lin_old) + (new_state != W_STATE(lin_old) ? 1 : 0))
__CPROVER_assigns(self->current_state_, WORD_GHOST)
//@LIFT restore_state_2_body
#endif

#ifdef U_SET_STATE_EX
//@FUNC
thread_restart_state set_state_ex(struct thread_data *self, thread_restart_state new_state)
__CPROVER_requires(lin_count == 0 && g_loads == 0 && g_cas == 0 && WF(self->current_state_) && A_TAG1(self->current_state_))
__CPROVER_requires(E_ENUM(new_state))
__CPROVER_ensures(lin_count == 1 && __CPROVER_return_value == W_EX(lin_old))
/* only state_ex changes: schedule state and tag are those of the replaced word */
__CPROVER_ensures(W_STATE(lin_new) == W_STATE(lin_old) && W_TAG(lin_new) == W_TAG(lin_old) && W_EX(lin_new) == new_state)
__CPROVER_assigns(self->current_state_, WORD_GHOST)
//@LIFT set_state_ex_body
#endif

#ifdef U_GET_STATE
//@FUNC
struct thread_state get_state(struct thread_data *self)
__CPROVER_requires(lin_count == 0 && g_loads == 0 && WF(self->current_state_) && A_TAG1(self->current_state_))
__CPROVER_ensures(lin_count == 0 && g_loads == 1 && WEQ(__CPROVER_return_value, g_last_read))
__CPROVER_assigns(self->current_state_, WORD_GHOST)
//@LIFT get_state_body
#endif

/* ================================================= U3 ================================================= */
#if defined(U_SW_CTOR) || defined(U_SW_STORE) || defined(U_SW_DTOR) || defined(U_SW_ASSIGN)
#include "sw.h"
/* thread_data members called by switch_status: the lifted bodies, inlined (their own contracts are U2) */
static bool set_state_tagged(struct thread_data *self, thread_schedule_state newstate, struct thread_state *prev_state, struct thread_state *new_tagged_state)
//@LIFT set_state_tagged_body
static bool restore_state_2(struct thread_data *self, thread_schedule_state new_state, thread_restart_state state_ex, struct thread_state old_state)
//@LIFT restore_state_2_body
static bool restore_state_1(struct thread_data *self, struct thread_state new_state, struct thread_state old_state)
//@LIFT restore_state_1_body

static struct thread_state g_orig0;
static bool g_need0;
static bool switch_status_is_valid(const struct switch_status *self)
//@LIFT sw_is_valid
static thread_schedule_state switch_status_get_previous(const struct switch_status *self)
//@LIFT sw_get_previous
static void switch_status_disable_restore(struct switch_status *self)
//@LIFT sw_disable_restore
#define SW_FRAME self->thread_, self->prev_state_, self->orig_state_, self->next_thread_id_, self->need_restore_state_
#define WORD_PRE (lin_count == 0 && g_loads == 0 && g_cas == 0 && WF(g_td.current_state_) && A_TAG1(g_td.current_state_))
/* the object as the constructor leaves it: orig_state_ is a value this worker wrote into the word */
#define SW_PRE(self) ((self)->thread_ == &g_victim_tid && WF((self)->prev_state_) && A_TAG1((self)->prev_state_) && WF((self)->orig_state_) && \
                      A_TAG1((self)->orig_state_) && W_TAG(g_td.current_state_) >= W_TAG((self)->orig_state_) && \
                      WEQ((self)->prev_state_, g_prev0) && WEQ((self)->orig_state_, g_orig0) && (self)->need_restore_state_ == g_need0)
/* "the word still is this worker's (orig.state, orig.tag)" at the CAS; state_ex is the one seen by the load just before */
#define STILL_OURS RST_OK(g_cas_seen, g_orig0, g_first_read)
/* what a successful store publishes: (prev_state_.state, ex untouched, orig.tag + 1 if the state changes) */
#define PUBLISHED RST_SUCCESS(lin_old, lin_new, g_prev0, g_orig0)
#endif

#ifdef U_SW_CTOR
//@FUNC
void switch_status_ctor(struct switch_status *self, thread_id_ref_type t, struct thread_state prev_state)
__CPROVER_requires(WORD_PRE && t == &g_victim_tid && WF(prev_state) && A_TAG1(prev_state) && WEQ(prev_state, g_prev0))
/* is_valid() <=> this worker's CAS (prev -> active) succeeded <=> the word equalled prev at that CAS */
__CPROVER_ensures(g_cas == 1 && switch_status_is_valid(self) == (lin_count == 1))
__CPROVER_ensures(switch_status_is_valid(self) == SST_OK(g_cas_seen, g_prev0))
/* and then the word is (active, prev.ex, prev.tag + 1), remembered in orig_state_ */
__CPROVER_ensures(switch_status_is_valid(self) ==> SST_SUCCESS(lin_old, lin_new, g_prev0, S_ACTIVE))
__CPROVER_ensures(switch_status_is_valid(self) ==> WEQ(self->orig_state_, lin_new))
__CPROVER_ensures(self->thread_ == t && WEQ(self->prev_state_, g_prev0) && self->next_thread_id_ == NULL)
__CPROVER_ensures(switch_status_get_previous(self) == W_STATE(g_prev0))
__CPROVER_assigns(SW_FRAME, g_td.current_state_, WORD_GHOST)
//@LIFT sw_ctor
#endif

#if defined(U_SW_STORE) || defined(U_SW_DTOR)
#ifdef U_SW_STORE
//@FUNC
bool switch_status_store_state(struct switch_status *self, struct thread_state *newstate)
__CPROVER_requires(WORD_PRE && SW_PRE(self) && WEQ(*newstate, g_new0))
#ifdef U_OWNER_RELY
/* (<=) under the runner's rely: while the word is this worker's (active, orig.tag) the store is never refused */
__CPROVER_requires(W_STATE(g_orig0) == S_ACTIVE && W_STATE(g_td.current_state_) == S_ACTIVE && W_TAG(g_td.current_state_) == W_TAG(g_orig0))
__CPROVER_ensures(__CPROVER_return_value)
#endif
/* succeeds <=> the word still is this worker's at the CAS */
__CPROVER_ensures(g_cas == 1 && __CPROVER_return_value == STILL_OURS)
__CPROVER_ensures(__CPROVER_return_value == (lin_count == 1))
/* and publishes (returned state, ex, tag + 1) */
__CPROVER_ensures(__CPROVER_return_value ==> (PUBLISHED && WEQ(*newstate, g_prev0)))
/* a refused store takes no step and reports nothing */
__CPROVER_ensures(!__CPROVER_return_value ==> (lin_count == 0 && WEQ(*newstate, g_new0)))
/* either way the destructor will not restore again */
__CPROVER_ensures(!switch_status_is_valid(self))
__CPROVER_assigns(self->need_restore_state_, *newstate, g_td.current_state_, WORD_GHOST)
//@LIFT sw_store_state
#else
static bool switch_status_store_state(struct switch_status *self, struct thread_state *newstate)
//@LIFT sw_store_state
#endif
#endif

#ifdef U_SW_DTOR
//@FUNC
void switch_status_dtor(struct switch_status *self)
__CPROVER_requires(WORD_PRE && SW_PRE(self))
/* restores only if valid and not yet stored: otherwise the word is not even accessed */
__CPROVER_ensures(!g_need0 ==> (lin_count == 0 && g_cas == 0 && g_loads == 0))
/* a valid, not yet stored status restores once: prev_state_ if the word still is this worker's */
__CPROVER_ensures(g_need0 ==> (g_cas == 1 && (lin_count == 1) == STILL_OURS && (lin_count == 1 ==> PUBLISHED)))
__CPROVER_ensures(lin_count <= 1)
__CPROVER_assigns(self->need_restore_state_, self->prev_state_, g_td.current_state_, WORD_GHOST)
//@LIFT sw_dtor
#endif

#ifdef U_SW_ASSIGN
//@FUNC
struct thread_state switch_status_assign(struct switch_status *self, struct thread_result new_state)
__CPROVER_requires(WORD_PRE && SW_PRE(self) && S_ENUM(new_state.first))
/* the state to switch to after execution: (returned state, ex kept, prev tag + 1); the word itself is not accessed */
__CPROVER_ensures(W_STATE(self->prev_state_) == new_state.first && W_EX(self->prev_state_) == W_EX(g_prev0) && W_TAG(self->prev_state_) == W_TAG(g_prev0) + 1)
__CPROVER_ensures(WEQ(__CPROVER_return_value, self->prev_state_) && self->next_thread_id_ == new_state.second)
__CPROVER_ensures(lin_count == 0 && g_cas == 0 && g_loads == 0 && WEQ(self->orig_state_, g_orig0) && self->need_restore_state_ == g_need0)
__CPROVER_assigns(self->prev_state_, self->next_thread_id_)
//@LIFT sw_assign
#endif

void harness(void)
{
  g_td.current_state_.state_ = nondet_i64();
  struct thread_data *ptd = &g_td;
#define td (*ptd)
  word_ghost_init();
  struct thread_state w0 = td.current_state_;
  thread_schedule_state s = nondet_i8();
  thread_restart_state e = nondet_i8();
  struct thread_state a, b, out;
  a.state_ = nondet_i64();
  b.state_ = nondet_i64();
  out.state_ = 0;
  g_prev0 = a;
  g_arg_ex = e;
#ifdef U_SET_STATE
  struct thread_state r = set_state(&td, s, e);
  if (s != W_STATE(lin_old)) VX_REACH("state_changed_tag_bumped"); else VX_REACH("same_state_tag_kept");
  if (e == E_UNKNOWN) VX_REACH("ex_kept"); else VX_REACH("ex_set");
  if (g_cas >= 2) VX_REACH("retried_after_interference");
  if (!WEQ(lin_old, w0)) VX_REACH("stepped_from_a_word_changed_by_the_environment");
#endif
#ifdef U_SET_STATE_TAGGED
  bool ok = set_state_tagged(&td, s, &a, &out);
  if (ok) VX_REACH("switched"); else VX_REACH("refused");
  if (!ok && WEQ(w0, a)) VX_REACH("refused_because_the_environment_moved_the_word");
  if (ok && !WEQ(w0, a)) VX_REACH("switched_after_the_environment_restored_prev");
#endif
#ifdef U_RESTORE_STATE_1
  bool ok = restore_state_1(&td, a, b);
  if (ok) VX_REACH("restored"); else VX_REACH("refused");
  if (ok && W_STATE(a) != W_STATE(b)) VX_REACH("restored_with_tag_bump");
  if (ok && W_STATE(a) == W_STATE(b)) VX_REACH("restored_same_state");
  if (ok && W_EX(lin_old) != W_EX(b)) VX_REACH("restored_although_ex_differs_from_old_state");
#endif
#ifdef U_RESTORE_STATE_2
  bool ok = restore_state_2(&td, s, e, b);
  if (ok) VX_REACH("restored"); else VX_REACH("refused");
  if (ok && s != W_STATE(b)) VX_REACH("restored_with_tag_bump");
#endif
#ifdef U_SET_STATE_EX
  thread_restart_state r = set_state_ex(&td, e);
  VX_REACH("set");
  if (g_cas >= 2) VX_REACH("retried_after_interference");
#endif
#ifdef U_GET_STATE
  struct thread_state r = get_state(&td);
  VX_REACH("read");
  if (!WEQ(r, w0)) VX_REACH("read_after_interference");
#endif
#if defined(U_SW_CTOR) || defined(U_SW_STORE) || defined(U_SW_DTOR) || defined(U_SW_ASSIGN)
  struct switch_status st;
  st.thread_ = nondet_bool() ? &g_victim_tid : &g_other_tid;
  st.prev_state_ = a;
  st.orig_state_ = b;
  st.next_thread_id_ = nondet_bool() ? &g_other_tid : NULL;
  st.need_restore_state_ = nondet_bool();
  g_orig0 = b; g_need0 = st.need_restore_state_;
  g_new0 = out;
#endif
#ifdef U_SW_CTOR
  switch_status_ctor(&st, &g_victim_tid, a);
  if (switch_status_is_valid(&st)) VX_REACH("valid_switched_to_active"); else VX_REACH("invalid_another_worker_or_waker_got_in_between");
  if (switch_status_is_valid(&st) && W_STATE(a) == S_PENDING) VX_REACH("pending_to_active");
#endif
#ifdef U_SW_STORE
  bool ok = switch_status_store_state(&st, &out);
  if (ok) VX_REACH("stored");
  if (ok && W_STATE(a) == S_SUSPENDED && W_STATE(b) == S_ACTIVE) VX_REACH("active_to_suspended_published");
#ifdef U_OWNER_RELY
  if (g_interfered) VX_REACH("stored_although_the_environment_ran");
#else
  if (!ok) VX_REACH("refused_word_no_longer_ours");
  if (!ok && W_STATE(w0) == W_STATE(b) && W_TAG(w0) == W_TAG(b)) VX_REACH("refused_after_interference");
#endif
#endif
#ifdef U_SW_DTOR
  switch_status_dtor(&st);
  if (!g_need0) VX_REACH("nothing_to_restore");
  if (g_need0 && lin_count == 1) VX_REACH("restored_prev_state");
  if (g_need0 && lin_count == 0) VX_REACH("restore_refused");
#endif
#ifdef U_SW_ASSIGN
  struct thread_result res;
  res.first = s;
  res.second = nondet_bool() ? &g_other_tid : NULL;
  struct thread_state r = switch_status_assign(&st, res);
  VX_REACH("assigned");
  if (res.second != NULL) VX_REACH("next_thread_given");
#endif
}
