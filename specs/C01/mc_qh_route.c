/* C01 U5 (mc) -- queue_holder_thread routing wrappers: T contracts over the thread_queue_mc contracts (units mc.tq.*).
 *   create_thread(data, tid, thread_num, ec)      exactly one of the holder's queues gets the request (or the process is terminated)
 *   schedule_thread(thrd, priority, other_end)    exactly one of the holder's queues gets the thread, once
 *   get_next_thread_HP / get_next_thread          a thread is handed out IFF exactly one queue's pop succeeded; nothing polled afterwards
 *   add_new_HP / add_new                          staged tasks of the SAME priority class of the source holder are converted, by at most
 *                                                 one owned queue per call; the result is what that queue converted
 * Lifted: the whole bodies + owns_{bp,hp,np,lp}_queue (helpers).  Stubs: mc_qh.h. */
#include "../C01/mc_qh.h"

static bool owns_bp_queue(struct qh *self)
//@LIFT owns_bp
static bool owns_hp_queue(struct qh *self)
//@LIFT owns_hp
static bool owns_np_queue(struct qh *self)
//@LIFT owns_np
static bool owns_lp_queue(struct qh *self)
//@LIFT owns_lp

#ifdef U_CREATE
static int8_t g_prio0; static bool g_run0; static size_t g_tn0;
//@FUNC
void create_thread(struct qh *self, struct thread_init_data *data, thread_id_ref_type *tid, size_t thread_num, struct error_code *ec)
__CPROVER_requires(self == &g_h0 && WF0(self) && data == g_exp_data && data == &G.victim_init && tid == g_exp_id && ec == g_exp_ec && thread_num == g_tn0 && data->priority == g_prio0 && data->run_now == g_run0)
/* the caller's duty stated by PIKA_ASSERT((!data.run_now || (data.run_now && thread_num == thread_num_))): shared_priority_queue_scheduler::
 * create_thread clears run_now for every destination that is not the calling worker's own holder */
__CPROVER_requires(!g_run0 || thread_num == self->thread_num_)
__CPROVER_requires(Q.calls == 0 && !Q.terminated)
/* exactly one queue of THIS holder receives the request -- with the caller's data, id and error_code -- or the process is
 * terminated (loudly; never a silent drop); a request whose priority class has a queue here is always accepted */
__CPROVER_ensures((Q.calls == 1) != Q.terminated)
__CPROVER_ensures(Q.calls == 1 ==> (Q.recv_mine && Q.arg_data_ok && Q.arg_id_ok && Q.arg_ec_ok))
__CPROVER_ensures(CLASS_KIND(self, g_prio0) != K_NONE ==> (Q.calls == 1 && Q.recv_kind == CLASS_KIND(self, g_prio0)))
/* run_now reaches a queue only on the worker that owns the holder (thread_queue_mc::create_thread's precondition) */
__CPROVER_ensures((Q.calls == 1 && Q.arg_run_now) ==> g_tn0 == self->thread_num_)
__CPROVER_assigns(Q, G.victim_init)
//@LIFT body
#endif

#ifdef U_SCHEDULE
static int g_thrd0; static int8_t g_prio0; static bool g_oe0;
//@FUNC
void schedule_thread(struct qh *self, thread_id_ref_type thrd, int8_t priority, bool other_end)
__CPROVER_requires(self == &g_h0 && WF0(self) && thrd != NULL && TD_ID(thrd) == g_thrd0 && g_thrd0 != 0 && priority == g_prio0 && other_end == g_oe0)
__CPROVER_requires(Q.calls == 0 && Q.v_pushes == 0 && VP_OK && (g_thrd0 == 1 ? (gv_mine && gv_map && !GV_QUEUED) : !gv_mine))
/* exactly one queue of THIS holder receives exactly the thread passed in, once, at the requested end; the queue of its priority
 * class if the holder has one (otherwise any of the holder's queues) */
__CPROVER_ensures(Q.calls == 1 && Q.recv_mine && Q.arg_thrd == g_thrd0 && Q.arg_other_end == g_oe0)
__CPROVER_ensures(CLASS_KIND(self, g_prio0) != K_NONE ==> Q.recv_kind == CLASS_KIND(self, g_prio0))
__CPROVER_ensures(Q.v_pushes == (g_thrd0 == 1 ? 1 : 0) && !gv_mine && VP_OK)
__CPROVER_assigns(Q, G, g_bp, g_hp, g_np, g_lp)
//@LIFT body
#endif

#ifdef U_NEXT_HP
//@FUNC
bool get_next_thread_HP(struct qh *self, thread_id_ref_type *thrd, bool stealing, bool check_new)
__CPROVER_requires(self == &g_h0 && WF0(self) && *thrd == NULL && stealing == g_exp_stealing && check_new == g_exp_check_new && VP_OK && !gv_mine)
__CPROVER_requires(Q.pops == 0 && Q.v_pops == 0 && Q.polls_bp == 0 && Q.polls_hp == 0 && Q.polls_np == 0 && Q.polls_lp == 0 && Q.flags_ok && Q.check_new_ok && !Q.foreign_poll && Q.calls == 0)
/* handed out IFF exactly one pop succeeded, and it is the popped thread; otherwise the id stays empty; nothing is put back */
__CPROVER_ensures(__CPROVER_return_value == (Q.pops == 1) && Q.pops <= 1 && Q.calls == 0)
__CPROVER_ensures(__CPROVER_return_value ==> (*thrd != NULL && TD_ID(*thrd) == Q.pop_id))
__CPROVER_ensures(!__CPROVER_return_value ==> *thrd == NULL)
/* the victim comes into this worker's hands only through that single pop */
__CPROVER_ensures(Q.v_pops == ((__CPROVER_return_value && TD_ID(*thrd) == 1) ? 1 : 0) && gv_mine == (Q.v_pops == 1) && VP_OK)
/* only this holder's bound and high queues, each at most once, with the caller's stealing flag as `other_end`; new work is looked
 * for only if the caller asked for it */
__CPROVER_ensures(Q.polls_bp <= 1 && Q.polls_hp <= 1 && Q.polls_np == 0 && Q.polls_lp == 0 && !Q.foreign_poll && Q.flags_ok && Q.check_new_ok)
/* a thief never takes bound work */
__CPROVER_ensures(g_exp_stealing ==> Q.polls_bp == 0)
__CPROVER_assigns(Q, G, *thrd, g_bp, g_hp, g_np, g_lp)
//@LIFT body
#endif

#ifdef U_NEXT
//@FUNC
bool get_next_thread(struct qh *self, thread_id_ref_type *thrd, bool stealing)
__CPROVER_requires(self == &g_h0 && WF0(self) && *thrd == NULL && stealing == g_exp_stealing && !g_exp_check_new && VP_OK && !gv_mine)
__CPROVER_requires(Q.pops == 0 && Q.v_pops == 0 && Q.polls_bp == 0 && Q.polls_hp == 0 && Q.polls_np == 0 && Q.polls_lp == 0 && Q.flags_ok && Q.check_new_ok && !Q.foreign_poll && Q.calls == 0)
/* handed out IFF exactly one pop succeeded, and it is the popped thread; otherwise the id stays empty; nothing is put back */
__CPROVER_ensures(__CPROVER_return_value == (Q.pops == 1) && Q.pops <= 1 && Q.calls == 0)
__CPROVER_ensures(__CPROVER_return_value ==> (*thrd != NULL && TD_ID(*thrd) == Q.pop_id))
__CPROVER_ensures(!__CPROVER_return_value ==> *thrd == NULL)
/* the victim comes into this worker's hands only through that single pop */
__CPROVER_ensures(Q.v_pops == ((__CPROVER_return_value && TD_ID(*thrd) == 1) ? 1 : 0) && gv_mine == (Q.v_pops == 1) && VP_OK)
/* only this holder's normal and low queues, each at most once, with the caller's stealing flag as `other_end`; never looks for
 * new work */
__CPROVER_ensures(Q.polls_np <= 1 && Q.polls_lp <= 1 && Q.polls_bp == 0 && Q.polls_hp == 0 && !Q.foreign_poll && Q.flags_ok && Q.check_new_ok)
__CPROVER_assigns(Q, G, *thrd, g_bp, g_hp, g_np, g_lp)
//@LIFT body
#endif

#ifdef U_ADDNEW_HP
//@FUNC
size_t add_new_HP(struct qh *self, int64_t add_count, struct qh *addfrom, bool stealing)
__CPROVER_requires(self == &g_h0 && WF0(self) && WF1(&g_h1) && addfrom == g_exp_from && (addfrom == &g_h0 || addfrom == &g_h1) && add_count == g_exp_add_count && add_count >= -1 && stealing == g_exp_stealing)
/* the callers' duty: both holders belong to one scheduler (same set of queue kinds): a queue this holder owns exists in the source */
__CPROVER_requires((self->bp_queue_ != NULL ==> addfrom->bp_queue_ != NULL) && (self->hp_queue_ != NULL ==> addfrom->hp_queue_ != NULL) && (self->lp_queue_ != NULL ==> addfrom->lp_queue_ != NULL))
__CPROVER_requires(Q.an_bp == 0 && Q.an_hp == 0 && Q.an_np == 0 && Q.an_lp == 0 && Q.an_success == 0 && Q.an_args_ok && !Q.an_after_success && !Q.an_foreign_recv && VP_OK && !gv_mine)
/* every conversion goes INTO a queue of this holder FROM the source holder's queue of the same priority class, with the caller's
 * budget and flag; each queue is asked at most once, only if this holder owns it; only the bound and high queues */
__CPROVER_ensures(Q.an_args_ok && !Q.an_foreign_recv && Q.an_bp <= 1 && Q.an_hp <= 1 && Q.an_np == 0 && Q.an_lp == 0)
__CPROVER_ensures((Q.an_bp == 1 ==> (self->bp_queue_ != NULL && (self->owner_mask_ & 1) != 0)) && (Q.an_hp == 1 ==> (self->hp_queue_ != NULL && (self->owner_mask_ & 2) != 0)))
/* at most one queue converts per call, nothing is asked after it, and the result is exactly what it converted (0: nothing was) */
__CPROVER_ensures(Q.an_success <= 1 && !Q.an_after_success && __CPROVER_return_value == (Q.an_success == 1 ? Q.an_last : 0))
/* a thief never converts bound work */
__CPROVER_ensures(g_exp_stealing ==> Q.an_bp == 0)
__CPROVER_ensures(VP_OK && !gv_mine)
__CPROVER_assigns(Q, G, g_bp, g_hp, g_np, g_lp, g_bp2, g_hp2, g_np2, g_lp2)
//@LIFT body
#endif

#ifdef U_ADDNEW
//@FUNC
size_t add_new(struct qh *self, int64_t add_count, struct qh *addfrom, bool stealing)
__CPROVER_requires(self == &g_h0 && WF0(self) && WF1(&g_h1) && addfrom == g_exp_from && (addfrom == &g_h0 || addfrom == &g_h1) && add_count == g_exp_add_count && add_count >= -1 && stealing == g_exp_stealing)
/* the callers' duty: both holders belong to one scheduler (same set of queue kinds): a queue this holder owns exists in the source */
__CPROVER_requires((self->bp_queue_ != NULL ==> addfrom->bp_queue_ != NULL) && (self->hp_queue_ != NULL ==> addfrom->hp_queue_ != NULL) && (self->lp_queue_ != NULL ==> addfrom->lp_queue_ != NULL))
__CPROVER_requires(Q.an_bp == 0 && Q.an_hp == 0 && Q.an_np == 0 && Q.an_lp == 0 && Q.an_success == 0 && Q.an_args_ok && !Q.an_after_success && !Q.an_foreign_recv && VP_OK && !gv_mine)
/* every conversion goes INTO a queue of this holder FROM the source holder's queue of the same priority class, with the caller's
 * budget and flag; each queue is asked at most once, only if this holder owns it; only the normal and low queues */
__CPROVER_ensures(Q.an_args_ok && !Q.an_foreign_recv && Q.an_np <= 1 && Q.an_lp <= 1 && Q.an_bp == 0 && Q.an_hp == 0)
__CPROVER_ensures((Q.an_np == 1 ==> (self->owner_mask_ & 4) != 0) && (Q.an_lp == 1 ==> (self->lp_queue_ != NULL && (self->owner_mask_ & 8) != 0)))
/* at most one queue converts per call, nothing is asked after it, and the result is exactly what it converted (0: nothing was) */
__CPROVER_ensures(Q.an_success <= 1 && !Q.an_after_success && __CPROVER_return_value == (Q.an_success == 1 ? Q.an_last : 0))
__CPROVER_ensures(VP_OK && !gv_mine)
__CPROVER_assigns(Q, G, g_bp, g_hp, g_np, g_lp, g_bp2, g_hp2, g_np2, g_lp2)
//@LIFT body
#endif

void harness(void)
{
  mcqh_init();
  gv_map = nondet_bool(); gv_term = nondet_bool(); gv_heap = nondet_bool();
#ifdef U_CREATE
  thread_id_ref_type out = NULL; struct error_code myec; myec.value = nondet_int();
  g_exp_data = &G.victim_init; g_exp_id = nondet_bool() ? &out : NULL; g_exp_ec = nondet_bool() ? &throws : &myec;
  g_prio0 = G.victim_init.priority; g_run0 = G.victim_init.run_now; g_tn0 = nondet_size();
  create_thread(&g_h0, g_exp_data, g_exp_id, g_tn0, g_exp_ec);
  if (Q.calls == 1 && Q.recv_kind == K_NP) VX_REACH("normal");
  if (Q.calls == 1 && Q.recv_kind == K_BP) VX_REACH("bound");
  if (Q.calls == 1 && Q.recv_kind == K_HP && g_prio0 == thread_priority_high) VX_REACH("high");
  if (Q.calls == 1 && Q.recv_kind == K_HP && g_prio0 == thread_priority_boost) VX_REACH("boost");
  if (Q.calls == 1 && Q.recv_kind == K_LP) VX_REACH("low");
  if (Q.terminated && g_prio0 == thread_priority_high) VX_REACH("terminate_high_without_hp_queue");
  if (Q.terminated && g_prio0 == thread_priority_default_) VX_REACH("terminate_default_priority");
  if (Q.calls == 1 && Q.arg_run_now) VX_REACH("run_now_on_own_worker");
#endif
#ifdef U_SCHEDULE
  thread_id_ref_type t = nondet_bool() ? &G.victim_td : &G.other_td;
  g_thrd0 = TD_ID(t); gv_mine = (t == &G.victim_td); g_prio0 = nondet_i8(); g_oe0 = nondet_bool();
  if (nondet_bool()) g_np.gw_victim = nondet_bool(); else g_hp2.gw_victim = nondet_bool();
  schedule_thread(&g_h0, t, g_prio0, g_oe0);
  if (Q.recv_kind == K_NP && g_prio0 == thread_priority_normal) VX_REACH("normal");
  if (Q.recv_kind == K_BP) VX_REACH("bound");
  if (Q.recv_kind == K_HP) VX_REACH("high");
  if (Q.recv_kind == K_LP) VX_REACH("low");
  if (Q.recv_kind == K_NP && g_prio0 == thread_priority_high) VX_REACH("high_without_hp_queue_goes_to_normal");
  if (Q.v_pushes == 1) VX_REACH("victim_queued_once");
  if (Q.arg_other_end) VX_REACH("other_end");
#endif
#if defined(U_NEXT) || defined(U_NEXT_HP)
  thread_id_ref_type t = NULL;
  g_exp_stealing = nondet_bool();
  int where = nondet_int();
  if (where == 1) g_bp.gw_victim = true; else if (where == 2) g_hp.gw_victim = true; else if (where == 3) g_np.gw_victim = true; else if (where == 4) g_lp.gw_victim = true;
  bool was_queued = GV_QUEUED;
#ifdef U_NEXT_HP
  g_exp_check_new = nondet_bool();
  bool r = get_next_thread_HP(&g_h0, &t, g_exp_stealing, g_exp_check_new);
  if (r && Q.pop_kind == K_BP) VX_REACH("from_bound");
  if (r && Q.pop_kind == K_HP) VX_REACH("from_high");
  if (r && Q.pop_kind == K_HP && g_exp_stealing) VX_REACH("high_stolen");
  if (!r && g_h0.bp_queue_ == NULL && g_h0.hp_queue_ == NULL) VX_REACH("no_hp_queues");
#else
  g_exp_check_new = false;
  bool r = get_next_thread(&g_h0, &t, g_exp_stealing);
  if (r && Q.pop_kind == K_NP) VX_REACH("from_normal");
  if (r && Q.pop_kind == K_LP) VX_REACH("from_low");
  if (r && Q.pop_kind == K_LP && g_exp_stealing) VX_REACH("low_stolen");
#endif
  if (r && t == &G.victim_td) VX_REACH("victim_handed_to_this_worker");
  if (!r && was_queued && GV_QUEUED) VX_REACH("victim_stays_queued");
  if (!r) VX_REACH("nothing");
#endif
#if defined(U_ADDNEW) || defined(U_ADDNEW_HP)
  g_exp_from = nondet_bool() ? &g_h0 : &g_h1; g_exp_add_count = nondet_i64(); g_exp_stealing = nondet_bool();
  int where = nondet_int();
  if (where == 1) g_bp2.gs_victim = true; else if (where == 2) g_hp2.gs_victim = true; else if (where == 3) g_np2.gs_victim = true; else if (where == 4) g_lp.gs_victim = true; else if (where == 5) g_np.gs_victim = true;
#ifdef U_ADDNEW_HP
  size_t r = add_new_HP(&g_h0, g_exp_add_count, g_exp_from, g_exp_stealing);
  if (r > 0 && Q.an_kind == K_BP) VX_REACH("bound_converted");
  if (r > 0 && Q.an_kind == K_HP) VX_REACH("high_converted");
  if (r > 0 && Q.an_kind == K_HP && Q.an_bp == 1) VX_REACH("high_converted_after_bound_had_nothing");
#else
  size_t r = add_new(&g_h0, g_exp_add_count, g_exp_from, g_exp_stealing);
  if (r > 0 && Q.an_kind == K_NP) VX_REACH("normal_converted");
  if (r > 0 && Q.an_kind == K_LP) VX_REACH("low_converted");
  if (r > 0 && Q.an_kind == K_LP && Q.an_np == 1) VX_REACH("low_converted_after_normal_had_nothing");
#endif
  if (r == 0 && Q.an_bp + Q.an_hp + Q.an_np + Q.an_lp == 0) VX_REACH("owns_nothing");
  if (r == 0 && Q.an_bp + Q.an_hp + Q.an_np + Q.an_lp >= 1) VX_REACH("nothing_staged");
  if (r > 0 && g_exp_from == &g_h1 && GV_QUEUED && where >= 1 && where <= 3) VX_REACH("victim_stolen_from_other_holder_and_queued_here");
  if (r == 2) VX_REACH("two_converted");
#endif
}
