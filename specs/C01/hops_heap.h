/* shared by hops_heap_recycle.c / hops_heap_create.c */
#ifndef HOPS_HEAP_H
#define HOPS_HEAP_H
#include "../C01/hops.h"
enum { thread_id_addref_yes = 0, thread_id_addref_no = 1 };
static int g_thrd_id; static int8_t g_init0;
#define IS_CONFIGURED(q, s) ((s) == (q)->parameters_.small_stacksize_ || (s) == (q)->parameters_.medium_stacksize_ || \
  (s) == (q)->parameters_.large_stacksize_ || (s) == (q)->parameters_.huge_stacksize_ || (s) == (q)->parameters_.nostack_stacksize_)
#define NORM(st) (((st) == thread_schedule_state_pending_do_not_schedule || (st) == thread_schedule_state_pending_boost) ? thread_schedule_state_pending : (st))
#define HEAP_FRAME(q) (q)->thread_heap_small_, (q)->thread_heap_medium_, (q)->thread_heap_large_, (q)->thread_heap_huge_, (q)->thread_heap_nostack_

#endif
