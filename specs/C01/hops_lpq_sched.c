/* C01 U5 -- local_priority_queue_scheduler::schedule_thread / schedule_thread_last: exactly one thread_queue::schedule_thread,
 * of exactly the thread passed in (edge (worker / waker) -> pending, taken once). */
#include "../C01/hops_lpq.h"
static int g_thrd_id;
//@FUNC
void schedule_thread(struct lpqs *self, thread_id_ref_type thrd, struct hint schedulehint, bool allow_fallback, int8_t priority)
__CPROVER_requires(WF(self) && L.calls == 0 && L.v_pushes == 0 && L.sel == 0 && thrd != NULL && TD_ID(thrd) == g_thrd_id && g_thrd_id != 0 && VP_OK)
__CPROVER_requires(g_thrd_id == 1 ? (gv_mine && gv_map && !gv_queued) : !gv_mine)
__CPROVER_ensures(L.calls == 1 && L.arg_thrd == g_thrd_id && L.v_pushes == (g_thrd_id == 1 ? 1 : 0) && VP_OK && !gv_mine)
__CPROVER_assigns(L, G, self->curr_queue_)
//@LIFT body

void harness(void)
{
  static struct lpqs s;
  hops_ghost_init(); lpq_ghost_init(&s);
  thread_id_ref_type t = nondet_bool() ? &g_victim_td : &g_other_td;
  g_thrd_id = TD_ID(t);
  gv_mine = (t == &g_victim_td); gv_map = nondet_bool(); gv_queued = nondet_bool(); gv_term = nondet_bool(); gv_heap = nondet_bool();
  struct hint h; h.hint = nondet_i16(); h.mode = nondet_i8();
  schedule_thread(&s, t, h, nondet_bool(), nondet_i8());
  if (L.recv_kind == K_HP) VX_REACH("high_priority_queue"); if (L.recv_kind == K_LP) VX_REACH("low_priority_queue"); if (L.recv_kind == K_NP) VX_REACH("normal_queue");
  if (t == &g_victim_td) VX_REACH("victim_queued_once");
#ifdef U_LAST
  if (L.arg_other_end) VX_REACH("queued_at_the_other_end");
#else
  if (!L.arg_other_end) VX_REACH("queued_at_the_front_end");
#endif
}
