/* C01 U5 -- thread_queue::add_new(add_count, addfrom, lk, steal): staged -> (thread object) -> map -> pending, over TWO queue
 * objects: `self` = the RECEIVING queue (its lock is held by the caller), `addfrom` = the queue whose new_tasks_ is drained
 * (the same object, or another one when staged tasks are stolen).  I + T contract, loop contract on the conversion loop.
 * Lifted: the whole body.  Stubs (hops.h): new_tasks_.pop, create_thread_object, ~task_description / deallocate,
 * thread_map_.insert, the three atomic counters, schedule_thread (its contract), PIKA_THROW_EXCEPTION (flag + return). */
#include "../C01/hops.h"

static int64_t g_add0;                           /* add_count as passed (ghost copy pinned by the precondition) */
static int g_from;                                /* Q_ID of addfrom */
#define SAME (self == addfrom)
/* per-call operation counts agree: every popped task got ONE thread object, was freed once, inserted, counted, un-staged
 * (on the queue it was popped from) and queued once */
#define CONVERTED(n) (g_cto == (n) && g_task_dtors == (n) && g_task_frees == (n) && g_ins == (n) && g_map_incs == (n) && g_sched == (n))
#define ADDNEW_INV(self, addfrom) \
  (vx_exc == 0 && OWNS(lk) && g_pops >= 0 && g_pops <= VX_BIG && add_count == g_add0 - g_pops && (g_add0 < 0 || g_pops <= g_add0) && \
   added == (size_t) g_pops && CONVERTED(g_pops) && g_ins_fail == 0 && \
   (task == 0 || task == 1 || task == 2) && \
   (addfrom)->gs_pops == g_pops && (addfrom)->gs_decs == g_pops && (addfrom)->gs_incs == 0 && (addfrom)->gs_pushes == 0 && \
   (addfrom)->gs_owed == 0 && (addfrom)->gs_resv == 0 && NTRANGE(addfrom, 4) && NTINV(addfrom) && \
   (SAME || ((self)->gs_pops == 0 && (self)->gs_decs == 0 && (self)->gs_incs == 0 && (self)->gs_pushes == 0 && (self)->gs_owed == 0 && (self)->gs_resv == 0 && NTINV(self))) && \
   MAPRANGE(self, 4) && MAPINV(self) && g_erases == 0 && g_map_decs == 0 && \
   (self)->work_items_count_ >= 0 && (self)->work_items_count_ <= 2 * VX_BIG && \
   VP_OK && !gv_mine && g_v_pops <= 1 && g_v_cto == g_v_pops && g_v_ins == g_v_pops && g_v_sched == g_v_pops && (g_v_pops == 0 || !(addfrom)->gs_victim))

//@FUNC
size_t add_new(struct tq *self, int64_t add_count, struct tq *addfrom, struct ulock *lk, bool steal)
__CPROVER_requires(self == g_self && Q_ID(addfrom) == g_from && g_from != 0 && add_count == g_add0 && add_count >= -1 && steal == g_expect_steal)
__CPROVER_requires(OWNS(lk) && lk->m == &self->mtx_ && vx_exc == 0 && g_pops == 0 && CONVERTED(0) && g_ins_fail == 0 && g_erases == 0 && g_map_decs == 0)
__CPROVER_requires(addfrom->gs_pops == 0 && addfrom->gs_decs == 0 && addfrom->gs_incs == 0 && addfrom->gs_pushes == 0 && addfrom->gs_owed == 0 && addfrom->gs_resv == 0 && NTRANGE(addfrom, 8) && NTINV(addfrom))
__CPROVER_requires(self->gs_pops == 0 && self->gs_decs == 0 && self->gs_incs == 0 && self->gs_pushes == 0 && self->gs_owed == 0 && self->gs_resv == 0 && NTRANGE(self, 8) && NTINV(self))
__CPROVER_requires(MAPRANGE(self, 8) && MAPINV(self) && self->work_items_count_ >= 0 && self->work_items_count_ <= VX_BIG)
__CPROVER_requires(VP_OK && !gv_mine && g_v_pops == 0 && g_v_cto == 0 && g_v_ins == 0 && g_v_sched == 0)
/* (1) un-staging is accounted on the queue the task was popped from: one decrement of addfrom's new_tasks_count_ per pop,
 *     after the pop (asserted at the decrement), none left owing at exit -- on the exception path too */
__CPROVER_ensures(addfrom->gs_pops == g_pops && addfrom->gs_decs == g_pops && addfrom->gs_owed == 0 && addfrom->gs_resv == 0 && addfrom->gs_incs == 0 && addfrom->gs_pushes == 0 && NTINV(addfrom))
/* (2) the receiver's staged queue and its counter are not touched unless it is the source */
__CPROVER_ensures(self == addfrom || (self->gs_pops == 0 && self->gs_decs == 0 && self->gs_incs == 0 && self->gs_pushes == 0 && self->gs_owed == 0 && NTINV(self)))
/* (3) normal return: every popped task was converted -- one thread object, description destroyed and freed once, inserted
 *     into the RECEIVER's map, thread_map_count_ +1 after the insertion, queued once in the RECEIVER; none dropped */
__CPROVER_ensures(vx_exc == 0 ==> (__CPROVER_return_value == (size_t) g_pops && CONVERTED(g_pops) && g_ins_fail == 0 && OWNS(lk) && MAPINV(self)))
/* (4) a task the map refused is reported by an exception (never dropped silently); it is un-staged (1), everything before it
 *     was converted */
__CPROVER_ensures(vx_exc != 0 ==> (vx_exc == error_out_of_memory && g_ins_fail == 1 && g_cto == g_pops && g_task_frees == g_pops && g_ins == g_pops - 1 && g_map_incs == g_pops - 1 && g_sched == g_pops - 1))
/* (5) the victim: popped at most once; if popped it got one object, one map entry and one queue entry (staged -> pending+map) */
__CPROVER_ensures(g_v_pops <= 1 && g_v_cto == g_v_pops && g_v_ins == g_v_pops && g_v_sched == g_v_pops && !gv_mine && VP_OK)
/* (6) at most add_count conversions when a limit is given; none for 0 */
__CPROVER_ensures(g_add0 >= 0 ==> g_pops <= g_add0)
__CPROVER_assigns(g_q0, g_q1, lk->owns, G)
//@LIFT add_new_body

void harness(void)
{
  hops_ghost_init();
  hops_queue_init(&g_q0); hops_queue_init(&g_q1);
  struct tq *self = &g_q0;
  struct tq *from = nondet_bool() ? &g_q0 : &g_q1;
  CFG.self = 1; g_from = Q_ID(from);
  /* the victim: staged in the source queue, or anywhere else it may be */
  from->gs_victim = nondet_bool();
  gv_map = nondet_bool(); gv_queued = nondet_bool(); gv_term = nondet_bool(); gv_heap = nondet_bool();
  g_map = nondet_long(); g_q0.thread_map_count_ = g_map;
  struct ulock lk; lk.m = &g_q0.mtx_; lk.owns = true; g_q0.mtx_.held = true;
  g_add0 = nondet_i64(); g_expect_steal = nondet_bool();
  bool was_staged = from->gs_victim;
  size_t added = add_new(self, g_add0, from, &lk, g_expect_steal);
  if (vx_exc == 0 && added == 0 && g_add0 == 0) VX_REACH("add_count_zero");
  if (vx_exc == 0 && added == 0 && g_add0 != 0) VX_REACH("nothing_staged_or_pop_failed");
  if (vx_exc == 0 && added == 2) VX_REACH("two_converted");
  if (vx_exc == 0 && g_add0 > 0 && added == (size_t) g_add0) VX_REACH("limit_reached");
  if (vx_exc == 0 && g_add0 == -1 && added == 3) VX_REACH("unlimited");
  if (g_v_sched == 1 && from == &g_q1) VX_REACH("victim_stolen_from_other_queue_and_queued_here");
  if (g_v_sched == 1 && from == &g_q0) VX_REACH("victim_converted_in_own_queue");
  if (was_staged && g_v_pops == 0 && !from->gs_victim) VX_REACH("victim_taken_by_another_converter");
  if (was_staged && g_v_pops == 0 && from->gs_victim) VX_REACH("victim_still_staged");
  if (vx_exc != 0) VX_REACH("map_refused_exception");
  if (vx_exc != 0 && g_pops == 2) VX_REACH("map_refused_second_task");
}
