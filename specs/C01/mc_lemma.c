/* C01 U5 (mc) -- lemma over the hop contracts of the shared scheduler's queues (the contract stubs of mc_hops.h / mc_qh.h, i.e.
 * exactly the texts the mc.* units are proved against): from ANY state in which the victim is in exactly one place (VP_OK), ANY
 * single hop whose precondition holds leaves it in exactly one place (or recycled / destroyed); the victim passes from a shared
 * container into somebody's hands only through a successful pop of that container; a pending thread reaches a worker only through
 * the single successful pop of get_next_thread.  The hops' own preconditions on the victim are ASSUMED here (CFG.lemma); every
 * unit proves them at its call sites. */
#include "../C01/mc_qh.h"

enum { H_STAGE = 1, H_UNSTAGE, H_MAKE_OBJECT, H_MAP_INSERT, H_REGISTER, H_SCHEDULE, H_SCHEDULE_VIA_HOLDER, H_GET_NEXT, H_GET_NEXT_VIA_HOLDER, H_CONVERT_VIA_HOLDER,
       H_TERMINATE, H_TERM_POP, H_REMOVE_AND_RECYCLE, H_REMOVE_AND_DESTROY, H_ERASE, H_LAST };

void harness(void)
{
  mcqh_init();
  CFG.lemma = true; g_term_pops_by_others = false;
  g_h0.owner_id_ = CFG.this_thread;
  int hop = nondet_int();
  g_h0.thread_map_mtx_.held = (hop != H_REGISTER);             /* (the hops on thread_map_ / free lists need the lock; add_to_thread_map takes it) */
  /* any place the victim may be in, ledgers consistent with it */
  int where = nondet_int();
  if (where == 1) g_np.gs_victim = true; else if (where == 2) g_np.gw_victim = true; else if (where == 3) g_hp2.gs_victim = true; else if (where == 4) g_lp.gw_victim = true;
  gv_mine = nondet_bool(); gv_map = nondet_bool(); gv_term = nondet_bool(); gv_heap = nondet_bool();
  int32_t c = nondet_i32(); G.map = c; g_h0.thread_map_count_ = c; G.term = nondet_long();
  G.victim_td.holder_ = 1; G.other_td.holder_ = 1;
  if (!(VP_OK && NTRANGE(&g_np, 8) && NTINV(&g_np) && WIRANGE(&g_np, 8) && WIINV(&g_np) && MAPRANGE(&g_h0, 8) && MAPINV(&g_h0) && TERMRANGE(&g_h0, 8) && TERMINV(&g_h0))) return;
  bool mine0 = gv_mine, queued0 = GV_QUEUED, staged0 = GV_STAGED, term0 = gv_term, heap0 = gv_heap, map0 = gv_map;
  bool popped = false;
  thread_id_ref_type t = NULL; task_description td; td_handle dh = 0;
  G.victim_init.initial_state = thread_schedule_state_pending;
  if (hop == H_STAGE) { atomic_inc_new_tasks_count_(&g_np); nt_push(&g_np, task_make(G.victim_init)); }
  else if (hop == H_UNSTAGE) { popped = nt_pop(&g_np, &td, nondet_bool()) && td.gid == 1; }
  else if (hop == H_MAKE_OBJECT) { qh_create_thread_object(&g_h0, &t, &G.victim_init); }
  else if (hop == H_MAP_INSERT) { map_insert(&g_h0, &G.victim_td); }
  else if (hop == H_REGISTER) { qh_add_to_thread_map(&g_h0, &G.victim_td); }
  else if (hop == H_SCHEDULE) { atomic_inc_work_items_count_(&g_np); wi_push(&g_np, &G.victim_td, nondet_bool()); }
  else if (hop == H_SCHEDULE_VIA_HOLDER) { q_schedule_work(&g_np, &G.victim_td, nondet_bool()); }
  else if (hop == H_GET_NEXT) { popped = wi_pop(&g_np, &t, nondet_bool()) && t == &G.victim_td; }
  else if (hop == H_GET_NEXT_VIA_HOLDER) { g_exp_stealing = nondet_bool(); popped = q_get_next_thread(&g_np, &t, g_exp_stealing, false) && t == &G.victim_td; }
  else if (hop == H_CONVERT_VIA_HOLDER) { g_exp_add_count = 64; g_exp_from = &g_h1; g_exp_stealing = true; q_add_new(&g_hp, 64, &g_hp2, true); }
  else if (hop == H_TERMINATE) { term_push(&g_h0, &G.victim_td); }
  else if (hop == H_TERM_POP) { popped = term_pop_h(&g_h0, &dh) && dh == 1; }
  else if (hop == H_REMOVE_AND_RECYCLE) { qh_remove_from_thread_map(&g_h0, &G.victim_td, false); qh_recycle_thread(&g_h0, &G.victim_td); }
  else if (hop == H_REMOVE_AND_DESTROY) { qh_remove_from_thread_map(&g_h0, &G.victim_td, true); }
  else if (hop == H_ERASE) { if (map_erase(&g_h0, &G.victim_td) != 0) qh_deallocate(&G.victim_td); }
  else return;
  if (vx_exc != 0) return;                                      /* (a refused registration is reported; decided in mc.qh.add_to_thread_map) */
  /* L1: exactly one place after any single hop */
  VX_ASSERT(VP_OK, "L1: after any single hop the victim is in exactly one place (or recycled / destroyed)");
  /* L2: nothing is duplicated or dropped by a hop */
  VX_ASSERT(!(queued0 && GV_QUEUED && gv_mine), "L2: never both queued and in somebody's hands");
  VX_ASSERT(G.env_moved || gv_mine || GV_STAGED || gv_map || gv_heap || !(mine0 || staged0 || map0 || heap0), "L2: a hop never makes the victim vanish (only another worker's own hop can take it away)");
  /* L3: the victim comes into a call's hands only through a successful pop that returned it */
  VX_ASSERT(G.env_moved || !(!mine0 && gv_mine) || popped, "L3: the victim passes from a container into somebody's hands only by a pop that returned it");
  /* L4: pending -> worker only through get_next_thread's pop; the entry is removed by that pop */
  VX_ASSERT(G.env_moved || !(queued0 && !GV_QUEUED) || ((hop == H_GET_NEXT || hop == H_GET_NEXT_VIA_HOLDER) && popped && gv_mine && gv_map), "L4: a pending thread leaves the queue only into the hands of the worker whose single pop returned it");
  VX_ASSERT(!(popped && (hop == H_GET_NEXT || hop == H_GET_NEXT_VIA_HOLDER)) || (queued0 && !mine0), "L4: what get_next_thread hands out was pending and in nobody's hands");
  /* L5: staged -> thread object only through the pop of the staged queue (add_new), and a conversion ends pending + in the map */
  VX_ASSERT(!(staged0 && !GV_STAGED) || (hop == H_UNSTAGE && popped && gv_mine) || G.env_moved, "L5: a staged task leaves new_task_items_ only into the hands of the converter whose pop returned it");
  if (hop == H_STAGE && g_np.gs_victim) VX_REACH("staged");
  if (hop == H_UNSTAGE && popped) VX_REACH("unstaged");
  if (hop == H_MAKE_OBJECT && t == &G.victim_td) VX_REACH("object_made");
  if (hop == H_MAP_INSERT && !map0 && gv_map) VX_REACH("inserted");
  if (hop == H_REGISTER && !map0 && gv_map) VX_REACH("registered");
  if (hop == H_SCHEDULE && g_np.gw_victim && !queued0) VX_REACH("scheduled");
  if (hop == H_SCHEDULE_VIA_HOLDER && g_np.gw_victim && !queued0) VX_REACH("scheduled_via_holder");
  if (hop == H_GET_NEXT && popped) VX_REACH("taken_by_worker");
  if (hop == H_GET_NEXT_VIA_HOLDER && popped) VX_REACH("taken_by_worker_via_holder");
  if (hop == H_CONVERT_VIA_HOLDER && staged0 && g_hp.gw_victim) VX_REACH("stolen_and_converted_via_holder");
  if (hop == H_TERMINATE && gv_term && !term0) VX_REACH("terminated");
  if (hop == H_TERM_POP && popped) VX_REACH("taken_by_cleaner");
  if (hop == H_REMOVE_AND_RECYCLE && gv_heap && !heap0) VX_REACH("removed_and_recycled");
  if (hop == H_REMOVE_AND_DESTROY && gv_heap && !heap0) VX_REACH("removed_and_destroyed");
  if (hop == H_ERASE && gv_heap && !heap0) VX_REACH("erased_and_destroyed");
}
