/* C01 U5 -- local_priority_queue_scheduler::get_next_thread: a thread is handed to the worker by exactly ONE successful
 * thread_queue::get_next_thread (pending -> worker), taken from one queue; queues are tried in the order own high priority, own
 * normal, other workers' (the thread is removed from the victim's queue by that single pop), low priority; after a
 * success nothing else is polled; nothing is ever put back. */
#include "../C01/hops_lpq.h"
//@FUNC
bool get_next_thread(struct lpqs *self, size_t num_thread, bool running, thread_id_ref_type *thrd, bool enable_stealing)
__CPROVER_requires(WF(self) && num_thread < self->num_queues_ && num_thread == L.me && L.nvictims <= self->num_queues_ && *thrd == NULL && VP_OK && !gv_mine)
__CPROVER_requires(L.pops == 0 && L.v_pops == 0 && L.stage == 0 && L.polls_own_np == 0 && L.polls_own_hp == 0 && L.polls_lp == 0 && L.polls_foreign == 0 && L.steal_flag_ok && L.calls == 0)
__CPROVER_requires(L.np_mine.kind == K_NP && !L.np_mine.foreign && L.np_other.kind == K_NP && L.np_other.foreign && L.hp_mine.kind == K_HP && !L.hp_mine.foreign && \
                   L.hp_other.kind == K_HP && L.hp_other.foreign && L.lp.kind == K_LP && !L.lp.foreign)
__CPROVER_requires(LPQ_V_OK)
/* handed out IFF exactly one pop succeeded, and it is the popped thread; otherwise the id stays empty */
__CPROVER_ensures(__CPROVER_return_value == (L.pops == 1) && L.pops <= 1 && L.calls == 0)
__CPROVER_ensures(__CPROVER_return_value ==> (*thrd != NULL && TD_ID(*thrd) == L.pop_id))
__CPROVER_ensures(!__CPROVER_return_value ==> *thrd == NULL)
/* the victim is "being executed" (in this worker's hands) only through that single pop */
__CPROVER_ensures(L.v_pops == ((__CPROVER_return_value && TD_ID(*thrd) == 1) ? 1 : 0) && gv_mine == (L.v_pops == 1) && VP_OK)
/* own queues at most once each */
__CPROVER_ensures(L.polls_own_np <= 1 && L.polls_own_hp <= 1 && L.polls_lp <= 1)
__CPROVER_ensures(!enable_stealing ==> L.polls_foreign == 0)
__CPROVER_assigns(L, G, *thrd)
//@LIFT body

void harness(void)
{
  static struct lpqs s;
  hops_ghost_init(); lpq_ghost_init(&s);
  gv_map = nondet_bool(); gv_queued = nondet_bool(); gv_term = nondet_bool(); gv_heap = nondet_bool();
  int where = nondet_int();
  if (gv_queued) { if (where == 1) L.np_mine.has_victim = true; else if (where == 2) L.np_other.has_victim = true; else if (where == 3) L.hp_mine.has_victim = true;
                   else if (where == 4) L.hp_other.has_victim = true; else L.lp.has_victim = true; }
  thread_id_ref_type t = NULL;
  bool steal = nondet_bool();
  bool r = get_next_thread(&s, L.me, nondet_bool(), &t, steal);
  if (r && L.stage == 1) VX_REACH("from_own_high");
  if (r && L.stage == 2) VX_REACH("from_own_normal");
  if (r && L.stage == 3) VX_REACH("stolen");
  if (r && L.stage == 3 && L.pop_steal) VX_REACH("stolen_with_steal_flag");
  if (r && L.stage == 4) VX_REACH("from_low");
  if (r && t == &g_victim_td && L.pop_foreign) VX_REACH("victim_stolen_by_this_worker");
  if (r && t == &g_victim_td && !L.pop_foreign) VX_REACH("victim_taken_from_own_queue");
  if (!r && gv_queued) VX_REACH("victim_stays_queued");
  if (!r && steal && L.polls_foreign > 0) VX_REACH("nothing_after_stealing_attempts");
  if (!r && L.own_np_staged) VX_REACH("gives_up_for_staged_work");
}
