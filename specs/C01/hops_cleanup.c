/* C01 U5 -- thread_queue::cleanup_terminated_locked(delete_all): terminated_items_ -> (erase from thread_map_) -> free list.
 * Called with mtx_ held.  Every thread popped from terminated_items_ is: counted out of terminated_items_count_ once (after
 * the pop), erased from the map once, recycled once, counted out of thread_map_count_ once (after the erase).  Both drain
 * loops carry the same loop contract.  recycle_thread is a contract stub (unit hops.heap.recycle_thread).
 * While the caller holds mtx_ nobody else pops terminated_items_ or touches the map; destroy_thread of other workers keeps
 * pushing (lock-free). */
#include "../C01/hops.h"
static bool g_da0;
#define DRAINED(n) (g_term_pops == (n) && g_term_decs == (n) && g_erases == (n) && g_map_decs == (n) && g_recycles == (n))
#define CTL_INV(self) \
  (LOCKED(self) && g_term_pops >= 0 && g_term_pops <= VX_BIG && DRAINED(g_term_pops) && g_term_owed == 0 && g_term_pend == 0 && g_term_pushes == 0 && g_term_incs == 0 && \
   (todelete == 0 || todelete == 1 || todelete == 2) && \
   TERMRANGE(self, 4) && TERMINV(self) && MAPRANGE(self, 4) && MAPINV(self) && g_ins == 0 && g_map_incs == 0 && \
   VP_OK && !gv_mine && g_v_term_pops <= 1 && g_v_erases == g_v_term_pops && g_v_recycles == g_v_term_pops && (g_v_term_pops == 0 || gv_heap))

//@FUNC
bool cleanup_terminated_locked(struct tq *self, bool delete_all)
__CPROVER_requires(self == g_self && delete_all == g_da0 && LOCKED(self) && !CFG.term_pops_by_others && self->parameters_.min_delete_count_ >= 0)
__CPROVER_requires(DRAINED(0) && g_term_owed == 0 && g_term_pend == 0 && g_term_pushes == 0 && g_term_incs == 0 && g_ins == 0 && g_map_incs == 0)
__CPROVER_requires(TERMRANGE(self, 8) && TERMINV(self) && MAPRANGE(self, 8) && MAPINV(self) && VP_OK && !gv_mine && g_v_term_pops == 0 && g_v_erases == 0 && g_v_recycles == 0)
/* every popped thread: counter -1 after the pop, erased once, recycled once, thread_map_count_ -1 after the erase */
__CPROVER_ensures(DRAINED(g_term_pops) && g_term_owed == 0 && g_map_owed == 0 && g_term_pushes == 0 && g_term_incs == 0 && g_ins == 0)
/* the victim: popped at most once; if popped, out of the map once and on a free list once; otherwise not touched */
__CPROVER_ensures(g_v_term_pops <= 1 && g_v_erases == g_v_term_pops && g_v_recycles == g_v_term_pops && (g_v_term_pops == 1 ==> (gv_heap && !gv_map && !gv_term)) && VP_OK && !gv_mine)
/* the lock is still held, what it protects is consistent; `true` is returned only for a counter that read 0 */
__CPROVER_ensures(LOCKED(self) && MAPINV(self) && TERMINV(self) && __CPROVER_return_value == (G.last_term_load == 0))
__CPROVER_assigns(g_q0, G)
//@LIFT ctl_body

void harness(void)
{
  hops_ghost_init();
  hops_queue_init(&g_q0); hops_queue_init(&g_q1);
  CFG.self = 1; CFG.term_pops_by_others = false;
  g_q0.mtx_.held = true;
  g_map = nondet_long(); g_q0.thread_map_count_ = g_map; g_term = nondet_long();
  gv_map = nondet_bool(); gv_queued = nondet_bool(); gv_term = nondet_bool(); gv_heap = nondet_bool(); g_q0.gs_victim = nondet_bool();
  g_da0 = nondet_bool();
  bool was_term = gv_term;
  bool r = cleanup_terminated_locked(&g_q0, g_da0);
  if (r && g_term_pops == 0) VX_REACH("nothing_terminated");
  if (g_da0 && g_term_pops == 2) VX_REACH("delete_all_two_recycled");
  if (!g_da0 && g_term_pops == 2) VX_REACH("bounded_two_recycled");
  if (!g_da0 && !r) VX_REACH("bounded_pass_leaves_some");
  if (g_v_recycles == 1) VX_REACH("victim_recycled");
  if (was_term && g_v_term_pops == 0) VX_REACH("victim_left_for_a_later_pass");
  if (!was_term && gv_term) VX_REACH("victim_terminated_meanwhile_by_its_last_holder");
}
