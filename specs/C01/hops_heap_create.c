/* C01 U5 -- once-ness of the free lists: thread_queue::recycle_thread / thread_queue::create_thread_object.
 * (WHICH free list is chosen for a stack size -- the same one in both functions, for every configuration of the five sizes --
 * is proved in specs/C12/heap.c; here the victim is one thread OBJECT and the point is that it is on at most one free list,
 * at most once, and handed out at most once.)
 *   recycle_thread:        the object is pushed onto exactly one free list, exactly once.
 *   create_thread_object:  exactly one object is handed out: either popped from a free list by the single pop_back that follows
 *                          the back() that chose it, and rebound with the request -- or newly created;
 *                          the lock is held again at exit; the object carries the (normalised) requested initial state. */
#include "../C01/hops_heap.h"

//@FUNC
void create_thread_object(struct tq *self, thread_id_ref_type *thrd, struct thread_init_data *data, struct ulock *lk)
__CPROVER_requires(self == g_self && OWNS(lk) && lk->m == &self->mtx_ && *thrd == NULL && data->initial_state == g_init0 && IS_CONFIGURED(self, g_requested_size) && HEAPS_OK(self))
__CPROVER_requires(G.heap_pushes == 0 && G.heap_pops == 0 && G.v_heap_pops == 0 && G.rebinds == 0 && G.creates == 0 && HEAP_VICTIMS(self) == (gv_heap ? 1 : 0) && VP_OK && !gv_mine)
__CPROVER_requires(MAPRANGE(self, 8) && MAPINV(self) && TERMRANGE(self, 8) && TERMINV(self))
/* exactly one object is handed out: rebound (and removed from its free list by one pop) or new */
__CPROVER_ensures(G.rebinds + G.creates == 1 && G.heap_pops == G.rebinds && G.heap_pushes == 0 && *thrd != NULL)
__CPROVER_ensures(G.rebinds == 1 ==> (TD_ID(*thrd) == G.rebind_id && (TD_ID(*thrd) == 1 || TD_ID(*thrd) == 2)))
__CPROVER_ensures(G.creates == 1 ==> (TD_ID(*thrd) == 3 && G.new_td.queue_ == Q_ID(self) && G.new_td.stacksize_ == g_requested_size))
/* the victim object is handed out only by the pop that took it off its free list, and then it is on none */
__CPROVER_ensures(G.v_heap_pops == (TD_ID(*thrd) == 1 ? 1 : 0) && (TD_ID(*thrd) == 1 ==> (gv_mine && !gv_heap && HEAP_VICTIMS(self) == 0)))
/* the thread's initial state word is the requested one (pending_do_not_schedule / pending_boost start as pending) */
__CPROVER_ensures((*thrd)->made_state == NORM(g_init0) && data->initial_state == NORM(g_init0))
__CPROVER_ensures(OWNS(lk) && HEAPS_OK(self))
__CPROVER_assigns(g_q0, G, *thrd, *data, lk->owns)
//@LIFT create_thread_object_body

void harness(void)
{
  hops_ghost_init();
  hops_queue_init(&g_q0); hops_queue_init(&g_q1);
  CFG.self = 1;
  g_map = nondet_long(); g_q0.thread_map_count_ = g_map; g_term = nondet_long();
  g_victim_td.stacksize_ = nondet_ptrdiff(); g_other_td.stacksize_ = nondet_ptrdiff(); g_victim_td.queue_ = 1; g_other_td.queue_ = 1;
  gv_map = nondet_bool(); gv_queued = nondet_bool(); gv_term = nondet_bool();
  int where = nondet_int();                        /* the victim object: on one of the free lists, or not recycled */
  if (where == 1) { gv_heap = true; g_q0.thread_heap_small_.has_victim = true; }
  if (where == 2) { gv_heap = true; g_q0.thread_heap_medium_.has_victim = true; }
  if (where == 3) { gv_heap = true; g_q0.thread_heap_large_.has_victim = true; }
  if (where == 4) { gv_heap = true; g_q0.thread_heap_huge_.has_victim = true; }
  if (where == 5) { gv_heap = true; g_q0.thread_heap_nostack_.has_victim = true; }
  g_requested_size = nondet_ptrdiff();
  struct thread_init_data *data = &G.other_init;
  g_init0 = data->initial_state;
  struct ulock lk; lk.m = &g_q0.mtx_; lk.owns = true; g_q0.mtx_.held = true;
  thread_id_ref_type thrd = NULL;
  create_thread_object(&g_q0, &thrd, data, &lk);
  if (thrd == &g_victim_td) VX_REACH("victim_object_reused");
  if (thrd == &g_other_td) VX_REACH("other_object_reused");
  if (thrd == &G.new_td) VX_REACH("new_object");
  if (thrd == &G.new_td && G.created_stackless) VX_REACH("new_stackless_object");
  if (thrd != &g_victim_td && where >= 1 && where <= 5 && G.rebinds == 1) VX_REACH("victim_stays_on_its_list");
  if (g_init0 == thread_schedule_state_pending_boost) VX_REACH("pending_boost_starts_as_pending");
  if (g_init0 == thread_schedule_state_suspended) VX_REACH("suspended_starts_suspended");
}
