/* C01 U5 (mc) -- the pending-queue hops of thread_queue_mc:
 *   schedule_work(thrd, other_end)                worker / waker / converter -> work_items_      (edge (holder of the thread) -> pending)
 *   get_next_thread(thrd, other_end, check_new)   work_items_ -> worker                          (edge pending -> (worker))
 * I + T contracts; ledger work_items_count_ >= entries (+ this call's in-flight operations) at every instant: the counter is
 * incremented BEFORE the insertion it describes and decremented AFTER the removal it describes, so it is never negative and
 * `work_items_count_ == 0` never hides a queued thread.
 * Lifted: the whole bodies.  get_next_thread calls itself once (check_new = false): the body is lifted twice, the copy called by the
 * function under contract may not recurse again (asserted).  add_new is replaced by its contract (unit mc.tq.add_new). */
#include "../C01/mc_hops.h"

/* ---- thread_queue_mc::add_new as a callee: contract stub restating unit mc.tq.add_new for the victim and the two ledgers ---- */
static size_t mcq_add_new(struct mcq *q, int64_t add_count, struct mcq *addfrom, bool stealing)
{
  VX_ASSERT(q == g_self, "add_new converts into the queue it is called on");
  VX_ASSERT(add_count >= -1, "add_new precondition: add_count is a limit >= 0 (or -1)");
  VX_ASSERT(q->holder_->owner_id_ == CFG.this_thread, "add_new precondition (its PIKA_ASSERT): only the thread that owns the holder converts staged tasks");
  VX_ASSERT(q->gw_resv == 0 && q->gw_owed == 0, "no pending-queue operation of this call is in flight when staged tasks are converted");
  BUMP(G.an_calls); G.an_count = add_count; G.an_from = M_ID(addfrom); G.an_steal = stealing;
  if (CFG.map_may_refuse && nondet_bool()) { vx_throw(error_out_of_memory); return 0; }    /* (4) of mc.tq.add_new */
  nt_interfere(addfrom); wi_interfere(q);
  long k = nondet_long();
  VX_ASSUME(k >= 0 && k <= addfrom->gs_entries && (add_count < 0 || k <= add_count) && k <= 1000);      /* (3), (6): k descriptions converted */
  VX_ASSUME(q->gw_entries + k <= MC_BIG - 8 && q->work_items_count_ + k <= 2 * MC_BIG - 8);             /* counter bounds (listed) */
  addfrom->gs_entries -= k; addfrom->new_tasks_count_ = (int32_t) (addfrom->new_tasks_count_ - k);      /* (1) */
  q->gw_entries += k; q->work_items_count_ = (int32_t) (q->work_items_count_ + k);                      /* (3) */
  if (addfrom->gs_victim && k >= 1 && (addfrom->gs_entries == 0 || nondet_bool()))                      /* (5): staged -> pending+map */
  { addfrom->gs_victim = false; gv_map = true; q->gw_victim = true; G.env_moved = true; }
  VX_ASSERT(NTINV(addfrom) && WIINV(q) && VP_OK, "add_new (contract) keeps the ledgers");
  G.an_ret = (size_t) k;
  return (size_t) k;
}

#ifdef U_SCHEDULE_WORK
//@FUNC
void schedule_work(struct mcq *self, thread_id_ref_type thrd, bool other_end)
__CPROVER_requires(self == g_self && self == &g_m0 && thrd != NULL && WI_UNTOUCHED(self) && WIRANGE(self, 8) && WIINV(self) && G.wpush == 0 && G.v_wpush == 0 && G.wpops == 0)
__CPROVER_requires(VP_OK && (thrd == &G.victim_td ? (gv_mine && gv_map && !GV_QUEUED) : !gv_mine))
/* exactly one insertion, of exactly the thread passed in, at the requested end; nothing removed */
__CPROVER_ensures(self->gw_pushes == 1 && G.wpush == 1 && G.wpush_id == TD_ID(thrd) && G.wpush_other_end == other_end && self->gw_pops == 0 && G.wpops == 0)
__CPROVER_ensures(G.v_wpush == (thrd == &G.victim_td ? 1 : 0) && !gv_mine && VP_OK)
/* the counter moved by exactly +1, before the insertion (asserted at the push), and describes it */
__CPROVER_ensures(self->gw_incs == 1 && self->gw_decs == 0 && self->gw_resv == 0 && self->gw_owed == 0 && WIINV(self))
__CPROVER_assigns(g_m0, G)
//@LIFT schedule_work_body
#endif

#ifdef U_GET_NEXT_THREAD
static bool g_other_end0, g_check_new0;
static bool get_next_thread_bottom(struct mcq *self, thread_id_ref_type *thrd, bool other_end, bool check_new)
{
  BUMP(G.rec_calls);
  VX_ASSERT(0, "get_next_thread recursion deeper than one level: the recursive call must not look for new work again (check_new = false)");
  return false;
}
#define GNT_REC get_next_thread_bottom
static bool get_next_thread_again(struct mcq *self, thread_id_ref_type *thrd, bool other_end, bool check_new)
//@LIFT get_next_thread_body
#undef GNT_REC
static bool get_next_thread_rec(struct mcq *self, thread_id_ref_type *thrd, bool other_end, bool check_new)
{
  BUMP(G.rec_calls);
  return get_next_thread_again(self, thrd, other_end, check_new);
}
#define GNT_REC get_next_thread_rec

//@FUNC
bool get_next_thread(struct mcq *self, thread_id_ref_type *thrd, bool other_end, bool check_new)
__CPROVER_requires(self == g_self && self == &g_m0 && self->holder_ == &g_h0 && *thrd == NULL && other_end == g_other_end0 && check_new == g_check_new0)
/* the callers' duty (add_new's PIKA_ASSERT): new work is looked for only by the owner of the holder */
__CPROVER_requires((check_new && !other_end) ==> g_h0.owner_id_ == CFG.this_thread)
__CPROVER_requires(WI_UNTOUCHED(self) && WIRANGE(self, 1024) && WIINV(self) && NT_UNTOUCHED(self) && NTRANGE(self, 8) && NTINV(self))
__CPROVER_requires(G.wpops == 0 && G.v_wpops == 0 && G.wpush == 0 && G.an_calls == 0 && G.rec_calls == 0 && vx_exc == 0 && G.err == 0 && VP_OK && !gv_mine)
/* a thread is handed out IFF exactly one entry was removed from work_items_, and it is exactly the removed one, taken from the
 * requested end; otherwise the id stays empty; nothing is ever put back */
__CPROVER_ensures(__CPROVER_return_value == (G.wpops == 1) && G.wpops <= 1 && G.wpush == 0 && self->gw_pushes == 0 && self->gw_incs == 0)
__CPROVER_ensures(__CPROVER_return_value ==> (*thrd != NULL && TD_ID(*thrd) == G.wpop_id && G.wpop_other_end == g_other_end0))
__CPROVER_ensures(!__CPROVER_return_value ==> *thrd == NULL)
/* the victim comes into this worker's hands only through that single pop */
__CPROVER_ensures((G.v_wpops == 1) == (__CPROVER_return_value && *thrd == &G.victim_td) && gv_mine == (G.v_wpops == 1) && VP_OK)
/* work_items_count_ moved by exactly -1 iff an entry was removed, after the removal (asserted at the decrement) */
__CPROVER_ensures(self->gw_decs == self->gw_pops && self->gw_pops == G.wpops && self->gw_resv == 0 && self->gw_owed == 0 && WIINV(self) && NTINV(self))
/* staged work is converted at most once, only when asked for and never while stealing (other_end), from THIS queue, with a
 * finite budget; it is followed by at most one more attempt, which does not convert again */
__CPROVER_ensures(G.an_calls <= 1 && G.rec_calls <= 1 && (G.an_calls == 1 ==> (g_check_new0 && !g_other_end0 && G.an_from == M_ID(self) && G.an_count >= 0)))
__CPROVER_ensures(G.rec_calls == 1 ==> (G.an_calls == 1 && vx_exc == 0))
/* an exception of add_new is passed on; nothing is handed out then */
__CPROVER_ensures(vx_exc != 0 ==> (!__CPROVER_return_value && G.an_calls == 1 && G.rec_calls == 0))
__CPROVER_assigns(g_m0, g_h0.thread_map_count_, G, *thrd)
//@LIFT get_next_thread_body
#endif

void harness(void)
{
  mc_ghost_init();
  mc_holder_init(&g_h0); mc_holder_init(&g_h1);
  mc_queue_init(&g_m0, &g_h0); mc_queue_init(&g_m1, &g_h1);
  CFG.self = 1; CFG.self_h = 1;
  if (nondet_bool()) g_h0.owner_id_ = CFG.this_thread;
  g_m0.gs_victim = nondet_bool(); g_m0.gw_victim = nondet_bool();
  gv_map = nondet_bool(); gv_term = nondet_bool(); gv_heap = nondet_bool();
#ifdef U_SCHEDULE_WORK
  gv_mine = nondet_bool();
  thread_id_ref_type id = nondet_bool() ? &G.victim_td : &G.other_td;
  bool oe = nondet_bool();
  schedule_work(&g_m0, id, oe);
  if (id == &G.victim_td) VX_REACH("victim_queued_once"); else VX_REACH("other_queued");
  if (G.wpush_other_end) VX_REACH("queued_at_the_other_end");
#endif
#ifdef U_GET_NEXT_THREAD
  thread_id_ref_type out = NULL;
  g_other_end0 = nondet_bool(); g_check_new0 = nondet_bool();
  bool was_staged = g_m0.gs_victim;
  bool ok = get_next_thread(&g_m0, &out, g_other_end0, g_check_new0);
  if (ok && out == &G.victim_td) VX_REACH("victim_handed_to_this_worker");
  if (ok && out == &G.other_td) VX_REACH("other_thread_handed_out");
  if (!ok && G.wpops == 0 && g_m0.gw_entries >= 1) VX_REACH("nothing_taken");
  if (!ok && g_m0.work_items_count_ == 0) VX_REACH("empty");
  if (ok && G.wpop_other_end) VX_REACH("stolen_from_the_other_end");
  if (ok && G.an_calls == 1 && G.rec_calls == 1) VX_REACH("converted_then_popped");
  if (ok && G.an_calls == 1 && was_staged && out == &G.victim_td) VX_REACH("victim_converted_and_handed_out_in_one_call");
  if (!ok && G.an_calls == 1 && G.an_ret == 0 && vx_exc == 0) VX_REACH("nothing_to_convert");
  if (!ok && G.an_calls == 1 && G.rec_calls == 1) VX_REACH("converted_but_taken_by_a_thief");
  if (!ok && g_check_new0 && g_other_end0) VX_REACH("no_conversion_while_stealing");
  if (vx_exc != 0) VX_REACH("add_new_exception_passed_on");
#endif
}
