/* C01 U5 (slice) -- the pending-queue hops of the default scheduler's thread_queue:
 *   thread_queue::schedule_thread   worker / waker -> work_items_   (edge  (worker) -> pending)
 *   thread_queue::get_next_thread   work_items_ -> worker           (edge  pending -> (worker))
 * I + T contracts with ONE symbolic victim thread and a ghost ledger of the lock-free container:
 *   g_items          number of entries in work_items_ (all threads)
 *   g_victim_queued  the victim is one of them
 *   g_resv / g_owed  this call's counter increments not yet matched by its insertion / removals not yet matched by its decrement
 * Counter discipline decided here (what makes `work_items_count_ == 0` a safe "nothing queued" test for the sleep / exit
 * decision of the scheduling loop): at EVERY instant  work_items_count_ >= g_items + g_resv + g_owed,  i.e. the counter is
 * incremented BEFORE the insertion it describes and decremented AFTER the removal it describes.
 */
#include "vx.h"
struct vx_tid { int unused; };
typedef struct vx_tid *thread_id_ref_type;       /* opaque thread id, NULL = empty */
typedef struct vx_tid *thread_description_ptr;   /* thread_data* stored in the queue (no wait-time records in this build) */
static struct vx_tid g_victim_tid, g_other_tid;
struct tq {
  int64_t work_items_count_;                     /* cache_line_data<std::atomic<std::int64_t>> */
  struct { int64_t min_tasks_to_steal_pending_; } parameters_;
};
#define VX_BIG 1000000000L
static long g_items, g_resv, g_owed;
static bool g_victim_queued;
static long g_pushes, g_pops, g_incs, g_decs, g_victim_pushes, g_victim_pops;   /* saturating at 2 */
static thread_id_ref_type g_push_id, g_pop_id;
static bool g_push_other_end, g_pop_steal;
static bool g_victim_held;                       /* the caller holds the (one) reference to the victim: nobody else can queue it */
#define BUMP(c) do { if ((c) < 2) (c)++; } while (0)
/* ranges first (short circuit): ghost arithmetic cannot overflow; the environment keeps the counters 8 below the bound */
#define QRANGE(q, slack) (g_items >= 0 && g_items <= VX_BIG - (slack) && (q)->work_items_count_ >= 0 && (q)->work_items_count_ <= 2 * VX_BIG - (slack))
#define QINV(q) (QRANGE(q, 0) && (q)->work_items_count_ >= g_items + g_resv + g_owed && (!g_victim_queued || g_items >= 1))
#define Q_GHOST g_items, g_resv, g_owed, g_victim_queued, g_pushes, g_pops, g_incs, g_decs, g_victim_pushes, g_victim_pops, g_push_id, g_pop_id, \
                g_push_other_end, g_pop_steal

/* environment step before every access of ours: the other workers / wakers push, pop and steal (trusted: they keep the
 * ledger invariant; they may take the victim out of the queue, but cannot put it in while the caller holds its reference) */
static void q_interfere(struct tq *q)
{
  if (nondet_bool())
  {
    q->work_items_count_ = nondet_i64();
    g_items = nondet_long();
    if (g_victim_queued && nondet_bool()) g_victim_queued = false;
    VX_ASSUME(QRANGE(q, 8) && QINV(q));
  }
}
static int64_t atomic_load_i64(struct tq *q, int64_t *p) { q_interfere(q); return *p; }
static int64_t atomic_inc(struct tq *q, int64_t *p)
{
  q_interfere(q);
  *p = *p + 1; g_resv++; BUMP(g_incs);
  VX_ASSERT(QINV(q), "ledger: counter >= entries after the increment");
  return *p;
}
static int64_t atomic_dec(struct tq *q, int64_t *p)
{
  q_interfere(q);
  VX_ASSERT(g_owed >= 1, "the counter is decremented only AFTER a successful removal by this call");
  *p = *p - 1; g_owed--; BUMP(g_decs);
  VX_ASSERT(QINV(q), "ledger: counter >= entries after the decrement");
  return *p;
}
/* a plain store to the shared counter: the other workers / wakers may have moved it since this call read it */
static void atomic_store_i64(struct tq *q, int64_t *p, int64_t v)
{
  q_interfere(q);
  VX_ASSERT(g_owed >= 1 && *p - v == 1, "a store to the shared counter takes away exactly the one entry this call removed -- it must not overwrite what other threads added since the counter was read");
  *p = v; if (g_owed >= 1) g_owed--; BUMP(g_decs);
  VX_ASSERT(QINV(q), "ledger: counter >= entries after the store");
}
/* work_items_.push(thread_data*, other_end): always succeeds (unbounded lock-free queue) */
static bool wi_push(struct tq *q, thread_description_ptr d, bool other_end)
{
  q_interfere(q);
  VX_ASSERT(d != NULL, "an empty id is never queued");
  VX_ASSERT(g_resv >= 1, "the counter is incremented BEFORE the insertion it describes (it never under-approximates)");
  if (d == &g_victim_tid)
  {
    VX_ASSERT(!g_victim_queued, "a thread is never in the pending queue twice");
    g_victim_queued = true; BUMP(g_victim_pushes);
  }
  g_items++; g_resv--; BUMP(g_pushes); g_push_id = d; g_push_other_end = other_end;
  VX_ASSERT(QINV(q), "ledger: counter >= entries after the insertion");
  return true;
}
/* work_items_.pop(out, steal): removes one entry if there is one (may also fail spuriously under contention) */
static bool wi_pop(struct tq *q, thread_description_ptr *out, bool steal)
{
  q_interfere(q);
  if (g_items >= 1 && nondet_bool())
  {
    bool take_victim = g_victim_queued && (g_items == 1 || nondet_bool());
    g_items--; g_owed++; BUMP(g_pops); g_pop_steal = steal;
    if (take_victim) { g_victim_queued = false; BUMP(g_victim_pops); *out = &g_victim_tid; } else *out = &g_other_tid;
    g_pop_id = *out;
    return true;
  }
  return false;
}
/* thread_id_ref::detach(): hands the raw pointer out without touching the reference count, leaves the id empty */
static thread_description_ptr tid_detach(thread_id_ref_type *p) { thread_description_ptr r = *p; *p = NULL; return r; }
/* thread_id_ref::reset(ptr, add_ref = false): adopts the raw pointer */
static void tid_reset(thread_id_ref_type *p, thread_description_ptr d, bool add_ref) { VX_ASSERT(!add_ref, "adopts the queue's reference"); *p = d; }

//@FUNC
void schedule_thread(struct tq *self, thread_id_ref_type thrd, bool other_end)
__CPROVER_requires(QRANGE(self, 8) && QINV(self) && g_resv == 0 && g_owed == 0 && thrd != NULL && (thrd == &g_victim_tid ==> (g_victim_held && !g_victim_queued)))
__CPROVER_requires(g_pushes == 0 && g_pops == 0 && g_incs == 0 && g_decs == 0 && g_victim_pushes == 0 && g_victim_pops == 0)
/* exactly one insertion, of exactly the thread passed in, at the requested end; nothing removed */
__CPROVER_ensures(g_pushes == 1 && g_push_id == thrd && g_push_other_end == other_end && g_pops == 0)
__CPROVER_ensures(g_victim_pushes == (thrd == &g_victim_tid ? 1 : 0) && g_victim_pops == 0)
/* the counter moved by exactly +1 and describes the insertion */
__CPROVER_ensures(g_incs == 1 && g_decs == 0 && g_resv == 0 && g_owed == 0 && QINV(self))
__CPROVER_assigns(self->work_items_count_, Q_GHOST)
//@LIFT schedule_thread_body


void harness(void)
{
  struct tq q;
  q.work_items_count_ = nondet_i64();
  q.parameters_.min_tasks_to_steal_pending_ = nondet_i64();
  g_items = nondet_long(); g_victim_queued = nondet_bool(); g_victim_held = nondet_bool();
  g_resv = 0; g_owed = 0; g_pushes = 0; g_pops = 0; g_incs = 0; g_decs = 0; g_victim_pushes = 0; g_victim_pops = 0;
  g_push_id = NULL; g_pop_id = NULL; g_push_other_end = false; g_pop_steal = false;
  thread_id_ref_type id = nondet_bool() ? &g_victim_tid : &g_other_tid;
  schedule_thread(&q, id, nondet_bool());
  if (id == &g_victim_tid) VX_REACH("victim_queued_once"); else VX_REACH("other_queued");
  if (g_push_other_end) VX_REACH("queued_at_the_other_end");
}
