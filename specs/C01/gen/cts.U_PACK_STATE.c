/* C01 U1 -- combined_tagged_state<thread_schedule_state, thread_restart_state>  (F contracts, loop free, full domain)
 *
 * "for all enumerators of thread_schedule_state and thread_restart_state and all tags in [0, 2^48):
 *  extract o pack = identity on each field, and the other fields are untouched"
 *
 * Everything that decides the result is lifted: the two enum definitions (-> enumerator constants and the
 * IS_ENUMERATOR predicates that span the domain), the shift/mask constants, pack_state, the three extractors, the
 * accessors and the three setters.  Hand written: C typedefs, signatures, contracts, harness.
 */
#include "vx.h"
//@LIFT enum_schedule
//@LIFT enum_restart
#include "cts_types.h"
//@LIFT consts

static tag_type extract_tag(tagged_state_type i)
//@LIFT extract_tag
static thread_state_type extract_state(tagged_state_type i)
//@LIFT extract_state
static thread_state_ex_type extract_state_ex(tagged_state_type i)
//@LIFT extract_state_ex

//@FUNC
tagged_state_type pack_state(T1 state_, T2 state_ex_, tag_type tag)
__CPROVER_requires(thread_schedule_state_IS_ENUMERATOR(state_) && thread_restart_state_IS_ENUMERATOR(state_ex_))
__CPROVER_requires(0 <= tag && tag < TAG_LIMIT)
/* extract o pack = identity on each field (lifted extractors on the lifted packer's result) */
__CPROVER_ensures(extract_state(__CPROVER_return_value) == state_)
__CPROVER_ensures(extract_state_ex(__CPROVER_return_value) == state_ex_)
__CPROVER_ensures(extract_tag(__CPROVER_return_value) == tag)
/* the lifted extractors agree with the field view W_* used by every other C01 contract (word.h) */
__CPROVER_ensures(RAW_STATE(__CPROVER_return_value) == state_ && RAW_EX(__CPROVER_return_value) == state_ex_ && RAW_TAG(__CPROVER_return_value) == tag)
__CPROVER_assigns()
//@LIFT pack_state

/* accessors (lifted) */
static T1 cts_state(const struct thread_state *self)
//@LIFT state
static T2 cts_state_ex(const struct thread_state *self)
//@LIFT state_ex
static tag_type cts_tag(const struct thread_state *self)
//@LIFT tag
/* combined_tagged_state(T1 state, T2 state_ex, tag_type t = 0) (lifted, mem-initialiser lowered) */
static void cts_ctor(struct thread_state *self, T1 state, T2 state_ex, tag_type t)
//@LIFT ctor

/* ghost copies of the fields before the call (no __CPROVER_old on function calls) */
static T1 g_s0;
static T2 g_e0;
static tag_type g_t0;
#define FIELDS_ARE(self, s, e, t) (cts_state(self) == (s) && cts_state_ex(self) == (e) && cts_tag(self) == (t))
#define DOMAIN(s, e, t) (thread_schedule_state_IS_ENUMERATOR(s) && thread_restart_state_IS_ENUMERATOR(e) && 0 <= (t) && (t) < TAG_LIMIT)


void harness(void)
{
  T1 s = nondet_i8(); T2 e = nondet_i8(); tag_type t = nondet_i64();
  struct thread_state w;
  g_s0 = nondet_i8(); g_e0 = nondet_i8(); g_t0 = nondet_i64();
  w.state_ = nondet_i64();
  tagged_state_type r = pack_state(s, e, t);
  VX_REACH("packed");
  if (t == TAG_LIMIT - 1 && s == thread_schedule_state_pending_boost && e == thread_restart_state_abort) VX_REACH("largest_fields");
  if (t == 0 && s == 0 && e == 0 && r == 0) VX_REACH("all_zero");
}
