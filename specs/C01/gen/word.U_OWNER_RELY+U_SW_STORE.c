/* C01 U2 / U3 -- steps on the thread state word (S contracts: rely/guarantee on thread_data::current_state_)
 *   U2  thread_data::{set_state, set_state_tagged, restore_state (2 overloads), set_state_ex, get_state}
 *   U3  switch_status::{switch_status, ~switch_status, store_state, operator=} (constructor / destructor as explicit units)
 * The combined_tagged_state member functions used by these bodies are the lifted ones (inlined), proved in U1.
 */
#include "vx.h"
//@LIFT enum_schedule
//@LIFT enum_restart
#include "cts_types.h"
//@LIFT consts
static tag_type extract_tag(tagged_state_type i)
//@LIFT extract_tag
static thread_state_type extract_state(tagged_state_type i)
//@LIFT extract_state
static thread_state_ex_type extract_state_ex(tagged_state_type i)
//@LIFT extract_state_ex
static tagged_state_type pack_state(T1 state_, T2 state_ex_, tag_type tag)
//@LIFT pack_state
static T1 cts_state(const struct thread_state *self)
//@LIFT state
static T2 cts_state_ex(const struct thread_state *self)
//@LIFT state_ex
static tag_type cts_tag(const struct thread_state *self)
//@LIFT tag
static void cts_ctor(struct thread_state *self, T1 state, T2 state_ex, tag_type t)
//@LIFT ctor
static struct thread_state cts_make(T1 state, T2 state_ex, tag_type t) { struct thread_state r; cts_ctor(&r, state, state_ex, t); return r; }

/* the runner's rely: while the word is active (and the runner is us) nobody else moves it (lemma.ownership: every other
 * writer's guarantee is inside this rely) */
#define RELY(o, n) RELY_OWNER(o, n)
#include "word.h"

/* ghost copies of arguments at entry */
static struct thread_state g_prev0, g_new0;
static thread_restart_state g_arg_ex;
static struct thread_data g_td;                       /* the one thread object the units talk about */

/* ================================================= U2 ================================================= */






/* ================================================= U3 ================================================= */
#include "sw.h"
/* thread_data members called by switch_status: the lifted bodies, inlined (their own contracts are U2) */
static bool set_state_tagged(struct thread_data *self, thread_schedule_state newstate, struct thread_state *prev_state, struct thread_state *new_tagged_state)
//@LIFT set_state_tagged_body
static bool restore_state_2(struct thread_data *self, thread_schedule_state new_state, thread_restart_state state_ex, struct thread_state old_state)
//@LIFT restore_state_2_body
static bool restore_state_1(struct thread_data *self, struct thread_state new_state, struct thread_state old_state)
//@LIFT restore_state_1_body

static struct thread_state g_orig0;
static bool g_need0;
static bool switch_status_is_valid(const struct switch_status *self)
//@LIFT sw_is_valid
static thread_schedule_state switch_status_get_previous(const struct switch_status *self)
//@LIFT sw_get_previous
static void switch_status_disable_restore(struct switch_status *self)
//@LIFT sw_disable_restore
#define SW_FRAME self->thread_, self->prev_state_, self->orig_state_, self->next_thread_id_, self->need_restore_state_
#define WORD_PRE (lin_count == 0 && g_loads == 0 && g_cas == 0 && WF(g_td.current_state_) && A_TAG1(g_td.current_state_))
/* the object as the constructor leaves it: orig_state_ is a value this worker wrote into the word */
#define SW_PRE(self) ((self)->thread_ == &g_victim_tid && WF((self)->prev_state_) && A_TAG1((self)->prev_state_) && WF((self)->orig_state_) && \
                      A_TAG1((self)->orig_state_) && W_TAG(g_td.current_state_) >= W_TAG((self)->orig_state_) && \
                      WEQ((self)->prev_state_, g_prev0) && WEQ((self)->orig_state_, g_orig0) && (self)->need_restore_state_ == g_need0)
/* "the word still is this worker's (orig.state, orig.tag)" at the CAS; state_ex is the one seen by the load just before */
#define STILL_OURS RST_OK(g_cas_seen, g_orig0, g_first_read)
/* what a successful store publishes: (prev_state_.state, ex untouched, orig.tag + 1 if the state changes) */
#define PUBLISHED RST_SUCCESS(lin_old, lin_new, g_prev0, g_orig0)


//@FUNC
bool switch_status_store_state(struct switch_status *self, struct thread_state *newstate)
__CPROVER_requires(WORD_PRE && SW_PRE(self) && WEQ(*newstate, g_new0))
/* (<=) under the runner's rely: while the word is this worker's (active, orig.tag) the store is never refused */
__CPROVER_requires(W_STATE(g_orig0) == S_ACTIVE && W_STATE(g_td.current_state_) == S_ACTIVE && W_TAG(g_td.current_state_) == W_TAG(g_orig0))
__CPROVER_ensures(__CPROVER_return_value)
/* succeeds <=> the word still is this worker's at the CAS */
__CPROVER_ensures(g_cas == 1 && __CPROVER_return_value == STILL_OURS)
__CPROVER_ensures(__CPROVER_return_value == (lin_count == 1))
/* and publishes (returned state, ex, tag + 1) */
__CPROVER_ensures(__CPROVER_return_value ==> (PUBLISHED && WEQ(*newstate, g_prev0)))
/* a refused store takes no step and reports nothing */
__CPROVER_ensures(!__CPROVER_return_value ==> (lin_count == 0 && WEQ(*newstate, g_new0)))
/* either way the destructor will not restore again */
__CPROVER_ensures(!switch_status_is_valid(self))
__CPROVER_assigns(self->need_restore_state_, *newstate, g_td.current_state_, WORD_GHOST)
//@LIFT sw_store_state



void harness(void)
{
  g_td.current_state_.state_ = nondet_i64();
  struct thread_data *ptd = &g_td;
#define td (*ptd)
  word_ghost_init();
  struct thread_state w0 = td.current_state_;
  thread_schedule_state s = nondet_i8();
  thread_restart_state e = nondet_i8();
  struct thread_state a, b, out;
  a.state_ = nondet_i64();
  b.state_ = nondet_i64();
  out.state_ = 0;
  g_prev0 = a;
  g_arg_ex = e;
  struct switch_status st;
  st.thread_ = nondet_bool() ? &g_victim_tid : &g_other_tid;
  st.prev_state_ = a;
  st.orig_state_ = b;
  st.next_thread_id_ = nondet_bool() ? &g_other_tid : NULL;
  st.need_restore_state_ = nondet_bool();
  g_orig0 = b; g_need0 = st.need_restore_state_;
  g_new0 = out;
  bool ok = switch_status_store_state(&st, &out);
  if (ok) VX_REACH("stored");
  if (ok && W_STATE(a) == S_SUSPENDED && W_STATE(b) == S_ACTIVE) VX_REACH("active_to_suspended_published");
  if (g_interfered) VX_REACH("stored_although_the_environment_ran");
}
