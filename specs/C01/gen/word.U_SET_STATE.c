/* C01 U2 / U3 -- steps on the thread state word (S contracts: rely/guarantee on thread_data::current_state_)
 *   U2  thread_data::{set_state, set_state_tagged, restore_state (2 overloads), set_state_ex, get_state}
 *   U3  switch_status::{switch_status, ~switch_status, store_state, operator=} (constructor / destructor as explicit units)
 * The combined_tagged_state member functions used by these bodies are the lifted ones (inlined), proved in U1.
 */
#include "vx.h"
//@LIFT enum_schedule
//@LIFT enum_restart
#include "cts_types.h"
//@LIFT consts
static tag_type extract_tag(tagged_state_type i)
//@LIFT extract_tag
static thread_state_type extract_state(tagged_state_type i)
//@LIFT extract_state
static thread_state_ex_type extract_state_ex(tagged_state_type i)
//@LIFT extract_state_ex
static tagged_state_type pack_state(T1 state_, T2 state_ex_, tag_type tag)
//@LIFT pack_state
static T1 cts_state(const struct thread_state *self)
//@LIFT state
static T2 cts_state_ex(const struct thread_state *self)
//@LIFT state_ex
static tag_type cts_tag(const struct thread_state *self)
//@LIFT tag
static void cts_ctor(struct thread_state *self, T1 state, T2 state_ex, tag_type t)
//@LIFT ctor
static struct thread_state cts_make(T1 state, T2 state_ex, tag_type t) { struct thread_state r; cts_ctor(&r, state, state_ex, t); return r; }

#include "word.h"

/* ghost copies of arguments at entry */
static struct thread_state g_prev0, g_new0;
static thread_restart_state g_arg_ex;
static struct thread_data g_td;                       /* the one thread object the units talk about */

/* ================================================= U2 ================================================= */
//@FUNC
struct thread_state set_state(struct thread_data *self, thread_schedule_state state, thread_restart_state state_ex)
__CPROVER_requires(lin_count == 0 && g_loads == 0 && g_cas == 0 && WF(self->current_state_) && A_TAG1(self->current_state_))
__CPROVER_requires(S_ENUM(state) && E_ENUM(state_ex) && state_ex == g_arg_ex)
/* returns only after exactly one successful step, and returns the word that step replaced */
__CPROVER_ensures(lin_count == 1 && WEQ(__CPROVER_return_value, lin_old))
/* the schedule-state field changes only as requested */
__CPROVER_ensures(W_STATE(lin_new) == state)
/* the tag is bumped by exactly +1 when the state changes, by 0 otherwise */
__CPROVER_ensures(W_TAG(lin_new) == W_TAG(lin_old) + (state != W_STATE(lin_old) ? 1 : 0))
/* state_ex is never touched unless asked (unknown == "keep") */
__CPROVER_ensures(W_EX(lin_new) == (state_ex == E_UNKNOWN ? W_EX(lin_old) : state_ex))
__CPROVER_ensures(WF(self->current_state_))
__CPROVER_assigns(self->current_state_, WORD_GHOST)
//@LIFT set_state_body






/* ================================================= U3 ================================================= */





void harness(void)
{
  g_td.current_state_.state_ = nondet_i64();
  struct thread_data *ptd = &g_td;
#define td (*ptd)
  word_ghost_init();
  struct thread_state w0 = td.current_state_;
  thread_schedule_state s = nondet_i8();
  thread_restart_state e = nondet_i8();
  struct thread_state a, b, out;
  a.state_ = nondet_i64();
  b.state_ = nondet_i64();
  out.state_ = 0;
  g_prev0 = a;
  g_arg_ex = e;
  struct thread_state r = set_state(&td, s, e);
  if (s != W_STATE(lin_old)) VX_REACH("state_changed_tag_bumped"); else VX_REACH("same_state_tag_kept");
  if (e == E_UNKNOWN) VX_REACH("ex_kept"); else VX_REACH("ex_set");
  if (g_cas >= 2) VX_REACH("retried_after_interference");
  if (!WEQ(lin_old, w0)) VX_REACH("stepped_from_a_word_changed_by_the_environment");
}
