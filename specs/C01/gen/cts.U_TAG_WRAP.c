/* C01 U1 -- combined_tagged_state<thread_schedule_state, thread_restart_state>  (F contracts, loop free, full domain)
 *
 * "for all enumerators of thread_schedule_state and thread_restart_state and all tags in [0, 2^48):
 *  extract o pack = identity on each field, and the other fields are untouched"
 *
 * Everything that decides the result is lifted: the two enum definitions (-> enumerator constants and the
 * IS_ENUMERATOR predicates that span the domain), the shift/mask constants, pack_state, the three extractors, the
 * accessors and the three setters.  Hand written: C typedefs, signatures, contracts, harness.
 */
#include "vx.h"
//@LIFT enum_schedule
//@LIFT enum_restart
#include "cts_types.h"
//@LIFT consts

static tag_type extract_tag(tagged_state_type i)
//@LIFT extract_tag
static thread_state_type extract_state(tagged_state_type i)
//@LIFT extract_state
static thread_state_ex_type extract_state_ex(tagged_state_type i)
//@LIFT extract_state_ex

static tagged_state_type pack_state(T1 state_, T2 state_ex_, tag_type tag)
//@LIFT pack_state

/* accessors (lifted) */
static T1 cts_state(const struct thread_state *self)
//@LIFT state
static T2 cts_state_ex(const struct thread_state *self)
//@LIFT state_ex
static tag_type cts_tag(const struct thread_state *self)
//@LIFT tag
/* combined_tagged_state(T1 state, T2 state_ex, tag_type t = 0) (lifted, mem-initialiser lowered) */
static void cts_ctor(struct thread_state *self, T1 state, T2 state_ex, tag_type t)
//@LIFT ctor

/* ghost copies of the fields before the call (no __CPROVER_old on function calls) */
static T1 g_s0;
static T2 g_e0;
static tag_type g_t0;
#define FIELDS_ARE(self, s, e, t) (cts_state(self) == (s) && cts_state_ex(self) == (e) && cts_tag(self) == (t))
#define DOMAIN(s, e, t) (thread_schedule_state_IS_ENUMERATOR(s) && thread_restart_state_IS_ENUMERATOR(e) && 0 <= (t) && (t) < TAG_LIMIT)


void harness(void)
{
  T1 s = nondet_i8(); T2 e = nondet_i8(); tag_type t = nondet_i64();
  struct thread_state w;
  g_s0 = nondet_i8(); g_e0 = nondet_i8(); g_t0 = nondet_i64();
  w.state_ = nondet_i64();
  /* documentation of A-TAG (not a proof of anything about pika's callers): every caller computes `tag() + 1`; at
   * tag() == 2^48 - 1 the sum is 2^48, which pack_state ORs into bit 0 of the neighbouring state_ex byte, and the tag
   * field itself reads 0 again.  pack_state's third PIKA_ASSERT tests `state` instead of `tag`, so it does not object. */
  if (thread_schedule_state_IS_ENUMERATOR(s) && thread_restart_state_IS_ENUMERATOR(e))
  {
    struct thread_state c;
    cts_ctor(&c, s, e, (TAG_LIMIT - 1) + 1);
    VX_ASSERT(cts_tag(&c) == 0, "tag 2^48 reads back as 0");
    VX_ASSERT(cts_state(&c) == s, "the schedule state survives the overflow (the spill stops in the state_ex byte)");
    if (cts_state_ex(&c) != e) VX_REACH("tag_overflow_corrupts_state_ex");
    if (cts_state_ex(&c) == e) VX_REACH("tag_overflow_hidden_when_ex_is_odd");
    if (!thread_restart_state_IS_ENUMERATOR(cts_state_ex(&c))) VX_REACH("tag_overflow_makes_ex_a_non_enumerator");
  }
}
