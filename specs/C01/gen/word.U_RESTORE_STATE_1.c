/* C01 U2 / U3 -- steps on the thread state word (S contracts: rely/guarantee on thread_data::current_state_)
 *   U2  thread_data::{set_state, set_state_tagged, restore_state (2 overloads), set_state_ex, get_state}
 *   U3  switch_status::{switch_status, ~switch_status, store_state, operator=} (constructor / destructor as explicit units)
 * The combined_tagged_state member functions used by these bodies are the lifted ones (inlined), proved in U1.
 */
#include "vx.h"
//@LIFT enum_schedule
//@LIFT enum_restart
#include "cts_types.h"
//@LIFT consts
static tag_type extract_tag(tagged_state_type i)
//@LIFT extract_tag
static thread_state_type extract_state(tagged_state_type i)
//@LIFT extract_state
static thread_state_ex_type extract_state_ex(tagged_state_type i)
//@LIFT extract_state_ex
static tagged_state_type pack_state(T1 state_, T2 state_ex_, tag_type tag)
//@LIFT pack_state
static T1 cts_state(const struct thread_state *self)
//@LIFT state
static T2 cts_state_ex(const struct thread_state *self)
//@LIFT state_ex
static tag_type cts_tag(const struct thread_state *self)
//@LIFT tag
static void cts_ctor(struct thread_state *self, T1 state, T2 state_ex, tag_type t)
//@LIFT ctor
static struct thread_state cts_make(T1 state, T2 state_ex, tag_type t) { struct thread_state r; cts_ctor(&r, state, state_ex, t); return r; }

#include "word.h"

/* ghost copies of arguments at entry */
static struct thread_state g_prev0, g_new0;
static thread_restart_state g_arg_ex;
static struct thread_data g_td;                       /* the one thread object the units talk about */

/* ================================================= U2 ================================================= */


/* the other overload (a forwarding implementation of this one calls it) */
static bool restore_state_2(struct thread_data *self, thread_schedule_state new_state, thread_restart_state state_ex, struct thread_state old_state)
//@LIFT restore_state_2_body
//@FUNC
bool restore_state_1(struct thread_data *self, struct thread_state new_state, struct thread_state old_state)
__CPROVER_requires(lin_count == 0 && g_loads == 0 && g_cas == 0 && WF(self->current_state_) && A_TAG1(self->current_state_))
__CPROVER_requires(WF(new_state) && WF(old_state) && A_TAG1(old_state))
/* caller's duty: old_state is a value this word held earlier (its only caller passes the word it wrote itself) */
__CPROVER_requires(W_TAG(self->current_state_) >= W_TAG(old_state))
/* succeeds IFF the word still has old_state's schedule state and tag at the CAS (state_ex is ignored: taken from the load) */
__CPROVER_ensures(g_cas == 1 && __CPROVER_return_value == RST_OK(g_cas_seen, old_state, g_first_read))
__CPROVER_ensures(__CPROVER_return_value == (lin_count == 1))
__CPROVER_ensures(__CPROVER_return_value ==> RST_SUCCESS(lin_old, lin_new, new_state, old_state))
__CPROVER_assigns(self->current_state_, WORD_GHOST)
//@LIFT restore_state_1_body




/* ================================================= U3 ================================================= */





void harness(void)
{
  g_td.current_state_.state_ = nondet_i64();
  struct thread_data *ptd = &g_td;
#define td (*ptd)
  word_ghost_init();
  struct thread_state w0 = td.current_state_;
  thread_schedule_state s = nondet_i8();
  thread_restart_state e = nondet_i8();
  struct thread_state a, b, out;
  a.state_ = nondet_i64();
  b.state_ = nondet_i64();
  out.state_ = 0;
  g_prev0 = a;
  g_arg_ex = e;
  bool ok = restore_state_1(&td, a, b);
  if (ok) VX_REACH("restored"); else VX_REACH("refused");
  if (ok && W_STATE(a) != W_STATE(b)) VX_REACH("restored_with_tag_bump");
  if (ok && W_STATE(a) == W_STATE(b)) VX_REACH("restored_same_state");
  if (ok && W_EX(lin_old) != W_EX(b)) VX_REACH("restored_although_ex_differs_from_old_state");
}
