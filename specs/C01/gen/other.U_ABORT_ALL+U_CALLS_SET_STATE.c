/* C01 L1 (unit side) -- the OTHER writers of thread_data::current_state_ (everybody who is not the runner of the task):
 *   other.set_thread_state        threads::detail::set_thread_state  (set_thread_state.cpp; set_active_state only calls it)
 *   other.abort_all_suspended     thread_queue::abort_all_suspended_threads, loop body for one symbolic element
 *   other.runner_set_state_ex     thread_data_stackful::call: the RUNNER's own set_state_ex(signaled) (state and tag untouched)
 * Guarantee asserted at every successful CAS of these units: STEP_OTHER -- "active words belong to their runner": a writer
 * that is not the runner never changes an active word -- and it never creates one either.
 */
#include "vx.h"
//@LIFT enum_schedule
//@LIFT enum_restart
#include "cts_types.h"
//@LIFT consts
static tag_type extract_tag(tagged_state_type i)
//@LIFT extract_tag
static thread_state_type extract_state(tagged_state_type i)
//@LIFT extract_state
static thread_state_ex_type extract_state_ex(tagged_state_type i)
//@LIFT extract_state_ex
static tagged_state_type pack_state(T1 state_, T2 state_ex_, tag_type tag)
//@LIFT pack_state
static T1 cts_state(const struct thread_state *self)
//@LIFT state
static T2 cts_state_ex(const struct thread_state *self)
//@LIFT state_ex
static tag_type cts_tag(const struct thread_state *self)
//@LIFT tag
static void cts_ctor(struct thread_state *self, T1 state, T2 state_ex, tag_type t)
//@LIFT ctor
static struct thread_state cts_make(T1 state, T2 state_ex, tag_type t) { struct thread_state r; cts_ctor(&r, state, state_ex, t); return r; }
/* by-value glue for accessor calls on temporaries (`x.get_state().state()`) */
static T1 cts_state_v(struct thread_state w) { return cts_state(&w); }
static T2 cts_state_ex_v(struct thread_state w) { return cts_state_ex(&w); }
static tag_type cts_tag_v(struct thread_state w) { return cts_tag(&w); }

#define GUAR(o, n) (STEP_OTHER(o, n) && W_STATE(n) != S_ACTIVE)
#define GUAR_TEXT "guarantee of a non-runner: active words belong to their runner -- the step does not start from an active word and does not create one (and is a STEP)"
/* A-REAL (assumption): a thread object's word only ever holds the five real states; `unknown`, `staged` and
 * `pending_do_not_schedule` never reach current_state_ (set_thread_state's own PIKA_ASSERT_MSG(false, ...) says so) */
#define REAL_STATE(s) ((s) == S_ACTIVE || (s) == S_PENDING || (s) == S_SUSPENDED || (s) == S_TERMINATED || (s) == S_BOOST)
#define RELY(o, n) (RELY_GEN(o, n) && REAL_STATE(W_STATE(n)))
#include "word.h"
static struct thread_data g_td;
#include "sw.h"

static thread_restart_state g_arg_ex;
#define IS_PENDING(s) ((s) == S_PENDING || (s) == S_BOOST)
#define WORD_PRE (lin_count == 0 && g_loads == 0 && g_cas == 0 && WF(g_td.current_state_) && A_TAG1(g_td.current_state_) && REAL_STATE(W_STATE(g_td.current_state_)))

/* thread_data members: lifted bodies, inlined (their own contracts are U2) */
static struct thread_state get_state(struct thread_data *self)
//@LIFT get_state_body
/* (in the abort unit only if the lifted fragment calls it: an uncalled function's loop contract yields no obligations,
 * which the vacuity guard of vx.run rightly refuses) */
static struct thread_state set_state(struct thread_data *self, thread_schedule_state state, thread_restart_state state_ex)
//@LIFT set_state_body
static bool restore_state_2(struct thread_data *self, thread_schedule_state new_state, thread_restart_state state_ex, struct thread_state old_state)
//@LIFT restore_state_2_body

/* ---- T stubs: scheduler, work creation, errors (ghost counters, saturating at 2) ---- */
static long g_sched, g_dsw, g_create_work, g_throws, g_success, g_yields;
static thread_id_ref_type g_sched_id;
static long g_sched_after_steps;       /* lin_count at the moment of the (last) schedule_thread call */
#define BUMP(c) do { if ((c) < 2) (c)++; } while (0)
static void sb_schedule_thread(thread_id_ref_type id) { BUMP(g_sched); g_sched_id = id; g_sched_after_steps = lin_count; }
static void sb_do_some_work(void) { BUMP(g_dsw); }
static void vx_create_work_set_active_state(void) { BUMP(g_create_work); }
static void vx_throws_if(void) { BUMP(g_throws); }
static void vx_ec_success(void) { BUMP(g_success); }
static void vx_yield_k(size_t k) { BUMP(g_yields); }
static thread_id_ref_type vx_id_of(struct thread_data *p) { VX_ASSERT(p == &g_td, "id of the thread object under consideration"); return &g_victim_tid; }
#define T_GHOST g_sched, g_dsw, g_create_work, g_throws, g_success, g_yields, g_sched_id, g_sched_after_steps


struct thread_queue { int unused; };
static void tq_schedule_thread(struct thread_queue *self, thread_id_ref_type id) { sb_schedule_thread(id); }
//@FUNC
void abort_one(struct thread_queue *self, thread_id_ref_type *it)
__CPROVER_requires(WORD_PRE && *it == &g_victim_tid && g_td.count_ >= 2 && g_arg_ex == thread_restart_state_abort)
__CPROVER_requires(g_sched == 0 && g_sched_after_steps == 0)
/* only SUSPENDED threads are aborted: the only step is suspended -> (pending, abort); in particular never from an active word */
__CPROVER_ensures(lin_count <= 1)
__CPROVER_ensures(lin_count == 1 ==> (W_STATE(lin_old) == S_SUSPENDED && W_STATE(lin_new) == S_PENDING && W_EX(lin_new) == thread_restart_state_abort))
/* the thread is queued exactly once iff this call woke it */
__CPROVER_ensures(g_sched == lin_count && (g_sched == 1 ==> (g_sched_id == &g_victim_tid && g_sched_after_steps == 1)))
__CPROVER_assigns(g_td.current_state_, WORD_GHOST, g_sched, g_sched_id, g_sched_after_steps)
{
//@LIFT abort_one_body
}


void harness(void)
{
  g_td.current_state_.state_ = nondet_i64();
  g_td.count_ = nondet_long();
  word_ghost_init();
  g_sched = 0; g_dsw = 0; g_create_work = 0; g_throws = 0; g_success = 0; g_yields = 0; g_sched_id = NULL; g_sched_after_steps = 0;
  struct thread_state w0 = g_td.current_state_;
  thread_schedule_state s = nondet_i8();
  thread_restart_state e = nondet_i8();
  g_arg_ex = thread_restart_state_abort;
  struct thread_queue q;
  thread_id_ref_type elem = &g_victim_tid;
  abort_one(&q, &elem);
  if (lin_count == 1) VX_REACH("suspended_thread_aborted_and_queued"); else VX_REACH("not_suspended_left_alone");
}
