/* C01 U1 -- combined_tagged_state<thread_schedule_state, thread_restart_state>  (F contracts, loop free, full domain)
 *
 * "for all enumerators of thread_schedule_state and thread_restart_state and all tags in [0, 2^48):
 *  extract o pack = identity on each field, and the other fields are untouched"
 *
 * Everything that decides the result is lifted: the two enum definitions (-> enumerator constants and the
 * IS_ENUMERATOR predicates that span the domain), the shift/mask constants, pack_state, the three extractors, the
 * accessors and the three setters.  Hand written: C typedefs, signatures, contracts, harness.
 */
#include "vx.h"
//@LIFT enum_schedule
//@LIFT enum_restart
#include "cts_types.h"
//@LIFT consts

static tag_type extract_tag(tagged_state_type i)
//@LIFT extract_tag
static thread_state_type extract_state(tagged_state_type i)
//@LIFT extract_state
static thread_state_ex_type extract_state_ex(tagged_state_type i)
//@LIFT extract_state_ex

static tagged_state_type pack_state(T1 state_, T2 state_ex_, tag_type tag)
//@LIFT pack_state

/* accessors (lifted) */
static T1 cts_state(const struct thread_state *self)
//@LIFT state
static T2 cts_state_ex(const struct thread_state *self)
//@LIFT state_ex
static tag_type cts_tag(const struct thread_state *self)
//@LIFT tag
/* combined_tagged_state(T1 state, T2 state_ex, tag_type t = 0) (lifted, mem-initialiser lowered) */
static void cts_ctor(struct thread_state *self, T1 state, T2 state_ex, tag_type t)
//@LIFT ctor

/* ghost copies of the fields before the call (no __CPROVER_old on function calls) */
static T1 g_s0;
static T2 g_e0;
static tag_type g_t0;
#define FIELDS_ARE(self, s, e, t) (cts_state(self) == (s) && cts_state_ex(self) == (e) && cts_tag(self) == (t))
#define DOMAIN(s, e, t) (thread_schedule_state_IS_ENUMERATOR(s) && thread_restart_state_IS_ENUMERATOR(e) && 0 <= (t) && (t) < TAG_LIMIT)

//@FUNC
void cts_set_state_ex(struct thread_state *self, T2 state_ex)
__CPROVER_requires(FIELDS_ARE(self, g_s0, g_e0, g_t0) && DOMAIN(g_s0, g_e0, g_t0) && thread_restart_state_IS_ENUMERATOR(state_ex))
__CPROVER_ensures(cts_state_ex(self) == state_ex)
__CPROVER_ensures(cts_state(self) == g_s0 && cts_tag(self) == g_t0)
__CPROVER_assigns(self->state_)
//@LIFT set_state_ex

void harness(void)
{
  T1 s = nondet_i8(); T2 e = nondet_i8(); tag_type t = nondet_i64();
  struct thread_state w;
  g_s0 = nondet_i8(); g_e0 = nondet_i8(); g_t0 = nondet_i64();
  /* the domain of the property: every word that is the packing of two enumerators and a 48-bit tag */
  if (!DOMAIN(g_s0, g_e0, g_t0)) return;
  w.state_ = pack_state(g_s0, g_e0, g_t0);
  cts_set_state_ex(&w, e);
  if (e != g_e0) VX_REACH("ex_changed"); else VX_REACH("ex_same");
}
