/* C01 L1 -- ownership lemmas over the U2/U3 contracts (no lifted code except the enum lists and the layout constants;
 * full 64-bit domain, loop free).  The contracts enter through the named postcondition macros of word.h, which are the
 * very macros the enforced contracts of word.set_state_tagged / sw.ctor / sw.store_state / word.restore_state_1 use:
 *   SST_OK / SST_SUCCESS   set_state_tagged, switch_status::switch_status
 *   RST_OK / RST_SUCCESS   restore_state(new, old), switch_status::store_state / ~switch_status
 *   STEP                   asserted at every successful CAS of every unit (the common guarantee)
 *   STEP_OTHER             asserted at every successful CAS of the units that are NOT the runner (other.*)
 * Together with the history induction of DESIGN 3.4 (paper) these give "never on two workers at once".
 */
#include "vx.h"
//@LIFT enum_schedule
//@LIFT enum_restart
#include "cts_types.h"
//@LIFT consts
#include "word.h"

static struct thread_state any_word(void) { struct thread_state w; w.state_ = nondet_i64(); return w; }

void harness(void)
{
  /* side conditions of the rely/guarantee argument */
  struct thread_state o = any_word(), m = any_word(), n = any_word();
  if (!(WF(o) && A_TAG1(o))) return;
  /* every single step (STEP, asserted at each CAS of each unit) is admissible interference for everybody else;
   * A_TAG(n) is the assumption A-TAG, not a consequence */
  if (STEP(o, n) && A_TAG(n)) { VX_ASSERT(RELY_GEN(o, n), "guarantee inside rely: STEP => RELY_GEN"); VX_REACH("step"); }
  /* a step of a non-runner never starts from an active word, so it is admissible for the runner */
  if (STEP_OTHER(o, n) && A_TAG(n)) { VX_ASSERT(RELY_OWNER(o, n), "guarantee of the other writers inside the runner's rely: STEP_OTHER => RELY_OWNER"); VX_REACH("other_step"); }
  /* the relies are reflexive and transitive: "havoc once before each access" covers any number of environment steps */
  if (A_TAG(o)) VX_ASSERT(RELY_GEN(o, o) && RELY_OWNER(o, o), "relies are reflexive (on every word inside A-TAG)");
  if (RELY_GEN(o, m) && RELY_GEN(m, n)) { VX_ASSERT(RELY_GEN(o, n), "RELY_GEN is transitive"); VX_REACH("gen_chain"); }
  if (RELY_OWNER(o, m) && RELY_OWNER(m, n)) { VX_ASSERT(RELY_OWNER(o, n), "RELY_OWNER is transitive"); VX_REACH("owner_chain"); }
  /* the word invariant is stable under the rely */
  if (RELY_GEN(o, n)) VX_ASSERT(WF(n) && A_TAG(n) && A_TAG1(n), "WF and A-TAG are stable under the rely");
  /* the runner's own steps: switch-in and store are STEPs (so they are admissible for everybody else) */
  if (SST_SUCCESS(o, n, o, S_ACTIVE)) { VX_ASSERT(STEP(o, n), "switch-in is a STEP"); VX_REACH("switch_in"); }
  if (WF(m) && RST_SUCCESS(o, n, m, o)) { VX_ASSERT(STEP(o, n), "store_state / restore is a STEP"); VX_REACH("store"); }
}
