"""C01 U5 (mc) -- the queue hops of shared_priority_queue_scheduler's per-worker queues: thread_queue_mc and queue_holder_thread.

Defines MC_UNITS / MC_META (/ MC_STATIC), merged into specs/C01/spec.py by the owner (exec + UNITS += MC_UNITS).  Self-contained:
relies only on names it imports itself.  Templates: specs/C01/mc_hops.h (container / ledger model, same style as hops.h) and
specs/C01/mc_*.c, referenced as ../C01/mc_*.c so that the same text works from specs/C01 and from the scratch property C01X.
"""
import re

from vx.lift import Lift, Sub, Call, Members, Guard, DropStmt, Rule, LiftError, match_close, split_args, read_source
from vx.run import Unit

MC_TQ = "libs/pika/schedulers/include/pika/schedulers/thread_queue_mc.hpp"
MC_QH = "libs/pika/schedulers/include/pika/schedulers/queue_holder_thread.hpp"
MC_ENUMS = "libs/pika/coroutines/include/pika/coroutines/thread_enums.hpp"
MC_DIR = "../C01/"


# ---------------------------------------------------------------------------------------------------------------
# helpers (structural only; copies of the hops_spec.py helpers under mc_ names so that nothing is overwritten by the merge)

def mc_enum_defines(relpath, enum_name, prefix):
    """`enum class <enum_name> [: T] { a = v, b, ... }` read from /repo -> ["<prefix>a=<v>", ...] (-D): the templates never
    spell an enumerator value."""
    try:
        src = read_source(relpath)
    except LiftError:
        return []
    m = re.search(r"enum\s+class\s+%s\b[^{;]*\{" % re.escape(enum_name), src)
    if not m:
        return []
    op = m.end() - 1
    cl = match_close(src, op, "{", "}")
    env, out, nxt = {}, [], 0
    for item in split_args(src[op + 1: cl]):
        item = item.strip()
        if not item:
            continue
        mm = re.match(r"(\w+)\s*(?:=\s*(.*))?$", item, re.S)
        if not mm:
            continue
        if mm.group(2) is not None:
            try:
                val = int(eval(mm.group(2), {"__builtins__": {}}, dict(env)))
            except Exception:
                continue
        else:
            val = nxt
        env[mm.group(1)] = val
        nxt = val + 1
        out.append("%s%s=%d" % (prefix, mm.group(1), val))
    return out


class McCall0(Call):
    """Call with n=None but WITHOUT the fixed-point re-scan (the replacement may contain the head again)."""

    def __init__(self, head, template, stmt=False, n=None):
        Call.__init__(self, head, template, n, stmt)

    def apply(self, text):
        self._nested = True
        return Call.apply(self, text)


class McMemberCall(Rule):
    """`[RECV->]member.method(args)` -> template; {recv} = RECV or `self` for the bare member (= this->member), {0}.. = args.
    The receiver is CAPTURED, never assumed."""

    def __init__(self, member, method, template, n=None):
        self.member, self.method, self.template, self.n = member, method, template, n

    def apply(self, text):
        rx = re.compile(r"(?:\b(\w+)\s*->\s*|(?<![\w.>]))%s\s*\.\s*%s\s*\(" % (self.member, self.method))
        out, pos, k = [], 0, 0
        while True:
            m = rx.search(text, pos)
            if not m:
                break
            op = m.end() - 1
            cl = match_close(text, op)
            args = split_args(text[op + 1: cl])
            env = {"recv": m.group(1) or "self", "args": text[op + 1: cl].strip()}
            try:
                rep = re.sub(r"\{(\d+|args|recv)\}", lambda mo: args[int(mo.group(1))] if mo.group(1).isdigit() else env[mo.group(1)],
                             self.template(args, env) if callable(self.template) else self.template)
            except IndexError:
                raise LiftError("McMemberCall(%s.%s): template needs more arguments than %r" % (self.member, self.method, args))
            out.append(text[pos: m.start()])
            out.append(rep)
            pos = cl + 1
            k += 1
        out.append(text[pos:])
        self.check(k, "McMemberCall(%s.%s)" % (self.member, self.method))
        return "".join(out)


class McPtrCall(Rule):
    """`[RECV->]PTRMEMBER->method(args)` -> template; {recv} = RECV or `self`, {ptr} = the pointer member, {m} = method, {0}.. = args.
    (holder_->create_thread_object(..), np_queue_->get_next_thread(..), addfrom->np_queue_ stays an argument.)"""

    def __init__(self, ptr_rx, methods, template, n=None):
        self.ptr_rx, self.methods, self.template, self.n = ptr_rx, methods, template, n

    def apply(self, text):
        rx = re.compile(r"(?:\b(\w+)\s*->\s*|(?<![\w.>]))(%s)\s*->\s*(%s)\s*\(" % (self.ptr_rx, "|".join(self.methods)))
        out, pos, k = [], 0, 0
        while True:
            m = rx.search(text, pos)
            if not m:
                break
            op = m.end() - 1
            cl = match_close(text, op)
            args = [a for a in split_args(text[op + 1: cl]) if a]
            env = {"recv": m.group(1) or "self", "ptr": m.group(2), "m": m.group(3), "args": ", ".join(args)}
            tpl = self.template(args, env) if callable(self.template) else self.template
            try:
                rep = re.sub(r"\{(\d+|args|recv|ptr|m)\}", lambda mo: args[int(mo.group(1))] if mo.group(1).isdigit() else env[mo.group(1)], tpl)
            except IndexError:
                raise LiftError("McPtrCall(%s->%s): template needs more arguments than %r" % (m.group(2), m.group(3), args))
            out.append(text[pos: m.start()])
            out.append(rep)
            pos = cl + 1
            k += 1
        out.append(text[pos:])
        self.check(k, "McPtrCall(%s)" % "|".join(self.methods))
        return "".join(out)


class McTidLocals(Rule):
    """every local `thread_id_ref_type NAME;` (default constructed = empty): RAII-lowered with tid_release(&NAME) at every exit
    of its scope, and `std::move(NAME)` -> vx_move_tid(&NAME) (moving empties the source)."""
    n = None

    def apply(self, text):
        names = set(re.findall(r"\bthread_id_ref_type\s+(\w+)\s*;", text))
        for name in names:
            text = re.sub(r"\bstd::move\(\s*%s\s*\)" % re.escape(name), "vx_move_tid(&%s)" % name, text)
        if names:
            text = Guard(r"\bthread_id_ref_type\s+(\w+)\s*;", r"thread_id_ref_type \1 = NULL;", r"tid_release(&\1);", None).apply(text)
        return text


def _mc_counter(m):
    recv = m.group(2) or "self"
    return "atomic_%s_%s(%s)" % ("inc" if m.group(1) == "++" else "dec", m.group(3), recv)


def mc_throw(ret):
    """`PIKA_THROW_EXCEPTION(err, ...);` -> `{ vx_throw(err); return <ret>; }` (control never continues after a throw)"""
    return McCall0(r"\bPIKA_THROW_EXCEPTION", "{ vx_throw({0}); return %s; }" % ret, stmt=True)


def mc_may_throw(ret):
    """a callee stub that may throw (marked VX_MAY_THROW by the binding rule): leave the function if an exception is in flight"""
    return Sub(r"\bVX_MAY_THROW\b", ("if (vx_exc) return " + ret).strip() + ";", None)


class McTry(Rule):
    """`try { A } catch (...) { B }` (none in the pinned text; a repair may add one): inside A a callee that may throw jumps to the
    handler (VX_MAY_THROW -> VX_THROW_POINT), inside B `throw;` re-throws (MC_RETHROW + VX_MAY_THROW); then vx.lift.TryCatch."""
    n = None

    def apply(self, text):
        pos = 0
        while True:
            m = re.search(r"\btry\s*\{", text[pos:])
            if not m:
                break
            op = pos + m.end() - 1
            cl = match_close(text, op, "{", "}")
            mc = re.match(r"\s*catch\s*\([^)]*\)\s*\{", text[cl + 1:], re.S)
            if not mc:
                raise LiftError("McTry: try without catch")
            cop = cl + 1 + mc.end() - 1
            ccl = match_close(text, cop, "{", "}")
            A = text[op + 1: cl].replace("VX_MAY_THROW", "VX_THROW_POINT;")
            B = re.sub(r"\bthrow\s*;", "{ MC_RETHROW(); VX_MAY_THROW }", text[cop + 1: ccl])
            text = text[:op + 1] + A + text[cl: cop + 1] + B + text[ccl:]
            pos = op + 1 + len(A)
        if re.search(r"\btry\s*\{", text):
            from vx.lift import TryCatch
            text = TryCatch(None).apply(text)
        return text


MC_NS = Sub(r"(?:::)?(?:pika::)?threads::detail::", "", None)
MC_STATE_ENUM = Sub(r"\bthread_schedule_state::(\w+)", r"thread_schedule_state_\1", None)
MC_STACK_ENUM = Sub(r"(?:(?:pika::)?execution::)?thread_stacksize::(\w+)", r"thread_stacksize_\1", None)
MC_PRIO_ENUM = Sub(r"(?:(?:pika::)?execution::)?thread_priority::(\w+)", r"thread_priority_\1", None)
MC_ERR_ENUM = Sub(r"(?:pika::)?error::(\w+)", r"error_\1", None)
MC_DEFS = (mc_enum_defines(MC_ENUMS, "thread_schedule_state", "thread_schedule_state_") +
           mc_enum_defines(MC_ENUMS, "thread_stacksize", "thread_stacksize_") +
           mc_enum_defines(MC_ENUMS, "thread_priority", "thread_priority_"))
# debug printing (pika::debug::detail::enable_print<false>): statements without effect
MC_DEBUG = [
    McCall0(r"(?:\[\[maybe_unused\]\]\s*)?auto\s+\w+\s*=\s*(?:::)?pika::detail::(?:tqmc_deb|tq_deb)\.scope", "", stmt=True),
    McCall0(r"(?:::)?pika::detail::(?:tqmc_deb|tq_deb)\.(?:debug|error|timed)", "", stmt=True),
    McCall0(r"static\s+auto\s+\w+\s*=\s*(?:::)?pika::detail::(?:tqmc_deb|tq_deb)\.make_timer", "", stmt=True),
    McCall0(r"(?<![\w.>])debug_queues", "", stmt=True),
]
# atomic counters: `++[RECV->]X_count_[.data_]` / `--...` -> atomic_inc_X_count_(RECV|self); loads -> atomic_load_X_count_
MC_COUNTERS = [
    Sub(r"(\+\+|--)\s*(?:(\w+)\s*->\s*)?(\w+_count_)(?:\.data_)?(?![\w.])", _mc_counter, None),
    Sub(r"(?:\b(\w+)\s*->\s*|(?<![\w.>]))(\w+_count_)(?:\.data_)?\.load\(\s*(?:std::memory_order\w*)?\s*\)",
        lambda m: "atomic_load_%s(%s)" % (m.group(2), m.group(1) or "self"), None),
]
MC_IDS = [                                  # (after the rules that insert `return` statements: the guard follows them)
    McTidLocals(),
    Sub(r"\b(\w+)\.noref\(\)", r"\1", None),
]
MC_THIS = Sub(r"\bthis\b", "self", None)
# the queue's own containers; the receiver is captured
MC_CONTAINERS = [
    McMemberCall("new_task_items_", "pop", "nt_pop({recv}, &{0}, {1})"),
    McMemberCall("new_task_items_", "push", "nt_push({recv}, {0})"),
    McMemberCall("work_items_", "push", "wi_push({recv}, {0}, {1})"),
    McMemberCall("work_items_", "pop", "wi_pop({recv}, {0}, {1})"),
]
# calls into the holder: bound to contract stubs, receiver and arguments are the code's
MC_HOLDER_CALLS = [
    McPtrCall(r"holder_", ["create_thread_object"], "qh_create_thread_object({recv}->{ptr}, &{0}, {1})"),
    McPtrCall(r"holder_", ["add_to_thread_map"], "qh_add_to_thread_map({recv}->{ptr}, {0}); VX_MAY_THROW", n=None),
]
MC_SCHEDULE_WORK = McCall0(r"(?:\b(\w+)\s*->\s*|(?<![\w.>]))schedule_work", lambda a, env: "schedule_work(%s, %s)" % (env["h1"] or "self", ", ".join(a)))
MC_THREAD_ID = Sub(r"\bstd::this_thread::get_id\(\)", "vx_this_thread_id()", None)
MC_TQ_MEMBERS = Members(["holder_"], optional=["holder_"])

MC_SW_LIFT = Lift(MC_TQ, r"void schedule_work\(threads::detail::thread_id_ref_type thrd, bool other_end\)",
                  rules=[MC_NS] + MC_DEBUG + MC_CONTAINERS + MC_COUNTERS)

# ---------------------------------------------------------------------------------------------------------------
# thread_queue_mc::add_new -- two queue objects (receiver `self`, source `addfrom`)

MC_ADDNEW_RULES = [MC_NS, MC_STATE_ENUM, MC_ERR_ENUM] + MC_DEBUG + [
    MC_THREAD_ID,
    Sub(r"\bthread_init_data\s*&\s*(\w+)\s*=\s*([^;]+);", r"struct thread_init_data *\1 = &(\2);", None),     # reference local
    Sub(r"\bdata\.", "data->", None),
] + MC_CONTAINERS + MC_HOLDER_CALLS + [McTry(), mc_may_throw("0")] + MC_IDS + MC_COUNTERS + [MC_SCHEDULE_WORK, MC_TQ_MEMBERS]
MC_ADDNEW_LOOP = """
__CPROVER_assigns(add_count, added, task, g_m0, g_m1, g_h0.thread_map_count_, G)
__CPROVER_loop_invariant(ADDNEW_INV(self, addfrom))
"""
MC_UNITS = [
    Unit("mc.tq.add_new", MC_DIR + "mc_addnew.c", defines=MC_DEFS, enforce="add_new",
         lifts={"add_new_body": Lift(MC_TQ, r"std::size_t add_new\(std::int64_t add_count, thread_queue_type\* addfrom, bool stealing\)",
                                     rules=MC_ADDNEW_RULES, loops={1: MC_ADDNEW_LOOP, "count": 1}),
                "schedule_work_body": MC_SW_LIFT},
         funcs=[MC_TQ + ": thread_queue_mc::add_new", MC_TQ + ": thread_queue_mc::schedule_work (inlined)"], min_obligations=300,
         doc="I+T over two queue objects (receiver, source; possibly the same): every description popped from "
             "addfrom->new_task_items_ gets exactly one thread object (made by the receiver's holder), one registration in that "
             "holder's map, and is queued exactly once in the RECEIVER's work_items_ (work_items_count_ +1 before each push); "
             "addfrom's new_tasks_count_ is decremented exactly once per pop, after the pop and after the map registration, on "
             "EVERY path; nothing is popped that is not converted; at most add_count descriptions are taken when a limit is "
             "given; the result is the number converted; a refused map insertion is an exception, never a silent drop; the "
             "victim moves staged -> pending+map exactly once"),
]

# ---------------------------------------------------------------------------------------------------------------
# thread_queue_mc::schedule_work / get_next_thread

MC_NEXT_RULES = [MC_NS] + MC_DEBUG + MC_CONTAINERS + MC_COUNTERS + [
    McCall0(r"(?<![\w.>])add_new", "({ size_t vx_an = mcq_add_new(self, {0}, {1}, {2}); if (vx_exc) return false; vx_an; })"),
    McCall0(r"(?<![\w.>])get_next_thread", "GNT_REC(self, {args})"),
    MC_TQ_MEMBERS, MC_THIS,
]
MC_UNITS += [
    Unit("mc.tq.schedule_work", MC_DIR + "mc_sched.c", defines=MC_DEFS + ["U_SCHEDULE_WORK"], enforce="schedule_work",
         lifts={"schedule_work_body": MC_SW_LIFT},
         funcs=[MC_TQ + ": thread_queue_mc::schedule_work"], min_obligations=60,
         doc="I+T: exactly one insertion into work_items_, of exactly the thread passed in, at the requested end, never a thread "
             "that is already queued; work_items_count_ is incremented BEFORE the insertion (counter >= entries at every "
             "instant, never negative), net +1"),
]
MC_UNITS += [
    Unit("mc.tq.get_next_thread", MC_DIR + "mc_sched.c", defines=MC_DEFS + ["U_GET_NEXT_THREAD"], enforce="get_next_thread",
         lifts={"get_next_thread_body": Lift(MC_TQ, r"bool get_next_thread\(threads::detail::thread_id_ref_type& thrd, bool other_end,\s*bool check_new = false\)",
                                             rules=MC_NEXT_RULES)},
         funcs=[MC_TQ + ": thread_queue_mc::get_next_thread (lifted twice: the call under contract and its one recursive call)"], min_obligations=300,
         doc="I+T over the contract of add_new: returns true IFF it removed exactly one entry from work_items_ and hands out exactly "
             "that entry (from the requested end); work_items_count_ is decremented only AFTER a successful removal, net -1 iff "
             "removed; nothing is put back; staged work is converted at most once, only with check_new and never while stealing, "
             "from this queue, and is followed by exactly one more attempt that cannot convert again (recursion depth 1); an "
             "exception of add_new is passed on with nothing handed out"),
]

# ---------------------------------------------------------------------------------------------------------------
# thread_queue_mc::create_thread

MC_EC = [
    Sub(r"&\s*ec\b", "ec", None),                                   # error_code& -> pointer
    Sub(r"(?<![\w&.>*])ec\s*=(?!=)", "*ec =", None),
]
MC_CREATE_RULES = [MC_NS, MC_STATE_ENUM, MC_STACK_ENUM, MC_ERR_ENUM, mc_throw("")] + MC_DEBUG + MC_EC + [
    Sub(r"\bstd::move\(\s*data\s*\)", "(*data)", None),             # the request object itself (reference parameter)
    Sub(r"\btask_description\s*\(", "task_make(", None),
    Sub(r"\bdata\.", "data->", None),
] + MC_CONTAINERS + MC_HOLDER_CALLS + [McTry(), mc_may_throw("")] + MC_IDS + MC_COUNTERS + [MC_SCHEDULE_WORK, MC_TQ_MEMBERS, MC_THIS]
MC_UNITS += [
    Unit("mc.tq.create_thread", MC_DIR + "mc_create.c", defines=MC_DEFS, enforce="create_thread",
         lifts={"create_thread_body": Lift(MC_TQ, r"void create_thread\(threads::detail::thread_init_data& data,\s*threads::detail::thread_id_ref_type\* id, error_code& ec\)",
                                           rules=MC_CREATE_RULES),
                "schedule_work_body": MC_SW_LIFT},
         funcs=[MC_TQ + ": thread_queue_mc::create_thread", MC_TQ + ": thread_queue_mc::schedule_work (inlined)"], min_obligations=300,
         doc="I+T: a new task takes exactly one of two roads: run_now -- one thread object made from the request by the holder, "
             "registered once in the holder's map, queued exactly once iff the REQUESTED initial state is pending (handed to the "
             "caller un-queued for every other requested state; pending_boost: either) -- or staged -- new_tasks_count_ +1 "
             "BEFORE one copy of the request is pushed once; otherwise an error is reported (map refused: out_of_memory, nothing "
             "queued / staged; staged with a non-pending state: bad_parameter, nothing touched)"),
]

MC_META = {
    "explanation": "",
    "trusted_base": [],
    "assumptions": [],
    "not_decided": [],
}
