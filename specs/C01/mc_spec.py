"""C01 U5 (mc) -- the queue hops of shared_priority_queue_scheduler's per-worker queues: thread_queue_mc and queue_holder_thread.

Defines MC_UNITS / MC_META (/ MC_STATIC), merged into specs/C01/spec.py by the owner (exec + UNITS += MC_UNITS).  Self-contained:
relies only on names it imports itself.  Templates: specs/C01/mc_hops.h (container / ledger model, same style as hops.h) and
specs/C01/mc_*.c, referenced as ../C01/mc_*.c so that the same text works from specs/C01 and from the scratch property C01X.
"""
import re

from vx.lift import Lift, Sub, Call, Members, Guard, DropStmt, Rule, LiftError, match_close, split_args, read_source
from vx.run import Unit

MC_TQ = "libs/pika/schedulers/include/pika/schedulers/thread_queue_mc.hpp"
MC_QH = "libs/pika/schedulers/include/pika/schedulers/queue_holder_thread.hpp"
MC_ENUMS = "libs/pika/coroutines/include/pika/coroutines/thread_enums.hpp"
MC_DIR = "../C01/"


# ---------------------------------------------------------------------------------------------------------------
# helpers (structural only; copies of the hops_spec.py helpers under mc_ names so that nothing is overwritten by the merge)

def mc_enum_defines(relpath, enum_name, prefix):
    """`enum class <enum_name> [: T] { a = v, b, ... }` read from /repo -> ["<prefix>a=<v>", ...] (-D): the templates never
    spell an enumerator value."""
    try:
        src = read_source(relpath)
    except LiftError:
        return []
    m = re.search(r"enum\s+class\s+%s\b[^{;]*\{" % re.escape(enum_name), src)
    if not m:
        return []
    op = m.end() - 1
    cl = match_close(src, op, "{", "}")
    env, out, nxt = {}, [], 0
    for item in split_args(src[op + 1: cl]):
        item = item.strip()
        if not item:
            continue
        mm = re.match(r"(\w+)\s*(?:=\s*(.*))?$", item, re.S)
        if not mm:
            continue
        if mm.group(2) is not None:
            try:
                val = int(eval(mm.group(2), {"__builtins__": {}}, dict(env)))
            except Exception:
                continue
        else:
            val = nxt
        env[mm.group(1)] = val
        nxt = val + 1
        out.append("%s%s=%d" % (prefix, mm.group(1), val))
    return out


class McCall0(Call):
    """Call with n=None but WITHOUT the fixed-point re-scan (the replacement may contain the head again)."""

    def __init__(self, head, template, stmt=False, n=None):
        Call.__init__(self, head, template, n, stmt)

    def apply(self, text):
        self._nested = True
        return Call.apply(self, text)


class McMemberCall(Rule):
    """`[RECV->]member.method(args)` -> template; {recv} = RECV or `self` for the bare member (= this->member), {0}.. = args.
    The receiver is CAPTURED, never assumed."""

    def __init__(self, member, method, template, n=None):
        self.member, self.method, self.template, self.n = member, method, template, n

    def apply(self, text):
        rx = re.compile(r"(?:\b(\w+)\s*->\s*|(?<![\w.>]))%s\s*\.\s*%s\s*\(" % (self.member, self.method))
        out, pos, k = [], 0, 0
        while True:
            m = rx.search(text, pos)
            if not m:
                break
            op = m.end() - 1
            cl = match_close(text, op)
            args = split_args(text[op + 1: cl])
            env = {"recv": m.group(1) or "self", "args": text[op + 1: cl].strip()}
            try:
                rep = re.sub(r"\{(\d+|args|recv)\}", lambda mo: args[int(mo.group(1))] if mo.group(1).isdigit() else env[mo.group(1)],
                             self.template(args, env) if callable(self.template) else self.template)
            except IndexError:
                raise LiftError("McMemberCall(%s.%s): template needs more arguments than %r" % (self.member, self.method, args))
            out.append(text[pos: m.start()])
            out.append(rep)
            pos = cl + 1
            k += 1
        out.append(text[pos:])
        self.check(k, "McMemberCall(%s.%s)" % (self.member, self.method))
        return "".join(out)


class McPtrCall(Rule):
    """`[RECV->]PTRMEMBER->method(args)` -> template; {recv} = RECV or `self`, {ptr} = the pointer member, {m} = method, {0}.. = args.
    (holder_->create_thread_object(..), np_queue_->get_next_thread(..), addfrom->np_queue_ stays an argument.)"""

    def __init__(self, ptr_rx, methods, template, n=None):
        self.ptr_rx, self.methods, self.template, self.n = ptr_rx, methods, template, n

    def apply(self, text):
        rx = re.compile(r"(?:\b(\w+)\s*->\s*|(?<![\w.>]))(%s)\s*->\s*(%s)\s*\(" % (self.ptr_rx, "|".join(self.methods)))
        out, pos, k = [], 0, 0
        while True:
            m = rx.search(text, pos)
            if not m:
                break
            op = m.end() - 1
            cl = match_close(text, op)
            args = [a for a in split_args(text[op + 1: cl]) if a]
            env = {"recv": m.group(1) or "self", "ptr": m.group(2), "m": m.group(3), "args": ", ".join(args)}
            tpl = self.template(args, env) if callable(self.template) else self.template
            try:
                rep = re.sub(r"\{(\d+|args|recv|ptr|m)\}", lambda mo: args[int(mo.group(1))] if mo.group(1).isdigit() else env[mo.group(1)], tpl)
            except IndexError:
                raise LiftError("McPtrCall(%s->%s): template needs more arguments than %r" % (m.group(2), m.group(3), args))
            out.append(text[pos: m.start()])
            out.append(rep)
            pos = cl + 1
            k += 1
        out.append(text[pos:])
        self.check(k, "McPtrCall(%s)" % "|".join(self.methods))
        return "".join(out)


class McTidLocals(Rule):
    """every local `thread_id_ref_type NAME;` (default constructed = empty): RAII-lowered with tid_release(&NAME) at every exit
    of its scope, and `std::move(NAME)` -> vx_move_tid(&NAME) (moving empties the source)."""
    n = None

    def apply(self, text):
        names = set(re.findall(r"\bthread_id_ref_type\s+(\w+)\s*;", text))
        for name in names:
            text = re.sub(r"\bstd::move\(\s*%s\s*\)" % re.escape(name), "vx_move_tid(&%s)" % name, text)
        if names:
            text = Guard(r"\bthread_id_ref_type\s+(\w+)\s*;", r"thread_id_ref_type \1 = NULL;", r"tid_release(&\1);", None).apply(text)
        return text


def _mc_counter(m):
    recv = m.group(2) or "self"
    return "atomic_%s_%s(%s)" % ("inc" if m.group(1) == "++" else "dec", m.group(3), recv)


def mc_throw(ret):
    """`PIKA_THROW_EXCEPTION(err, ...);` -> `{ vx_throw(err); return <ret>; }` (control never continues after a throw)"""
    return McCall0(r"\bPIKA_THROW_EXCEPTION", "{ vx_throw({0}); return %s; }" % ret, stmt=True)


def mc_may_throw(ret):
    """a callee stub that may throw (marked VX_MAY_THROW by the binding rule): leave the function if an exception is in flight"""
    return Sub(r"\bVX_MAY_THROW\b", ("if (vx_exc) return " + ret).strip() + ";", None)


class McTry(Rule):
    """`try { A } catch (...) { B }` (none in the pinned text; a repair may add one): inside A a callee that may throw jumps to the
    handler (VX_MAY_THROW -> VX_THROW_POINT), inside B `throw;` re-throws (MC_RETHROW + VX_MAY_THROW); then vx.lift.TryCatch."""
    n = None

    def apply(self, text):
        pos = 0
        while True:
            m = re.search(r"\btry\s*\{", text[pos:])
            if not m:
                break
            op = pos + m.end() - 1
            cl = match_close(text, op, "{", "}")
            mc = re.match(r"\s*catch\s*\([^)]*\)\s*\{", text[cl + 1:], re.S)
            if not mc:
                raise LiftError("McTry: try without catch")
            cop = cl + 1 + mc.end() - 1
            ccl = match_close(text, cop, "{", "}")
            A = text[op + 1: cl].replace("VX_MAY_THROW", "VX_THROW_POINT;")
            B = re.sub(r"\bthrow\s*;", "{ MC_RETHROW(); VX_MAY_THROW }", text[cop + 1: ccl])
            text = text[:op + 1] + A + text[cl: cop + 1] + B + text[ccl:]
            pos = op + 1 + len(A)
        if re.search(r"\btry\s*\{", text):
            from vx.lift import TryCatch
            text = TryCatch(None).apply(text)
        return text


MC_NS = Sub(r"(?:::)?(?:pika::)?threads::detail::", "", None)
MC_STATE_ENUM = Sub(r"\bthread_schedule_state::(\w+)", r"thread_schedule_state_\1", None)
MC_STACK_ENUM = Sub(r"(?:(?:pika::)?execution::)?thread_stacksize::(\w+)", r"thread_stacksize_\1", None)
MC_PRIO_ENUM = Sub(r"(?:(?:pika::)?execution::)?thread_priority::(\w+)", r"thread_priority_\1", None)
MC_ERR_ENUM = Sub(r"(?:pika::)?error::(\w+)", r"error_\1", None)
MC_DEFS = (mc_enum_defines(MC_ENUMS, "thread_schedule_state", "thread_schedule_state_") +
           mc_enum_defines(MC_ENUMS, "thread_stacksize", "thread_stacksize_") +
           mc_enum_defines(MC_ENUMS, "thread_priority", "thread_priority_"))
# debug printing (pika::debug::detail::enable_print<false>): statements without effect
MC_DEBUG = [
    McCall0(r"(?:\[\[maybe_unused\]\]\s*)?auto\s+\w+\s*=\s*(?:::)?pika::detail::(?:tqmc_deb|tq_deb)\.scope", "", stmt=True),
    McCall0(r"(?:::)?pika::detail::(?:tqmc_deb|tq_deb)\.(?:debug|error|timed)", "", stmt=True),
    McCall0(r"static\s+auto\s+\w+\s*=\s*(?:::)?pika::detail::(?:tqmc_deb|tq_deb)\.make_timer", "", stmt=True),
    McCall0(r"(?<![\w.>])debug_queues", "", stmt=True),
]
# atomic counters: `++[RECV->]X_count_[.data_]` / `--...` -> atomic_inc_X_count_(RECV|self); loads -> atomic_load_X_count_
MC_COUNTERS = [
    Sub(r"(\+\+|--)\s*(?:(\w+)\s*->\s*)?(\w+_count_)(?:\.data_)?(?![\w.])", _mc_counter, None),
    Sub(r"(?:\b(\w+)\s*->\s*|(?<![\w.>]))(\w+_count_)(?:\.data_)?\.load\(\s*(?:std::memory_order\w*)?\s*\)",
        lambda m: "atomic_load_%s(%s)" % (m.group(2), m.group(1) or "self"), None),
]
MC_IDS = [                                  # (after the rules that insert `return` statements: the guard follows them)
    McTidLocals(),
    Sub(r"\b(\w+)\.noref\(\)", r"\1", None),
]
MC_THIS = Sub(r"\bthis\b", "self", None)
# the queue's own containers; the receiver is captured
MC_CONTAINERS = [
    McMemberCall("new_task_items_", "pop", "nt_pop({recv}, &{0}, {1})"),
    McMemberCall("new_task_items_", "push", "nt_push({recv}, {0})"),
    McMemberCall("work_items_", "push", "wi_push({recv}, {0}, {1})"),
    McMemberCall("work_items_", "pop", "wi_pop({recv}, {0}, {1})"),
]
# calls into the holder: bound to contract stubs, receiver and arguments are the code's
MC_HOLDER_CALLS = [
    McPtrCall(r"holder_", ["create_thread_object"], "qh_create_thread_object({recv}->{ptr}, &{0}, {1})"),
    McPtrCall(r"holder_", ["add_to_thread_map"], "qh_add_to_thread_map({recv}->{ptr}, {0}); VX_MAY_THROW", n=None),
]
MC_SCHEDULE_WORK = McCall0(r"(?:\b(\w+)\s*->\s*|(?<![\w.>]))schedule_work", lambda a, env: "schedule_work(%s, %s)" % (env["h1"] or "self", ", ".join(a)))
MC_THREAD_ID = Sub(r"\bstd::this_thread::get_id\(\)", "vx_this_thread_id()", None)
MC_TQ_MEMBERS = Members(["holder_"], optional=["holder_"])

MC_SW_LIFT = Lift(MC_TQ, r"void schedule_work\(threads::detail::thread_id_ref_type thrd, bool other_end\)",
                  rules=[MC_NS] + MC_DEBUG + MC_CONTAINERS + MC_COUNTERS)

# ---------------------------------------------------------------------------------------------------------------
# thread_queue_mc::add_new -- two queue objects (receiver `self`, source `addfrom`)

MC_ADDNEW_RULES = [MC_NS, MC_STATE_ENUM, MC_ERR_ENUM] + MC_DEBUG + [
    MC_THREAD_ID,
    Sub(r"\bthread_init_data\s*&\s*(\w+)\s*=\s*([^;]+);", r"struct thread_init_data *\1 = &(\2);", None),     # reference local
    Sub(r"\bdata\.", "data->", None),
] + MC_CONTAINERS + MC_HOLDER_CALLS + [McTry(), mc_may_throw("0")] + MC_IDS + MC_COUNTERS + [MC_SCHEDULE_WORK, MC_TQ_MEMBERS]
MC_ADDNEW_LOOP = """
__CPROVER_assigns(add_count, added, task, g_m0, g_m1, g_h0.thread_map_count_, G)
__CPROVER_loop_invariant(ADDNEW_INV(self, addfrom))
"""
MC_UNITS = [
    Unit("mc.tq.add_new", MC_DIR + "mc_addnew.c", defines=MC_DEFS, enforce="add_new",
         lifts={"add_new_body": Lift(MC_TQ, r"std::size_t add_new\(std::int64_t add_count, thread_queue_type\* addfrom, bool stealing\)",
                                     rules=MC_ADDNEW_RULES, loops={1: MC_ADDNEW_LOOP, "count": 1}),
                "schedule_work_body": MC_SW_LIFT},
         funcs=[MC_TQ + ": thread_queue_mc::add_new", MC_TQ + ": thread_queue_mc::schedule_work (inlined)"], min_obligations=2500,
         doc="I+T over two queue objects (receiver, source; possibly the same): every description popped from "
             "addfrom->new_task_items_ gets exactly one thread object (made by the receiver's holder), one registration in that "
             "holder's map, and is queued exactly once in the RECEIVER's work_items_ (work_items_count_ +1 before each push); "
             "addfrom's new_tasks_count_ is decremented exactly once per pop, after the pop and after the map registration, on "
             "EVERY path; nothing is popped that is not converted; at most add_count descriptions are taken when a limit is "
             "given; the result is the number converted; a refused map insertion is an exception, never a silent drop; the "
             "victim moves staged -> pending+map exactly once"),
]

# ---------------------------------------------------------------------------------------------------------------
# thread_queue_mc::schedule_work / get_next_thread

MC_NEXT_RULES = [MC_NS] + MC_DEBUG + MC_CONTAINERS + MC_COUNTERS + [
    McCall0(r"(?<![\w.>])add_new", "({ size_t vx_an = mcq_add_new(self, {0}, {1}, {2}); if (vx_exc) return false; vx_an; })"),
    McCall0(r"(?<![\w.>])get_next_thread", "GNT_REC(self, {args})"),
    MC_TQ_MEMBERS, MC_THIS,
]
MC_UNITS += [
    Unit("mc.tq.schedule_work", MC_DIR + "mc_sched.c", defines=MC_DEFS + ["U_SCHEDULE_WORK"], enforce="schedule_work",
         lifts={"schedule_work_body": MC_SW_LIFT},
         funcs=[MC_TQ + ": thread_queue_mc::schedule_work"], min_obligations=600,
         doc="I+T: exactly one insertion into work_items_, of exactly the thread passed in, at the requested end, never a thread "
             "that is already queued; work_items_count_ is incremented BEFORE the insertion (counter >= entries at every "
             "instant, never negative), net +1"),
]
MC_UNITS += [
    Unit("mc.tq.get_next_thread", MC_DIR + "mc_sched.c", defines=MC_DEFS + ["U_GET_NEXT_THREAD"], enforce="get_next_thread",
         lifts={"get_next_thread_body": Lift(MC_TQ, r"bool get_next_thread\(threads::detail::thread_id_ref_type& thrd, bool other_end,\s*bool check_new = false\)",
                                             rules=MC_NEXT_RULES)},
         funcs=[MC_TQ + ": thread_queue_mc::get_next_thread (lifted twice: the call under contract and its one recursive call)"], min_obligations=1000,
         doc="I+T over the contract of add_new: returns true IFF it removed exactly one entry from work_items_ and hands out exactly "
             "that entry (from the requested end); work_items_count_ is decremented only AFTER a successful removal, net -1 iff "
             "removed; nothing is put back; staged work is converted at most once, only with check_new and never while stealing, "
             "from this queue, and is followed by exactly one more attempt that cannot convert again (recursion depth 1); an "
             "exception of add_new is passed on with nothing handed out"),
]

# ---------------------------------------------------------------------------------------------------------------
# thread_queue_mc::create_thread

MC_EC = [
    Sub(r"&\s*ec\b", "ec", None),                                   # error_code& -> pointer
    Sub(r"(?<![\w&.>*])ec\s*=(?!=)", "*ec =", None),
]
MC_CREATE_RULES = [MC_NS, MC_STATE_ENUM, MC_STACK_ENUM, MC_ERR_ENUM, mc_throw("")] + MC_DEBUG + MC_EC + [
    Sub(r"\bstd::move\(\s*data\s*\)", "(*data)", None),             # the request object itself (reference parameter)
    Sub(r"\btask_description\s*\(", "task_make(", None),
    Sub(r"\bdata\.", "data->", None),
] + MC_CONTAINERS + MC_HOLDER_CALLS + [McTry(), mc_may_throw("")] + MC_IDS + MC_COUNTERS + [MC_SCHEDULE_WORK, MC_TQ_MEMBERS, MC_THIS]
MC_UNITS += [
    Unit("mc.tq.create_thread", MC_DIR + "mc_create.c", defines=MC_DEFS, enforce="create_thread",
         lifts={"create_thread_body": Lift(MC_TQ, r"void create_thread\(threads::detail::thread_init_data& data,\s*threads::detail::thread_id_ref_type\* id, error_code& ec\)",
                                           rules=MC_CREATE_RULES),
                "schedule_work_body": MC_SW_LIFT},
         funcs=[MC_TQ + ": thread_queue_mc::create_thread", MC_TQ + ": thread_queue_mc::schedule_work (inlined)"], min_obligations=1400,
         doc="I+T: a new task takes exactly one of two roads: run_now -- one thread object made from the request by the holder, "
             "registered once in the holder's map, queued exactly once iff the REQUESTED initial state is pending (handed to the "
             "caller un-queued for every other requested state; pending_boost: either) -- or staged -- new_tasks_count_ +1 "
             "BEFORE one copy of the request is pushed once; otherwise an error is reported (map refused: out_of_memory, nothing "
             "queued / staged; staged with a non-pending state: bad_parameter, nothing touched)"),
]

# ---------------------------------------------------------------------------------------------------------------
# queue_holder_thread: routing wrappers (T over the thread_queue_mc contracts)

MC_QPTR = r"(?:bp|hp|np|lp)_queue_"
MC_QH_MEMBERS = Members(["bp_queue_", "hp_queue_", "np_queue_", "lp_queue_", "owner_mask_", "thread_num_", "parameters_"],
                        optional=["bp_queue_", "hp_queue_", "np_queue_", "lp_queue_", "owner_mask_", "thread_num_", "parameters_"])
MC_OWNS = McCall0(r"(?<![\w.>])owns_(bp|hp|np|lp)_queue", "owns_{h1}_queue(self)")


def _mc_gnt(args, env):                       # bool check_new = false
    a = list(args) + ["false"] * (3 - len(args))
    return "q_get_next_thread(%s->%s, %s)" % (env["recv"], env["ptr"], ", ".join(a))


def _mc_sw(args, env):
    return "q_schedule_work(%s->%s, %s)" % (env["recv"], env["ptr"], ", ".join(args))


MC_ROUTE_RULES = [MC_NS, MC_PRIO_ENUM, MC_ERR_ENUM] + MC_DEBUG + [
    Sub(r"\bdata\.", "data->", None),
    Sub(r"\bstd::terminate\(\)\s*;", "{ vx_terminate(); return; }", None),
    # calls through the holder's queue pointers: WHICH pointer receives WHICH call with WHICH arguments is the code's
    McPtrCall(MC_QPTR, ["create_thread"], "q_create_thread({recv}->{ptr}, {args})"),
    McPtrCall(MC_QPTR, ["schedule_work"], _mc_sw),
    McPtrCall(MC_QPTR, ["get_next_thread"], _mc_gnt),
    McPtrCall(MC_QPTR, ["add_new"], "q_add_new({recv}->{ptr}, {args})"),
    Sub(r"\breturn\s+(q_create_thread\((?:[^();]|\([^()]*\))*\))\s*;", r"{ \1; return; }", None),     # `return f();` of a void function
    Sub(r"\bthread_holder_type\s*\*", "struct qh *", None),
    MC_OWNS, MC_QH_MEMBERS, MC_THIS,
]
MC_OWNS_LIFTS = {
    "owns_" + k: Lift(MC_QH, r"bool owns_%s_queue\(\) const" % k, rules=[MC_QH_MEMBERS]) for k in ("bp", "hp", "np", "lp")
}
MC_QH_F = MC_QH + ": queue_holder_thread::"


def _mc_route(name, define, locator, func, doc, min_obl):
    return Unit("mc.qh." + name, MC_DIR + "mc_qh_route.c", defines=MC_DEFS + [define], enforce=func,
                lifts=dict(MC_OWNS_LIFTS, body=Lift(MC_QH, locator, rules=MC_ROUTE_RULES)),
                funcs=[MC_QH_F + func, MC_QH_F + "owns_{bp,hp,np,lp}_queue (inlined)"], min_obligations=min_obl, doc=doc)


MC_UNITS += [
    _mc_route("create_thread", "U_CREATE", r"void create_thread\(threads::detail::thread_init_data& data,\s*threads::detail::thread_id_ref_type\* tid, std::size_t thread_num, error_code& ec\)",
              "create_thread",
              "T over the contract of thread_queue_mc::create_thread: exactly one queue of THIS holder receives the request, with the "
              "caller's data, id and error_code passed through -- the queue of the request's priority class (normal; bound / high, "
              "high_recursive, boost / low when the holder has that queue) -- or the process is terminated (never a silent drop); a "
              "request whose class has a queue is always accepted; run_now reaches a queue only on the holder's own worker", 400),
    _mc_route("schedule_thread", "U_SCHEDULE", r"void schedule_thread\(threads::detail::thread_id_ref_type thrd,\s*execution::thread_priority priority, bool other_end = false\)",
              "schedule_thread",
              "T over the contract of thread_queue_mc::schedule_work: exactly one queue of THIS holder receives exactly the thread "
              "passed in, once, at the requested end -- the queue of its priority class when the holder has one; the victim becomes "
              "pending exactly once", 400),
    _mc_route("get_next_thread_HP", "U_NEXT_HP", r"bool get_next_thread_HP\(\s*threads::detail::thread_id_ref_type& thrd, bool stealing, bool check_new\)",
              "get_next_thread_HP",
              "T over the contract of thread_queue_mc::get_next_thread: a thread is returned IFF exactly one pop succeeded (bound, "
              "then high), it is the popped one, the id is empty otherwise; every poll is made with an empty id; after a success "
              "nothing else is polled; only this holder's queues, with the caller's stealing flag and check_new; a thief never "
              "polls the bound queue", 400),
    _mc_route("get_next_thread", "U_NEXT", r"bool get_next_thread\(threads::detail::thread_id_ref_type& thrd, bool stealing\)",
              "get_next_thread",
              "T: same contract for the normal and low queues (never looks for new work)", 400),
    _mc_route("add_new_HP", "U_ADDNEW_HP", r"std::size_t add_new_HP\(std::int64_t add_count, thread_holder_type\* addfrom, bool stealing\)",
              "add_new_HP",
              "T over the contract of thread_queue_mc::add_new: staged tasks are converted only INTO queues this holder owns, FROM "
              "the source holder's queue of the SAME priority class, with the caller's budget and flag; at most one queue converts "
              "per call, nothing is asked after it and the result is exactly what it converted; a thief never converts bound work", 400),
    _mc_route("add_new", "U_ADDNEW", r"std::size_t add_new\(std::int64_t add_count, thread_holder_type\* addfrom, bool stealing\)",
              "add_new",
              "T: same contract for the normal and low queues", 400),
]

# ---------------------------------------------------------------------------------------------------------------
# queue_holder_thread: thread map, terminated list

MC_SCOPED_LOCK = Guard(r"\bscoped_lock\s+(\w+)\(\s*thread_map_mtx_\.data_\s*\)\s*;", r"struct ulock \1 = ulock_make(&self->thread_map_mtx_);", r"ulock_dtor(&\1);", None)
MC_BARE_COUNTER = Sub(r"(?<![\w.>+\-])(terminated_items_count_|thread_map_count_)\b(?:\.data_)?(?!\s*(?:\.|\())", r"atomic_load_\1(self)", None)   # implicit atomic load
MC_MAP = [
    Sub(r"std::pair<\s*thread_map_type::iterator\s*,\s*bool\s*>\s+(\w+)\s*=", r"struct map_ins \1 =", None),
    Sub(r"((?:\b\w+\s*->\s*)?)thread_map_\.find\(([^()]*)\)\s*!=\s*\1thread_map_\.end\(\)",
        lambda m: "map_contains(%s, %s)" % ((m.group(1).replace("->", "").strip() or "self"), m.group(2)), None),
    McMemberCall("thread_map_", "insert", "map_insert({recv}, {0})"),
    McMemberCall("thread_map_", "erase", "map_erase({recv}, {0})"),
    McMemberCall("thread_map_", "size", "map_size({recv})"),
    Sub(r"\bstd::string\s+(\w+)\s*=\s*std::to_string\(([^;]*)\)\s*;", r"size_t vx_str_\1 = (size_t) (\2);", None),     # message text
    Sub(r"\b(\w+)\.unlock\(\)", r"ulock_unlock(&\1)", None),
    McCall0(r"(?<![\w.>])deallocate", "qh_deallocate({0})"),
]
MC_TERM = [
    Sub(r"&\s*(\w+)->get_queue<queue_holder_thread>\(\)", r"td_get_holder(\1)", None),
    McMemberCall("terminated_items_", "push", "term_push({recv}, {0})"),
    McMemberCall("terminated_items_", "pop", "term_pop_h({recv}, &{0})"),
    Sub(r"\bthread_data\s*\*\s*(\w+)\s*;", r"td_handle \1 = 0;", None),                       # thread_data* local -> handle
    Sub(r"\bthread_id_type\s+(\w+)\(\s*(\w+)\s*\)\s*;", r"thread_id_type \1 = TDP(\2);", None),
    McCall0(r"(?<![\w.>])cleanup_terminated", "qh_cleanup_terminated(self, {0}, {1})"),
    McCall0(r"(?<![\w.>])remove_from_thread_map", "qh_remove_from_thread_map(self, {0}, {1})"),
    McCall0(r"(?<![\w.>])recycle_thread", "qh_recycle_thread(self, {0})"),
]
MC_HOLDER_RULES = [MC_NS, MC_ERR_ENUM, mc_throw("")] + MC_DEBUG + [MC_SCOPED_LOCK] + MC_MAP + MC_TERM + MC_COUNTERS + [MC_BARE_COUNTER, MC_QH_MEMBERS, MC_THIS]
MC_UNITS += [
    Unit("mc.qh.add_to_thread_map", MC_DIR + "mc_qh_map.c", defines=MC_DEFS + ["U_ADD"], enforce="add_to_thread_map",
         lifts={"body": Lift(MC_QH, r"void add_to_thread_map\(threads::detail::thread_id_type tid\)", rules=MC_HOLDER_RULES)},
         funcs=[MC_QH_F + "add_to_thread_map"], min_obligations=500,
         doc="M+T: under thread_map_mtx_ the id is inserted exactly once and thread_map_count_ is incremented exactly once, after "
             "the insertion; a refused id is an out_of_memory exception thrown with the lock released (never a silent drop), "
             "nothing counted; the lock is released on every path with thread_map_count_ == number of entries"),
    Unit("mc.qh.remove_from_thread_map", MC_DIR + "mc_qh_map.c", defines=MC_DEFS + ["U_REMOVE"], enforce="remove_from_thread_map",
         lifts={"body": Lift(MC_QH, r"void remove_from_thread_map\(threads::detail::thread_id_type tid, bool dealloc\)", rules=MC_HOLDER_RULES)},
         funcs=[MC_QH_F + "remove_from_thread_map"], min_obligations=400,
         doc="I+T (lock held by the caller): the id is erased exactly once, thread_map_count_ decremented exactly once after the "
             "erase, the object destroyed iff the caller asked for it, once and only after it left the map; the authors' "
             "assertions (in the map; count >= 0; erased) hold"),
    Unit("mc.qh.destroy_thread", MC_DIR + "mc_qh_map.c", defines=MC_DEFS + ["U_DESTROY"], enforce="destroy_thread",
         lifts={"body": Lift(MC_QH, r"void destroy_thread\(\s*threads::detail::thread_data\* thrd, std::size_t thread_num, bool xthread\)", rules=MC_HOLDER_RULES)},
         funcs=[MC_QH_F + "destroy_thread (PIKA_HAVE_THREAD_STACK_MMAP branch)"], min_obligations=500,
         doc="I+T: the terminated thread is appended exactly once to terminated_items_ of THIS holder (the one that created it), "
             "terminated_items_count_ +1 exactly once on the same path, the object is not touched after the push, nothing is "
             "erased or recycled by this call itself; the clean-up runs at most once, after the push, only when the calling "
             "worker owns the holder (never for a cross-thread destroy), never as delete_all"),
]

MC_CT_LOOP1 = """
__CPROVER_assigns(todelete, g_h0.thread_map_count_, g_h0.terminated_items_count_, G, g_last_term_load)
__CPROVER_loop_invariant(CT_INV(self))
"""
MC_CT_LOOP2 = """
__CPROVER_assigns(todelete, delete_count, g_h0.thread_map_count_, g_h0.terminated_items_count_, G, g_last_term_load)
__CPROVER_loop_invariant(CT_INV(self) && delete_count >= -MC_BIG - G.term_pops && delete_count <= MC_BIG)
"""
MC_UNITS += [
    Unit("mc.qh.cleanup_terminated", MC_DIR + "mc_qh_cleanup.c", defines=MC_DEFS, enforce="cleanup_terminated",
         lifts={"body": Lift(MC_QH, r"bool cleanup_terminated\(std::size_t thread_num, bool delete_all\)", rules=MC_HOLDER_RULES,
                             loops={1: MC_CT_LOOP1, 2: MC_CT_LOOP2, "count": 2})},
         funcs=[MC_QH_F + "cleanup_terminated"], min_obligations=1200,
         doc="I+T, both drain loops under loop contract: every thread popped from terminated_items_ is counted out of "
             "terminated_items_count_ once (after the pop), removed from the map once and then recycled once (destroyed once for "
             "delete_all); the victim is popped at most once and then ends on a free list (or destroyed), out of the map; a "
             "thread that is not popped is not touched; thread_map_mtx_ is held for every pop / removal / recycle and released at "
             "exit; `true` only for a counter that read 0"),
]

# ---------------------------------------------------------------------------------------------------------------
# lemma over the hop contracts
MC_UNITS += [
    Unit("mc.lemma.one_place", MC_DIR + "mc_lemma.c", defines=MC_DEFS, kind="lemma", min_obligations=1500,
         funcs=["(contract stubs of specs/C01/mc_hops.h and mc_qh.h = the hop contracts the mc.* units are proved against)"],
         doc="lemma over the hop contracts: from any state with the victim in exactly one place, any single hop whose precondition "
             "holds (staged push / pop, object creation, map insert / registration, work_items_ push / pop directly or through the "
             "holder, conversion through the holder, terminated push / pop, removal + recycle / destroy) leaves it in exactly one "
             "place; no hop makes it vanish or duplicates it; it comes into somebody's hands only by a pop that returned it; a "
             "pending thread leaves its queue only into the hands of the worker whose single pop returned it"),
]

MC_META = {
    "explanation":
        "U5 (mc) mc.*: the queue hops of shared_priority_queue_scheduler's per-worker queues. ONE symbolic victim task is followed "
        "through the containers of thread_queue_mc (new_task_items_, work_items_) and of queue_holder_thread (thread_map_, "
        "terminated_items_, free lists behind the contract of recycle_thread) with one membership bit per container plus `in the "
        "hands of the call under verification`; every container stub asserts its counter discipline AT the operation and re-checks "
        "`the victim is in exactly one place`. mc.tq.*: I+T contracts of thread_queue_mc::add_new (two queue objects, loop "
        "contract), create_thread, get_next_thread (its one recursive call lifted as a second copy), schedule_work; mc.qh.*: T "
        "contracts of the routing wrappers of queue_holder_thread (create_thread, schedule_thread, get_next_thread[_HP], "
        "add_new[_HP]) over those, and M / I+T contracts of add_to_thread_map, remove_from_thread_map, destroy_thread, "
        "cleanup_terminated (two loop contracts); mc.lemma.one_place: any single hop keeps the victim in exactly one place and "
        "hands it to somebody only by a pop that returned it. As for hops.*, the composition with the state-word units (U2-U4) "
        "and of the hops with each other is the paper argument of DESIGN 3.4. TWO obligations fail on the pinned tree (defects of "
        "thread_queue_mc, see not_decided / the report): mc.tq.add_new postcondition (1x) and mc.tq.create_thread postcondition "
        "`requested state other than pending => not queued`; each has an exclusion define for a known-finding entry "
        "(MC_EXCL_MAP_REFUSAL, MC_EXCL_PENDING_ALIAS) with which the unit proves completely.",
    "trusted_base": [
        "specs/C01/mc_hops.h nt_interfere / wi_interfere: VX_ASSUME(ledger invariant) -- the other workers keep new_tasks_count_ >= "
        "entries and work_items_count_ >= entries (+ their own in-flight operations); they may take a victim that is not in this "
        "call's hands out of a queue, but never put it (back) in; mc_at_acquire: while thread_map_mtx_ is free the others keep "
        "thread_map_count_ == entries; mc_qh.h term_interfere: other destroy_thread calls push and count at any time, nobody but the "
        "owner (under the lock) pops terminated_items_",
        "specs/C01/mc_hops.h / mc_qh.h containers: new_task_items_ / work_items_ / terminated_items_ (lock-free queues: push always "
        "succeeds -- the bool result of ConcurrentQueue::enqueue is ignored by pika too --, pop may fail spuriously and returns an "
        "element that is in the queue), thread_map_ (std::unordered_set: insert fails iff present -- other ids may be refused "
        "nondeterministically so that the defensive path stays reachable; erase returns 1 iff present; every OTHER id popped from "
        "terminated_items_ is in the map) are ghost counts + ONE victim membership bit; VX_ASSUME bounds: ghost counts below 10^9, "
        "int32 counters below 2*10^9 (they are std::atomic<std::int32_t>: beyond that they overflow -- not decided)",
        "specs/C01/mc_hops.h qh_create_thread_object (once-ness / size class of the free lists: C12 heap.qht.*; the in-place rewrite "
        "of pending_do_not_schedule / pending_boost to pending is modelled), qh_add_to_thread_map (restates mc.qh.add_to_thread_map), "
        "mc_sched.c mcq_add_new (restates mc.tq.add_new (1)-(6)), mc_qh.h q_create_thread / q_schedule_work / q_get_next_thread / "
        "q_add_new (T stubs restating mc.tq.create_thread / schedule_work / get_next_thread / add_new), qh_remove_from_thread_map, "
        "qh_recycle_thread (C12 heap.qht.recycle_thread), qh_cleanup_terminated, qh_deallocate (thread_data::destroy): hand-written "
        "contract stubs, not --replace-call-with-contract (the contracts speak about ghost event counters); mc.lemma.one_place "
        "cross-checks the victim parts of these stubs against each other",
        "specs/C01/mc_hops.h vx_throw / MC_RETHROW / VX_CATCH_BEGIN (exception = flag + immediate return; a lowered handler catches, "
        "`throw;` re-throws), vx_move_tid / tid_release (std::move empties a thread_id_ref_type local; a local that still holds the "
        "thread at scope exit is an obligation unless an error was reported), get_self_stacksize_enum (VX_ASSUME: never `current`, "
        "its own PIKA_ASSERT), vx_terminate (std::terminate = flag + return), vx_this_thread_id, monitor.h std::unique_lock lowering",
        "mc_spec.py helper rules defined locally: McCall0, McMemberCall ([RECV->]member.method(args), receiver captured), McPtrCall "
        "([RECV->]ptr_member->method(args), receiver and pointer member captured), McTidLocals (RAII lowering of thread_id_ref_type "
        "locals), McTry (try/catch lowering for repairs; no try block in the pinned text), mc_may_throw (a throwing callee leaves "
        "the function; inside an expression: GNU statement expression), mc_enum_defines (enumerator values read from /repo); "
        "debug printing of pika::detail::tq_deb / tqmc_deb (enable_print<false>) and debug_queues() are dropped as statements",
    ],
    "assumptions": [
        "A-LIFE (caller's duty): queue_holder_thread::destroy_thread runs when the last reference to the thread died, i.e. the thread "
        "is in no queue and in the map of the holder that created it (reference counting is not modelled: ids are plain pointers)",
        "callers' duties stated by the code's PIKA_ASSERTs, taken as preconditions and NOT re-proved at the call sites in "
        "shared_priority_queue_scheduler / queue_holder_numa (C10 steal.* covers which holder is chosen): thread_queue_mc::add_new "
        "and get_next_thread(check_new && !other_end) are called by the thread that owns the holder; queue_holder_thread::"
        "create_thread: run_now only with thread_num == thread_num_ (the `if` that clears run_now otherwise is therefore dead in "
        "this unit); cleanup_terminated: thread_num == thread_num_; destroy_thread: the thread belongs to this holder, and "
        "!xthread means the calling worker owns the holder; create_thread: id != nullptr when the thread is not to be scheduled; "
        "remove_from_thread_map: lock held, thread in the map; add_new[_HP]: a queue this holder owns exists in the source holder",
        "every staged task description has initial_state == pending (established by mc.tq.create_thread: anything else is refused with "
        "bad_parameter; assumed by the new_task_items_.pop stub, used for PIKA_ASSERT(data.initial_state == pending) in add_new)",
        "fewer than 10^9 conversions / pops / recycles per call and fewer than 10^9 entries per container; add_new is entered with "
        "add_count >= -1 (its callers pass 32 and 64)",
        "loop contracts are keyed by local names of the lifted text (add_count, added, task, todelete, delete_count): renaming one "
        "of these is an extraction failure (exit 2) or is repaired by the driver's frame widening, never a false alarm",
        "build configuration: PIKA_HAVE_THREAD_STACK_MMAP (terminated_items_ branch of destroy_thread; cleanup_terminated exists)",
    ],
    "not_decided": [
        "DEFECT candidates kept as failing obligations (each proves with its exclusion define and with the repair applied through "
        "tools/mut.sh): (a) thread_queue_mc::add_new: when holder_->add_to_thread_map throws (std::unordered_set refused the id / "
        "allocation failure) the description already popped from addfrom->new_task_items_ is never counted out of "
        "addfrom->new_tasks_count_ (the decrement follows the call; thread_queue::add_new decrements before it throws): the counter "
        "stays above the queue length for ever; (b) thread_queue_mc::create_thread(run_now) tests data.initial_state == pending AFTER "
        "holder_->create_thread_object has rewritten pending_do_not_schedule (and pending_boost) to pending in the caller's data: a "
        "thread requested as 'pending, do not schedule' is pushed to work_items_ AND handed to the caller (thread_queue::"
        "create_thread latches schedule_now before create_thread_object); no caller in the pinned tree passes "
        "pending_do_not_schedule",
        "counter disciplines observed but NOT required: terminated_items_count_ is incremented AFTER the push (destroy_thread) and may "
        "be transiently negative (a cleaner pops and counts out an entry whose push is not counted yet): cleanup_terminated's "
        "delete_count = count / 2 may then be negative and the bounded pass drains everything; only recycling policy. With "
        "count == 1 the bounded pass recycles nothing (delete_count == 0)",
        "queue_holder_thread::create_thread calls std::terminate for a priority whose queue the holder lacks (bound / high / low "
        "without bp / hp / lp queue, default_, unknown) while schedule_thread routes the same priorities to the normal queue: loud, "
        "not a drop; accepted either way",
        "which end of a container is used, the conversion budgets (32 / 64), when destroy_thread triggers a clean-up, boost -> normal "
        "priority reset: scheduling policy; the `stealing` flag passed to add_new by get_next_thread (false) is not constrained",
        "the constructors (thread_queue_mc: both counters 0, holder_ null; queue_holder_thread: counters 0, set_holder on each queue -- "
        "for a queue shared between holders the last constructed holder wins), ~queue_holder_thread, get_queue_length*, "
        "get_thread_count*, enumerate_threads, abort_all_suspended_threads' queueing (other.c covers its state step), worker_next, "
        "queue_holder_numa / shared_priority_queue_scheduler (C10 steal.*), the non-MMAP branch of destroy_thread, int32 counter "
        "overflow beyond 2*10^9 entries, failure of ConcurrentQueue::enqueue (result ignored by pika), std::bad_alloc out of "
        "create_thread_object / unordered_set::insert (same leak as (a))",
        "composition of the hops with each other and with the state word (history induction, paper)",
    ],
}

try:
    from vx import census as _mc_census
    MC_STATIC = [
        _mc_census.sites("mc.new_tasks_count_.writes", [MC_TQ], r"(?:\+\+|--)\s*(?:\w+\s*->\s*)?new_tasks_count_|\bnew_tasks_count_\.data_\s*=(?!=)", 3,
                         "create_thread (++: mc.tq.create_thread), add_new (--: mc.tq.add_new), constructor (= 0: not under contract)"),
        _mc_census.sites("mc.work_items_count_.writes", [MC_TQ], r"(?:\+\+|--)\s*(?:\w+\s*->\s*)?work_items_count_|\bwork_items_count_\.data_\s*=(?!=)", 3,
                         "schedule_work (++), get_next_thread (--), constructor (= 0: not under contract)"),
        _mc_census.sites("mc.new_task_items_.ops", ["libs/pika/**/*.hpp", "libs/pika/**/*.cpp"], r"\bnew_task_items_\s*\.\s*\w+\(", 2,
                         "pop (add_new), push (create_thread)"),
        _mc_census.sites("mc.work_items_.ops", [MC_TQ, MC_QH], r"\bwork_items_\s*\.\s*\w+\(", 2, "pop (get_next_thread), push (schedule_work)"),
        _mc_census.sites("mc.schedule_work.sites", [MC_TQ, MC_QH], r"\bschedule_work\(", 8,
                         "definition + add_new + create_thread (mc.tq.*), 4 x queue_holder_thread::schedule_thread (mc.qh.schedule_thread), "
                         "abort_all_suspended_threads (not under contract; ends in `throw`)"),
        _mc_census.sites("mc.thread_map_.mutators", [MC_QH], r"\bthread_map_\.(?:insert|erase|clear|emplace)\(", 2, "add_to_thread_map, remove_from_thread_map"),
        _mc_census.sites("mc.terminated_items_.ops", [MC_QH], r"\bterminated_items_\.(?:push|pop)\(", 3, "destroy_thread (push), cleanup_terminated (2 x pop)"),
        _mc_census.sites("mc.thread_map_count_.writes", [MC_QH], r"(?:\+\+|--)\s*thread_map_count_|\bthread_map_count_\.data_\s*=(?!=)", 3,
                         "add_to_thread_map (++), remove_from_thread_map (--), constructor (= 0: not under contract)"),
        _mc_census.sites("mc.terminated_items_count_.writes", [MC_QH], r"(?:\+\+|--)\s*terminated_items_count_|\bterminated_items_count_\.data_\s*=(?!=)", 4,
                         "destroy_thread (++), cleanup_terminated (2 x --), constructor (= 0: not under contract)"),
        _mc_census.sites("mc.thread_map.calls", ["libs/pika/**/*.hpp", "libs/pika/**/*.cpp"], r"\b(?:add_to_thread_map|remove_from_thread_map)\(", 7,
                         "2 definitions; add_to_thread_map from thread_queue_mc::add_new / create_thread; remove_from_thread_map from "
                         "cleanup_terminated (2) and the inactive non-MMAP branch of destroy_thread (1)"),
    ]
except ImportError:
    MC_STATIC = []
