/* C01 -- C view of combined_tagged_state<thread_schedule_state, thread_restart_state> (= thread_state).
 * Included AFTER the two lifted enum definitions (which provide the typedefs thread_schedule_state / thread_restart_state,
 * their enumerator constants and the *_IS_ENUMERATOR predicates) and BEFORE the lifted constants state_shift,
 * state_ex_shift, state_mask, state_ex_mask, tag_mask (#defines, so the macros below may mention them). */
#ifndef C01_CTS_TYPES_H
#define C01_CTS_TYPES_H
typedef int64_t tagged_state_type;      /* using tagged_state_type = std::int64_t; */
typedef int8_t thread_state_type;       /* using thread_state_type = std::int8_t; */
typedef int8_t thread_state_ex_type;    /* using thread_state_ex_type = std::int8_t; */
typedef int64_t tag_type;               /* using tag_type = std::int64_t; */
typedef thread_schedule_state T1;       /* template arguments of the only instantiation (thread_enums.hpp) */
typedef thread_restart_state T2;
struct thread_state { tagged_state_type state_; };

/* the property statement: "(schedule state, restart state, 48-bit ABA tag) packed in one atomic" */
#define TAG_LIMIT (((int64_t) 1) << 48)

/* field view of a raw word.  Built from the LIFTED shift/mask constants, so a consistent re-layout of the word stays
 * green while an inconsistent one (overlapping masks, wrong shift) breaks extract o pack = id in U1. */
#define RAW_STATE(x) ((int8_t) (((x) >> state_shift) & state_mask))
#define RAW_EX(x) ((int8_t) (((x) >> state_ex_shift) & state_ex_mask))
#define RAW_TAG(x) ((int64_t) ((x) & tag_mask))
#endif
