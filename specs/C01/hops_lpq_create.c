/* C01 U5 -- local_priority_queue_scheduler::create_thread: exactly one thread_queue receives the request, unchanged. */
#include "../C01/hops_lpq.h"
static int g_data_id;
//@FUNC
void create_thread(struct lpqs *self, struct thread_init_data *data, thread_id_ref_type *id, struct error_code *ec)
__CPROVER_requires(WF(self) && L.calls == 0 && L.incr == 0 && L.sel == 0 && id == g_exp_id && ec == g_exp_ec && DATA_ID(data) == g_data_id && g_data_id != 0)
/* exactly one queue's create_thread is called, with the caller's request, id and error_code (what that call does with the
 * task: unit hops.tq.create_thread); the task is counted as activity once */
__CPROVER_ensures(L.calls == 1 && L.arg_data == g_data_id && L.arg_id_ok && L.arg_ec_ok && L.incr == 1)
__CPROVER_assigns(L, self->curr_queue_, data->schedulehint, data->priority)
//@LIFT body

void harness(void)
{
  static struct lpqs s; static thread_id_ref_type out; static struct error_code myec;
  hops_ghost_init(); lpq_ghost_init(&s);
  out = NULL; myec.value = 0;
  struct thread_init_data *data = nondet_bool() ? &G.victim_init : &G.other_init;
  g_data_id = DATA_ID(data);
  g_exp_id = nondet_bool() ? &out : NULL; g_exp_ec = nondet_bool() ? &throws : &myec;
  create_thread(&s, data, g_exp_id, g_exp_ec);
  if (L.recv_kind == K_HP) VX_REACH("high_priority_queue"); if (L.recv_kind == K_LP) VX_REACH("low_priority_queue"); if (L.recv_kind == K_NP) VX_REACH("normal_queue");
}
