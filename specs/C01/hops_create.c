/* C01 U5 -- thread_queue::create_thread(data, id, ec): a new task enters the queue along exactly ONE of
 *     run_now:   thread object created -> inserted into thread_map_ (thread_map_count_ +1) -> queued once iff the requested
 *                initial state is `pending` (otherwise handed to the caller through *id)
 *     staged:    new_tasks_count_ +1 -> description allocated, constructed from `data`, pushed once onto new_tasks_
 *  or is refused with an error (map refused the id: out_of_memory; staged with a non-pending initial state: bad_parameter).
 * I + T contract.  Lifted: the whole body.  Stubs (hops.h): std::unique_lock (monitor), create_thread_object, thread_map_,
 * the counters, schedule_thread (its contract), task_description allocation / placement new, new_tasks_.push,
 * PIKA_THROWS_IF / PIKA_THROW_EXCEPTION, get_self_stacksize_enum. */
#include "../C01/hops.h"

static int8_t g_init0, g_stack0; static bool g_run0;      /* the request as passed (ghost copies pinned by the precondition) */
static int g_data_id;
/* threads::detail::get_self_stacksize_enum(): never `current` (its own PIKA_ASSERT; trusted) */
static int8_t get_self_stacksize_enum(void) { int8_t s = nondet_i8(); VX_ASSUME(s != thread_stacksize_current); return s; }
#define PEND0 (g_init0 == thread_schedule_state_pending)
#define NOTHING_MADE (g_cto == 0 && g_ins == 0 && g_ins_fail == 0 && g_map_incs == 0 && g_sched == 0)
#define NOTHING_STAGED(q) (NT_UNTOUCHED(q) && g_task_allocs == 0 && g_task_ctors == 0)

//@FUNC
void create_thread(struct tq *self, struct thread_init_data *data, thread_id_ref_type *id, struct error_code *ec)
__CPROVER_requires(self == g_self && DATA_ID(data) == g_data_id && g_data_id >= 3 && data->initial_state == g_init0 && data->run_now == g_run0 && data->stacksize == g_stack0)
/* the caller's duty stated by PIKA_ASSERT(id != nullptr): a thread that is not scheduled must be returned */
__CPROVER_requires(!g_run0 || PEND0 || id != NULL)
__CPROVER_requires(!self->mtx_.held && G.err == 0 && vx_exc == 0 && NOTHING_MADE && NOTHING_STAGED(self) && NTRANGE(self, 8) && NTINV(self) && MAPRANGE(self, 8) && MAPINV(self))
__CPROVER_requires(self->work_items_count_ >= 0 && self->work_items_count_ <= VX_BIG && g_v_cto == 0 && g_v_ins == 0 && g_v_sched == 0 && VP_OK && gv_mine == (g_data_id == 3) && !gv_map && !GV_STAGED && !gv_heap)
__CPROVER_requires(G.last_pop == 0 && G.freed_last == 0 && g_erases == 0 && g_map_decs == 0 && g_map_pend == 0)
/* (1) run_now, no error: ONE thread object made from `data` with the requested initial state, inserted once into the map and
 *     counted once (after the insertion), queued exactly once iff the requested state is pending -- the object just created,
 *     nothing staged */
__CPROVER_ensures((g_run0 && G.err == 0) ==> (g_cto == 1 && G.cto_data == g_data_id && G.cto_requested == g_init0 && g_ins == 1 && g_ins_fail == 0 && g_map_incs == 1 && \
                   g_sched == (PEND0 ? 1 : 0) && (PEND0 ==> G.sched_id == G.ins_id) && NOTHING_STAGED(self)))
/* (2) ... and the caller gets the id: always when the thread was not queued, and when it asked for it otherwise */
__CPROVER_ensures((g_run0 && G.err == 0 && id != NULL) ==> (*id != NULL && TD_ID(*id) == G.ins_id))
/* (3) staged, no error: counter +1 BEFORE the push (asserted there), ONE description allocated, constructed from `data`, pushed
 *     once; no thread object, no map entry, nothing queued; the caller's id is empty */
__CPROVER_ensures((!g_run0 && G.err == 0) ==> (PEND0 && self->gs_incs == 1 && self->gs_pushes == 1 && self->gs_resv == 0 && self->gs_decs == 0 && self->gs_pops == 0 && \
                   g_task_allocs == 1 && g_task_ctors == 1 && G.push_id == 3 && G.ctor_from == g_data_id && NOTHING_MADE && (id == NULL || *id == NULL)))
/* (4) never dropped silently: an error is reported exactly when the request cannot be honoured -- the map refused the new id
 *     (nothing queued, nothing staged) or a staged task was asked to start in a non-pending state (nothing happened at all) */
__CPROVER_ensures(G.err != 0 ==> ((g_run0 ? (G.err == error_out_of_memory && g_cto == 1 && g_ins == 0 && g_ins_fail == 1 && g_map_incs == 0) : (G.err == error_bad_parameter && !PEND0 && NOTHING_MADE)) && \
                   g_sched == 0 && NOTHING_STAGED(self) && (id == NULL || *id == NULL)))
__CPROVER_ensures((!g_run0 && !PEND0) ==> G.err == error_bad_parameter)
/* (5) error reporting channel: an exception only if the caller passed pika::throws (or for the bad_parameter case, which
 *     always throws); otherwise *ec says success / the error */
__CPROVER_ensures((ec != &throws && vx_exc == 0) ==> ec->value == G.err)
__CPROVER_ensures((vx_exc != 0) ==> (vx_exc == G.err && (ec == &throws || G.err == error_bad_parameter)))
/* (6) the lock is released on every path, with thread_map_count_ == number of entries (asserted at the release); ledgers intact */
__CPROVER_ensures(!self->mtx_.held && g_map_pend == 0 && NTINV(self) && self->gs_owed == 0 && self->gs_resv == 0)
/* (7) the victim: exactly one object / one map entry / one queue entry, or staged once, and always in exactly one place */
__CPROVER_ensures(g_data_id == 3 ==> ((g_run0 && G.err == 0) ? (g_v_cto == 1 && g_v_ins == 1 && g_v_sched == (PEND0 ? 1 : 0)) : (g_v_ins == 0 && g_v_sched == 0)))
__CPROVER_ensures(VP_OK && (g_data_id == 3 || (g_v_cto == 0 && g_v_ins == 0 && g_v_sched == 0)))
/* (8) `current` stack size is resolved before the task is created or staged */
__CPROVER_ensures(data->stacksize != thread_stacksize_current)
__CPROVER_assigns(g_q0, G, *data, *ec; id != NULL: *id)
//@LIFT create_thread_body

void harness(void)
{
  hops_ghost_init();
  hops_queue_init(&g_q0); hops_queue_init(&g_q1);
  CFG.self = 1;
  g_map = nondet_long(); g_q0.thread_map_count_ = g_map;
  struct thread_init_data *data = nondet_bool() ? &G.victim_init : &G.other_init;
  g_data_id = DATA_ID(data); gv_mine = (data == &G.victim_init);
  gv_queued = nondet_bool(); gv_term = nondet_bool();
  g_init0 = data->initial_state; g_run0 = data->run_now; g_stack0 = data->stacksize;
  thread_id_ref_type out = &g_other_td;           /* whatever the caller's id held before */
  thread_id_ref_type *id = nondet_bool() ? &out : NULL;
  struct error_code myec; myec.value = nondet_int();
  struct error_code *ec = nondet_bool() ? &throws : &myec;
  create_thread(&g_q0, data, id, ec);
  if (g_run0 && G.err == 0 && PEND0) VX_REACH("run_now_queued");
  if (g_run0 && G.err == 0 && PEND0 && id == NULL) VX_REACH("run_now_queued_without_id");
  if (g_run0 && G.err == 0 && !PEND0) VX_REACH("run_now_returned_not_queued");
  if (g_run0 && G.err == 0 && g_init0 == thread_schedule_state_pending_boost) VX_REACH("run_now_pending_boost_is_not_queued");
  if (g_run0 && G.err == 0 && g_v_sched == 1) VX_REACH("victim_created_and_queued");
  if (!g_run0 && G.err == 0) VX_REACH("staged");
  if (!g_run0 && G.err == 0 && g_q0.gs_victim) VX_REACH("victim_staged");
  if (g_run0 && G.err != 0 && vx_exc == 0) VX_REACH("map_refused_error_code");
  if (g_run0 && vx_exc != 0) VX_REACH("map_refused_exception");
  if (!g_run0 && vx_exc != 0 && ec != &throws) VX_REACH("staged_non_pending_always_throws");
  if (g_stack0 == thread_stacksize_current) VX_REACH("current_stacksize_resolved");
}
