/* C01 U1 -- combined_tagged_state<thread_schedule_state, thread_restart_state>  (F contracts, loop free, full domain)
 *
 * "for all enumerators of thread_schedule_state and thread_restart_state and all tags in [0, 2^48):
 *  extract o pack = identity on each field, and the other fields are untouched"
 *
 * Everything that decides the result is lifted: the two enum definitions (-> enumerator constants and the
 * IS_ENUMERATOR predicates that span the domain), the shift/mask constants, pack_state, the three extractors, the
 * accessors and the three setters.  Hand written: C typedefs, signatures, contracts, harness.
 */
#include "vx.h"
//@LIFT enum_schedule
//@LIFT enum_restart
#include "cts_types.h"
//@LIFT consts

static tag_type extract_tag(tagged_state_type i)
//@LIFT extract_tag
static thread_state_type extract_state(tagged_state_type i)
//@LIFT extract_state
static thread_state_ex_type extract_state_ex(tagged_state_type i)
//@LIFT extract_state_ex

#if defined(U_PACK_STATE)
//@FUNC
tagged_state_type pack_state(T1 state_, T2 state_ex_, tag_type tag)
__CPROVER_requires(thread_schedule_state_IS_ENUMERATOR(state_) && thread_restart_state_IS_ENUMERATOR(state_ex_))
__CPROVER_requires(0 <= tag && tag < TAG_LIMIT)
/* extract o pack = identity on each field (lifted extractors on the lifted packer's result) */
__CPROVER_ensures(extract_state(__CPROVER_return_value) == state_)
__CPROVER_ensures(extract_state_ex(__CPROVER_return_value) == state_ex_)
__CPROVER_ensures(extract_tag(__CPROVER_return_value) == tag)
/* the lifted extractors agree with the field view W_* used by every other C01 contract (word.h) */
__CPROVER_ensures(RAW_STATE(__CPROVER_return_value) == state_ && RAW_EX(__CPROVER_return_value) == state_ex_ && RAW_TAG(__CPROVER_return_value) == tag)
__CPROVER_assigns()
//@LIFT pack_state
#else
static tagged_state_type pack_state(T1 state_, T2 state_ex_, tag_type tag)
//@LIFT pack_state
#endif

/* accessors (lifted) */
static T1 cts_state(const struct thread_state *self)
//@LIFT state
static T2 cts_state_ex(const struct thread_state *self)
//@LIFT state_ex
static tag_type cts_tag(const struct thread_state *self)
//@LIFT tag
/* combined_tagged_state(T1 state, T2 state_ex, tag_type t = 0) (lifted, mem-initialiser lowered) */
static void cts_ctor(struct thread_state *self, T1 state, T2 state_ex, tag_type t)
//@LIFT ctor

/* ghost copies of the fields before the call (no __CPROVER_old on function calls) */
static T1 g_s0;
static T2 g_e0;
static tag_type g_t0;
#define FIELDS_ARE(self, s, e, t) (cts_state(self) == (s) && cts_state_ex(self) == (e) && cts_tag(self) == (t))
#define DOMAIN(s, e, t) (thread_schedule_state_IS_ENUMERATOR(s) && thread_restart_state_IS_ENUMERATOR(e) && 0 <= (t) && (t) < TAG_LIMIT)

#ifdef U_SET_STATE
//@FUNC
void cts_set_state(struct thread_state *self, T1 state)
__CPROVER_requires(FIELDS_ARE(self, g_s0, g_e0, g_t0) && DOMAIN(g_s0, g_e0, g_t0) && thread_schedule_state_IS_ENUMERATOR(state))
__CPROVER_ensures(cts_state(self) == state)
__CPROVER_ensures(cts_state_ex(self) == g_e0 && cts_tag(self) == g_t0)
__CPROVER_assigns(self->state_)
//@LIFT set_state
#endif
#ifdef U_SET_STATE_EX
//@FUNC
void cts_set_state_ex(struct thread_state *self, T2 state_ex)
__CPROVER_requires(FIELDS_ARE(self, g_s0, g_e0, g_t0) && DOMAIN(g_s0, g_e0, g_t0) && thread_restart_state_IS_ENUMERATOR(state_ex))
__CPROVER_ensures(cts_state_ex(self) == state_ex)
__CPROVER_ensures(cts_state(self) == g_s0 && cts_tag(self) == g_t0)
__CPROVER_assigns(self->state_)
//@LIFT set_state_ex
#endif
#ifdef U_SET_TAG
//@FUNC
void cts_set_tag(struct thread_state *self, tag_type t)
__CPROVER_requires(FIELDS_ARE(self, g_s0, g_e0, g_t0) && DOMAIN(g_s0, g_e0, g_t0) && 0 <= t && t < TAG_LIMIT)
__CPROVER_ensures(cts_tag(self) == t)
__CPROVER_ensures(cts_state(self) == g_s0 && cts_state_ex(self) == g_e0)
__CPROVER_assigns(self->state_)
//@LIFT set_tag
#endif

void harness(void)
{
  T1 s = nondet_i8(); T2 e = nondet_i8(); tag_type t = nondet_i64();
  struct thread_state w;
  g_s0 = nondet_i8(); g_e0 = nondet_i8(); g_t0 = nondet_i64();
#if defined(U_SET_STATE) || defined(U_SET_STATE_EX) || defined(U_SET_TAG)
  /* the domain of the property: every word that is the packing of two enumerators and a 48-bit tag */
  if (!DOMAIN(g_s0, g_e0, g_t0)) return;
  w.state_ = pack_state(g_s0, g_e0, g_t0);
#else
  w.state_ = nondet_i64();
#endif
#ifdef U_PACK_STATE
  tagged_state_type r = pack_state(s, e, t);
  VX_REACH("packed");
  if (t == TAG_LIMIT - 1 && s == thread_schedule_state_pending_boost && e == thread_restart_state_abort) VX_REACH("largest_fields");
  if (t == 0 && s == 0 && e == 0 && r == 0) VX_REACH("all_zero");
#endif
#ifdef U_SET_STATE
  cts_set_state(&w, s);
  if (s != g_s0) VX_REACH("state_changed"); else VX_REACH("state_same");
  if (g_t0 == TAG_LIMIT - 1) VX_REACH("max_tag_kept");
#endif
#ifdef U_SET_STATE_EX
  cts_set_state_ex(&w, e);
  if (e != g_e0) VX_REACH("ex_changed"); else VX_REACH("ex_same");
#endif
#ifdef U_SET_TAG
  cts_set_tag(&w, t);
  if (t != g_t0) VX_REACH("tag_changed"); else VX_REACH("tag_same");
  if (t == TAG_LIMIT - 1) VX_REACH("max_tag_set");
#endif
#ifdef U_ACCESSORS
  /* F: accessors vs. the field view; the constructor is pack_state; the layout partitions the 64 bits */
  VX_ASSERT(cts_state(&w) == RAW_STATE(w.state_) && cts_state_ex(&w) == RAW_EX(w.state_) && cts_tag(&w) == RAW_TAG(w.state_),
            "accessors state()/state_ex()/tag() read the fields of the word");
  VX_ASSERT(0 <= cts_tag(&w) && cts_tag(&w) < TAG_LIMIT, "a tag read from any word is a 48-bit value");
  if (DOMAIN(s, e, t))
  {
    struct thread_state c;
    cts_ctor(&c, s, e, t);
    VX_ASSERT(cts_state(&c) == s && cts_state_ex(&c) == e && cts_tag(&c) == t, "thread_state(s, e, t) has the fields s, e, t");
    /* two words with the same three fields are the same word: the fields cover all 64 bits */
    if (cts_state(&w) == s && cts_state_ex(&w) == e && cts_tag(&w) == t)
    {
      VX_ASSERT(w.state_ == c.state_, "the three fields determine the word (no bits outside the fields)");
      VX_REACH("same_fields_same_word");
    }
    VX_REACH("constructed");
  }
#endif
#ifdef U_TAG_WRAP
  /* documentation of A-TAG (not a proof of anything about pika's callers): every caller computes `tag() + 1`; at
   * tag() == 2^48 - 1 the sum is 2^48, which pack_state ORs into bit 0 of the neighbouring state_ex byte, and the tag
   * field itself reads 0 again.  pack_state's third PIKA_ASSERT tests `state` instead of `tag`, so it does not object. */
  if (thread_schedule_state_IS_ENUMERATOR(s) && thread_restart_state_IS_ENUMERATOR(e))
  {
    struct thread_state c;
    cts_ctor(&c, s, e, (TAG_LIMIT - 1) + 1);
    VX_ASSERT(cts_tag(&c) == 0, "tag 2^48 reads back as 0");
    VX_ASSERT(cts_state(&c) == s, "the schedule state survives the overflow (the spill stops in the state_ex byte)");
    if (cts_state_ex(&c) != e) VX_REACH("tag_overflow_corrupts_state_ex");
    if (cts_state_ex(&c) == e) VX_REACH("tag_overflow_hidden_when_ex_is_odd");
    if (!thread_restart_state_IS_ENUMERATOR(cts_state_ex(&c))) VX_REACH("tag_overflow_makes_ex_a_non_enumerator");
  }
#endif
}
