/* C01 U5 (mc) -- thread_queue_mc::add_new(add_count, addfrom, stealing): staged -> (thread object) -> map -> pending, over TWO queue
 * objects: `self` = the RECEIVING queue (its holder creates and registers the thread, its work_items_ gets it), `addfrom` = the
 * queue whose new_task_items_ is drained (the same object, or another worker's when staged tasks are stolen).
 * I + T contract, loop contract on the conversion loop.
 * Lifted: the whole body of add_new and of schedule_work (called by it).  Stubs (mc_hops.h): new_task_items_.pop,
 * holder_->create_thread_object / add_to_thread_map (contract stubs), the atomic counters, work_items_.push. */
#include "../C01/mc_hops.h"

static int64_t g_add0;                           /* add_count as passed (ghost copy pinned by the precondition) */
static int g_from;                                /* M_ID of addfrom */
static bool g_steal0;
#define SAME (self == addfrom)
/* per-call operation counts agree: every popped description got ONE thread object, ONE map registration, and was queued ONCE in
 * the receiver with the receiver's counter moved once */
#define CONVERTED(self, n) (G.cto == (n) && G.adds == (n) && G.wpush == (n) && (self)->gw_pushes == (n) && (self)->gw_incs == (n))
#define ADDNEW_INV(self, addfrom) \
  (vx_exc == 0 && G.pops >= 0 && G.pops <= MC_BIG && add_count == g_add0 - G.pops && (g_add0 < 0 || G.pops <= g_add0) && \
   added == (size_t) G.pops && CONVERTED(self, G.pops) && G.add_fail == 0 && \
   (addfrom)->gs_pops == G.pops && (addfrom)->gs_decs == G.pops && (addfrom)->gs_incs == 0 && (addfrom)->gs_pushes == 0 && \
   (addfrom)->gs_owed == 0 && (addfrom)->gs_resv == 0 && NTRANGE(addfrom, 4) && NTINV(addfrom) && \
   (SAME || (NT_UNTOUCHED(self) && NTINV(self))) && (SAME || (WI_UNTOUCHED(addfrom) && WIINV(addfrom))) && \
   (self)->gw_pops == 0 && (self)->gw_decs == 0 && (self)->gw_resv == 0 && (self)->gw_owed == 0 && WIRANGE(self, 4) && WIINV(self) && \
   (self)->holder_ == &g_h0 && (g_m1.holder_ == &g_h0 || g_m1.holder_ == &g_h1) && g_h0.owner_id_ == CFG.this_thread && !g_h0.thread_map_mtx_.held && g_h0.thread_map_count_ >= 0 && g_h0.thread_map_count_ <= 2 * MC_BIG && \
   VP_OK && !gv_mine && G.v_pops <= 1 && G.v_cto == G.v_pops && G.v_adds == G.v_pops && G.v_wpush == G.v_pops && (G.v_pops == 0 || !(addfrom)->gs_victim))

static void schedule_work(struct mcq *self, thread_id_ref_type thrd, bool other_end)
//@LIFT schedule_work_body

//@FUNC
size_t add_new(struct mcq *self, int64_t add_count, struct mcq *addfrom, bool stealing)
__CPROVER_requires(self == g_self && self == &g_m0 && M_ID(addfrom) == g_from && g_from != 0 && add_count == g_add0 && add_count >= -1 && stealing == g_steal0)
/* the caller's duty stated by PIKA_ASSERT(holder_->owner_id_ == std::this_thread::get_id()): only the owner converts */
__CPROVER_requires(self->holder_ == &g_h0 && g_self_h == &g_h0 && g_h0.owner_id_ == CFG.this_thread && !g_h0.thread_map_mtx_.held && g_h0.thread_map_count_ >= 0 && g_h0.thread_map_count_ <= MC_BIG)
__CPROVER_requires(vx_exc == 0 && G.err == 0 && G.pops == 0 && CONVERTED(self, 0) && G.add_fail == 0 && G.last_pop == 0)
__CPROVER_requires(NT_UNTOUCHED(addfrom) && NTRANGE(addfrom, 8) && NTINV(addfrom) && NT_UNTOUCHED(self) && NTRANGE(self, 8) && NTINV(self))
__CPROVER_requires(WI_UNTOUCHED(addfrom) && WIRANGE(addfrom, 8) && WIINV(addfrom) && WI_UNTOUCHED(self) && WIRANGE(self, 8) && WIINV(self))
__CPROVER_requires(VP_OK && !gv_mine && G.v_pops == 0 && G.v_cto == 0 && G.v_adds == 0 && G.v_wpush == 0)
/* (1) un-staging is accounted on the queue the task was popped from: one decrement of addfrom's new_tasks_count_ per pop,
 *     after the pop (asserted at the decrement), none left owing at exit ... */
__CPROVER_ensures(addfrom->gs_pops == G.pops && addfrom->gs_resv == 0 && addfrom->gs_incs == 0 && addfrom->gs_pushes == 0 && NTINV(addfrom))
__CPROVER_ensures(vx_exc == 0 ==> (addfrom->gs_decs == G.pops && addfrom->gs_owed == 0))
/* (1x) ... on the exception path too: a popped description that is never un-counted leaves new_tasks_count_ above the queue length
 *     for ever (the counter == queue length at quiescence invariant is lost) */
__CPROVER_ensures(vx_exc != 0 ==> (addfrom->gs_decs == G.pops && addfrom->gs_owed == 0))
/* (2) the receiver's staged queue and the source's pending queue are not touched (unless they are the same object) */
__CPROVER_ensures(self == addfrom || (NT_UNTOUCHED(self) && NTINV(self) && WI_UNTOUCHED(addfrom) && WIINV(addfrom)))
/* (3) normal return: every popped description was converted -- one thread object made by the receiver's holder, registered once
 *     in that holder's map, queued once in the RECEIVER's work_items_ with work_items_count_ +1 each (before the push); nothing
 *     popped that was not converted; the result is the number converted */
__CPROVER_ensures(vx_exc == 0 ==> (__CPROVER_return_value == (size_t) G.pops && CONVERTED(self, G.pops) && G.add_fail == 0))
__CPROVER_ensures(self->gw_pops == 0 && self->gw_decs == 0 && self->gw_resv == 0 && self->gw_owed == 0 && WIINV(self))
/* (4) a thread the map refused is reported by an exception (never dropped silently); everything before it was converted */
__CPROVER_ensures(vx_exc != 0 ==> (vx_exc == error_out_of_memory && G.add_fail == 1 && G.cto == G.pops && G.adds == G.pops - 1 && G.wpush == G.pops - 1 && self->gw_pushes == G.pops - 1 && self->gw_incs == G.pops - 1))
/* (5) the victim: popped at most once; if popped it got one object, one map entry and one queue entry (staged -> pending+map) */
__CPROVER_ensures(G.v_pops <= 1 && G.v_cto == G.v_pops && G.v_wpush <= G.v_pops && (vx_exc == 0 ==> (G.v_adds == G.v_pops && G.v_wpush == G.v_pops && !gv_mine)) && VP_OK)
/* (6) budget: at most add_count descriptions are taken out of the staged queue when a limit is given; none for 0 */
__CPROVER_ensures(g_add0 >= 0 ==> G.pops <= g_add0)
__CPROVER_assigns(g_m0, g_m1, g_h0.thread_map_count_, G)
//@LIFT add_new_body

void harness(void)
{
  mc_ghost_init();
  mc_holder_init(&g_h0); mc_holder_init(&g_h1);
  mc_queue_init(&g_m0, &g_h0); mc_queue_init(&g_m1, nondet_bool() ? &g_h0 : &g_h1);
  struct mcq *self = &g_m0;
  struct mcq *from = nondet_bool() ? &g_m0 : &g_m1;
  CFG.self = 1; CFG.self_h = 1; g_from = M_ID(from);
  g_h0.owner_id_ = CFG.this_thread;
  g_h0.thread_map_count_ = nondet_i32();
#ifdef MC_EXCL_MAP_REFUSAL
  CFG.map_may_refuse = false;                    /* known-finding exclusion: the defensive path "the set refuses a fresh id" */
#endif
  /* the victim: staged in the source queue, or anywhere else it may be */
  from->gs_victim = nondet_bool();
  gv_map = nondet_bool(); gv_term = nondet_bool(); gv_heap = nondet_bool();
  if (nondet_bool()) g_m0.gw_victim = nondet_bool(); else g_m1.gw_victim = nondet_bool();
  g_add0 = nondet_i64(); g_steal0 = nondet_bool();
  bool was_staged = from->gs_victim;
  size_t added = add_new(self, g_add0, from, g_steal0);
  if (vx_exc == 0 && added == 0 && g_add0 == 0) VX_REACH("add_count_zero");
  if (vx_exc == 0 && added == 0 && g_add0 != 0 && from->new_tasks_count_ == 0) VX_REACH("nothing_staged");
  if (vx_exc == 0 && added == 0 && g_add0 != 0 && from->gs_entries >= 1) VX_REACH("pop_failed");
  if (vx_exc == 0 && added == 2) VX_REACH("two_converted");
  if (vx_exc == 0 && g_add0 > 0 && added == (size_t) g_add0) VX_REACH("limit_reached");
  if (vx_exc == 0 && g_add0 > 0 && added == (size_t) g_add0 && from->gs_entries >= 1) VX_REACH("limit_reached_with_more_staged");
  if (G.v_wpush == 1 && from == &g_m1) VX_REACH("victim_stolen_from_other_queue_and_queued_here");
  if (G.v_wpush == 1 && from == &g_m0) VX_REACH("victim_converted_in_own_queue");
  if (was_staged && G.v_pops == 0 && !from->gs_victim) VX_REACH("victim_taken_by_another_converter");
  if (was_staged && G.v_pops == 0 && from->gs_victim) VX_REACH("victim_still_staged");
#ifndef MC_EXCL_MAP_REFUSAL
  if (vx_exc != 0) VX_REACH("map_refused_exception");
#endif
}
