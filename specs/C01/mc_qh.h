/* C01 U5 (mc) -- queue_holder_thread: the holder of one worker's bound / high / normal / low thread_queue_mc objects, of the
 * thread map, the terminated list and the free lists.
 *  (a) routing wrappers (create_thread, schedule_thread, get_next_thread[_HP], add_new[_HP]): T contracts over the thread_queue_mc
 *      contracts (units mc.tq.*): every thread_queue_mc member they call is a T stub that records WHICH queue object got the call
 *      with WHICH arguments and moves the victim exactly as the callee's contract says;
 *  (b) the containers of the holder itself (add_to_thread_map, remove_from_thread_map, destroy_thread, cleanup_terminated):
 *      I + T / monitor contracts with the map and terminated_items_ as ghost counts + one victim bit (as in hops.h). */
#ifndef MC_QH_H
#define MC_QH_H
#define GV_NSTAGED (g_m0.gs_victim + g_m1.gs_victim + g_bp.gs_victim + g_hp.gs_victim + g_np.gs_victim + g_lp.gs_victim + g_bp2.gs_victim + g_hp2.gs_victim + g_np2.gs_victim + g_lp2.gs_victim)
#define GV_NQUEUED (g_m0.gw_victim + g_m1.gw_victim + g_bp.gw_victim + g_hp.gw_victim + g_np.gw_victim + g_lp.gw_victim + g_bp2.gw_victim + g_hp2.gw_victim + g_np2.gw_victim + g_lp2.gw_victim)
#define MC_QH_QUEUES
#include "../C01/mc_hops.h"

enum { K_NONE = 0, K_BP = 1, K_HP = 2, K_NP = 3, K_LP = 4 };
/* the queue objects: four of the holder under verification (g_h0), four of another holder (g_h1: add_new's source) */
#define KIND(q) (((q) == &g_bp || (q) == &g_bp2) ? K_BP : ((q) == &g_hp || (q) == &g_hp2) ? K_HP : ((q) == &g_np || (q) == &g_np2) ? K_NP : ((q) == &g_lp || (q) == &g_lp2) ? K_LP : K_NONE)
#define MINE(q) ((q) == &g_bp || (q) == &g_hp || (q) == &g_np || (q) == &g_lp)
#define OF_H1(q) ((q) == &g_bp2 || (q) == &g_hp2 || (q) == &g_np2 || (q) == &g_lp2)
/* class invariant of a holder built by shared_priority_queue_scheduler::on_start_thread: the normal queue always exists, the other
 * three may be absent; the four are different objects */
#define WF0(h) ((h)->np_queue_ == &g_np && ((h)->bp_queue_ == NULL || (h)->bp_queue_ == &g_bp) && ((h)->hp_queue_ == NULL || (h)->hp_queue_ == &g_hp) && \
                ((h)->lp_queue_ == NULL || (h)->lp_queue_ == &g_lp))
#define WF1(h) ((h)->np_queue_ == &g_np2 && ((h)->bp_queue_ == NULL || (h)->bp_queue_ == &g_bp2) && ((h)->hp_queue_ == NULL || (h)->hp_queue_ == &g_hp2) && \
                ((h)->lp_queue_ == NULL || (h)->lp_queue_ == &g_lp2))
#define IS_HIGH(p) ((p) == thread_priority_high || (p) == thread_priority_high_recursive || (p) == thread_priority_boost)
/* the queue of the holder that serves a priority, K_NONE if the holder has no such queue */
#define CLASS_KIND(h, p) ((p) == thread_priority_normal ? K_NP : ((p) == thread_priority_bound && (h)->bp_queue_ != NULL) ? K_BP : \
                          (IS_HIGH(p) && (h)->hp_queue_ != NULL) ? K_HP : ((p) == thread_priority_low && (h)->lp_queue_ != NULL) ? K_LP : K_NONE)

struct mcqh_ghost {
  /* create_thread / schedule_work calls on the queues */
  long calls; int recv_kind; bool recv_mine;
  bool arg_data_ok, arg_id_ok, arg_ec_ok, arg_run_now, arg_other_end; int arg_thrd; int8_t arg_priority;
  long v_pushes;
  bool terminated;
  /* get_next_thread polls */
  long polls_bp, polls_hp, polls_np, polls_lp, pops, v_pops; int pop_kind, pop_id; bool flags_ok, check_new_ok, foreign_poll;
  /* add_new calls */
  long an_bp, an_hp, an_np, an_lp, an_success; size_t an_last; bool an_args_ok, an_after_success, an_foreign_recv; int an_kind;
};
static struct mcqh_ghost Q;
/* harness configuration: what the caller passed */
static struct thread_init_data *g_exp_data; static thread_id_ref_type *g_exp_id; static struct error_code *g_exp_ec;
static bool g_exp_stealing, g_exp_check_new; static int64_t g_exp_add_count; static struct qh *g_exp_from;

static void vx_terminate(void) { Q.terminated = true; }

/* ---- thread_queue_mc::create_thread: T stub (contract: unit mc.tq.create_thread) ---- */
static void recv_call(struct mcq *q)
{
  VX_ASSERT(q != NULL, "call through a queue pointer the holder does not have");
  VX_ASSERT(Q.calls == 0, "exactly one queue receives the task");
  VX_ASSERT(!Q.terminated, "nothing is queued after std::terminate");
  BUMP(Q.calls); Q.recv_kind = KIND(q); Q.recv_mine = MINE(q);
}
static void q_create_thread(struct mcq *q, struct thread_init_data *data, thread_id_ref_type *id, struct error_code *ec)
{
  recv_call(q);
  Q.arg_data_ok = (data == g_exp_data); Q.arg_id_ok = (id == g_exp_id); Q.arg_ec_ok = (ec == g_exp_ec);
  Q.arg_run_now = data->run_now; Q.arg_priority = data->priority;
}
/* ---- thread_queue_mc::schedule_work: T stub (contract: unit mc.tq.schedule_work) ---- */
static void q_schedule_work(struct mcq *q, thread_id_ref_type thrd, bool other_end)
{
  recv_call(q);
  VX_ASSERT(thrd != NULL, "schedule_work precondition: non-empty id");
  Q.arg_thrd = TD_ID(thrd); Q.arg_other_end = other_end;
  if (thrd == &G.victim_td)
  {
    HOP_REQUIRE(gv_mine && gv_map && !GV_QUEUED, "schedule_work precondition: the caller holds the thread, it is in the map of its holder and it is not queued");
    q->gw_victim = true; gv_mine = false; BUMP(Q.v_pushes);
  }
}
/* ---- thread_queue_mc::get_next_thread: T stub (contract: unit mc.tq.get_next_thread): hands out a thread IFF it removed it from
 * ITS work_items_ ---- */
static bool q_get_next_thread(struct mcq *q, thread_id_ref_type *thrd, bool other_end, bool check_new)
{
  VX_ASSERT(q != NULL, "call through a queue pointer the holder does not have");
  VX_ASSERT(Q.pops == 0, "after a success nothing else is polled");
  VX_ASSERT(*thrd == NULL, "get_next_thread precondition: every poll is made with an empty id (nothing held can be overwritten)");
  int k = KIND(q);
  if (k == K_BP) BUMP(Q.polls_bp); else if (k == K_HP) BUMP(Q.polls_hp); else if (k == K_NP) BUMP(Q.polls_np); else BUMP(Q.polls_lp);
  if (other_end != g_exp_stealing) Q.flags_ok = false;
  if (check_new != g_exp_check_new) Q.check_new_ok = false;
  if (!MINE(q)) Q.foreign_poll = true;
  if (nondet_bool())
  {
    bool take_victim = q->gw_victim && nondet_bool();
    BUMP(Q.pops); Q.pop_kind = k;
    if (take_victim) { q->gw_victim = false; gv_mine = true; BUMP(Q.v_pops); *thrd = &G.victim_td; } else *thrd = &G.other_td;
    Q.pop_id = TD_ID(*thrd);
    VP_CHECK("thread_queue_mc::get_next_thread");
    return true;
  }
  return false;
}
/* ---- thread_queue_mc::add_new: T stub (contract: unit mc.tq.add_new): converts k <= add_count staged tasks of `from` into q ---- */
static size_t q_add_new(struct mcq *q, int64_t add_count, struct mcq *from, bool stealing)
{
  VX_ASSERT(q != NULL && from != NULL, "add_new through a queue pointer a holder does not have");
  VX_ASSERT(add_count >= -1, "add_new precondition: add_count is a limit");
  if (Q.an_success >= 1) Q.an_after_success = true;
  int k = KIND(q);
  if (k == K_BP) BUMP(Q.an_bp); else if (k == K_HP) BUMP(Q.an_hp); else if (k == K_NP) BUMP(Q.an_np); else BUMP(Q.an_lp);
  if (!MINE(q)) Q.an_foreign_recv = true;
  /* same priority class on both sides, the source holder's queue, the caller's budget and flag */
  if (KIND(from) != k || add_count != g_exp_add_count || stealing != g_exp_stealing) Q.an_args_ok = false;
  if (!(g_exp_from == &g_h0 ? MINE(from) : OF_H1(from))) Q.an_args_ok = false;
  size_t r = nondet_size();
  VX_ASSUME(r <= (size_t) MC_BIG && (add_count < 0 || r <= (size_t) add_count));       /* mc.tq.add_new (3), (6) */
  if (r > 0)
  {
    BUMP(Q.an_success); Q.an_last = r; Q.an_kind = k;
    if (from->gs_victim && nondet_bool()) { from->gs_victim = false; gv_map = true; q->gw_victim = true; G.env_moved = true; }     /* (5) */
  }
  return r;
}

/* ---- the holder's own containers ---- */
struct map_ins { bool second; };
/* thread_map_.insert(id): fails iff present (other ids may be refused nondeterministically: the defensive path stays reachable) */
static struct map_ins map_insert(struct qh *h, thread_id_type id)
{
  struct map_ins r;
  VX_ASSERT(h == g_self_h && LOCKED(h), "thread_map_ is accessed only under thread_map_mtx_");
  VX_ASSERT(id != NULL, "a null id is never put into the map");
  bool present = (id == &G.victim_td) ? gv_map : (CFG.map_may_refuse && nondet_bool());
  G.ins_id = TD_ID(id);
  if (present) { r.second = false; G.ins_fail++; return r; }
  VX_ASSUME(G.map < MC_BIG - 8);                 /* ghost bound on the number of live threads of one holder (listed) */
  if (id == &G.victim_td) { HOP_REQUIRE(gv_mine, "the thread inserted into the map is in the caller's hands (just created)"); gv_map = true; BUMP(G.v_ins); }
  G.map++; G.map_pend++; G.ins++;
  VP_CHECK("thread_map_.insert");
  r.second = true;
  return r;
}
static bool map_contains(struct qh *h, thread_id_type id)
{
  VX_ASSERT(h == g_self_h && LOCKED(h), "thread_map_ is accessed only under thread_map_mtx_");
  return id == &G.victim_td ? gv_map : true;     /* other ids: see map_erase */
}
static size_t map_size(struct qh *h) { VX_ASSERT(h == g_self_h && LOCKED(h), "thread_map_ is accessed only under thread_map_mtx_"); return (size_t) G.map; }
/* thread_map_.erase(id): number of elements removed.  Every OTHER id popped from terminated_items_ is in the map (the invariant
 * the code's own PIKA_ASSERT states; for the victim it is tracked). */
static size_t map_erase(struct qh *h, thread_id_type id)
{
  VX_ASSERT(h == g_self_h && LOCKED(h), "thread_map_ is accessed only under thread_map_mtx_");
  bool present = (id == &G.victim_td) ? gv_map : true;
  G.erase_id = TD_ID(id);
  if (!present) return 0;
  VX_ASSUME(G.map >= 1 && (id == &G.victim_td || !gv_map || G.map >= 2));   /* the set holds what is in it */
  if (id == &G.victim_td) { HOP_REQUIRE(gv_mine && !GV_QUEUED && !gv_term, "a thread leaves the map only after it left every queue"); gv_map = false; BUMP(G.v_erases); }
  VX_ASSUME(G.erases < MC_BIG);
  G.map--; G.map_owed++; G.erases++;
  return 1;
}
static int32_t atomic_inc_thread_map_count_(struct qh *h)
{
  VX_ASSERT(h == g_self_h && LOCKED(h), "thread_map_count_ changes only under thread_map_mtx_");
  VX_ASSERT(G.map_pend >= 1, "thread_map_count_ is incremented only AFTER a successful insertion by this call");
  h->thread_map_count_ = h->thread_map_count_ + 1; G.map_pend--; G.map_incs++;
  return h->thread_map_count_;
}
static int32_t atomic_dec_thread_map_count_(struct qh *h)
{
  VX_ASSERT(h == g_self_h && LOCKED(h), "thread_map_count_ changes only under thread_map_mtx_");
  VX_ASSERT(G.map_owed >= 1, "thread_map_count_ is decremented only AFTER a successful erase by this call");
  h->thread_map_count_ = h->thread_map_count_ - 1; G.map_owed--; G.map_decs++;
  return h->thread_map_count_;
}
static int32_t atomic_load_thread_map_count_(struct qh *h) { return h->thread_map_count_; }
static struct thread_data *get_thread_id_data(thread_id_type t) { return t; }
/* queue_holder_thread::deallocate(p) = p->destroy(): the object is gone */
static void qh_deallocate(struct thread_data *p)
{
  VX_ASSERT(p != NULL, "deallocate(nullptr)");
  if (p == &G.victim_td) { HOP_REQUIRE(gv_mine && !gv_map && !GV_QUEUED && !gv_term && !gv_heap, "a thread object is destroyed only after it left the map and every queue"); BUMP(G.v_deallocs); gv_mine = false; gv_heap = true; }
  VX_ASSUME(G.deallocs < MC_BIG);
  G.deallocs++; G.dealloc_id = TD_ID(p);
}

/* ---- terminated_items_ and terminated_items_count_ (lock-free push by any worker; popped only under thread_map_mtx_ by the owner) ---- */
static bool g_term_pops_by_others;               /* harness configuration: false while this call holds thread_map_mtx_ */
static void term_interfere(struct qh *h)
{
  if (nondet_bool())
  {
    long e = nondet_long();
    VX_ASSUME(g_term_pops_by_others || e >= G.term);                /* other destroy_thread calls push (and count) at any time */
    G.term = e; h->terminated_items_count_ = nondet_i32();
    if (!gv_mine && gv_map && !GV_QUEUED && !GV_STAGED && !gv_term && nondet_bool()) { gv_term = true; G.env_moved = true; }   /* ... possibly the victim, once its last reference died */
    VX_ASSUME(TERMRANGE(h, 8) && TERMINV(h));
  }
}
static void term_push(struct qh *h, struct thread_data *t)
{
  term_interfere(h);
  VX_ASSERT(h == g_self_h && t != NULL, "terminated_items_ of the thread's own holder");
  if (t == &G.victim_td)
  {
    HOP_REQUIRE(gv_mine && gv_map && !GV_QUEUED && !gv_term && !gv_heap, "a thread is destroyed once, and never while it is still queued");
    gv_term = true; gv_mine = false; BUMP(G.v_term_pushes);
  }
  VX_ASSUME(G.term < MC_BIG - 8);
  if (G.term_resv >= 1) G.term_resv--; else G.term_pend++;
  G.term++; G.term_pushes++; G.term_push_id = TD_ID(t);
  VP_CHECK("terminated_items_.push");
}
typedef int td_handle;                           /* `thread_data* todelete` assigned in a loop guard: 0 null, 1 victim, 2 other */
#define TDP(h) ((h) == 1 ? &G.victim_td : (h) == 2 ? &G.other_td : (struct thread_data *) NULL)
static bool term_pop_h(struct qh *h, td_handle *out)
{
  term_interfere(h);
  VX_ASSERT(h == g_self_h && LOCKED(h), "terminated_items_ is drained only under thread_map_mtx_");
  if (G.term >= 1 && nondet_bool())
  {
    VX_ASSUME(G.term_pops < MC_BIG);
    bool take_victim = gv_term && (G.term == 1 || nondet_bool());
    G.term--; G.term_owed++; G.term_pops++;
    if (take_victim) { gv_term = false; gv_mine = true; BUMP(G.v_term_pops); *out = 1; } else *out = 2;
    VP_CHECK("terminated_items_.pop");
    return true;
  }
  return false;
}
static int32_t atomic_inc_terminated_items_count_(struct qh *h)
{
  term_interfere(h);
  /* the code pushes first and counts afterwards; counting first would be as good: one increment per push, on the same path */
  if (G.term_pend >= 1) G.term_pend--; else { VX_ASSERT(G.term_resv == 0, "terminated_items_count_ is incremented once per push"); G.term_resv++; }
  h->terminated_items_count_ = h->terminated_items_count_ + 1; G.term_incs++;
  return h->terminated_items_count_;
}
static int32_t atomic_dec_terminated_items_count_(struct qh *h)
{
  term_interfere(h);
  VX_ASSERT(G.term_owed >= 1, "terminated_items_count_ is decremented once per pop, after the pop it describes");
  VX_ASSUME(h->terminated_items_count_ > -MC_BIG + 8);             /* counter bound (listed) */
  h->terminated_items_count_ = h->terminated_items_count_ - 1; G.term_owed--; G.term_decs++;
  return h->terminated_items_count_;
}
static int32_t g_last_term_load;
static int32_t atomic_load_terminated_items_count_(struct qh *h) { term_interfere(h); g_last_term_load = h->terminated_items_count_; return h->terminated_items_count_; }
static struct qh *td_get_holder(struct thread_data *t)
{
  VX_ASSERT(G.term_push_id == 0 || TD_ID(t) != G.term_push_id, "the thread object is not touched after it was handed to terminated_items_ (it may be recycled at once)");
  return t->holder_ == 1 ? &g_h0 : t->holder_ == 2 ? &g_h1 : NULL;
}
/* ---- queue_holder_thread::recycle_thread: contract stub (C12 heap.qht.recycle_thread: pushed onto exactly one free list, once) ---- */
static void qh_recycle_thread(struct qh *h, thread_id_type t)
{
  VX_ASSERT(h == g_self_h && LOCKED(h), "the free lists are filled under thread_map_mtx_, by the owner");
  VX_ASSERT(t != NULL, "a null id is never recycled");
  if (t == &G.victim_td)
  {
    HOP_REQUIRE(gv_mine && !gv_map && !GV_QUEUED && !gv_term && !gv_heap, "a thread object is recycled once, after it left the map and every queue");
    gv_heap = true; gv_mine = false; BUMP(G.v_recycles);
  }
  VX_ASSUME(G.recycles < MC_BIG);
  G.recycles++; G.recycle_id = TD_ID(t);
}
/* ---- queue_holder_thread::remove_from_thread_map: contract stub (unit mc.qh.remove_from_thread_map) ---- */
static void qh_remove_from_thread_map(struct qh *h, thread_id_type t, bool dealloc)
{
  VX_ASSERT(h == g_self_h && LOCKED(h), "remove_from_thread_map precondition: thread_map_mtx_ is held");
  VX_ASSERT(t != NULL, "a null id is never removed");
  if (t == &G.victim_td)
  {
    HOP_REQUIRE(gv_mine && gv_map && !GV_QUEUED && !gv_term, "remove_from_thread_map precondition: the thread is in this map and left every queue");
    gv_map = false; BUMP(G.v_removes);
    if (dealloc) { gv_mine = false; gv_heap = true; }           /* destroyed: gone for good (never handed out again) */
  }
  VX_ASSUME(G.removes < MC_BIG && G.map >= 1 && (t == &G.victim_td || !gv_map || G.map >= 2));
  G.map--; h->thread_map_count_ = h->thread_map_count_ - 1;
  G.removes++; G.remove_id = TD_ID(t); G.remove_dealloc = dealloc; if (dealloc) G.remove_deallocs++;
}
/* ---- queue_holder_thread::cleanup_terminated: contract stub for destroy_thread (unit mc.qh.cleanup_terminated): takes the lock
 * itself; whatever is in terminated_items_ may be removed from the map and recycled ---- */
static bool qh_cleanup_terminated(struct qh *h, size_t thread_num, bool delete_all)
{
  VX_ASSERT(h == g_self_h && !LOCKED(h), "cleanup_terminated takes thread_map_mtx_ itself: the caller must not hold it");
  VX_ASSERT(thread_num == h->thread_num_, "cleanup_terminated precondition (its PIKA_ASSERT): only the worker that owns the holder recycles");
  BUMP(G.cleanups); G.cleanup_num = thread_num; G.cleanup_all = delete_all;
  if (nondet_bool())
  {
    int32_t c = nondet_i32();
    G.term = nondet_long(); h->terminated_items_count_ = nondet_i32(); G.map = c; h->thread_map_count_ = c;
    if (!gv_mine && gv_term && nondet_bool()) { gv_term = false; gv_map = false; gv_heap = true; G.env_moved = true; }
    VX_ASSUME(TERMRANGE(h, 8) && TERMINV(h) && MAPRANGE(h, 8) && MAPINV(h));
  }
  return nondet_bool();
}

static void mcqh_init(void)
{
  Q = (struct mcqh_ghost){0};
  Q.flags_ok = true; Q.check_new_ok = true; Q.an_args_ok = true;
  mc_ghost_init();
  mc_holder_init(&g_h0); mc_holder_init(&g_h1);
  mc_queue_init(&g_bp, &g_h0); mc_queue_init(&g_hp, &g_h0); mc_queue_init(&g_np, &g_h0); mc_queue_init(&g_lp, &g_h0);
  mc_queue_init(&g_bp2, &g_h1); mc_queue_init(&g_hp2, &g_h1); mc_queue_init(&g_np2, &g_h1); mc_queue_init(&g_lp2, &g_h1);
  mc_queue_init(&g_m0, &g_h0); mc_queue_init(&g_m1, &g_h1);
  g_h0.np_queue_ = &g_np; g_h0.bp_queue_ = nondet_bool() ? &g_bp : NULL; g_h0.hp_queue_ = nondet_bool() ? &g_hp : NULL; g_h0.lp_queue_ = nondet_bool() ? &g_lp : NULL;
  g_h1.np_queue_ = &g_np2; g_h1.bp_queue_ = nondet_bool() ? &g_bp2 : NULL; g_h1.hp_queue_ = nondet_bool() ? &g_hp2 : NULL; g_h1.lp_queue_ = nondet_bool() ? &g_lp2 : NULL;
  CFG.self = 1; CFG.self_h = 1;
  g_term_pops_by_others = true; g_last_term_load = 0;
  g_exp_data = NULL; g_exp_id = NULL; g_exp_ec = NULL; g_exp_stealing = false; g_exp_check_new = false; g_exp_add_count = 0; g_exp_from = &g_h0;
}
#endif
