/* C01 U5 (mc) -- queue_holder_thread: the thread map and the way out of it.
 *   add_to_thread_map(tid)                 (creator) -> thread_map_       monitor: insert once, thread_map_count_ +1 after it, under the lock
 *   remove_from_thread_map(tid, dealloc)   thread_map_ -> (cleanup)       erase once, thread_map_count_ -1 after it; destroyed iff asked
 *   destroy_thread(thrd, thread_num, x)    (last reference) -> terminated_items_ of the holder that created it, exactly once
 * Lifted: the whole bodies.  Stubs: mc_qh.h (std::unordered_set, terminated_items_, counters, cleanup_terminated contract). */
#include "../C01/mc_qh.h"
static int g_tid0;

#ifdef U_ADD
//@FUNC
void add_to_thread_map(struct qh *self, thread_id_type tid)
__CPROVER_requires(self == &g_h0 && g_self_h == &g_h0 && tid != NULL && TD_ID(tid) == g_tid0 && g_tid0 != 0 && !LOCKED(self))
__CPROVER_requires(G.ins == 0 && G.ins_fail == 0 && G.map_incs == 0 && G.map_pend == 0 && G.map_owed == 0 && G.erases == 0 && G.map_decs == 0 && G.v_ins == 0 && vx_exc == 0 && G.err == 0)
__CPROVER_requires(MAPRANGE(self, 8) && MAPINV(self) && VP_OK && (g_tid0 == 1 ? gv_mine : !gv_mine))
/* the lock is released on every path, with thread_map_count_ == number of entries (asserted at every release) */
__CPROVER_ensures(!LOCKED(self) && G.map_pend == 0 && G.map_owed == 0 && G.erases == 0 && G.map_decs == 0)
/* registered exactly once -- this thread -- and counted exactly once, after the insertion, under the lock (asserted there) */
__CPROVER_ensures(vx_exc == 0 ==> (G.ins == 1 && G.ins_id == g_tid0 && G.ins_fail == 0 && G.map_incs == 1))
/* a refused id is an exception (never a silent drop), thrown with the lock released; nothing counted */
__CPROVER_ensures(vx_exc != 0 ==> (vx_exc == error_out_of_memory && G.err == vx_exc && G.ins == 0 && G.ins_fail == 1 && G.map_incs == 0))
__CPROVER_ensures(G.v_ins == ((g_tid0 == 1 && vx_exc == 0) ? 1 : 0) && (G.v_ins == 1 ==> gv_map) && VP_OK)
__CPROVER_assigns(g_h0.thread_map_mtx_, g_h0.thread_map_count_, G)
//@LIFT body
#endif

#ifdef U_REMOVE
static bool g_da0;
//@FUNC
void remove_from_thread_map(struct qh *self, thread_id_type tid, bool dealloc)
__CPROVER_requires(self == &g_h0 && g_self_h == &g_h0 && tid != NULL && TD_ID(tid) == g_tid0 && g_tid0 != 0 && dealloc == g_da0 && LOCKED(self))
__CPROVER_requires(G.ins == 0 && G.map_incs == 0 && G.map_pend == 0 && G.map_owed == 0 && G.erases == 0 && G.map_decs == 0 && G.v_erases == 0 && G.deallocs == 0 && G.v_deallocs == 0)
__CPROVER_requires(MAPRANGE(self, 8) && MAPINV(self) && VP_OK)
/* the callers' duty stated by PIKA_ASSERT(thread_map_.find(tid) != thread_map_.end()): the thread is in THIS map; it was taken
 * off terminated_items_ by the caller (it is in the caller's hands, in no queue) */
__CPROVER_requires(g_tid0 == 1 ? (gv_mine && gv_map && !GV_QUEUED && !gv_term && !gv_heap) : !gv_mine)
/* erased exactly once -- this thread --, counted out exactly once, after the erase (asserted there); nothing inserted */
__CPROVER_ensures(G.erases == 1 && G.erase_id == g_tid0 && G.map_decs == 1 && G.map_owed == 0 && G.ins == 0 && G.map_incs == 0 && LOCKED(self) && MAPINV(self))
/* the object is destroyed iff the caller asked for it, once, and only after it left the map */
__CPROVER_ensures(G.deallocs == (g_da0 ? 1 : 0) && (g_da0 ==> G.dealloc_id == g_tid0))
__CPROVER_ensures(g_tid0 == 1 ? (G.v_erases == 1 && !gv_map && G.v_deallocs == (g_da0 ? 1 : 0) && gv_mine == !g_da0) : (G.v_erases == 0 && G.v_deallocs == 0))
__CPROVER_ensures(VP_OK)
__CPROVER_assigns(g_h0.thread_map_count_, G)
//@LIFT body
#endif

#ifdef U_DESTROY
static size_t g_tn0; static bool g_x0;
//@FUNC
void destroy_thread(struct qh *self, struct thread_data *thrd, size_t thread_num, bool xthread)
__CPROVER_requires(self == &g_h0 && g_self_h == &g_h0 && thrd != NULL && TD_ID(thrd) == g_tid0 && g_tid0 != 0 && thread_num == g_tn0 && xthread == g_x0 && !LOCKED(self))
/* the caller's duty stated by PIKA_ASSERT(&thrd->get_queue<queue_holder_thread>() == this) (shared_priority_queue_scheduler::destroy_thread
 * calls it on thrd->get_queue() itself) */
__CPROVER_requires(thrd->holder_ == H_ID(self))
/* the caller's duty: `!xthread` = the calling worker owns this holder (precondition of cleanup_terminated) */
__CPROVER_requires(!g_x0 ==> thread_num == self->thread_num_)
__CPROVER_requires(G.term_pushes == 0 && G.term_incs == 0 && G.term_pend == 0 && G.term_owed == 0 && G.term_pops == 0 && G.term_decs == 0 && G.term_push_id == 0 && G.term_resv == 0 && G.v_term_pushes == 0 && G.cleanups == 0)
__CPROVER_requires(TERMRANGE(self, 8) && TERMINV(self) && MAPRANGE(self, 8) && MAPINV(self) && VP_OK && G.erases == 0 && G.recycles == 0 && G.removes == 0)
/* A-LIFE (caller's duty, reference counting): the last reference died -- the thread is in no queue; it is in the map of its holder */
__CPROVER_requires(g_tid0 == 1 ? (gv_mine && gv_map) : !gv_mine)
/* appended exactly once -- this thread -- to the terminated list of THIS holder (the one that created it), counted exactly once */
__CPROVER_ensures(G.term_pushes == 1 && G.term_push_id == g_tid0 && G.term_incs == 1 && G.term_pend == 0 && G.term_resv == 0 && G.term_pops == 0 && G.term_decs == 0)
__CPROVER_ensures(G.v_term_pushes == (g_tid0 == 1 ? 1 : 0))
/* this call removes nothing from the map and recycles nothing itself (the clean-up's job, under the lock); the clean-up runs at
 * most once, after the push, only on the owner's worker, with the caller's worker number, never as `delete_all` */
__CPROVER_ensures(G.erases == 0 && G.recycles == 0 && G.removes == 0 && !LOCKED(self) && G.cleanups <= 1 && (G.cleanups == 1 ==> (!g_x0 && G.cleanup_num == g_tn0 && !G.cleanup_all)))
__CPROVER_ensures(VP_OK && !gv_mine)
__CPROVER_assigns(g_h0.thread_map_count_, g_h0.terminated_items_count_, G)
//@LIFT body
#endif

void harness(void)
{
  mcqh_init();
  int32_t c = nondet_i32(); G.map = c; g_h0.thread_map_count_ = c; G.term = nondet_long();
  struct thread_data *t = nondet_bool() ? &G.victim_td : &G.other_td;
  g_tid0 = TD_ID(t);
  G.victim_td.holder_ = 1; G.other_td.holder_ = 1;
  gv_mine = (t == &G.victim_td); gv_map = nondet_bool(); gv_term = nondet_bool(); gv_heap = nondet_bool();
  if (nondet_bool()) g_np.gw_victim = nondet_bool(); else g_hp2.gw_victim = nondet_bool();
#ifdef U_ADD
  add_to_thread_map(&g_h0, t);
  if (vx_exc == 0 && t == &G.victim_td) VX_REACH("victim_registered");
  if (vx_exc == 0 && t == &G.other_td) VX_REACH("other_registered");
  if (vx_exc != 0 && t == &G.victim_td) VX_REACH("victim_already_in_the_map_refused");
  if (vx_exc != 0 && t == &G.other_td) VX_REACH("other_refused");
#endif
#ifdef U_REMOVE
  g_h0.thread_map_mtx_.held = true; g_da0 = nondet_bool();
  remove_from_thread_map(&g_h0, t, g_da0);
  if (t == &G.victim_td && g_da0) VX_REACH("victim_removed_and_destroyed");
  if (t == &G.victim_td && !g_da0) VX_REACH("victim_removed_kept_for_recycling");
  if (t == &G.other_td) VX_REACH("other_removed");
#endif
#ifdef U_DESTROY
  g_tn0 = nondet_size(); g_x0 = nondet_bool();
  destroy_thread(&g_h0, t, g_tn0, g_x0);
  if (t == &G.victim_td) VX_REACH("victim_terminated"); else VX_REACH("other_terminated");
  if (G.cleanups >= 1) VX_REACH("cleanup_triggered"); else VX_REACH("no_cleanup");
  if (g_x0) VX_REACH("cross_thread_destroy_never_cleans_up");
  if (t == &G.victim_td && gv_heap) VX_REACH("victim_already_recycled_by_the_cleanup");
  if (t != &G.victim_td && gv_term) VX_REACH("victim_terminated_concurrently_by_another_worker");
#endif
}
