/* C01 U5 (mc) -- queue_holder_thread::cleanup_terminated(thread_num, delete_all): terminated_items_ -> (out of thread_map_) -> free list
 * (or destroyed, for delete_all).  Takes thread_map_mtx_ itself.  Every thread popped from terminated_items_ is: counted out of
 * terminated_items_count_ once (after the pop), removed from the map once (remove_from_thread_map: contract stub of unit
 * mc.qh.remove_from_thread_map), and then recycled once (recycle_thread: contract stub, C12 heap.qht.recycle_thread) or destroyed
 * (delete_all).  Both drain loops carry the same loop contract.  Only the worker that owns the holder cleans up (its
 * PIKA_ASSERT): nobody else pops terminated_items_; destroy_thread of other workers keeps pushing (lock-free). */
#include "../C01/mc_qh.h"
static bool g_da0;
#define DRAINED(n) (G.term_pops == (n) && G.term_decs == (n) && G.removes == (n) && G.remove_deallocs == (g_da0 ? (n) : 0) && G.recycles == (g_da0 ? 0 : (n)))
#define CT_INV(self) \
  (LOCKED(self) && G.term_pops >= 0 && G.term_pops <= MC_BIG && DRAINED(G.term_pops) && G.term_owed == 0 && G.term_pend == 0 && G.term_pushes == 0 && G.term_incs == 0 && \
   (todelete == 0 || todelete == 1 || todelete == 2) && \
   TERMRANGE(self, 4) && TERMINV(self) && MAPRANGE(self, 4) && MAPINV(self) && G.ins == 0 && G.map_incs == 0 && \
   VP_OK && !gv_mine && G.v_term_pops <= 1 && G.v_removes == G.v_term_pops && G.v_recycles == (g_da0 ? 0 : G.v_term_pops) && (G.v_term_pops == 0 || (gv_heap && !gv_map && !gv_term)))

//@FUNC
bool cleanup_terminated(struct qh *self, size_t thread_num, bool delete_all)
__CPROVER_requires(self == &g_h0 && g_self_h == &g_h0 && delete_all == g_da0 && !LOCKED(self) && !g_term_pops_by_others)
/* the callers' duty stated by PIKA_ASSERT(thread_num == thread_num_): only the worker that owns the holder cleans up */
__CPROVER_requires(thread_num == self->thread_num_)
__CPROVER_requires(G.term_pops == 0 && G.term_decs == 0 && G.removes == 0 && G.remove_deallocs == 0 && G.recycles == 0 && G.term_owed == 0 && G.term_pend == 0 && G.term_pushes == 0 && G.term_incs == 0 && G.ins == 0 && G.map_incs == 0)
__CPROVER_requires(TERMRANGE(self, 8) && TERMINV(self) && MAPRANGE(self, 8) && MAPINV(self) && VP_OK && !gv_mine && G.v_term_pops == 0 && G.v_removes == 0 && G.v_recycles == 0)
/* every popped thread: counter -1 after the pop (asserted there), removed from the map once, then recycled once -- or destroyed
 * once for delete_all; nothing else is touched */
__CPROVER_ensures(DRAINED(G.term_pops) && G.term_owed == 0 && G.term_pushes == 0 && G.term_incs == 0 && G.ins == 0)
/* the victim: popped at most once; if popped, out of the map once and on a free list once (or destroyed); otherwise not touched */
__CPROVER_ensures(G.v_term_pops <= 1 && G.v_removes == G.v_term_pops && G.v_recycles == (g_da0 ? 0 : G.v_term_pops) && (G.v_term_pops == 1 ==> (gv_heap && !gv_map && !gv_term)) && VP_OK && !gv_mine)
/* the lock is released, what it protects is consistent (asserted at the release); `true` is returned only for a counter that read 0 */
__CPROVER_ensures(!LOCKED(self) && TERMINV(self) && __CPROVER_return_value == (g_last_term_load == 0))
__CPROVER_assigns(g_h0.thread_map_mtx_, g_h0.thread_map_count_, g_h0.terminated_items_count_, G, g_last_term_load)
//@LIFT body

void harness(void)
{
  mcqh_init();
  g_term_pops_by_others = false;
  int32_t c = nondet_i32(); G.map = c; g_h0.thread_map_count_ = c; G.term = nondet_long();
  gv_map = nondet_bool(); gv_term = nondet_bool(); gv_heap = nondet_bool();
  int where = nondet_int();
  if (where == 1) g_np.gw_victim = true; else if (where == 2) g_hp2.gw_victim = true; else if (where == 3) g_np.gs_victim = true;
  g_da0 = nondet_bool();
  bool was_term = gv_term;
  bool r = cleanup_terminated(&g_h0, g_h0.thread_num_, g_da0);
  if (r && G.term_pops == 0) VX_REACH("nothing_terminated");
  if (g_da0 && G.term_pops == 2) VX_REACH("delete_all_two_destroyed");
  if (!g_da0 && G.term_pops == 2) VX_REACH("bounded_two_recycled");
  if (!g_da0 && !r) VX_REACH("bounded_pass_leaves_some");
  if (G.v_recycles == 1) VX_REACH("victim_recycled");
  if (g_da0 && G.v_removes == 1) VX_REACH("victim_destroyed");
  if (was_term && G.v_term_pops == 0) VX_REACH("victim_left_for_a_later_pass");
  if (!was_term && gv_term) VX_REACH("victim_terminated_meanwhile_by_its_last_holder");
}
