/* C01 U5 -- local_priority_queue_scheduler::destroy_thread: handed exactly once to the thread's OWN queue. */
#include "../C01/hops_lpq.h"
static int g_thrd_id;
//@FUNC
void destroy_thread(struct lpqs *self, struct thread_data *thrd)
/* PIKA_ASSERT(thrd->get_scheduler_base() == this) is the caller's duty (thread_data::destroy_thread dispatches on it) */
__CPROVER_requires(g_sched_of_thrd == self && L.calls == 0 && L.decr == 0 && thrd != NULL && TD_ID(thrd) == g_thrd_id && g_thrd_id != 0 && VP_OK)
__CPROVER_requires(g_thrd_id == 1 ? (gv_mine && gv_map && !gv_queued && !gv_term) : !gv_mine)
__CPROVER_ensures(L.calls == 1 && L.arg_thrd == g_thrd_id && L.decr == 1 && VP_OK && !gv_mine)
__CPROVER_assigns(L, G)
//@LIFT body

void harness(void)
{
  static struct lpqs s;
  hops_ghost_init(); lpq_ghost_init(&s);
  g_sched_of_thrd = &s;
  struct thread_data *t = nondet_bool() ? &g_victim_td : &g_other_td;
  g_thrd_id = TD_ID(t);
  gv_mine = (t == &g_victim_td); gv_map = nondet_bool(); gv_queued = nondet_bool(); gv_term = nondet_bool(); gv_heap = nondet_bool();
  destroy_thread(&s, t);
  if (t == &g_victim_td) VX_REACH("victim_terminated_once"); else VX_REACH("other_terminated");
}
