/* C01 U5 (mc) -- the queue hops of shared_priority_queue_scheduler's per-worker queue: thread_queue_mc and the part of
 * queue_holder_thread it calls.  Same model as hops.h (thread_queue), adapted to the different layout:
 *
 *   thread_queue_mc (struct mcq)       new_task_items_  staged task descriptions (thread_init_data BY VALUE, lock-free)   counter new_tasks_count_
 *                                      work_items_      pending threads (lock-free)                                        counter work_items_count_
 *   queue_holder_thread (struct qh)    thread_map_ (std::unordered_set under thread_map_mtx_)                             counter thread_map_count_
 *                                      terminated_items_ (lock-free)                                                       counter terminated_items_count_
 *                                      thread_heap_* (free lists; only the owner thread; once-ness of the lists: C12 heap.qht.*)
 *
 * ONE symbolic victim task is followed.  Each container is a contract stub with a ghost entry count, ONE membership bit
 * for the victim and a ledger tying the container to its counter.  The ledgers of the two lock-free queues live IN the
 * queue object (add_new works on two queue objects: receiver `self`, source `addfrom`).
 *   gv_mine   the victim is in the hands of the call under verification (popped / created / passed in, not yet published)
 * "In exactly one place at every instant" = VP_OK, re-checked by every container stub:
 *   staged (one queue) | in this call's hands | map+pending (one queue) | map only | map+terminated | recycled
 * Counter disciplines (asserted AT the operation):
 *   new_tasks_count_ / work_items_count_   ++ BEFORE push, -- AFTER pop: counter >= entries at every instant, never negative,
 *                                          counter == entries when no operation is in flight (resv == owed == 0 at every exit)
 *   thread_map_count_                      insert, then ++ ; erase, then -- ; both under thread_map_mtx_
 *   terminated_items_count_                one ++ per push, one -- per pop, the -- after the pop
 * Identities are small integers (gid / TD_ID), never pointers in a loop frame.
 */
#ifndef MC_HOPS_H
#define MC_HOPS_H
/* lowered try / catch (vx.lift.TryCatch): entering a handler catches the exception in flight (it is no longer reported unless
 * the handler re-throws it: `throw;` -> MC_RETHROW) */
#define VX_TRY_BEGIN(k) ((void) 0)
#define VX_CATCH_BEGIN(k) do { G.caught = G.exc; G.exc = 0; G.err = 0; } while (0)
#define VX_THROW_TO(label) do { if (G.exc) goto label; } while (0)
#define MC_RETHROW() do { VX_ASSERT(G.caught != 0, "throw; outside a handler"); G.exc = G.caught; G.err = G.caught; G.caught = 0; } while (0)
#include "vx.h"
static void mc_at_release(void);
static void mc_at_acquire(void);
#define MON_AT_RELEASE() mc_at_release()
#define MON_AT_ACQUIRE() mc_at_acquire()
#include "monitor.h"

#define MC_BIG 1000000000L
#define BUMP(c) do { if ((c) < 2) (c)++; } while (0)

/* ---- objects ---- */
enum { error_success = 0, error_out_of_memory = 7, error_bad_parameter = 9 };   /* opaque tokens */
struct error_code { int value; };
/* thread_init_data; thread_queue_mc::task_description IS thread_init_data (stored by value in new_task_items_).
 * gid (ghost): whose request this is -- 1 the victim task, 2 any other task */
struct thread_init_data { int8_t initial_state, stacksize, priority; bool run_now; int8_t gid; };
typedef struct thread_init_data task_description;
struct thread_data { int holder_; int8_t made_state; int8_t gid; };        /* holder_: H_ID of the holder that created it */
typedef struct thread_data *thread_id_ref_type;
typedef struct thread_data *thread_id_type;
#define invalid_thread_id NULL
struct params { int64_t max_terminated_threads_; };
struct qh;
struct mcq {
  struct qh *holder_;
  int queue_index_;
  int32_t new_tasks_count_, work_items_count_;   /* cache_line_data<std::atomic<std::int32_t>> */
  /* ghost: ledger of THIS queue's new_task_items_ and the operations of the call under verification on it (exact) */
  long gs_entries, gs_resv, gs_owed; bool gs_victim;
  long gs_pushes, gs_pops, gs_incs, gs_decs;
  /* ghost: the same for work_items_ */
  long gw_entries, gw_resv, gw_owed; bool gw_victim;
  long gw_pushes, gw_pops, gw_incs, gw_decs;
};
struct qh {
  struct mcq *bp_queue_, *hp_queue_, *np_queue_, *lp_queue_;
  size_t domain_index_, queue_index_, thread_num_, owner_mask_;
  struct vx_mutex thread_map_mtx_;
  int32_t thread_map_count_, terminated_items_count_;
  struct params parameters_;
  int owner_id_;                                 /* std::thread::id as a token */
};

static struct mcq g_m0, g_m1;                    /* two queue objects (add_new: receiver / source) */
static struct qh g_h0, g_h1;                     /* two holders */
#ifdef MC_QH_QUEUES                              /* mc_qh.h: four queues of the holder under verification, four of another holder */
static struct mcq g_bp, g_hp, g_np, g_lp, g_bp2, g_hp2, g_np2, g_lp2;
#endif
#define M_ID(q) ((q) == &g_m0 ? 1 : (q) == &g_m1 ? 2 : 0)
#define H_ID(h) ((h) == &g_h0 ? 1 : (h) == &g_h1 ? 2 : 0)

struct mc_ghost {
  int exc;                                       /* != 0: an exception propagates out of the call (token = error value) */
  int err;                                       /* != 0: an error was reported (exception or error_code) */
  int caught;                                    /* the exception a lowered catch handler is handling */
  struct thread_data victim_td, other_td;
  struct thread_init_data victim_init, other_init;     /* the caller's request objects (create_thread) */
  bool v_mine, v_map, v_term, v_heap;            /* where the victim is (besides q->gs_victim / q->gw_victim) */
  bool env_moved;
  long pops, v_pops; int8_t last_pop;            /* staged pops by this call */
  int8_t push_gid, push_state; bool push_run_now;      /* what was staged */
  /* holder: create_thread_object / add_to_thread_map (contract stubs in the queue units) */
  long cto, v_cto; int8_t cto_gid, cto_requested;
  long adds, add_fail, v_adds; int add_id;
  /* holder: thread_map_ itself (the holder units) */
  long map, map_pend, map_owed, ins, ins_fail, map_incs, erases, map_decs, v_ins, v_erases, deallocs, v_deallocs; int ins_id, erase_id, dealloc_id;
  /* work_items_ */
  long wpush, v_wpush, wpops, v_wpops; int wpush_id, wpop_id; bool wpush_other_end, wpop_other_end;
  /* terminated_items_ */
  long term, term_pend, term_resv, term_owed, term_pushes, term_pops, term_incs, term_decs, v_term_pushes, v_term_pops; int term_push_id;
  long recycles, v_recycles; int recycle_id;
  long removes, remove_deallocs, v_removes; int remove_id; bool remove_dealloc;
  long cleanups; size_t cleanup_num; bool cleanup_all;
  /* thread_queue_mc::add_new as a callee (get_next_thread) */
  long an_calls; int64_t an_count; int an_from; bool an_steal; size_t an_ret;
  long rec_calls;
};
static struct mc_ghost G;
struct mc_cfg {
  int self;                                      /* M_ID of the queue the call runs on (the RECEIVER in add_new) */
  int self_h;                                    /* H_ID of the holder the call runs on / the receiver's holder */
  int this_thread;                               /* std::this_thread::get_id() as a token */
  bool map_may_refuse;                           /* the defensive "insert refused" path is explored */
  bool lemma;
};
static struct mc_cfg CFG;
static struct error_code throws;                 /* pika::throws: the address is the "please throw" marker */
#define vx_exc G.exc
#define g_self (CFG.self == 1 ? &g_m0 : &g_m1)
#define g_self_h (CFG.self_h == 1 ? &g_h0 : &g_h1)
#define gv_mine G.v_mine
#define gv_map G.v_map
#define gv_term G.v_term
#define gv_heap G.v_heap
#define TD_ID(p) ((p) == &G.victim_td ? 1 : (p) == &G.other_td ? 2 : 0)

/* ---- exceptions / error_code ---- */
static void vx_throw(int e) { VX_ASSERT(vx_exc == 0, "second throw while an exception propagates"); vx_exc = e; G.err = e; }
static struct error_code make_success_code(void) { struct error_code r; r.value = error_success; return r; }
static int vx_this_thread_id(void) { return CFG.this_thread; }

/* ---- thread_id_ref_type locals: std::move empties the source; a local that still holds the (only) reference when it goes
 * out of scope destroys the thread object -- legitimate only on a path that reports an error ---- */
static thread_id_ref_type vx_move_tid(thread_id_ref_type *p) { thread_id_ref_type r = *p; *p = NULL; return r; }
static void tid_release(thread_id_ref_type *p)
{ VX_ASSERT(*p == NULL || G.err != 0, "a new thread object goes out of scope without having been queued or returned: the task would be dropped silently"); }

/* ---- where the victim is ---- */
#ifndef GV_NSTAGED                               /* (mc_qh.h counts over its eight queue objects as well) */
#define GV_NSTAGED (g_m0.gs_victim + g_m1.gs_victim)
#define GV_NQUEUED (g_m0.gw_victim + g_m1.gw_victim)
#endif
#define GV_STAGED (GV_NSTAGED != 0)
#define GV_QUEUED (GV_NQUEUED != 0)
/* exactly one place (the map is a second place only together with pending / terminated / a holder) */
#define VP_OK (GV_NSTAGED <= 1 && GV_NQUEUED <= 1 && \
               (!GV_STAGED || !(gv_mine || gv_map || GV_QUEUED || gv_term || gv_heap)) && \
               (!gv_mine || !(GV_QUEUED || gv_term || gv_heap)) && \
               (!gv_heap || !(gv_map || GV_QUEUED || gv_term)) && \
               (!GV_QUEUED || (gv_map && !gv_term)) && (!gv_term || gv_map))
#define HOP_REQUIRE(c, msg) do { if (CFG.lemma) VX_ASSUME(c); else VX_ASSERT(c, msg); } while (0)
#define VP_CHECK(what) VX_ASSERT(VP_OK, "victim in exactly one place after " what)

/* ---- new_task_items_ and new_tasks_count_ ---- */
#define NTRANGE(q, slack) ((q)->gs_entries >= 0 && (q)->gs_entries <= MC_BIG - (slack) && (q)->new_tasks_count_ >= 0 && (q)->new_tasks_count_ <= 2 * MC_BIG - (slack))
#define NTINV(q) (NTRANGE(q, 0) && (q)->gs_resv >= 0 && (q)->gs_owed >= 0 && (q)->new_tasks_count_ >= (q)->gs_entries + (q)->gs_resv + (q)->gs_owed && (!(q)->gs_victim || (q)->gs_entries >= 1))
#define NT_UNTOUCHED(q) ((q)->gs_pops == 0 && (q)->gs_decs == 0 && (q)->gs_incs == 0 && (q)->gs_pushes == 0 && (q)->gs_owed == 0 && (q)->gs_resv == 0)
/* environment before every lock-free access of ours: other creators push, other converters / stealers pop (trusted: they keep
 * NTINV; they may take the victim out of the queue -- it is theirs from then on -- but never put it (back) in) */
static void nt_interfere(struct mcq *q)
{
  if (nondet_bool())
  {
    q->new_tasks_count_ = nondet_i32();
    q->gs_entries = nondet_long();
    if (q->gs_victim && nondet_bool()) { q->gs_victim = false; G.env_moved = true; }
    VX_ASSUME(NTRANGE(q, 8) && NTINV(q));
  }
}
static int32_t atomic_load_new_tasks_count_(struct mcq *q) { nt_interfere(q); return q->new_tasks_count_; }
static int32_t atomic_inc_new_tasks_count_(struct mcq *q)
{
  nt_interfere(q);
  q->new_tasks_count_ = q->new_tasks_count_ + 1; q->gs_resv++; q->gs_incs++;
  VX_ASSERT(NTINV(q), "staged ledger: new_tasks_count_ >= entries after the increment");
  return q->new_tasks_count_;
}
static int32_t atomic_dec_new_tasks_count_(struct mcq *q)
{
  nt_interfere(q);
  VX_ASSERT(q->gs_owed >= 1, "new_tasks_count_ of a queue is decremented only AFTER this call removed a task from THAT queue's new_task_items_");
  VX_ASSERT(G.adds + G.add_fail == G.pops, "a converted task is counted in thread_map_count_ BEFORE it is un-staged (thread_map_count_ + new_tasks_count_ never under-approximates the live tasks)");
  q->new_tasks_count_ = q->new_tasks_count_ - 1; q->gs_owed--; q->gs_decs++;
  VX_ASSERT(NTINV(q), "staged ledger: new_tasks_count_ >= entries after the decrement");
  return q->new_tasks_count_;
}
/* task_description(std::move(data)): the description that is staged is a copy of the request */
static task_description task_make(struct thread_init_data d) { return d; }
/* new_task_items_.push(description): always succeeds (unbounded lock-free queue) */
static bool nt_push(struct mcq *q, task_description t)
{
  nt_interfere(q);
  VX_ASSERT(vx_exc == 0, "no container operation while an exception propagates (control never continues after a throw)");
  VX_ASSERT(t.gid == 1 || t.gid == 2, "what is staged is a copy of a request");
  VX_ASSERT(q->gs_resv >= 1, "new_tasks_count_ is incremented BEFORE the insertion it describes (it never under-approximates)");
  if (t.gid == 1)
  {
    HOP_REQUIRE(gv_mine && !gv_map && !GV_STAGED, "a task is never staged twice / never staged while it exists elsewhere");
    q->gs_victim = true; gv_mine = false;
  }
  VX_ASSUME(q->gs_entries < MC_BIG - 8);         /* ghost bound (listed) */
  q->gs_entries++; q->gs_resv--; q->gs_pushes++; G.push_gid = t.gid; G.push_state = t.initial_state; G.push_run_now = t.run_now;
  VX_ASSERT(NTINV(q), "staged ledger: new_tasks_count_ >= entries after the insertion");
  VP_CHECK("new_task_items_.push");
  return true;
}
/* new_task_items_.pop(out, steal): removes one entry if there is one (may fail spuriously under contention).  Every staged
 * task has initial_state == pending (thread_queue_mc::create_thread refuses to stage anything else: unit mc.tq.create_thread). */
static bool nt_pop(struct mcq *q, task_description *out, bool steal)
{
  nt_interfere(q);
  VX_ASSERT(vx_exc == 0, "no container operation while an exception propagates (control never continues after a throw)");
  if (q->gs_entries >= 1 && nondet_bool())
  {
    VX_ASSUME(G.pops < MC_BIG);                  /* ghost bound: fewer than 10^9 conversions per call (listed) */
    bool take_victim = q->gs_victim && (q->gs_entries == 1 || nondet_bool());
    q->gs_entries--; q->gs_owed++; q->gs_pops++; G.pops++;
    out->stacksize = nondet_i8(); out->priority = nondet_i8(); out->run_now = false;
    out->initial_state = thread_schedule_state_pending;
    if (take_victim) { q->gs_victim = false; gv_mine = true; BUMP(G.v_pops); out->gid = 1; } else out->gid = 2;
    G.last_pop = out->gid;
    VP_CHECK("new_task_items_.pop");
    return true;
  }
  return false;
}

/* ---- work_items_ and work_items_count_ ---- */
#define WIRANGE(q, slack) ((q)->gw_entries >= 0 && (q)->gw_entries <= MC_BIG - (slack) && (q)->work_items_count_ >= 0 && (q)->work_items_count_ <= 2 * MC_BIG - (slack))
#define WIINV(q) (WIRANGE(q, 0) && (q)->gw_resv >= 0 && (q)->gw_owed >= 0 && (q)->work_items_count_ >= (q)->gw_entries + (q)->gw_resv + (q)->gw_owed && (!(q)->gw_victim || (q)->gw_entries >= 1))
#define WI_UNTOUCHED(q) ((q)->gw_pops == 0 && (q)->gw_decs == 0 && (q)->gw_incs == 0 && (q)->gw_pushes == 0 && (q)->gw_owed == 0 && (q)->gw_resv == 0)
/* the other workers / wakers push, pop and steal (trusted: they keep WIINV; they may take the victim out of the queue -- it is
 * then run by them, still in the map --, but cannot queue it while this call holds it or while it is staged / recycled) */
static void wi_interfere(struct mcq *q)
{
  if (nondet_bool())
  {
    q->work_items_count_ = nondet_i32();
    q->gw_entries = nondet_long();
    if (q->gw_victim && nondet_bool()) { q->gw_victim = false; G.env_moved = true; }
    VX_ASSUME(WIRANGE(q, 8) && WIINV(q));
  }
}
static int32_t atomic_load_work_items_count_(struct mcq *q) { wi_interfere(q); return q->work_items_count_; }
static int32_t atomic_inc_work_items_count_(struct mcq *q)
{
  wi_interfere(q);
  VX_ASSUME(q->work_items_count_ < 2 * MC_BIG - 8 && q->gw_incs < MC_BIG);       /* counter bound 2*10^9 (listed) */
  q->work_items_count_ = q->work_items_count_ + 1; q->gw_resv++; q->gw_incs++;
  VX_ASSERT(WIINV(q), "pending ledger: work_items_count_ >= entries after the increment");
  return q->work_items_count_;
}
static int32_t atomic_dec_work_items_count_(struct mcq *q)
{
  wi_interfere(q);
  VX_ASSERT(q->gw_owed >= 1, "work_items_count_ is decremented only AFTER a successful removal by this call");
  q->work_items_count_ = q->work_items_count_ - 1; q->gw_owed--; q->gw_decs++;
  VX_ASSERT(WIINV(q), "pending ledger: work_items_count_ >= entries after the decrement");
  return q->work_items_count_;
}
/* work_items_.push(thrd, other_end): always succeeds */
static bool wi_push(struct mcq *q, thread_id_ref_type t, bool other_end)
{
  wi_interfere(q);
  VX_ASSERT(vx_exc == 0, "no container operation while an exception propagates (control never continues after a throw)");
  VX_ASSERT(t != NULL, "an empty id is never queued");
  VX_ASSERT(q->gw_resv >= 1, "work_items_count_ is incremented BEFORE the insertion it describes (it never under-approximates)");
  if (t == &G.victim_td)
  {
    HOP_REQUIRE(gv_mine && !GV_QUEUED, "a thread is never in a pending queue twice: the caller holds it and it is not queued");
    HOP_REQUIRE(gv_map, "a thread is in the map of its holder before it becomes pending");
    q->gw_victim = true; gv_mine = false; BUMP(G.v_wpush);
  }
  VX_ASSUME(q->gw_entries < MC_BIG - 8 && G.wpush < MC_BIG);     /* ghost bounds (listed) */
  q->gw_entries++; q->gw_resv--; q->gw_pushes++; G.wpush++; G.wpush_id = TD_ID(t); G.wpush_other_end = other_end;
  VX_ASSERT(WIINV(q), "pending ledger: work_items_count_ >= entries after the insertion");
  VP_CHECK("work_items_.push");
  return true;
}
/* work_items_.pop(out, other_end): removes one entry if there is one (may fail spuriously) */
static bool wi_pop(struct mcq *q, thread_id_ref_type *out, bool other_end)
{
  wi_interfere(q);
  VX_ASSERT(vx_exc == 0, "no container operation while an exception propagates (control never continues after a throw)");
  if (q->gw_entries >= 1 && nondet_bool())
  {
    bool take_victim = q->gw_victim && (q->gw_entries == 1 || nondet_bool());
    VX_ASSERT(*out == NULL, "the id that receives the popped thread is empty (nothing held can be overwritten)");
    q->gw_entries--; q->gw_owed++; q->gw_pops++; BUMP(G.wpops); G.wpop_other_end = other_end;
    if (take_victim) { q->gw_victim = false; gv_mine = true; BUMP(G.v_wpops); *out = &G.victim_td; } else *out = &G.other_td;
    G.wpop_id = TD_ID(*out);
    VP_CHECK("work_items_.pop");
    return true;
  }
  return false;
}

/* ---- queue_holder_thread::create_thread_object: contract stub (once-ness of the free lists / size class: C12 heap.qht.*) ---- */
static void qh_create_thread_object(struct qh *h, thread_id_ref_type *tid, struct thread_init_data *data)
{
  VX_ASSERT(h == g_self_h, "the thread object is created by the holder of the RECEIVING queue");
  VX_ASSERT(h->owner_id_ == CFG.this_thread, "create_thread_object is not thread safe: only the thread that owns the holder may call it");
  VX_ASSERT(*tid == NULL, "the id that receives the new object is empty");
  VX_ASSERT(data->gid == 1 || data->gid == 2, "the thread object is made from a request / from the description just popped");
  VX_ASSERT(G.last_pop == 0 || data->gid == G.last_pop, "the thread object is made from the description that was just popped");
  VX_ASSUME(G.cto < MC_BIG);
  G.cto++; G.cto_gid = data->gid; G.cto_requested = data->initial_state;
  if (data->initial_state == thread_schedule_state_pending_do_not_schedule || data->initial_state == thread_schedule_state_pending_boost)
    data->initial_state = thread_schedule_state_pending;
  if (data->gid == 1)
  {
    HOP_REQUIRE(gv_mine && G.v_cto == 0 && !gv_map, "one thread object per task");
    BUMP(G.v_cto); *tid = &G.victim_td;
  }
  else *tid = &G.other_td;
  (*tid)->holder_ = H_ID(h); (*tid)->made_state = data->initial_state; (*tid)->gid = data->gid;
}
/* ---- queue_holder_thread::add_to_thread_map: contract stub (unit mc.qh.add_to_thread_map): takes thread_map_mtx_ itself, inserts
 * once and counts once, or throws out_of_memory when the set refuses the id (defensive path) ---- */
static void qh_add_to_thread_map(struct qh *h, thread_id_type tid)
{
  VX_ASSERT(h == g_self_h, "the new thread goes into the map of the holder of the RECEIVING queue");
  VX_ASSERT(!h->thread_map_mtx_.held, "add_to_thread_map takes thread_map_mtx_ itself: the caller must not hold it");
  VX_ASSERT(tid != NULL, "a null id is never put into the map");
  VX_ASSERT(tid->holder_ == H_ID(h), "a thread is registered in the map of the holder that created it (destroy_thread returns it there)");
  G.add_id = TD_ID(tid);
  bool present = (tid == &G.victim_td) ? gv_map : (CFG.map_may_refuse && nondet_bool());
  if (present) { G.add_fail++; vx_throw(error_out_of_memory); return; }
  if (tid == &G.victim_td) { HOP_REQUIRE(gv_mine, "the thread inserted into the map is the one this call just created"); gv_map = true; BUMP(G.v_adds); }
  VX_ASSUME(G.adds < MC_BIG);
  G.adds++;
  if (nondet_bool()) h->thread_map_count_ = nondet_i32();      /* other threads register / remove threads at any time */
  VX_ASSUME(h->thread_map_count_ >= 0 && h->thread_map_count_ < 2 * MC_BIG);
  h->thread_map_count_ = h->thread_map_count_ + 1;
  VP_CHECK("add_to_thread_map");
}
/* threads::detail::get_self_stacksize_enum(): never `current` (its own PIKA_ASSERT; trusted) */
static int8_t get_self_stacksize_enum(void) { int8_t s = nondet_i8(); VX_ASSUME(s != thread_stacksize_current); return s; }

/* ---- monitor hooks (thread_map_mtx_ of the holder under verification; used by the holder units) ---- */
#define MAPRANGE(h, slack) (G.map >= 0 && G.map <= MC_BIG - (slack) && (h)->thread_map_count_ >= -2 && (h)->thread_map_count_ <= MC_BIG)
#define MAPINV(h) (MAPRANGE(h, 0) && (h)->thread_map_count_ == G.map && G.map_pend == 0 && G.map_owed == 0 && (!gv_map || G.map >= 1))
#define LOCKED(h) ((h)->thread_map_mtx_.held)
#define OWNS(lk) ((lk)->owns && (lk)->m->held)
static void mc_at_release(void)
{
  VX_ASSERT(g_self_h->thread_map_count_ == G.map && G.map_pend == 0 && G.map_owed == 0, "thread_map_count_ == number of map entries whenever thread_map_mtx_ is released");
  VP_CHECK("the critical section");
}
#define TERMRANGE(h, slack) (G.term >= 0 && G.term <= MC_BIG - (slack) && (h)->terminated_items_count_ >= -MC_BIG && (h)->terminated_items_count_ <= MC_BIG - (slack))
#define TERMINV(h) (TERMRANGE(h, 0) && (!gv_term || G.term >= 1))
static void mc_at_acquire(void)
{
  /* while the lock was free the other workers registered / removed threads (trusted: they keep the monitor invariant and leave a
   * victim that is in this call's hands alone; where the victim is otherwise is chosen by the harness) */
  if (nondet_bool())
  {
    int32_t c = nondet_i32();
    VX_ASSUME(c >= 0 && c <= MC_BIG - 8 && (!gv_map || c >= 1));
    G.map = c; g_self_h->thread_map_count_ = c;
  }
}

/* ---- initialisation shared by the harnesses (dfcc makes every static nondeterministic) ---- */
static void mc_task_init(struct thread_init_data *d, int8_t gid)
{ d->initial_state = nondet_i8(); d->stacksize = nondet_i8(); d->priority = nondet_i8(); d->run_now = nondet_bool(); d->gid = gid; }
static void mc_ghost_init(void)
{
  G = (struct mc_ghost){0};
  CFG.self = 1; CFG.self_h = 1; CFG.this_thread = 1; CFG.map_may_refuse = true; CFG.lemma = false; throws.value = 0;
  mc_task_init(&G.victim_init, 1); mc_task_init(&G.other_init, 2);
  G.victim_td.holder_ = 0; G.victim_td.made_state = 0; G.victim_td.gid = 1;
  G.other_td.holder_ = 0; G.other_td.made_state = 0; G.other_td.gid = 2;
}
static void mc_queue_init(struct mcq *q, struct qh *h)
{
  q->holder_ = h; q->queue_index_ = nondet_int();
  q->new_tasks_count_ = nondet_i32(); q->work_items_count_ = nondet_i32();
  q->gs_entries = nondet_long(); q->gs_resv = 0; q->gs_owed = 0; q->gs_victim = false;
  q->gs_pushes = q->gs_pops = q->gs_incs = q->gs_decs = 0;
  q->gw_entries = nondet_long(); q->gw_resv = 0; q->gw_owed = 0; q->gw_victim = false;
  q->gw_pushes = q->gw_pops = q->gw_incs = q->gw_decs = 0;
}
static void mc_holder_init(struct qh *h)
{
  h->bp_queue_ = NULL; h->hp_queue_ = NULL; h->np_queue_ = NULL; h->lp_queue_ = NULL;
  h->domain_index_ = nondet_size(); h->queue_index_ = nondet_size(); h->thread_num_ = nondet_size(); h->owner_mask_ = nondet_size();
  h->thread_map_mtx_.held = false;
  h->thread_map_count_ = 0; h->terminated_items_count_ = nondet_i32();
  h->parameters_.max_terminated_threads_ = nondet_i64();
  h->owner_id_ = nondet_int();
}
#endif
