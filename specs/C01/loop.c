/* C01 U4 -- the scheduling-loop fragment that runs ONE task (fragment unit; T contract over S steps).
 * Lifted fragment of scheduling_loop(): the body of `if (thrd || get_next_thread(...)) { ... }`, from the PIKA_ASSERT on the
 * scheduler to the final `if (state_val == terminated) { thrd = thread_id_type(); }`, wrapped by rule into `do { } while (0);`
 * (the fragment is one iteration of `while (true)`: its `continue` statements leave the iteration).
 * switch_status and the thread_data members it calls are the LIFTED bodies, inlined: the steps on the word are real.
 *
 * Declared free variables of the fragment:
 *   inputs      num_thread, running, enable_stealing_staged, context_storage, params, scheduler
 *   loop state  thrd (the task taken from the queue; non-empty), next_thrd (empty: moved from at the top of the iteration),
 *               idle_loop_count, busy_loop_count, may_exit, added
 * Callees = T stubs: SchedulingPolicy::{wait_or_add_new, schedule_thread_last, schedule_thread, do_some_work}, the coroutine
 * call `(*thrdptr)(context_storage)` = "task body entered", thread_data::{get_scheduler_base, get_priority}.
 * Reference accounting: `thrd` holds ONE reference to the task; vx_move_tid (std::move into a callee / into next_thrd)
 * empties it, tid_assign / tid_release (assignment of an empty id, end of the iteration's scope) drop it if still held.
 */
#include "vx.h"
//@LIFT enum_schedule
//@LIFT enum_restart
#include "cts_types.h"
//@LIFT consts
static tag_type extract_tag(tagged_state_type i)
//@LIFT extract_tag
static thread_state_type extract_state(tagged_state_type i)
//@LIFT extract_state
static thread_state_ex_type extract_state_ex(tagged_state_type i)
//@LIFT extract_state_ex
static tagged_state_type pack_state(T1 state_, T2 state_ex_, tag_type tag)
//@LIFT pack_state
static T1 cts_state(const struct thread_state *self)
//@LIFT state
static T2 cts_state_ex(const struct thread_state *self)
//@LIFT state_ex
static tag_type cts_tag(const struct thread_state *self)
//@LIFT tag
static void cts_ctor(struct thread_state *self, T1 state, T2 state_ex, tag_type t)
//@LIFT ctor
static struct thread_state cts_make(T1 state, T2 state_ex, tag_type t) { struct thread_state r; cts_ctor(&r, state, state_ex, t); return r; }
static T1 cts_state_v(struct thread_state w) { return cts_state(&w); }
static T2 cts_state_ex_v(struct thread_state w) { return cts_state_ex(&w); }
static tag_type cts_tag_v(struct thread_state w) { return cts_tag(&w); }

/* environment: everybody else, at any time (the runner's stronger rely is NOT used here, so that the `store refused`
 * path stays reachable); A-REAL as in other.c */
#define REAL_STATE(s) ((s) == S_ACTIVE || (s) == S_PENDING || (s) == S_SUSPENDED || (s) == S_TERMINATED || (s) == S_BOOST)
#define RELY(o, n) (RELY_GEN(o, n) && REAL_STATE(W_STATE(n)))
#include "word.h"
static struct thread_data g_td;
#include "sw.h"
static thread_restart_state g_arg_ex;

/* thread_data / switch_status members: lifted bodies, inlined */
static struct thread_state get_state(struct thread_data *self)
//@LIFT get_state_body
static struct thread_state set_state(struct thread_data *self, thread_schedule_state state, thread_restart_state state_ex)
//@LIFT set_state_body
static bool set_state_tagged(struct thread_data *self, thread_schedule_state newstate, struct thread_state *prev_state, struct thread_state *new_tagged_state)
//@LIFT set_state_tagged_body
static bool restore_state_2(struct thread_data *self, thread_schedule_state new_state, thread_restart_state state_ex, struct thread_state old_state)
//@LIFT restore_state_2_body
static bool restore_state_1(struct thread_data *self, struct thread_state new_state, struct thread_state old_state)
//@LIFT restore_state_1_body
static bool switch_status_is_valid(const struct switch_status *self)
//@LIFT sw_is_valid
static thread_schedule_state switch_status_get_previous(const struct switch_status *self)
//@LIFT sw_get_previous
static void switch_status_disable_restore(struct switch_status *self)
//@LIFT sw_disable_restore
static void switch_status_ctor(struct switch_status *self, thread_id_ref_type t, struct thread_state prev_state)
//@LIFT sw_ctor
static bool switch_status_store_state(struct switch_status *self, struct thread_state *newstate)
//@LIFT sw_store_state
static void switch_status_dtor(struct switch_status *self)
//@LIFT sw_dtor
static struct thread_state switch_status_assign(struct switch_status *self, struct thread_result new_state)
//@LIFT sw_assign
static thread_id_ref_type switch_status_move_next_thread(struct switch_status *self)
//@LIFT sw_move_next_thread

/* ---- ghost archive.  The fragment takes up to three steps: switch-in, store, and set_state(pending) in the pending_boost
 * branch.  thread_data::set_state is a CAS loop whose loop contract frames the whole step log of word.h; so the log of the
 * first two steps is archived (ghost copies only) right before set_state is entered, and set_state gets a fresh log.
 * At the end of run_one the log is archived if that has not happened.  Contracts speak about the archive (A_*: switch-in,
 * store) and about the fresh log after it (B_*: the set_state(pending) step). ---- */
static bool g_arch;
static long a_lin_count, a_loads, g_set_state_calls;
static struct thread_state a1_old, a1_new, a2_old, a2_new, a_first_read;
static void ghost_archive(void)
{
  if (!g_arch) { a_lin_count = lin_count; a_loads = g_loads; a1_old = lin1_old; a1_new = lin1_new; a2_old = lin2_old; a2_new = lin2_new; a_first_read = g_first_read; g_arch = true; }
}
static long steps_so_far(void) { return (g_arch ? a_lin_count : 0) + lin_count; }
#define A_GHOST g_arch, a_lin_count, a_loads, g_set_state_calls, a1_old, a1_new, a2_old, a2_new, a_first_read
static struct thread_state set_state_after_phase(struct thread_data *p, thread_schedule_state state, thread_restart_state state_ex)
{
  ghost_archive();
  word_ghost_init();
  if (g_set_state_calls < 2) g_set_state_calls++;
  return set_state(p, state, state_ex);
}
#define B_N (g_set_state_calls == 1 ? lin_count : 0)

/* ---- free variables of the fragment ---- */
struct sched { int unused; };
static struct sched scheduler;
static struct { int64_t max_idle_loop_count_, max_busy_loop_count_; } params;
static thread_id_ref_type thrd, next_thrd;
static int64_t idle_loop_count, busy_loop_count;
static bool may_exit;
static size_t added;
static int context_storage;
static size_t g_num_thread;

/* ---- ghost trace (counters saturate at 2) ---- */
#define BUMP(c) do { if ((c) < 2) (c)++; } while (0)
static long g_entered;                  /* task body entered */
static long g_q_last, g_q, g_q_other;   /* schedule_thread_last / schedule_thread calls for the victim; any call for another id */
static long g_q_lin;                    /* own steps taken when the victim was (last) queued */
static int g_q_hint_mode; static int16_t g_q_hint; static int g_q_prio; static bool g_q_fallback;
static long g_drops;                    /* references to the victim dropped */
static long g_wait, g_dsw;
static int g_td_priority;
enum { HINT_NONE = 0, HINT_THREAD = 1, HINT_NUMA = 2 };
enum { thread_priority_unknown = -1, thread_priority_default_ = 0, thread_priority_low = 1, thread_priority_normal = 2,
       thread_priority_high_recursive = 3, thread_priority_boost = 4, thread_priority_high = 5, thread_priority_bound = 6 };
struct hint { int mode; int16_t hint; };
/* execution::thread_schedule_hint(std::int16_t thread_hint): mode = thread (thread_enums.hpp) */
static struct hint hint_thread(int16_t t) { struct hint h; h.mode = HINT_THREAD; h.hint = t; return h; }

/* std::move(id): the value is taken, the source becomes empty */
static thread_id_ref_type vx_move_tid(thread_id_ref_type *p) { thread_id_ref_type v = *p; *p = NULL; return v; }
static void tid_drop(thread_id_ref_type v) { if (v == &g_victim_tid) BUMP(g_drops); }
/* id = value: the reference held so far is dropped */
static void tid_assign(thread_id_ref_type *p, thread_id_ref_type v) { tid_drop(*p); *p = v; }
/* end of scope */
static void tid_release(thread_id_ref_type *p) { tid_drop(*p); *p = NULL; }

static struct sched *td_get_scheduler_base(struct thread_data *p) { return &scheduler; }
static int td_get_priority(struct thread_data *p) { return g_td_priority; }

static void q_record(thread_id_ref_type id, struct hint h, bool allow_fallback, int prio)
{
  g_q_lin = steps_so_far(); g_q_hint_mode = h.mode; g_q_hint = h.hint; g_q_prio = prio; g_q_fallback = allow_fallback;
}
static void sp_schedule_thread_last(thread_id_ref_type id, struct hint h, bool allow_fallback)
{
  VX_ASSERT(id != NULL, "schedule_thread_last: a task is queued, not an empty id");
  if (id == &g_victim_tid) { BUMP(g_q_last); q_record(id, h, allow_fallback, thread_priority_normal); } else BUMP(g_q_other);
}
static void sp_schedule_thread(thread_id_ref_type id, struct hint h, bool allow_fallback, int prio)
{
  VX_ASSERT(id != NULL, "schedule_thread: a task is queued, not an empty id");
  if (id == &g_victim_tid) { BUMP(g_q); q_record(id, h, allow_fallback, prio); } else BUMP(g_q_other);
}
static bool sp_wait_or_add_new(size_t num_thread, bool running, int64_t *idle, bool steal_staged, size_t *added_p)
{
  BUMP(g_wait);
  *added_p = nondet_size();
  *idle = nondet_i64();
  return nondet_bool();
}
static void sp_do_some_work(size_t num_thread) { BUMP(g_dsw); }

/* the coroutine call `(*thrdptr)(context_storage)`: T stub "task body entered" */
static struct thread_result task_body(struct thread_data *p, int ctx)
{
  struct thread_result r;
  VX_ASSERT(p == &g_td, "the task that is run is the one taken from the queue");
  VX_ASSERT(g_entered == 0, "the task body is entered at most once per iteration");
  VX_ASSERT(lin_count == 1 && W_STATE(lin1_old) == S_PENDING && W_STATE(lin1_new) == S_ACTIVE && WEQ(lin1_old, g_first_read),
            "the task body is entered only behind this worker's own successful pending -> active switch of the word it read");
  VX_ASSERT(WEQ(g_td.current_state_, lin1_new), "the task body is entered with the word this worker wrote still in place");
  BUMP(g_entered);
  /* the runner's own step inside the phase (unit other.runner_set_state_ex): state_ex := signaled, (active, tag) kept */
  g_td.current_state_ = cts_make(cts_state(&g_td.current_state_), thread_restart_state_signaled, cts_tag(&g_td.current_state_));
  r.first = nondet_i8();
  VX_ASSUME(S_ENUM(r.first));           /* a thread function returns an enumerator of thread_schedule_state */
  r.second = nondet_bool() ? &g_other_tid : NULL;   /* modelling restriction: a task never names ITSELF as the next thread */
  return r;
}

#define FIRST_READ_STATE W_STATE(a_first_read)
#define QOPS (g_q_last + g_q)
#define KEPT (next_thrd == &g_victim_tid ? 1 : 0)
#define THIS_WORKER (g_q_hint_mode == HINT_THREAD && g_q_hint == (int16_t) g_num_thread && g_q_fallback)
#define L_FRAME thrd, next_thrd, idle_loop_count, busy_loop_count, may_exit, added, g_td.current_state_, WORD_GHOST, g_entered, g_q_last, g_q, \
                g_q_other, g_q_lin, g_q_hint_mode, g_q_hint, g_q_prio, g_q_fallback, g_drops, g_wait, g_dsw, A_GHOST

//@FUNC
void run_one(size_t num_thread, bool running, bool enable_stealing_staged)
__CPROVER_requires(num_thread == g_num_thread && num_thread <= 32767 && thrd == &g_victim_tid && next_thrd == NULL && busy_loop_count >= 0 && busy_loop_count < 1000000000)
__CPROVER_requires(lin_count == 0 && g_loads == 0 && g_cas == 0 && WF(g_td.current_state_) && A_TAG(g_td.current_state_) && REAL_STATE(W_STATE(g_td.current_state_)) && g_arg_ex == E_UNKNOWN)
__CPROVER_requires(g_entered == 0 && g_q_last == 0 && g_q == 0 && g_q_other == 0 && g_drops == 0 && g_wait == 0 && g_dsw == 0 && g_q_lin == 0 && !g_arch && g_set_state_calls == 0)
/* (1) the task body is entered at most once, and only if this worker's switch pending -> active succeeded (is_valid() and
 *     previous == pending); the conditions themselves are asserted at the moment of entry (task_body) */
__CPROVER_ensures(g_entered <= 1 && (g_entered == 1 ==> (a_lin_count >= 1 && W_STATE(a1_old) == S_PENDING && W_STATE(a1_new) == S_ACTIVE && WEQ(a1_old, a_first_read))))
/* a pending task whose switch succeeded IS run (not skipped) */
__CPROVER_ensures((a_lin_count >= 1) ==> g_entered == 1)
/* (2) a failed switch-in or a refused store_state: `continue`, no queue operation, nothing kept, no further step */
__CPROVER_ensures((FIRST_READ_STATE == S_PENDING && a_lin_count == 0) ==> (g_entered == 0 && QOPS == 0 && KEPT == 0 && B_N == 0))
__CPROVER_ensures((a_lin_count == 1) ==> (QOPS == 0 && KEPT == 0 && B_N == 0))
/* (3) after a stored phase, by the state the task returned (= the state this worker published, a2_new):
 *     pending: schedule_thread_last(thrd, hint = this worker) exactly once, after the store */
__CPROVER_ensures((a_lin_count == 2 && W_STATE(a2_new) == S_PENDING) ==> (B_N == 0 && g_q_last == 1 && g_q == 0 && KEPT == 0 && THIS_WORKER && g_q_lin == 2))
/*     pending_boost: set_state(pending), then exactly one of {kept as next_thrd, schedule_thread with boost priority} */
__CPROVER_ensures((a_lin_count == 2 && W_STATE(a2_new) == S_BOOST) ==> (g_set_state_calls == 1 && B_N == 1 && W_STATE(lin_new) == S_PENDING && g_q_last == 0 && g_q + KEPT == 1))
__CPROVER_ensures((a_lin_count == 2 && W_STATE(a2_new) == S_BOOST && g_q == 1) ==> (THIS_WORKER && g_q_prio == thread_priority_boost && g_q_lin == 3))
/*     suspended: no queue operation (the thread stays only in the map) */
__CPROVER_ensures((a_lin_count == 2 && W_STATE(a2_new) == S_SUSPENDED) ==> (B_N == 0 && QOPS == 0 && KEPT == 0))
/*     terminated: no queue operation; the reference is dropped */
__CPROVER_ensures((a_lin_count == 2 && W_STATE(a2_new) == S_TERMINATED) ==> (B_N == 0 && QOPS == 0 && KEPT == 0 && g_drops == 1))
/* (4) an `active` leftover is re-queued once (this worker, the thread's own priority) and NOT run, the word untouched */
__CPROVER_ensures((FIRST_READ_STATE == S_ACTIVE) ==> (g_entered == 0 && a_lin_count == 0 && B_N == 0 && g_q == 1 && g_q_last == 0 && KEPT == 0 && THIS_WORKER && g_q_prio == g_td_priority))
/*     any other non-pending leftover is skipped: not run, not queued, the word untouched */
__CPROVER_ensures((FIRST_READ_STATE != S_PENDING && FIRST_READ_STATE != S_ACTIVE) ==> (g_entered == 0 && a_lin_count == 0 && B_N == 0 && QOPS == 0 && KEPT == 0))
/* (5) on EVERY path the one reference held in `thrd` is consumed exactly once: queued, or kept as next_thrd, or dropped */
__CPROVER_ensures(QOPS + KEPT + g_drops == 1 && thrd == NULL)
/* set_state(pending) is used by the pending_boost branch only */
__CPROVER_ensures(a_lin_count <= 2 && a_loads >= 1 && g_set_state_calls <= 1 && (g_set_state_calls == 1 ==> (a_lin_count == 2 && W_STATE(a2_new) == S_BOOST)))
__CPROVER_assigns(L_FRAME)
{
//@LIFT body
  /* end of the iteration: `thrd` (declared at the top of the loop body) goes out of scope */
  tid_release(&thrd);
  ghost_archive();
}

void harness(void)
{
  g_td.current_state_.state_ = nondet_i64();
  g_td.count_ = 2;
  word_ghost_init();
  g_arg_ex = E_UNKNOWN;
  g_num_thread = nondet_size();
  thrd = &g_victim_tid; next_thrd = NULL;
  idle_loop_count = nondet_i64(); busy_loop_count = nondet_i64(); may_exit = nondet_bool(); added = nondet_size(); context_storage = 0;
  params.max_idle_loop_count_ = nondet_i64(); params.max_busy_loop_count_ = nondet_i64();
  g_td_priority = nondet_int();
  g_entered = 0; g_q_last = 0; g_q = 0; g_q_other = 0; g_q_lin = 0; g_drops = 0; g_wait = 0; g_dsw = 0;
  g_q_hint_mode = HINT_NONE; g_q_hint = 0; g_q_prio = 0; g_q_fallback = false;
  g_arch = false; a_lin_count = 0; a_loads = 0; g_set_state_calls = 0;
  a1_old.state_ = 0; a1_new.state_ = 0; a2_old.state_ = 0; a2_new.state_ = 0; a_first_read.state_ = 0;
  run_one(g_num_thread, nondet_bool(), nondet_bool());
  if (g_entered == 1 && a_lin_count == 2 && W_STATE(a2_new) == S_PENDING) VX_REACH("ran_returned_pending_requeued_last");
  if (g_entered == 1 && g_set_state_calls == 1 && next_thrd == &g_victim_tid) VX_REACH("ran_returned_pending_boost_kept_as_next");
  if (g_entered == 1 && g_set_state_calls == 1 && g_q == 1 && next_thrd == NULL) VX_REACH("ran_returned_pending_boost_requeued_boost");
  if (g_entered == 1 && g_set_state_calls == 1 && g_q == 1 && next_thrd == &g_other_tid) VX_REACH("ran_returned_pending_boost_with_next_thread_requeued");
  if (g_entered == 1 && a_lin_count == 2 && W_STATE(a2_new) == S_SUSPENDED) VX_REACH("ran_returned_suspended_map_only");
  if (g_entered == 1 && a_lin_count == 2 && W_STATE(a2_new) == S_TERMINATED) VX_REACH("ran_returned_terminated_dropped");
  if (g_entered == 1 && a_lin_count == 1) VX_REACH("ran_store_refused_continue");
  if (g_entered == 0 && a_lin_count == 0 && FIRST_READ_STATE == S_PENDING) VX_REACH("switch_refused_continue");
  if (g_entered == 0 && FIRST_READ_STATE == S_ACTIVE) VX_REACH("active_leftover_requeued_not_run");
  if (g_entered == 0 && FIRST_READ_STATE == S_SUSPENDED) VX_REACH("suspended_leftover_skipped");
  if (g_entered == 0 && FIRST_READ_STATE == S_TERMINATED && g_drops == 1) VX_REACH("terminated_leftover_dropped");
  if (g_entered == 1 && next_thrd == &g_other_tid && a_lin_count == 2 && W_STATE(a2_new) == S_PENDING) VX_REACH("yield_to_next_thread");
}
