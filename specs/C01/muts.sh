#!/bin/bash
# C01 mutant battery (development aid; uses tools/mut.sh on a scratch copy).  usage: specs/C01/muts.sh [group-regex]
cd /verif; export VX_JOBS=${VX_JOBS:-4}
CTS=libs/pika/coroutines/include/pika/coroutines/detail/combined_tagged_state.hpp
TD=libs/pika/threading_base/include/pika/threading_base/thread_data.hpp
SL=libs/pika/thread_pools/include/pika/thread_pools/scheduling_loop.hpp
STS=libs/pika/threading_base/src/set_thread_state.cpp
TQ=libs/pika/schedulers/include/pika/schedulers/thread_queue.hpp
SF=libs/pika/threading_base/include/pika/threading_base/thread_data_stackful.hpp
G=${1:-.}
m() { # name expect file regex replacement only
  [[ "$1" =~ $G ]] || return
  out=$(tools/mut.sh C01 "$3" "$4" "$5" --only "$6" 2>&1)
  ex=$(echo "$out" | grep -o "exit=[0-9]*" | tail -1)
  first=$(echo "$out" | grep -E "FAILED|undecided:|MUTATION" | head -2 | cut -c1-230 | tr '\n' '|')
  printf "%-34s expect=%s got=%s  %s\n" "$1" "$2" "$ex" "$first"
}
# ---- U1
m U1.bp_commute 0 $CTS 'return i & tag_mask;' 'return tag_mask & i;' '^cts'
m U1.bp_tagmask_expr 0 $CTS "0x0000'ffff'ffff'ffffull" '((1ull << 48) - 1)' '^cts'
# ---- U2
m U2.set_state_no_bump 1 $TD 'if \(state != tmp\.state\(\)\) \+\+tag;' '' '^word.set_state$'
m U2.set_state_always_bump 1 $TD 'if \(state != tmp\.state\(\)\) \+\+tag;' '++tag;' '^word.set_state$'
m U2.set_state_ignores_ex 1 $TD 'state_ex == thread_restart_state::unknown \? tmp\.state_ex\(\) : state_ex;' 'tmp.state_ex();' '^word.set_state$'
m U2.set_state_returns_tmp 1 $TD 'return prev_state;(\s*\}\s*prev_state = tmp;\s*\}\s*\}\s*bool set_state_tagged)' 'return thread_state(state, state_ex, tag);\1' '^word.set_state$'
m U2.bp_set_state_spelling 0 $TD 'if \(state != tmp\.state\(\)\) \+\+tag;' 'if (tmp.state() != state) { tag += 1; }' '^word.set_state$'
m U2.tagged_no_bump 1 $TD 'prev_state\.tag\(\) \+ 1\);' 'prev_state.tag());' '^word.set_state_tagged$|^sw.ctor$|^loop'
m U2.tagged_always_true 1 $TD 'return current_state_\.compare_exchange_strong\(tmp, new_tagged_state, exchange_order\);' 'current_state_.compare_exchange_strong(tmp, new_tagged_state, exchange_order); return true;' '^word.set_state_tagged$|^sw.ctor$|^loop'
m U2.tagged_drops_ex 1 $TD 'thread_state\(newstate, prev_state\.state_ex\(\), prev_state\.tag\(\) \+ 1\)' 'thread_state(newstate, thread_restart_state::unknown, prev_state.tag() + 1)' '^word.set_state_tagged$'
m U2.restore1_ignores_tag 1 $TD 'thread_state old_tmp\(old_state\.state\(\), state_ex, old_state\.tag\(\)\);' 'thread_state old_tmp(old_state.state(), state_ex, current_state.tag());' '^word.restore_state_1$|^sw.store'
m U2.restore1_compares_ex 1 $TD 'thread_state old_tmp\(old_state\.state\(\), state_ex, old_state\.tag\(\)\);' 'thread_state old_tmp(old_state.state(), old_state.state_ex(), old_state.tag());' '^word.restore_state_1$'
m U2.restore1_no_bump 1 $TD 'if \(new_state\.state\(\) != old_state\.state\(\)\) \+\+tag;' '' '^word.restore_state_1$|^sw.store_state$'
m U2.restore2_inverted_bump 1 $TD 'if \(new_state != old_state\.state\(\)\) \+\+tag;' 'if (new_state == old_state.state()) ++tag;' '^word.restore_state_2$|^other.set_thread'
m U2.restore2_keeps_ex 1 $TD 'old_state, thread_state\(new_state, state_ex, tag\), load_exchange' 'old_state, thread_state(new_state, old_state.state_ex(), tag), load_exchange' '^word.restore_state_2$'
m U2.set_state_ex_bumps 1 $TD 'thread_state\(tmp\.state\(\), new_state, tmp\.tag\(\)\)' 'thread_state(tmp.state(), new_state, tmp.tag() + 1)' '^word.set_state_ex$|^other.runner'
m U2.set_state_ex_returns_new 1 $TD 'return prev_state\.state_ex\(\);' 'return new_state;' '^word.set_state_ex$|^other.runner'
m U2.bp_restore2_spelling 0 $TD 'if \(new_state != old_state\.state\(\)\) \+\+tag;' 'if (!(old_state.state() == new_state)) tag = tag + 1;' '^word.restore_state_2$'
# ---- U3
m U3.dtor_unconditional 1 $SL 'if \(need_restore_state_\) \{ store_state\(prev_state_\); \}' '{ store_state(prev_state_); }' '^sw.dtor$'
m U3.dtor_never 1 $SL 'if \(need_restore_state_\) \{ store_state\(prev_state_\); \}' '' '^sw.dtor$'
m U3.store_keeps_restore 1 $SL 'disable_restore\(\);(\s*if \(get_thread_id_data\(thread_\)->restore_state)' '\1' '^sw.store_state$|^sw.dtor$'
m U3.store_wrong_old 1 $SL 'restore_state\(prev_state_, orig_state_\)' 'restore_state(prev_state_, prev_state_)' '^sw.store_state'
m U3.store_reports_always 1 $SL 'newstate = prev_state_;\s*return true;\s*\}\s*return false;' 'newstate = prev_state_; return true; } newstate = prev_state_; return false;' '^sw.store_state$'
m U3.assign_no_bump 1 $SL 'prev_state_\.state_ex\(\), prev_state_\.tag\(\) \+ 1\);' 'prev_state_.state_ex(), prev_state_.tag());' '^sw.assign$'
m U3.ctor_to_pending 1 $SL 'thread_schedule_state::active, prev_state_, orig_state_\)' 'thread_schedule_state::pending, prev_state_, orig_state_)' '^sw.ctor$|^loop'
m U3.ctor_valid_always 1 $SL 'need_restore_state_\(get_thread_id_data\(thread_\)->set_state_tagged\(\s*thread_schedule_state::active, prev_state_, orig_state_\)\)' 'need_restore_state_((get_thread_id_data(thread_)->set_state_tagged(thread_schedule_state::active, prev_state_, orig_state_), true))' '^sw.ctor$|^loop'
m U3.bp_is_valid 0 $SL 'bool is_valid\(\) const \{ return need_restore_state_; \}' 'bool is_valid() const { return need_restore_state_ == true; }' '^sw|^loop'
# ---- U4
m U4.enter_without_valid 1 $SL 'thrd_stat\.is_valid\(\) &&\s*thrd_stat\.get_previous\(\) == thread_schedule_state::pending' 'thrd_stat.get_previous() == thread_schedule_state::pending' '^loop'
m U4.bp_redundant_previous 0 $SL 'thrd_stat\.is_valid\(\) &&\s*thrd_stat\.get_previous\(\) == thread_schedule_state::pending' 'thrd_stat.is_valid()' '^loop'
m U4.no_continue_after_refused_store 1 $SL '"no state change"\);\s*continue;' '"no state change");' '^loop'
m U4.no_continue_after_refused_switch 1 $SL '"no execution"\);\s*continue;' '"no execution");' '^loop'
m U4.requeue_wrong_worker 1 $SL 'schedule_thread_last\(std::move\(thrd\),\s*execution::thread_schedule_hint\(static_cast<std::int16_t>\(num_thread\)\)' 'schedule_thread_last(std::move(thrd), execution::thread_schedule_hint(static_cast<std::int16_t>(num_thread + 1))' '^loop'
m U4.requeue_suspended 1 $SL 'if \(PIKA_UNLIKELY\(state_val == thread_schedule_state::pending\)\)' 'if (PIKA_UNLIKELY(state_val == thread_schedule_state::suspended))' '^loop'
m U4.boost_without_set_state 1 $SL 'get_thread_id_data\(thrd\)->set_state\(thread_schedule_state::pending\);' '' '^loop'
m U4.boost_kept_and_queued 1 $SL 'next_thrd = std::move\(thrd\);(\s*\}\s*else\s*\{)' 'next_thrd = thrd;\1' '^loop'
m U4.leftover_suspended_requeued 1 $SL 'else if \(PIKA_UNLIKELY\(thread_schedule_state::active == state_val\)\)' 'else if (PIKA_UNLIKELY(thread_schedule_state::suspended == state_val))' '^loop'
m U4.run_active_leftover 1 $SL 'if \(PIKA_LIKELY\(thread_schedule_state::pending == state_val\)\)' 'if (PIKA_LIKELY(thread_schedule_state::pending == state_val || thread_schedule_state::active == state_val))' '^loop'
m U4.requeue_before_store 1 $SL 'if \(PIKA_UNLIKELY\(!thrd_stat\.store_state\(state\)\)\)' 'scheduler.SchedulingPolicy::do_some_work(num_thread); if (PIKA_UNLIKELY(!thrd_stat.store_state(state) && false))' '^loop'
m U4.bp_reorder_counters 0 $SL 'idle_loop_count = 0;\s*\+\+busy_loop_count;' '++busy_loop_count; idle_loop_count = 0;' '^loop'
# ---- other writers
m O.sts_no_requeue 1 $STS 'scheduler->schedule_thread\(thrd, schedulehint, false, thrd_data->get_priority\(\)\);' '' '^other.set_thread'
m O.sts_requeue_pending 1 $STS 'if \(!\(previous_state_val == thread_schedule_state::pending \|\|' 'if ((previous_state_val == thread_schedule_state::pending ||' '^other.set_thread'
m O.sts_allows_active 1 $STS 'if \(new_state == thread_schedule_state::active\)' 'if (false && new_state == thread_schedule_state::active)' '^other.set_thread'
m O.sts_writes_terminated 1 $STS 'anymore\.\s*return previous_state;' 'anymore.\n                break;' '^other.set_thread'
m O.sts_same_state_steps 1 $STS 'if \(new_state == previous_state_val\)' 'if (false && new_state == previous_state_val)' '^other.set_thread'
m O.abort_unconditional 1 $TQ 'if \(state\.state\(\) == threads::detail::thread_schedule_state::suspended &&' 'if (' '^other.abort'
m O.abort_no_schedule 1 $TQ 'PIKA_ASSERT\(thrd->count_ > 1\);\s*schedule_thread\(threads::detail::thread_id_ref_type\(thrd\)\);' 'PIKA_ASSERT(thrd->count_ > 1); if (false) schedule_thread(threads::detail::thread_id_ref_type(thrd));' '^other.abort'
m O.runner_enters_twice 1 $SF 'return coroutine_\(set_state_ex\(thread_restart_state::signaled\)\);' 'coroutine_(thread_restart_state::signaled); return coroutine_(set_state_ex(thread_restart_state::signaled));' '^other.runner'
# ---- U5 slice
m Q.push_before_count 1 $TQ '\+\+work_items_count_\.data_;(\s*#ifdef PIKA_HAVE_THREAD_QUEUE_WAITTIME.*?#else.*?)work_items_\.push\(thrd\.detach\(\), other_end\);' '\1work_items_.push(thrd.detach(), other_end); ++work_items_count_.data_;' '^queue.schedule'
m Q.push_twice 1 $TQ 'work_items_\.push\(thrd\.detach\(\), other_end\);' 'work_items_.push(thrd.detach(), other_end); work_items_.push(thrd.detach(), other_end);' '^queue.schedule'
m Q.push_no_count 1 $TQ '\+\+work_items_count_\.data_;(\s*#ifdef PIKA_HAVE_THREAD_QUEUE_WAITTIME)' '\1' '^queue.schedule'
m Q.push_wrong_end 1 $TQ 'work_items_\.push\(thrd\.detach\(\), other_end\);' 'work_items_.push(thrd.detach(), !other_end);' '^queue.schedule'
m Q.pop_dec_before 1 $TQ 'if \(0 != work_items_count && work_items_\.pop\(next_thrd, steal\)\)\s*\{\s*thrd\.reset\(next_thrd, false\);    // do not addref!\s*--work_items_count_\.data_;' '--work_items_count_.data_; if (0 != work_items_count && work_items_.pop(next_thrd, steal)) { thrd.reset(next_thrd, false);' '^queue.get_next'
m Q.pop_no_dec 1 $TQ '(thrd\.reset\(next_thrd, false\);    // do not addref!\s*)--work_items_count_\.data_;' '\1' '^queue.get_next'
m Q.pop_returns_true_always 1 $TQ '(--work_items_count_\.data_;\s*return true;\s*\}\s*#endif\s*)return false;' '\1return true;' '^queue.get_next'
m Q.pop_drops_result 1 $TQ 'thrd\.reset\(next_thrd, false\);    // do not addref!' '' '^queue.get_next'
m Q.bp_pop_order 0 $TQ 'thrd\.reset\(next_thrd, false\);    // do not addref!\s*--work_items_count_\.data_;' '--work_items_count_.data_; thrd.reset(next_thrd, false);' '^queue.get_next'
m C.census_new_writer 2 $TQ 'PIKA_ASSERT\(&thrd->get_queue<thread_queue>\(\) == this\);' 'PIKA_ASSERT(&thrd->get_queue<thread_queue>() == this); thrd->set_state(threads::detail::thread_schedule_state::terminated);' '^lemma.ownership'
# ---- the two defects found on the pinned tree (repaired in /repo by 87c27df and 1e51e15), re-introduced
m D.set_state_stale_ex 1 $TD 'thread_restart_state const new_state_ex =\s*state_ex == thread_restart_state::unknown \? tmp\.state_ex\(\) : state_ex;(\s*if \(PIKA_LIKELY\(current_state_\.compare_exchange_strong\(\s*tmp, thread_state\(state, )new_state_ex' 'if (state_ex == thread_restart_state::unknown) state_ex = tmp.state_ex();\1state_ex' '^word.set_state$'
m D.abort_all_toctou 1 $TQ 'auto const state = thrd->get_state\(\);.*?if \(state\.state\(\) == threads::detail::thread_schedule_state::suspended &&\s*thrd->restore_state\(threads::detail::thread_schedule_state::pending,\s*pika::threads::detail::thread_restart_state::abort, state\)\)\s*\{' 'if (thrd->get_state().state() == threads::detail::thread_schedule_state::suspended) { thrd->set_state(threads::detail::thread_schedule_state::pending, pika::threads::detail::thread_restart_state::abort);' '^other.abort'
