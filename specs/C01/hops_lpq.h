/* C01 U5 -- local_priority_queue_scheduler wrappers: T contracts over the thread_queue contracts of hops.h / queue.c.
 * The scheduler's queues are descriptors (kind + own/foreign); every thread_queue member the wrappers call is a T stub that
 * records WHICH queue object got the call and moves the victim exactly as the callee's contract says.
 * (Which index is computed from hint / priority is decided in specs/C10/queues.c; here: exactly-once movement.) */
#ifndef HOPS_LPQ_H
#define HOPS_LPQ_H
#include "../C01/hops.h"

struct lpqs { size_t curr_queue_, num_queues_, num_high_priority_queues_; };
/* class invariant established by the constructor (its PIKA_ASSERTs); the worker count fits the int16 hint */
#define WF(s) ((s)->num_queues_ != 0 && (s)->num_high_priority_queues_ != 0 && (s)->num_high_priority_queues_ <= (s)->num_queues_ && (s)->num_queues_ <= 0x7fff)
enum { K_NP = 0, K_HP = 1, K_LP = 2 };
struct qd { int kind; bool foreign; bool has_victim; };     /* has_victim: the victim is in THIS queue's work_items_ */
struct lpq_ghost {
  struct qd np_mine, np_other, hp_mine, hp_other, lp;
  size_t me;                                      /* the calling worker (get_next_thread) */
  long calls;                                     /* thread_queue::create_thread / schedule_thread / destroy_thread calls made (saturating) */
  int recv_kind; size_t recv_idx;
  int arg_data, arg_thrd; bool arg_id_ok, arg_ec_ok, arg_other_end;
  long v_pushes;
  long incr, decr;                                /* global activity count (decided in C05) */
  long polls_own_np, polls_own_hp, polls_lp, polls_foreign, pops, v_pops; int stage; bool pop_foreign, pop_steal, steal_flag_ok; int pop_id;
  bool own_np_staged; size_t nvictims;
  long sel;
};
static struct lpq_ghost L;
static thread_id_ref_type *g_exp_id; static struct error_code *g_exp_ec;    /* harness configuration: what the caller passed */

static void increment_global_activity_count(void) { BUMP(L.incr); }
static void decrement_global_activity_count(void) { BUMP(L.decr); }
/* curr_queue_++ on std::atomic<size_t>: other threads may have advanced the counter (any value) */
static size_t atomic_fetch_inc(size_t *p) { if (nondet_bool()) *p = nondet_size(); size_t o = *p; *p = o + 1; return o; }
/* scheduler_base::select_active_pu: replaced by the contract proved in C19 (state.select_active_pu): result < number of workers */
static size_t select_active_pu(struct lpqs *self, size_t num_thread, bool allow_fallback)
{
  VX_ASSERT(num_thread < self->num_queues_, "select_active_pu precondition: num_thread < number of workers");
  BUMP(L.sel);
  size_t r = nondet_size(); VX_ASSUME(r < self->num_queues_);     /* C19 state.select_active_pu postcondition */
  return r;
}
static struct thread_data *get_thread_id_data(thread_id_ref_type t) { return t; }

/* ---- the queue that receives a create_thread / schedule_thread call ---- */
static void recv_call(struct lpqs *self, int kind, size_t i)
{
  VX_ASSERT(L.calls == 0, "exactly one queue receives the call");
  if (kind == K_HP) VX_ASSERT(i < self->num_high_priority_queues_, "high_priority_queues_[i]: i < num_high_priority_queues_");
  if (kind == K_NP) VX_ASSERT(i < self->num_queues_, "queues_[i]: i < num_queues_");
  BUMP(L.calls); L.recv_kind = kind; L.recv_idx = i;
}
static void q_create_thread(struct lpqs *self, int kind, size_t i, struct thread_init_data *data, thread_id_ref_type *id, struct error_code *ec)
{
  recv_call(self, kind, i);
  L.arg_data = DATA_ID(data); L.arg_id_ok = (id == g_exp_id); L.arg_ec_ok = (ec == g_exp_ec);
}
/* thread_queue::schedule_thread(thrd, other_end = false): its contract (unit queue.schedule_thread) */
static void q_schedule_thread(struct lpqs *self, int kind, size_t i, thread_id_ref_type thrd, bool other_end)
{
  recv_call(self, kind, i);
  VX_ASSERT(thrd != NULL, "schedule_thread precondition: non-empty id");
  L.arg_thrd = TD_ID(thrd); L.arg_other_end = other_end;
  if (thrd == &g_victim_td)
  {
    HOP_REQUIRE(gv_mine && gv_map && !gv_queued, "schedule_thread precondition: the caller holds the thread, it is in the map of its queue and it is not queued");
    gv_queued = true; gv_mine = false; BUMP(L.v_pushes);
  }
}
#define hp_create_thread(self, i, data, id, ec) q_create_thread(self, K_HP, i, data, id, ec)
#define np_create_thread(self, i, data, id, ec) q_create_thread(self, K_NP, i, data, id, ec)
#define lp_create_thread(self, data, id, ec) q_create_thread(self, K_LP, 0, data, id, ec)
#define hp_schedule_thread(self, i, ...) q_schedule_thread_va(self, K_HP, i, __VA_ARGS__, false, 0)
#define np_schedule_thread(self, i, ...) q_schedule_thread_va(self, K_NP, i, __VA_ARGS__, false, 0)
#define lp_schedule_thread(self, ...) q_schedule_thread_va(self, K_LP, 0, __VA_ARGS__, false, 0)
#define q_schedule_thread_va(self, k, i, thrd, other_end, ...) q_schedule_thread(self, k, i, thrd, other_end)   /* bool other_end = false */

/* thrd->get_queue<thread_queue_type>().destroy_thread(thrd): the thread's OWN queue, by construction of the expression */
static struct lpqs *g_sched_of_thrd;            /* harness configuration: the scheduler the thread belongs to */
static struct lpqs *td_get_scheduler_base(struct thread_data *t) { return g_sched_of_thrd; }
static void own_queue_destroy_thread(struct lpqs *self, struct thread_data *owner, struct thread_data *thrd)
{
  VX_ASSERT(owner == thrd, "the queue asked to destroy the thread is the thread's own queue");
  VX_ASSERT(L.calls == 0, "the thread is destroyed exactly once");
  VX_ASSERT(thrd != NULL, "destroy_thread of a null thread");
  BUMP(L.calls); L.arg_thrd = TD_ID(thrd);
  if (thrd == &g_victim_td)
  {
    HOP_REQUIRE(gv_mine && gv_map && !gv_queued && !gv_term, "thread_queue::destroy_thread precondition (unit hops.tq.destroy_thread)");
    gv_term = true; gv_mine = false;
  }
}

/* ---- polling (get_next_thread) ---- */
static struct qd *np_queue(struct lpqs *self, size_t i) { VX_ASSERT(i < self->num_queues_, "queues_[i]: i < num_queues_"); return i == L.me ? &L.np_mine : &L.np_other; }
static struct qd *hp_queue(struct lpqs *self, size_t i) { VX_ASSERT(i < self->num_high_priority_queues_, "high_priority_queues_[i]: i < num_high_priority_queues_"); return i == L.me ? &L.hp_mine : &L.hp_other; }
/* thread_queue::get_next_thread(thrd, allow_stealing = false, steal = false): its contract (unit queue.get_next_thread):
 * requires an empty id; returns true IFF it removed one entry and hands out exactly that entry */
static bool tq_get_next_thread3(struct qd *q, thread_id_ref_type *thrd, bool allow_stealing, bool steal)
{
  int stage = q->foreign ? 3 : q->kind == K_HP ? 1 : q->kind == K_NP ? 2 : 4;
  VX_ASSERT(*thrd == NULL, "get_next_thread precondition: the id that receives the thread is empty (else the thread it holds is lost)");
  VX_ASSERT(L.pops == 0, "no further queue is polled after a thread was obtained");
  VX_ASSERT(stage >= L.stage, "queues are polled in the order own high priority, own normal, other workers' (stealing), low priority");
  L.stage = stage;
  if (q->foreign) { if (L.polls_foreign < 3) L.polls_foreign++; if (!steal) L.steal_flag_ok = false; }
  else { if (q->kind == K_NP) BUMP(L.polls_own_np); else if (q->kind == K_HP) BUMP(L.polls_own_hp); else BUMP(L.polls_lp); if (steal) L.steal_flag_ok = false; }
  if (nondet_bool())
  {
    bool take_victim = q->has_victim && nondet_bool();
    BUMP(L.pops); L.pop_foreign = q->foreign ? true : false; L.pop_steal = steal ? true : false;   /* (a havocked _Bool byte may be any non-zero value) */
    if (take_victim) { q->has_victim = false; gv_queued = false; gv_mine = true; BUMP(L.v_pops); *thrd = &g_victim_td; } else *thrd = &g_other_td;
    L.pop_id = TD_ID(*thrd);
    return true;
  }
  return false;
}
#define tq_get_next_thread(...) tq_get_next_thread_va(__VA_ARGS__, false, false, 0)
#define tq_get_next_thread_va(q, thrd, allow, steal, ...) tq_get_next_thread3(q, thrd, allow, steal)
static void tq_count(struct qd *q) { }
#define tq_increment_num_pending_accesses(q) tq_count(q)
#define tq_increment_num_pending_misses(q) tq_count(q)
#define tq_increment_num_stolen_from_pending(q) tq_count(q)
#define tq_increment_num_stolen_to_pending(q) tq_count(q)
static long tq_get_staged_queue_length(struct qd *q) { return (q == &L.np_mine && L.own_np_staged) ? 1 : 0; }
/* victim_threads_[num_thread].data_: filled by on_start_thread with OTHER workers' indices (trusted environment) */
static size_t victims_size(struct lpqs *self, size_t w) { return L.nvictims; }
static size_t victim_at(struct lpqs *self, size_t w, size_t k)
{ size_t v = nondet_size(); VX_ASSUME(v < self->num_queues_ && v != w); /* on_start_thread: victims are other, existing workers */ return v; }

#define LPQ_QDS_OK (L.np_mine.kind == K_NP && !L.np_mine.foreign && L.np_other.kind == K_NP && L.np_other.foreign && L.hp_mine.kind == K_HP && !L.hp_mine.foreign && \
                    L.hp_other.kind == K_HP && L.hp_other.foreign && L.lp.kind == K_LP && !L.lp.foreign && L.me == num_thread)
#define LPQ_V_OK ((L.np_mine.has_victim + L.np_other.has_victim + L.hp_mine.has_victim + L.hp_other.has_victim + L.lp.has_victim) == (gv_queued ? 1 : 0))
static void lpq_ghost_init(struct lpqs *s)
{
  L = (struct lpq_ghost){0};
  L.np_mine.kind = K_NP; L.np_other.kind = K_NP; L.np_other.foreign = true; L.hp_mine.kind = K_HP; L.hp_other.kind = K_HP; L.hp_other.foreign = true; L.lp.kind = K_LP;
  L.steal_flag_ok = true; L.me = nondet_size(); L.own_np_staged = nondet_bool(); L.nvictims = nondet_size();
  s->curr_queue_ = nondet_size(); s->num_queues_ = nondet_size(); s->num_high_priority_queues_ = nondet_size();
  g_exp_id = NULL; g_exp_ec = NULL;
}
#endif
