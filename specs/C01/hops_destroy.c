/* C01 U5 -- thread_queue::destroy_thread(thrd): (worker / last reference) -> terminated_items_.
 * The thread object is appended to terminated_items_ exactly once, terminated_items_count_ is incremented exactly once on the same path
 * (the code counts AFTER the push: the counter may under-approximate for an instant; it gates no emptiness test that matters
 * for C01, so either order is accepted), and the object is not touched afterwards: from the push on another worker may erase it from the map, recycle and
 * rebind it.  cleanup_terminated is a contract stub (unit hops.tq.cleanup_terminated).
 * Precondition (caller's duty, reference counting -- A-LIFE): destroy_thread runs when the LAST reference died, i.e. the
 * thread is in no queue; it is in the map of its own queue. */
#include "../C01/hops.h"
static int g_thrd_id;

//@FUNC
void destroy_thread(struct tq *self, struct thread_data *thrd)
__CPROVER_requires(self == g_self && thrd != NULL && TD_ID(thrd) == g_thrd_id && g_thrd_id != 0 && thrd->queue_ == Q_ID(self) && !self->mtx_.held)
__CPROVER_requires(g_term_pushes == 0 && g_term_incs == 0 && g_term_pend == 0 && g_term_owed == 0 && g_term_pops == 0 && g_term_decs == 0 && G.term_push_id == 0 && G.term_resv == 0 && g_v_term_pushes == 0)
__CPROVER_requires(TERMRANGE(self, 8) && TERMINV(self) && MAPRANGE(self, 8) && MAPINV(self) && VP_OK && g_erases == 0 && g_recycles == 0)
__CPROVER_requires(g_thrd_id == 1 ? (gv_mine && gv_map) : !gv_mine)
/* appended exactly once -- this thread -- and counted exactly once, after the push */
__CPROVER_ensures(g_term_pushes == 1 && G.term_push_id == g_thrd_id && g_term_incs == 1 && g_term_pend == 0 && G.term_resv == 0 && g_term_pops == 0 && g_term_decs == 0)
__CPROVER_ensures(g_v_term_pushes == (g_thrd_id == 1 ? 1 : 0))
/* this call removes nothing from the map and recycles nothing itself (that is the clean-up's job, under the lock) */
__CPROVER_ensures(g_erases == 0 && g_recycles == 0 && !self->mtx_.held)
__CPROVER_ensures(VP_OK && !gv_mine)
__CPROVER_assigns(g_q0, G)
//@LIFT destroy_thread_body

void harness(void)
{
  hops_ghost_init();
  hops_queue_init(&g_q0); hops_queue_init(&g_q1);
  CFG.self = 1;
  g_map = nondet_long(); g_q0.thread_map_count_ = g_map; g_term = nondet_long();
  struct thread_data *t = nondet_bool() ? &g_victim_td : &g_other_td;
  g_thrd_id = TD_ID(t);
  g_victim_td.queue_ = 1; g_other_td.queue_ = 1;
  gv_mine = (t == &g_victim_td); gv_map = nondet_bool(); gv_queued = nondet_bool(); gv_term = nondet_bool(); gv_heap = nondet_bool();
  destroy_thread(&g_q0, t);
  if (t == &g_victim_td) VX_REACH("victim_terminated"); else VX_REACH("other_terminated");
  if (G.cleanups >= 1) VX_REACH("cleanup_triggered"); else VX_REACH("no_cleanup");
  if (t == &g_victim_td && gv_heap) VX_REACH("victim_already_recycled_by_the_cleanup");
  if (t != &g_victim_td && gv_term) VX_REACH("victim_terminated_concurrently_by_another_worker");
}
