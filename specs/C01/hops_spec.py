"""C01 U5 (rest) -- the queue hops of the default scheduler (DESIGN.md section 4, "### C01", bullet U5).

Defines HOPS_UNITS / HOPS_META (merged into specs/C01/spec.py by the owner).  Self-contained: it can be exec'd on its own
(scratch property C01H) or after spec.py (the few helper names it re-defines are identical copies).
Templates: specs/C01/hops.h (the common container / ledger model) and specs/C01/hops_*.c (one function under contract each),
referenced as ../C01/hops_*.c so that the same text works from specs/C01 and from a scratch property directory.
"""
import re

from vx.lift import Lift, Sub, Call, Members, Guard, DropStmt, Rule, LiftError, match_close, split_args, read_source
from vx.run import Unit

H_TQ = "libs/pika/schedulers/include/pika/schedulers/thread_queue.hpp"
H_LPQ = "libs/pika/schedulers/include/pika/schedulers/local_priority_queue_scheduler.hpp"
H_ENUMS = "libs/pika/coroutines/include/pika/coroutines/thread_enums.hpp"
H_DIR = "../C01/"


# ---------------------------------------------------------------------------------------------------------------
# helpers (structural only)

def h_enum_defines(relpath, enum_name, prefix):
    """`enum class <enum_name> [: T] { a = v, b, ... }` read from /repo -> ["<prefix>a=<v>", ...] (-D): the templates never
    spell an enumerator value.  (Same as specs/C10 enum_defines.)"""
    try:
        src = read_source(relpath)
    except LiftError:
        return []
    m = re.search(r"enum\s+class\s+%s\b[^{;]*\{" % re.escape(enum_name), src)
    if not m:
        return []
    op = m.end() - 1
    cl = match_close(src, op, "{", "}")
    env, out, nxt = {}, [], 0
    for item in split_args(src[op + 1: cl]):
        item = item.strip()
        if not item:
            continue
        mm = re.match(r"(\w+)\s*(?:=\s*(.*))?$", item, re.S)
        if not mm:
            continue
        if mm.group(2) is not None:
            try:
                val = int(eval(mm.group(2), {"__builtins__": {}}, dict(env)))
            except Exception:
                continue
        else:
            val = nxt
        env[mm.group(1)] = val
        nxt = val + 1
        out.append("%s%s=%d" % (prefix, mm.group(1), val))
    return out


class HCall0(Call):
    """Call with n=None but WITHOUT the fixed-point re-scan (the replacement may contain the head again).  From specs/C19."""

    def __init__(self, head, template, stmt=False, n=None):
        Call.__init__(self, head, template, n, stmt)

    def apply(self, text):
        self._nested = True
        return Call.apply(self, text)


class MemberCall(Rule):
    """`[RECV->]member.method(args)` -> template; {recv} = RECV or `self` for the bare member (= this->member), {0}.. = args.
    The receiver is CAPTURED, never assumed: `addfrom->new_tasks_.pop(..)` and `new_tasks_.pop(..)` bind to different queues."""

    def __init__(self, member, method, template, n=None):
        self.member, self.method, self.template, self.n = member, method, template, n

    def apply(self, text):
        rx = re.compile(r"(?:\b(\w+)\s*->\s*|(?<![\w.>]))%s\s*\.\s*%s\s*\(" % (self.member, self.method))
        out, pos, k = [], 0, 0
        while True:
            m = rx.search(text, pos)
            if not m:
                break
            op = m.end() - 1
            cl = match_close(text, op)
            args = split_args(text[op + 1: cl])
            env = {"recv": m.group(1) or "self", "args": text[op + 1: cl].strip()}
            try:
                rep = re.sub(r"\{(\d+|args|recv)\}", lambda mo: args[int(mo.group(1))] if mo.group(1).isdigit() else env[mo.group(1)],
                             self.template(args, env) if callable(self.template) else self.template)
            except IndexError:
                raise LiftError("MemberCall(%s.%s): template needs more arguments than %r" % (self.member, self.method, args))
            out.append(text[pos: m.start()])
            out.append(rep)
            pos = cl + 1
            k += 1
        out.append(text[pos:])
        self.check(k, "MemberCall(%s.%s)" % (self.member, self.method))
        return "".join(out)


class TaskHandles(Rule):
    """every local declared `task_handle NAME` (lowered from `task_description* NAME`): `NAME->` -> `TASKP(NAME)->`"""
    n = None

    def apply(self, text):
        for name in set(re.findall(r"\btask_handle\s+(\w+)\s*=", text)):
            text = re.sub(r"(?<![\w.>])%s\s*->" % re.escape(name), "TASKP(%s)->" % name, text)
        return text


class TidLocals(Rule):
    """every local `thread_id_ref_type NAME;` (default constructed = empty): RAII-lowered with tid_release(&NAME) at every exit
    of its scope, and `std::move(NAME)` -> vx_move_tid(&NAME) (moving empties the source)."""
    n = None

    def apply(self, text):
        names = set(re.findall(r"\bthread_id_ref_type\s+(\w+)\s*;", text))
        for name in names:
            text = re.sub(r"\bstd::move\(\s*%s\s*\)" % re.escape(name), "vx_move_tid(&%s)" % name, text)
        if names:
            text = Guard(r"\bthread_id_ref_type\s+(\w+)\s*;", r"thread_id_ref_type \1 = NULL;", r"tid_release(&\1);", None).apply(text)
        return text


def _counter(m):
    recv = m.group(2) or "self"
    return "atomic_%s_%s(%s)" % ("inc" if m.group(1) == "++" else "dec", m.group(3), recv)


def h_throw(ret):
    """`PIKA_THROW_EXCEPTION(err, ...);` -> `{ vx_throw(err); return <ret>; }` (control never continues after a throw)"""
    return HCall0(r"\bPIKA_THROW_EXCEPTION", "{ vx_throw({0}); return %s; }" % ret, stmt=True)


def _sched(args, env):
    if len(args) == 1:
        return "tq_schedule_thread(self, %s, false)" % args[0]      # bool other_end = false
    if len(args) == 2:
        return "tq_schedule_thread(self, %s, %s)" % (args[0], args[1])
    raise LiftError("schedule_thread with %d arguments" % len(args))


H_NS = Sub(r"(?:::)?(?:pika::)?threads::detail::", "", None)
H_STATE_ENUM = Sub(r"\bthread_schedule_state::(\w+)", r"thread_schedule_state_\1", None)
H_STACK_ENUM = Sub(r"(?:(?:pika::)?execution::)?thread_stacksize::(\w+)", r"thread_stacksize_\1", None)
H_ERR_ENUM = Sub(r"(?:pika::)?error::(\w+)", r"error_\1", None)
H_DEFS = (h_enum_defines(H_ENUMS, "thread_schedule_state", "thread_schedule_state_") +
          h_enum_defines(H_ENUMS, "thread_stacksize", "thread_stacksize_") +
          h_enum_defines(H_ENUMS, "thread_priority", "thread_priority_") +
          h_enum_defines(H_ENUMS, "thread_schedule_hint_mode", "hint_mode_"))

# atomic counters: `++[RECV->]X_count_[.data_]` / `--...` -> atomic_inc_X_count_(RECV|self); loads -> atomic_load_X_count_
H_COUNTERS = [
    Sub(r"(\+\+|--)\s*(?:(\w+)\s*->\s*)?(\w+_count_)(?:\.data_)?(?![\w.])", _counter, None),
    Sub(r"(?:\b(\w+)\s*->\s*)?(?<![\w.>])(\w+_count_)(?:\.data_)?\.load\(\s*(?:std::memory_order\w*)?\s*\)",
        lambda m: "atomic_load_%s(%s)" % (m.group(2), m.group(1) or "self"), None),
]
H_TASKS = [
    Sub(r"\btask_description\s*\*\s*(\w+)\s*=\s*nullptr\s*;", r"task_handle \1 = 0;", None),     # task_description* -> handle (hops.h)
    Sub(r"\btask_description\s*\*\s*(\w+)\s*=", r"task_handle \1 =", None),
    TaskHandles(),
    Sub(r"\bthread_init_data\s*&\s*(\w+)\s*=\s*([^;]+);", r"struct thread_init_data *\1 = &(\2);", None),     # reference local
    Sub(r"\bdata\.", "data->", None),                                                                          # reference parameter / local
    Sub(r"\bTASKP\((\w+)\)->~task_description\(\)", r"task_destroy(\1)", None),
    MemberCall("task_description_alloc_", "deallocate", "task_dealloc({0}, {1})"),
    MemberCall("task_description_alloc_", "allocate", "task_alloc({0})"),
    Sub(r"\bnew\s*\(\s*(\w+)\s*\)\s*task_description\s*\{([^{}]*)\}", r"task_construct(\1, \2)", None),      # placement new
    MemberCall("new_tasks_", "pop", "nt_pop({recv}, &{0}, {1})"),
    MemberCall("new_tasks_", "push", "nt_push({recv}, {0})"),
]
H_IDS = [                                   # (after the rules that insert `return` statements: the guard follows them)
    TidLocals(),
    Sub(r"\b(\w+)\.noref\(\)", r"\1", None),
]
H_MAP = [
    Sub(r"std::pair<\s*thread_map_type::iterator\s*,\s*bool\s*>\s+(\w+)\s*=", r"struct map_ins \1 =", None),
    Sub(r"((?:\b\w+\s*->\s*)?)thread_map_\.find\(([^()]*)\)\s*!=\s*\1thread_map_\.end\(\)",
        lambda m: "map_contains(%s, %s)" % ((m.group(1).replace("->", "").strip() or "self"), m.group(2)), None),
    MemberCall("thread_map_", "insert", "map_insert({recv}, {0})"),
    MemberCall("thread_map_", "erase", "map_erase({recv}, {0})"),
]
H_THIS = Sub(r"\bthis\b", "self", None)


def H_LOCK_REF(name):        # a std::unique_lock passed by reference
    return [Sub(r"\b%s\.owns_lock\(\)" % name, "OWNS(%s)" % name, None), Sub(r"\b%s\.unlock\(\)" % name, "ulock_unlock(%s)" % name, None)]


# ---------------------------------------------------------------------------------------------------------------
# thread_queue::add_new -- two queue objects (receiver `self`, source `addfrom`)

ADDNEW_RULES = [H_NS, H_STATE_ENUM, H_ERR_ENUM, h_throw("0")] + H_LOCK_REF("lk") + H_TASKS + H_IDS + H_MAP + H_COUNTERS + [
    HCall0(r"(?<![\w.>])create_thread_object", "cto(self, &{0}, {1}, {2})"),
    HCall0(r"(?<![\w.>])schedule_thread", _sched),
]
ADDNEW_LOOP = """
__CPROVER_assigns(add_count, added, task, lk->owns, g_q0, g_q1, G)
__CPROVER_loop_invariant(ADDNEW_INV(self, addfrom))
"""
HOPS_UNITS = [
    Unit("hops.tq.add_new", H_DIR + "hops_addnew.c", defines=H_DEFS, enforce="add_new",
         lifts={"add_new_body": Lift(H_TQ, r"std::size_t add_new\(std::int64_t add_count, thread_queue\* addfrom,", rules=ADDNEW_RULES,
                                     loops={1: ADDNEW_LOOP, "count": 1})},
         funcs=[H_TQ + ": thread_queue::add_new"], min_obligations=60,
         doc="I+T over two queue objects (receiver, source; possibly the same): every staged task popped from addfrom->new_tasks_ "
             "gets exactly one thread object, its description is destroyed and freed once, it is inserted into the RECEIVER's "
             "thread_map_ (thread_map_count_ +1 after the insertion, before the task is un-staged), addfrom's new_tasks_count_ is "
             "decremented exactly once AFTER the pop (the counter of the queue it was popped from; the receiver's is untouched "
             "unless it is the source) and the thread is queued once in the receiver; a refused map insertion is an exception, "
             "never a silent drop; at most add_count conversions; the victim moves staged -> pending+map exactly once"),
]

# ---------------------------------------------------------------------------------------------------------------
# thread_queue::create_thread

H_UNIQUE_LOCK = Guard(r"\bstd::unique_lock<mutex_type>\s+(\w+)\(\s*mtx_\s*\)\s*;", r"struct ulock \1 = ulock_make(&self->mtx_);", r"ulock_dtor(&\1);", None)
H_EC = [
    HCall0(r"\bPIKA_THROWS_IF", "vx_throws_if({0}, {1})"),
    Sub(r"&\s*ec\b", "ec", None),                                   # error_code& -> pointer
    Sub(r"(?<![\w&.>*])ec\s*=(?!=)", "*ec =", None),
]
CREATE_RULES = [H_NS, H_STATE_ENUM, H_STACK_ENUM, H_ERR_ENUM, h_throw("")] + H_EC + [
    H_UNIQUE_LOCK,
    Sub(r"\blk\.unlock\(\)", "ulock_unlock(&lk)", None),
    Sub(r"&\s*get_thread_id_data\((\w+)\)->get_queue<thread_queue>\(\)", r"td_get_queue(\1)", None),
] + H_TASKS + H_IDS + H_MAP + H_COUNTERS + [
    HCall0(r"(?<![\w.>])create_thread_object", "cto(self, &{0}, {1}, &{2})"),
    HCall0(r"(?<![\w.>])schedule_thread", _sched),
    H_THIS,
]
HOPS_UNITS += [
    Unit("hops.tq.create_thread", H_DIR + "hops_create.c", defines=H_DEFS, enforce="create_thread",
         lifts={"create_thread_body": Lift(H_TQ, r"void create_thread\(threads::detail::thread_init_data& data,\s*threads::detail::thread_id_ref_type\* id, error_code& ec\)",
                                           rules=CREATE_RULES)},
         funcs=[H_TQ + ": thread_queue::create_thread"], min_obligations=60,
         doc="I+T: a new task takes exactly one of two roads: run_now -- one thread object made from the request with the requested "
             "initial state, inserted once into thread_map_, thread_map_count_ +1 after the insertion, queued exactly once iff the "
             "requested state is pending (else handed to the caller) -- or staged -- new_tasks_count_ +1 BEFORE one description is "
             "allocated, constructed from the request and pushed once; otherwise an error is reported (map refused: out_of_memory, "
             "nothing queued / staged; staged with a non-pending state: bad_parameter, nothing touched); lock released on every path"),
]

HOPS_META = {
    "trusted_base": [],
    "assumptions": [],
    "not_decided": [],
}
