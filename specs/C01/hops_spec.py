"""C01 U5 (rest) -- the queue hops of the default scheduler (DESIGN.md section 4, "### C01", bullet U5).

Defines HOPS_UNITS / HOPS_META (merged into specs/C01/spec.py by the owner).  Self-contained: it can be exec'd on its own
(scratch property C01H) or after spec.py (the few helper names it re-defines are identical copies).
Templates: specs/C01/hops.h (the common container / ledger model) and specs/C01/hops_*.c (one function under contract each),
referenced as ../C01/hops_*.c so that the same text works from specs/C01 and from a scratch property directory.
"""
import re

from vx.lift import Lift, Sub, Call, Members, Guard, DropStmt, Rule, LiftError, match_close, split_args, read_source
from vx.run import Unit

H_TQ = "libs/pika/schedulers/include/pika/schedulers/thread_queue.hpp"
H_LPQ = "libs/pika/schedulers/include/pika/schedulers/local_priority_queue_scheduler.hpp"
H_ENUMS = "libs/pika/coroutines/include/pika/coroutines/thread_enums.hpp"
H_DIR = "../C01/"


# ---------------------------------------------------------------------------------------------------------------
# helpers (structural only)

def h_enum_defines(relpath, enum_name, prefix):
    """`enum class <enum_name> [: T] { a = v, b, ... }` read from /repo -> ["<prefix>a=<v>", ...] (-D): the templates never
    spell an enumerator value.  (Same as specs/C10 enum_defines.)"""
    try:
        src = read_source(relpath)
    except LiftError:
        return []
    m = re.search(r"enum\s+class\s+%s\b[^{;]*\{" % re.escape(enum_name), src)
    if not m:
        return []
    op = m.end() - 1
    cl = match_close(src, op, "{", "}")
    env, out, nxt = {}, [], 0
    for item in split_args(src[op + 1: cl]):
        item = item.strip()
        if not item:
            continue
        mm = re.match(r"(\w+)\s*(?:=\s*(.*))?$", item, re.S)
        if not mm:
            continue
        if mm.group(2) is not None:
            try:
                val = int(eval(mm.group(2), {"__builtins__": {}}, dict(env)))
            except Exception:
                continue
        else:
            val = nxt
        env[mm.group(1)] = val
        nxt = val + 1
        out.append("%s%s=%d" % (prefix, mm.group(1), val))
    return out


class HCall0(Call):
    """Call with n=None but WITHOUT the fixed-point re-scan (the replacement may contain the head again).  From specs/C19."""

    def __init__(self, head, template, stmt=False, n=None):
        Call.__init__(self, head, template, n, stmt)

    def apply(self, text):
        self._nested = True
        return Call.apply(self, text)


class MemberCall(Rule):
    """`[RECV->]member.method(args)` -> template; {recv} = RECV or `self` for the bare member (= this->member), {0}.. = args.
    The receiver is CAPTURED, never assumed: `addfrom->new_tasks_.pop(..)` and `new_tasks_.pop(..)` bind to different queues."""

    def __init__(self, member, method, template, n=None):
        self.member, self.method, self.template, self.n = member, method, template, n

    def apply(self, text):
        rx = re.compile(r"(?:\b(\w+)\s*->\s*|(?<![\w.>]))%s\s*\.\s*%s\s*\(" % (self.member, self.method))
        out, pos, k = [], 0, 0
        while True:
            m = rx.search(text, pos)
            if not m:
                break
            op = m.end() - 1
            cl = match_close(text, op)
            args = split_args(text[op + 1: cl])
            env = {"recv": m.group(1) or "self", "args": text[op + 1: cl].strip()}
            try:
                rep = re.sub(r"\{(\d+|args|recv)\}", lambda mo: args[int(mo.group(1))] if mo.group(1).isdigit() else env[mo.group(1)],
                             self.template(args, env) if callable(self.template) else self.template)
            except IndexError:
                raise LiftError("MemberCall(%s.%s): template needs more arguments than %r" % (self.member, self.method, args))
            out.append(text[pos: m.start()])
            out.append(rep)
            pos = cl + 1
            k += 1
        out.append(text[pos:])
        self.check(k, "MemberCall(%s.%s)" % (self.member, self.method))
        return "".join(out)


class TaskHandles(Rule):
    """every local declared `task_handle NAME` (lowered from `task_description* NAME`): `NAME->` -> `TASKP(NAME)->`"""
    n = None

    def apply(self, text):
        for name in set(re.findall(r"\btask_handle\s+(\w+)\s*=", text)):
            text = re.sub(r"(?<![\w.>])%s\s*->" % re.escape(name), "TASKP(%s)->" % name, text)
        return text


class TidLocals(Rule):
    """every local `thread_id_ref_type NAME;` (default constructed = empty): RAII-lowered with tid_release(&NAME) at every exit
    of its scope, and `std::move(NAME)` -> vx_move_tid(&NAME) (moving empties the source)."""
    n = None

    def apply(self, text):
        names = set(re.findall(r"\bthread_id_ref_type\s+(\w+)\s*;", text))
        for name in names:
            text = re.sub(r"\bstd::move\(\s*%s\s*\)" % re.escape(name), "vx_move_tid(&%s)" % name, text)
        if names:
            text = Guard(r"\bthread_id_ref_type\s+(\w+)\s*;", r"thread_id_ref_type \1 = NULL;", r"tid_release(&\1);", None).apply(text)
        return text


def _counter(m):
    recv = m.group(2) or "self"
    return "atomic_%s_%s(%s)" % ("inc" if m.group(1) == "++" else "dec", m.group(3), recv)


def h_throw(ret):
    """`PIKA_THROW_EXCEPTION(err, ...);` -> `{ vx_throw(err); return <ret>; }` (control never continues after a throw)"""
    return HCall0(r"\bPIKA_THROW_EXCEPTION", "{ vx_throw({0}); return %s; }" % ret, stmt=True)


def _sched(args, env):
    if len(args) == 1:
        return "tq_schedule_thread(self, %s, false)" % args[0]      # bool other_end = false
    if len(args) == 2:
        return "tq_schedule_thread(self, %s, %s)" % (args[0], args[1])
    raise LiftError("schedule_thread with %d arguments" % len(args))


H_NS = Sub(r"(?:::)?(?:pika::)?threads::detail::", "", None)
H_STATE_ENUM = Sub(r"\bthread_schedule_state::(\w+)", r"thread_schedule_state_\1", None)
H_STACK_ENUM = Sub(r"(?:(?:pika::)?execution::)?thread_stacksize::(\w+)", r"thread_stacksize_\1", None)
H_ERR_ENUM = Sub(r"(?:pika::)?error::(\w+)", r"error_\1", None)
H_DEFS = (h_enum_defines(H_ENUMS, "thread_schedule_state", "thread_schedule_state_") +
          h_enum_defines(H_ENUMS, "thread_stacksize", "thread_stacksize_") +
          h_enum_defines(H_ENUMS, "thread_priority", "thread_priority_") +
          h_enum_defines(H_ENUMS, "thread_schedule_hint_mode", "hint_mode_"))

# atomic counters: `++[RECV->]X_count_[.data_]` / `--...` -> atomic_inc_X_count_(RECV|self); loads -> atomic_load_X_count_
H_COUNTERS = [
    Sub(r"(\+\+|--)\s*(?:(\w+)\s*->\s*)?(\w+_count_)(?:\.data_)?(?![\w.])", _counter, None),
    Sub(r"(?:\b(\w+)\s*->\s*)?(?<![\w.>])(\w+_count_)(?:\.data_)?\.load\(\s*(?:std::memory_order\w*)?\s*\)",
        lambda m: "atomic_load_%s(%s)" % (m.group(2), m.group(1) or "self"), None),
]
H_TASKS = [
    Sub(r"\btask_description\s*\*\s*(\w+)\s*=\s*nullptr\s*;", r"task_handle \1 = 0;", None),     # task_description* -> handle (hops.h)
    Sub(r"\btask_description\s*\*\s*(\w+)\s*=", r"task_handle \1 =", None),
    TaskHandles(),
    Sub(r"\bthread_init_data\s*&\s*(\w+)\s*=\s*([^;]+);", r"struct thread_init_data *\1 = &(\2);", None),     # reference local
    Sub(r"\bdata\.", "data->", None),                                                                          # reference parameter / local
    Sub(r"\bTASKP\((\w+)\)->~task_description\(\)", r"task_destroy(\1)", None),
    MemberCall("task_description_alloc_", "deallocate", "task_dealloc({0}, {1})"),
    MemberCall("task_description_alloc_", "allocate", "task_alloc({0})"),
    Sub(r"\bnew\s*\(\s*(\w+)\s*\)\s*task_description\s*\{([^{}]*)\}", r"task_construct(\1, \2)", None),      # placement new
    MemberCall("new_tasks_", "pop", "nt_pop({recv}, &{0}, {1})"),
    MemberCall("new_tasks_", "push", "nt_push({recv}, {0})"),
]
H_IDS = [                                   # (after the rules that insert `return` statements: the guard follows them)
    TidLocals(),
    Sub(r"\b(\w+)\.noref\(\)", r"\1", None),
]
H_MAP = [
    Sub(r"std::pair<\s*thread_map_type::iterator\s*,\s*bool\s*>\s+(\w+)\s*=", r"struct map_ins \1 =", None),
    Sub(r"((?:\b\w+\s*->\s*)?)thread_map_\.find\(([^()]*)\)\s*!=\s*\1thread_map_\.end\(\)",
        lambda m: "map_contains(%s, %s)" % ((m.group(1).replace("->", "").strip() or "self"), m.group(2)), None),
    MemberCall("thread_map_", "insert", "map_insert({recv}, {0})"),
    MemberCall("thread_map_", "erase", "map_erase({recv}, {0})"),
]
H_THIS = Sub(r"\bthis\b", "self", None)


def H_LOCK_REF(name):        # a std::unique_lock passed by reference
    return [Sub(r"\b%s\.owns_lock\(\)" % name, "OWNS(%s)" % name, None), Sub(r"\b%s\.unlock\(\)" % name, "ulock_unlock(%s)" % name, None)]


# ---------------------------------------------------------------------------------------------------------------
# thread_queue::add_new -- two queue objects (receiver `self`, source `addfrom`)

ADDNEW_RULES = [H_NS, H_STATE_ENUM, H_ERR_ENUM, h_throw("0")] + H_LOCK_REF("lk") + H_TASKS + H_IDS + H_MAP + H_COUNTERS + [
    HCall0(r"(?<![\w.>])create_thread_object", "cto(self, &{0}, {1}, {2})"),
    HCall0(r"(?<![\w.>])schedule_thread", _sched),
]
ADDNEW_LOOP = """
__CPROVER_assigns(add_count, added, task, lk->owns, g_q0, g_q1, G)
__CPROVER_loop_invariant(ADDNEW_INV(self, addfrom))
"""
HOPS_UNITS = [
    Unit("hops.tq.add_new", H_DIR + "hops_addnew.c", defines=H_DEFS, enforce="add_new",
         lifts={"add_new_body": Lift(H_TQ, r"std::size_t add_new\(std::int64_t add_count, thread_queue\* addfrom,", rules=ADDNEW_RULES,
                                     loops={1: ADDNEW_LOOP, "count": 1})},
         funcs=[H_TQ + ": thread_queue::add_new"], min_obligations=1500,
         doc="I+T over two queue objects (receiver, source; possibly the same): every staged task popped from addfrom->new_tasks_ "
             "gets exactly one thread object, its description is destroyed and freed once, it is inserted into the RECEIVER's "
             "thread_map_ (thread_map_count_ +1 after the insertion, before the task is un-staged), addfrom's new_tasks_count_ is "
             "decremented exactly once AFTER the pop (the counter of the queue it was popped from; the receiver's is untouched "
             "unless it is the source) and the thread is queued once in the receiver; a refused map insertion is an exception, "
             "never a silent drop; at most add_count conversions; the victim moves staged -> pending+map exactly once"),
]

ANA_RULES = [H_NS] + H_LOCK_REF("lk") + [
    MemberCall("thread_map_", "size", "map_size({recv})"),
    MemberCall("work_items_", "empty", "wi_empty({recv})"),
    Sub(r"\(std::numeric_limits<std::int64_t>::max\)\(\)", "INT64_MAX", None),
    Sub(r"(?<![\w.>])added\b", "(*added)", None),                                                 # reference parameter
    HCall0(r"(?<![\w.>])add_new", lambda a, env: "tq_add_new(self, %s, %s, %s, %s)" % (a[0], a[1], a[2], a[3] if len(a) > 3 else "false")),   # bool steal = false
    Members(["parameters_"]), H_THIS,
]
HOPS_UNITS += [
    Unit("hops.tq.add_new_always", H_DIR + "hops_addnew_always.c", defines=H_DEFS, enforce="add_new_always",
         lifts={"ana_body": Lift(H_TQ, r"bool add_new_always\(std::size_t& added, thread_queue\* addfrom,", rules=ANA_RULES)},
         funcs=[H_TQ + ": thread_queue::add_new_always"], min_obligations=300,
         doc="T over the contract of add_new: add_new is called at most once, with the caller's source queue and lock and "
             "an add_count that meets its precondition (-1 or >= 0); `added` grows by exactly what add_new converted; the result is "
             "'something was converted'; no call: nothing changes, result false"),
]

# ---------------------------------------------------------------------------------------------------------------
# thread_queue::create_thread

H_UNIQUE_LOCK = Guard(r"\bstd::unique_lock<mutex_type>\s+(\w+)\(\s*mtx_\s*\)\s*;", r"struct ulock \1 = ulock_make(&self->mtx_);", r"ulock_dtor(&\1);", None)
H_EC = [
    HCall0(r"\bPIKA_THROWS_IF", "vx_throws_if({0}, {1})"),
    Sub(r"&\s*ec\b", "ec", None),                                   # error_code& -> pointer
    Sub(r"(?<![\w&.>*])ec\s*=(?!=)", "*ec =", None),
]
CREATE_RULES = [H_NS, H_STATE_ENUM, H_STACK_ENUM, H_ERR_ENUM, h_throw("")] + H_EC + [
    H_UNIQUE_LOCK,
    Sub(r"\blk\.unlock\(\)", "ulock_unlock(&lk)", None),
    Sub(r"&\s*get_thread_id_data\((\w+)\)->get_queue<thread_queue>\(\)", r"td_get_queue(\1)", None),
] + H_TASKS + H_IDS + H_MAP + H_COUNTERS + [
    HCall0(r"(?<![\w.>])create_thread_object", "cto(self, &{0}, {1}, &{2})"),
    HCall0(r"(?<![\w.>])schedule_thread", _sched),
    H_THIS,
]
HOPS_UNITS += [
    Unit("hops.tq.create_thread", H_DIR + "hops_create.c", defines=H_DEFS, enforce="create_thread",
         lifts={"create_thread_body": Lift(H_TQ, r"void create_thread\(threads::detail::thread_init_data& data,\s*threads::detail::thread_id_ref_type\* id, error_code& ec\)",
                                           rules=CREATE_RULES)},
         funcs=[H_TQ + ": thread_queue::create_thread"], min_obligations=900,
         doc="I+T: a new task takes exactly one of two roads: run_now -- one thread object made from the request with the requested "
             "initial state, inserted once into thread_map_, thread_map_count_ +1 after the insertion, queued exactly once iff the "
             "requested state is pending (else handed to the caller) -- or staged -- new_tasks_count_ +1 BEFORE one description is "
             "allocated, constructed from the request and pushed once; otherwise an error is reported (map refused: out_of_memory, "
             "nothing queued / staged; staged with a non-pending state: bad_parameter, nothing touched); lock released on every path"),
]

# ---------------------------------------------------------------------------------------------------------------
# thread_queue::destroy_thread / cleanup_terminated_locked / cleanup_terminated

H_BARE_COUNTER = Sub(r"(?<![\w.>+\-])(terminated_items_count_|thread_map_count_)\b(?!\s*(?:\.|\())", r"atomic_load_\1(self)", None)   # implicit atomic load
H_TERM = [
    Sub(r"&\s*(\w+)->get_queue<thread_queue>\(\)", r"td_get_queue(\1)", None),
    MemberCall("terminated_items_", "push", "term_push({recv}, {0})"),
    MemberCall("terminated_items_", "pop", "term_pop_h({recv}, &{0})"),
    Sub(r"\bthread_data\s*\*\s*(\w+)\s*;", r"td_handle \1 = 0;", None),                       # thread_data* local -> handle (hops.h)
    Sub(r"\bthread_id_type\s+(\w+)\(\s*(\w+)\s*\)\s*;", r"thread_id_type \1 = TDP(\2);", None),
    Sub(r"\(std::(min|max)\)\s*\(", lambda m: "VX_%s(" % m.group(1).upper(), None),
]
DESTROY_RULES = [H_NS] + H_TERM + H_COUNTERS + [H_BARE_COUNTER, HCall0(r"(?<![\w.>])cleanup_terminated", "tq_cleanup_terminated(self, {0})"),
                                                Members(["parameters_"]), H_THIS]
CTL_RULES = [H_NS] + H_TERM + H_MAP + H_COUNTERS + [H_BARE_COUNTER, HCall0(r"(?<![\w.>])recycle_thread", "tq_recycle_thread(self, {0})"),
                                                   Members(["parameters_"])]
CTL_LOOP1 = """
__CPROVER_assigns(todelete, g_q0, G)
__CPROVER_loop_invariant(CTL_INV(self))
"""
CTL_LOOP2 = """
__CPROVER_assigns(todelete, delete_count, g_q0, G)
__CPROVER_loop_invariant(CTL_INV(self) && delete_count >= 0)
"""
H_LOCK_GUARD = Guard(r"\bstd::lock_guard<mutex_type>\s+(\w+)\(\s*mtx_\s*\)\s*;", r"mon_acquire(&self->mtx_);", r"mon_release(&self->mtx_);", None)
CT_RULES = [H_NS, H_LOCK_GUARD] + H_COUNTERS + [HCall0(r"(?<![\w.>])cleanup_terminated_locked", "tq_cleanup_terminated_locked(self, {0})"),
                                               Sub(r"\bwhile\s*\(\s*true\s*\)", "while (1)", None)]
CT_LOOP = """
__CPROVER_assigns(g_q0, G)
__CPROVER_loop_invariant(!LOCKED(self) && G.ctl_calls >= 0 && G.ctl_calls <= VX_BIG && (G.ctl_calls == 0 || !G.ctl_last) && TERMRANGE(self, 8) && TERMINV(self) && MAPRANGE(self, 8) && MAPINV(self) && VP_OK && !gv_mine)
"""
HOPS_UNITS += [
    Unit("hops.tq.destroy_thread", H_DIR + "hops_destroy.c", defines=H_DEFS, enforce="destroy_thread",
         lifts={"destroy_thread_body": Lift(H_TQ, r"void destroy_thread\(threads::detail::thread_data\* thrd\)", rules=DESTROY_RULES)},
         funcs=[H_TQ + ": thread_queue::destroy_thread"], min_obligations=300,
         doc="I+T: the terminated thread is appended to terminated_items_ exactly once, terminated_items_count_ +1 exactly once on the "
             "same path, the object is not touched after the push (it may be recycled at once), nothing is erased or recycled by this "
             "call itself; never a thread that is still queued (precondition: last reference died)"),
    Unit("hops.tq.cleanup_terminated_locked", H_DIR + "hops_cleanup.c", defines=H_DEFS, enforce="cleanup_terminated_locked",
         lifts={"ctl_body": Lift(H_TQ, r"bool cleanup_terminated_locked\(bool delete_all = false\)", rules=CTL_RULES,
                                 loops={1: CTL_LOOP1, 2: CTL_LOOP2, "count": 2})},
         funcs=[H_TQ + ": thread_queue::cleanup_terminated_locked"], min_obligations=600,
         doc="I+T, both drain loops under loop contract: every thread popped from terminated_items_ is counted out of "
             "terminated_items_count_ once (after the pop), erased from thread_map_ once, recycled once and counted out of "
             "thread_map_count_ once (after the erase); the victim is popped at most once and then ends on a free list, out of the "
             "map; a thread that is not popped is not touched; the authors' assertions (in the map; count >= 0) hold"),
    Unit("hops.tq.cleanup_terminated", H_DIR + "hops_cleanup2.c", defines=H_DEFS, enforce="cleanup_terminated",
         lifts={"ct_body": Lift(H_TQ, r"bool cleanup_terminated\(bool delete_all = false\)", rules=CT_RULES, loops={1: CT_LOOP, "count": 1})},
         funcs=[H_TQ + ": thread_queue::cleanup_terminated"], min_obligations=400,
         doc="T over the contract of cleanup_terminated_locked: every pass runs with mtx_ held, the lock is released "
             "between passes and on every exit; `true` only when a pass or the first counter read reported nothing left"),
]

# ---------------------------------------------------------------------------------------------------------------
# thread_queue::recycle_thread / create_thread_object -- once-ness (size classes: specs/C12/heap.c; rules as in specs/C12/spec.py)

H_HEAPS = ["parameters_", "thread_heap_small_", "thread_heap_medium_", "thread_heap_large_", "thread_heap_huge_", "thread_heap_nostack_"]


def _tid_method(args, env):
    a = env["args"]                                  # get_thread_id_data(x)->name(args) -> thread_name(x[, args])
    return "thread_%s(%s%s)" % (env["h2"], env["h1"], (", " + a) if a else "")


HEAP_RULES = [
    H_NS, H_STATE_ENUM,
    Sub(r"\bthread_id_addref::(\w+)", r"thread_id_addref_\1", None),
    HCall0(r"\bget_thread_id_data\(([^()]*)\)->(\w+)", _tid_method),
    Sub(r"\b(thread_heap_\w+_)\.push_back\(", r"heap_push_back(&\1, ", None),                  # std::vector::push_back
    Sub(r"\b(\w+)->(empty|back|pop_back)\(\)", r"heap_\2(\1)", None),                            # std::vector through the heap pointer
    Sub(r"\bthread_heap_type\s*\*", "struct heap*", None),
    Sub(r"(?<!struct )\bthread_data\s*\*", "struct thread_data*", None),
    Sub(r"\bthread_data_(stackless|stackful)::create\(", r"create_\1(", None),
    Call(r"\bthread_id_ref_type(?=\s*\()", "id_ref_make({args})", None),
    Sub(r"\bdata\.", "data->", None),
    Call(r"\bdata->scheduler_base->get_stack_size", "scheduler_get_stack_size(data, {args})", None),
    Sub(r"\blk\.owns_lock\(\)", "OWNS(lk)", None),
    Guard(r"(?:pika::)?(?:detail::)?unlock_guard\s*(?:<[^;()]*>)?\s*\w+\s*\(\s*(\w+)\s*\)\s*;", r"heap_unlock_guard(self, \1);", r"ulock_lock(\1);", None),
    H_THIS,
]
HEAP_LIFTS = {
    "recycle_thread_body": Lift(H_TQ, r"void recycle_thread\(threads::detail::thread_id_type thrd\)", rules=HEAP_RULES + [Members(H_HEAPS, optional=H_HEAPS)]),
    "create_thread_object_body": Lift(H_TQ, r"void create_thread_object\(\s*threads::detail::thread_id_ref_type& thrd,", rules=HEAP_RULES + [
        Sub(r"(?<![\w.>&*])thrd\b", "(*thrd)", None), Members(H_HEAPS, optional=H_HEAPS)]),
}
HOPS_UNITS += [
    Unit("hops.heap.recycle_thread", H_DIR + "hops_heap_recycle.c", defines=H_DEFS, enforce="recycle_thread",
         lifts={"recycle_thread_body": HEAP_LIFTS["recycle_thread_body"]},
         funcs=[H_TQ + ": thread_queue::recycle_thread"], min_obligations=400,
         doc="T: the object is pushed onto exactly one free list exactly once; the victim object is never on a free list twice and "
             "only after it left every queue (all configurations of the five sizes; which list: C12 heap.*)"),
    Unit("hops.heap.create_thread_object", H_DIR + "hops_heap_create.c", defines=H_DEFS, enforce="create_thread_object",
         lifts={"create_thread_object_body": HEAP_LIFTS["create_thread_object_body"]},
         funcs=[H_TQ + ": thread_queue::create_thread_object"], min_obligations=700, solver=["--sat-solver", "cadical"],
         doc="T: exactly one object is handed out -- taken off a free list by the single pop_back after the back() that chose it, "
             "and rebound, or newly created; the victim object is handed out only by the pop that removed "
             "it (then it is on no free list); lock held again at exit; the object starts in the requested state "
             "(pending_do_not_schedule / pending_boost as pending)"),
]

# ---------------------------------------------------------------------------------------------------------------
# local_priority_queue_scheduler wrappers (T over the thread_queue contracts)


class HMethod(Rule):
    """member call `RECV.name(args)` / `RECV->name(args)` -> template(name, recv_lvalue, args).  From specs/C19 / C10."""

    def __init__(self, names, template, n=None):
        self.names, self.template, self.n = names, template, n

    @staticmethod
    def _recv_start(text, dot):
        i = dot
        while True:
            if i >= 1 and text[i - 1] in ")]":
                close = text[i - 1]
                open_ = "(" if close == ")" else "["
                depth, q = 0, i - 1
                while q >= 0:
                    if text[q] == close:
                        depth += 1
                    elif text[q] == open_:
                        depth -= 1
                        if depth == 0:
                            break
                    q -= 1
                if q < 0:
                    raise LiftError("HMethod: unbalanced receiver")
                i = q
                continue
            mm = re.search(r"\w+$", text[:i])
            if mm:
                i = mm.start()
                if text[i - 2: i] in ("::", "->"):
                    i -= 2
                    continue
                if text[i - 1: i] == ".":
                    i -= 1
                    continue
            break
        return i

    def apply(self, text):
        k, scan = 0, 0
        rx = re.compile(r"(\.|->)(%s)\s*\(" % "|".join(self.names))
        while True:
            m = rx.search(text, scan)
            if not m:
                break
            rs = self._recv_start(text, m.start())
            recv = text[rs: m.start()].strip()
            if not recv:
                raise LiftError("HMethod(%s): empty receiver" % m.group(2))
            recv = "(%s)" % recv if m.group(1) == "->" else "&(%s)" % recv
            op = m.end() - 1
            cl = match_close(text, op)
            rep = self.template(m.group(2), recv, [a for a in split_args(text[op + 1: cl]) if a])
            text = text[:rs] + rep + text[cl + 1:]
            scan = rs + len(rep)
            k += 1
        self.check(k, "HMethod(%s)" % "|".join(self.names))
        return text


H_PRIO_ENUM = Sub(r"(?:(?:pika::)?execution::)?thread_priority::(\w+)", r"thread_priority_\1", None)
H_HINT_ENUM = Sub(r"(?:(?:pika::)?execution::)?thread_schedule_hint_mode::(\w+)", r"hint_mode_\1", None)
H_LPQ_MEMBERS = Members(["num_queues_", "num_high_priority_queues_"], optional=["num_queues_", "num_high_priority_queues_"])
LPQ_PLACE_RULES = [
    Sub(r"(?:pika::threads::detail::)?(increment|decrement)_global_activity_count\(\)", r"\1_global_activity_count()", None),
    Sub(r"std::size_t\(\s*(-?\w+)\s*\)", r"((size_t) \1)", None), H_PRIO_ENUM, H_HINT_ENUM,
    Sub(r"\bdata\.", "data->", None),
    Sub(r"\bcurr_queue_\s*\+\+", "atomic_fetch_inc(&self->curr_queue_)", None),
    Sub(r"std::unique_lock<pu_mutex_type>\s+(\w+)\s*;", r"int \1 = 0;", None),
    Call(r"\bselect_active_pu", lambda a, env: "select_active_pu(self, %s, %s)" % (a[1], a[2] if len(a) > 2 else "false"), None),
    # which container receives which call with which index is the code's; the rules only bind container -> stub
    Sub(r"\bhigh_priority_queues_\[([^\]]+)\]\.data_->(create_thread|schedule_thread)\(", r"hp_\2(self, \1, ", None),
    Sub(r"\bqueues_\[([^\]]+)\]\.data_->(create_thread|schedule_thread)\(", r"np_\2(self, \1, ", None),
    Sub(r"\blow_priority_queue_\.(create_thread|schedule_thread)\(", r"lp_\1(self, ", None),
    Sub(r"\bauto\s*\*", "void *", None),
    Sub(r"\b(\w+)->get_scheduler_base\(\)", r"td_get_scheduler_base(\1)", None),
    Sub(r"\b(\w+)->get_queue<thread_queue_type>\(\)\.destroy_thread\(([^()]*)\)", r"own_queue_destroy_thread(self, \1, \2)", None),
    H_LPQ_MEMBERS, H_THIS,
]
LPQ_POLL_RULES = [
    Sub(r"\bthread_queue_type\s*\*", "struct qd *", None),
    Sub(r"\bhigh_priority_queues_\[([^\]]+)\]\.data_", r"hp_queue(self, \1)", None),
    Sub(r"\bqueues_\[([^\]]+)\]\.data_", r"np_queue(self, \1)", None),
    Sub(r"\blow_priority_queue_(?=\.)", "L.lp", None),
    HMethod(["get_next_thread", "increment_num_pending_accesses", "increment_num_pending_misses", "increment_num_stolen_from_pending",
             "increment_num_stolen_to_pending", "get_staged_queue_length"], lambda name, recv, args: "tq_%s(%s)" % (name, ", ".join([recv] + args))),
    Sub(r"for\s*\(\s*std::size_t\s+(\w+)\s*:\s*victim_threads_\[(\w+)\]\.data_\s*\)\s*\{",
        r"for (size_t vx_it = 0; vx_it != victims_size(self, \2); ++vx_it) { size_t \1 = victim_at(self, \2, vx_it);", None),
    H_LPQ_MEMBERS,
]
LPQ_STEAL_LOOP = """
__CPROVER_assigns(vx_it, L, G, *thrd)
__CPROVER_loop_invariant(L.pops == 0 && L.v_pops == 0 && *thrd == NULL && L.stage <= 3 && L.polls_foreign >= 0 && L.polls_foreign <= 3 && (enable_stealing || L.polls_foreign == 0) && \
  L.polls_own_np <= 1 && L.polls_own_hp <= 1 && L.polls_lp == 0 && L.calls == 0 && VP_OK && !gv_mine && LPQ_QDS_OK && LPQ_V_OK)
"""
H_LPQ_F = H_LPQ + ": local_priority_queue_scheduler::"
HOPS_UNITS += [
    Unit("hops.lpq.create_thread", H_DIR + "hops_lpq_create.c", defines=H_DEFS, enforce="create_thread",
         lifts={"body": Lift(H_LPQ, r"void create_thread\(threads::detail::thread_init_data& data,", rules=LPQ_PLACE_RULES)},
         funcs=[H_LPQ_F + "create_thread"], min_obligations=150,
         doc="T: exactly one thread_queue::create_thread is called, with the caller's request, id and error_code passed through "
             "(index in bounds; which queue: C10 lpq.create_thread); activity count +1 once"),
    Unit("hops.lpq.schedule_thread", H_DIR + "hops_lpq_sched.c", defines=H_DEFS, enforce="schedule_thread",
         lifts={"body": Lift(H_LPQ, r"void schedule_thread\(threads::detail::thread_id_ref_type thrd,", rules=LPQ_PLACE_RULES)},
         funcs=[H_LPQ_F + "schedule_thread"], min_obligations=120,
         doc="T over the contract of thread_queue::schedule_thread: exactly one queue receives the call, with exactly the thread "
             "passed in; the victim becomes pending exactly once"),
    Unit("hops.lpq.schedule_thread_last", H_DIR + "hops_lpq_sched.c", defines=H_DEFS + ["U_LAST"], enforce="schedule_thread",
         lifts={"body": Lift(H_LPQ, r"void schedule_thread_last\(threads::detail::thread_id_ref_type thrd,", rules=LPQ_PLACE_RULES)},
         funcs=[H_LPQ_F + "schedule_thread_last"], min_obligations=120,
         doc="T: same contract for schedule_thread_last (the thread goes to the other end of exactly one queue)"),
    Unit("hops.lpq.destroy_thread", H_DIR + "hops_lpq_destroy.c", defines=H_DEFS, enforce="destroy_thread",
         lifts={"body": Lift(H_LPQ, r"void destroy_thread\(threads::detail::thread_data\* thrd\) override", rules=LPQ_PLACE_RULES)},
         funcs=[H_LPQ_F + "destroy_thread"], min_obligations=60,
         doc="T over the contract of thread_queue::destroy_thread: the thread is handed exactly once to its OWN queue; activity count "
             "-1 once"),
    Unit("hops.lpq.get_next_thread", H_DIR + "hops_lpq_next.c", defines=H_DEFS, enforce="get_next_thread",
         lifts={"body": Lift(H_LPQ, r"bool get_next_thread\(std::size_t num_thread, bool running,", rules=LPQ_POLL_RULES,
                             loops={1: LPQ_STEAL_LOOP, "count": 1})},
         funcs=[H_LPQ_F + "get_next_thread"], min_obligations=250,
         doc="T over the contract of thread_queue::get_next_thread: a thread is returned IFF exactly one pop succeeded, it is the "
             "popped one, and the id is empty otherwise; every poll is made with an empty id (nothing held can be overwritten); "
             "after a success nothing else is polled; order own high, own normal, stolen, "
             "low; nothing is put back; the victim reaches the worker only through that single pop"),
]

# ---------------------------------------------------------------------------------------------------------------
# lemma over the hop contracts
HOPS_UNITS += [
    Unit("hops.lemma.one_place", H_DIR + "hops_lemma.c", defines=H_DEFS, kind="lemma", min_obligations=800,
         funcs=["(contract stubs of specs/C01/hops.h and hops_lpq.h = the hop contracts the hops.* units are proved against)"],
         doc="lemma over the hop contracts: from any state with the victim in exactly one place, any single hop whose precondition "
             "holds (staged push / pop, object creation, map insert, schedule_thread, get_next_thread pop, destroy, terminated pop, "
             "erase + recycle, free-list push / pop) leaves it in exactly one place; no hop makes it vanish or duplicates it; it "
             "comes into somebody's hands only by a pop that returned it; a pending thread leaves the queue only into the hands of "
             "the worker whose single get_next_thread pop returned it"),
]

HOPS_META = {
    "explanation":
        "U5 (rest) hops.*: ONE symbolic victim task is followed through the containers of the default scheduler's thread_queue "
        "(new_tasks_, thread_map_, work_items_ behind the contract of schedule_thread / get_next_thread, terminated_items_, the "
        "five free lists) with one membership bit per container plus `in the hands of the call under verification`; every "
        "container stub asserts its counter discipline AT the operation and re-checks `the victim is in exactly one place`. "
        "hops.tq.* / hops.heap.*: I+T contracts of thread_queue::add_new (two queue objects), add_new_always, create_thread, "
        "destroy_thread, cleanup_terminated_locked, cleanup_terminated, recycle_thread, create_thread_object; hops.lpq.*: T "
        "contracts of the local_priority_queue_scheduler wrappers over those; hops.lemma.one_place: any single hop keeps the victim "
        "in exactly one place and hands it to somebody only by a pop that returned it. These compose with the state-word units "
        "(U2/U3/U4) only ON PAPER: `entered exactly once` = (single successful pop, here) + (single successful pending->active "
        "CAS, U2-U4) + history induction over several words and containers (DESIGN 3.4), which is not machine checked.",
    "trusted_base": [
        "specs/C01/hops.h nt_interfere / term_interfere / hops_at_acquire: VX_ASSUME(ledger invariant && VP_OK) -- the other workers keep "
        "new_tasks_count_ >= entries (+ their own in-flight operations), thread_map_count_ == entries whenever mtx_ is free, the "
        "victim in exactly one place; they may take a victim that is not in this call's hands along any edge, but never stage a "
        "victim again; while the caller holds mtx_ nobody pops terminated_items_ or touches thread_map_ / the free lists",
        "specs/C01/hops.h containers: new_tasks_ / terminated_items_ (lock-free queues: push always succeeds, pop may fail spuriously and "
        "returns an element that is in the queue), thread_map_ (std::unordered_set: insert fails iff present -- other ids may be "
        "refused nondeterministically so that the defensive path stays reachable; erase returns 1 iff present; every OTHER id popped "
        "from terminated_items_ is in the map), thread_heap_* (std::vector: back() / pop_back() talk about the same element) are "
        "ghost counts + ONE victim membership bit; VX_ASSUME bounds: ghost counts and counters below 10^9 / 2*10^9",
        "specs/C01/hops.h cto / tq_schedule_thread / tq_recycle_thread / tq_cleanup_terminated / tq_cleanup_terminated_locked / tq_add_new: "
        "hand-written contract stubs that restate the contracts proved by hops.heap.create_thread_object, queue.schedule_thread, "
        "hops.heap.recycle_thread, hops.tq.cleanup_terminated, hops.tq.cleanup_terminated_locked, hops.tq.add_new (not "
        "--replace-call-with-contract: the contracts speak about ghost event counters); hops.lemma.one_place cross-checks the "
        "victim parts of these stubs against each other",
        "specs/C01/hops.h task_alloc / task_construct / task_destroy / task_dealloc (allocator + placement new + destructor as "
        "exactly-once counters; allocation never fails), vx_throw / vx_throws_if (exception = flag + immediate return; error_code "
        "written), vx_move_tid / tid_release (std::move empties a thread_id_ref_type local; a local that still holds the thread at "
        "scope exit is an obligation unless an error was reported), get_self_stacksize_enum (VX_ASSUME: never `current`, its own "
        "PIKA_ASSERT), thread_rebind / create_stackful / create_stackless / scheduler_get_stack_size (recording stubs), monitor.h "
        "std::unique_lock / lock_guard / unlock_guard lowering",
        "specs/C01/hops_lpq.h: select_active_pu (VX_ASSUME(result < num_queues_): C19 state.select_active_pu), atomic_fetch_inc (curr_queue_++ "
        "after arbitrary interference), victim_at (VX_ASSUME: victim indices are other, existing workers: on_start_thread), "
        "q_create_thread / q_schedule_thread / own_queue_destroy_thread / tq_get_next_thread3: T stubs restating the contracts of "
        "hops.tq.create_thread, queue.schedule_thread, hops.tq.destroy_thread, queue.get_next_thread",
        "hops_spec.py helper rules defined locally: MemberCall ([RECV->]member.method(args) with the receiver captured), TaskHandles / "
        "task_handle / td_handle (a `task_description*` / `thread_data*` local that is assigned inside a loop is lowered to a small "
        "integer handle: a pointer in a dfcc loop frame is havocked to an invalid pointer and blows the instance up), TidLocals "
        "(RAII lowering of thread_id_ref_type locals), HCall0, HMethod, h_enum_defines (enumerator values read from /repo)",
    ],
    "assumptions": [
        "A-LIFE (caller's duty): thread_queue::destroy_thread runs when the last reference to the thread died, i.e. the thread is in no "
        "queue and in the map of its own queue (precondition of hops.tq.destroy_thread / hops.lpq.destroy_thread; reference counting "
        "itself is not modelled: ids are plain pointers)",
        "every staged task description has initial_state == pending (established by hops.tq.create_thread: anything else is refused with "
        "bad_parameter; assumed by the new_tasks_.pop stub, used for PIKA_ASSERT(schedule_now) in add_new)",
        "thread_queue_init_parameters used in arithmetic are in [0, 10^9] (min/max_add_new_count_, max_thread_count_; "
        "min_delete_count_ >= 0): they come unchecked from the configuration; a negative min_delete_count_ makes the bounded "
        "clean-up loop unbounded",
        "fewer than 10^9 conversions / pops / recycles per call and fewer than 10^9 entries per container (ghost arithmetic without "
        "overflow); add_new is entered with add_count >= -1 (its callers: hops.tq.add_new_always)",
        "PIKA_ASSERT(id != nullptr) in create_thread (a thread that is not scheduled must be returned) and "
        "PIKA_ASSERT(thrd->get_scheduler_base() == this) / &thrd->get_queue() == this in destroy_thread are the callers' duty "
        "(preconditions)",
        "loop contracts are keyed by local names of the lifted text (add_count, added, task, todelete, delete_count, thrd): renaming "
        "one of these is an extraction failure (exit 2), never a false alarm",
        "hops.heap.create_thread_object uses CaDiCaL (MiniSat does not terminate on this instance; same observation as C12 heap.*)",
    ],
    "not_decided": [
        "composition of the hops with each other and with the state word (history induction, paper): in particular that the waker / "
        "runner that calls schedule_thread really holds the thread (U2-U4) and that reference counting keeps a queued thread alive",
        "counter disciplines observed but NOT required: terminated_items_count_ is incremented AFTER the push (destroy_thread), so "
        "cleanup_terminated_locked may report 'nothing left' while a just-terminated thread is already in terminated_items_ -- only "
        "delays recycling; either order is accepted. create_thread (staged) increments new_tasks_count_ BEFORE it allocates and "
        "constructs the description: if that allocation throws, the counter stays incremented for ever (allocation failure is not "
        "modelled). Initial state pending_boost with run_now creates a pending thread that is NOT queued (treated like "
        "pending_do_not_schedule; the staged road refuses it)",
        "which end of a container is used (other_end / steal flags), how many tasks are converted or recycled per pass, when "
        "destroy_thread triggers a clean-up: scheduling policy",
        "move_work_items_from / move_task_items_from, wait_or_add_new, abort_all_suspended_threads' queueing (other.c covers its state "
        "step), on_start_thread's pre-allocation, ~thread_queue; the other scheduling policies and queue_holder_thread",
    ],
}
