/* C01 -- C view of switch_status (scheduling_loop.hpp) and of thread ids (opaque tokens). */
#ifndef C01_SW_H
#define C01_SW_H
struct vx_tid { int unused; };
typedef struct vx_tid *thread_id_ref_type;            /* thread_id_ref_type / thread_id_type: opaque token, NULL = empty id */
static struct vx_tid g_victim_tid;                    /* the id of g_td */
static struct vx_tid g_other_tid;                     /* some other thread */
struct thread_result { thread_schedule_state first; thread_id_ref_type second; };   /* thread_result_type = std::pair<..> */
struct switch_status {
  thread_id_ref_type thread_;                         /* thread_id_ref_type const& thread_ */
  struct thread_state prev_state_;
  struct thread_state orig_state_;
  thread_id_ref_type next_thread_id_;
  bool need_restore_state_;
};
/* get_thread_id_data(id): the thread_data behind an id (trusted: ids are opaque, only the victim's object is modelled) */
static struct thread_data *get_thread_id_data(thread_id_ref_type id)
{
  VX_ASSERT(id == &g_victim_tid, "get_thread_id_data: the id of the thread object under consideration");
  return &g_td;
}
#endif
