/* C01 U5 (rest) -- the "queue hops" of the default scheduler's thread_queue: common model of the hops_*.c templates.
 *
 * ONE symbolic victim task is followed through the containers of a thread_queue.  Each container is a contract stub that
 * keeps (a) a ghost entry count, (b) ONE membership bit for the victim, (c) a ledger tying the container to its counter:
 *
 *   new_tasks_        (lock-free, staged task descriptions)   q->gs_entries  q->gs_victim   counter  new_tasks_count_
 *   thread_map_       (std::unordered_set, under mtx_)        g_map          gv_map         counter  thread_map_count_
 *   work_items_       (lock-free, pending threads)            behind the contract of thread_queue::schedule_thread (queue.c): gv_queued
 *   terminated_items_ (lock-free)                             g_term         gv_term        counter  terminated_items_count_
 *   thread_heap_*     (std::vector free lists, under mtx_)    gv_heap
 *   gv_mine           the victim is in the hands of the call under verification (popped / created / passed in, not yet
 *                     published again): nobody else can move it
 *
 * "In exactly one place at every instant" = VP_OK after every container operation of the call (asserted by the stubs):
 *   staged | in this call's hands | map+pending | map only (suspended / run by a worker) | map+terminated | recycled (heap)
 * Counter disciplines (what the code really does; asserted at the operation, never only at exit):
 *   new_tasks_count_        ++ BEFORE push, -- AFTER pop:   counter >= entries at every instant (it gates wait_or_add_new's
 *                           "nothing staged" test).  The staged ledger lives IN the queue object: add_new works on two.
 *   thread_map_count_       insert, then ++ ; erase, then -- ; both under mtx_: counter == entries whenever the lock is released
 *   terminated_items_count_ push, then ++ (destroy_thread) ; pop, then -- (cleanup): each move of the counter FOLLOWS the
 *                           container operation it describes; the counter may transiently under-approximate (documented)
 * All ghost state is ONE object (G) so that dfcc's frame checks stay small; identities are recorded as small integers
 * (TD_ID / TASK_ID / DATA_ID), never as pointers (pointers in a loop frame are havocked to invalid ones).
 */
#ifndef HOPS_H
#define HOPS_H
#include "vx.h"
static void hops_at_release(void);
static void hops_at_acquire(void);
#define MON_AT_RELEASE() hops_at_release()
#define MON_AT_ACQUIRE() hops_at_acquire()
#include "monitor.h"

#define VX_BIG 1000000000L
#define BUMP(c) do { if ((c) < 2) (c)++; } while (0)
#define VX_MIN(a, b) ((a) < (b) ? (a) : (b))
#define VX_MAX(a, b) ((a) > (b) ? (a) : (b))

/* ---- objects ---- */
enum { error_success = 0, error_out_of_memory = 7, error_bad_parameter = 9 };   /* opaque tokens (never compared with pika's values) */
struct error_code { int value; };
struct scheduler_base { int unused; };
struct hint { int16_t hint; int8_t mode; };      /* pika::execution::thread_schedule_hint */
struct thread_init_data { int8_t initial_state; int8_t stacksize; int8_t priority; bool run_now; struct hint schedulehint; };
struct params {
  ptrdiff_t small_stacksize_, medium_stacksize_, large_stacksize_, huge_stacksize_, nostack_stacksize_;
  int64_t max_thread_count_, min_add_new_count_, max_add_new_count_, max_delete_count_, min_delete_count_, max_terminated_threads_;
};
/* std::vector<thread_id_type> free list: number of objects, "the victim object is one of them", and which element back() /
 * pop_back() are talking about (decided at back()) */
struct heap { long n; bool has_victim; bool back_chosen, back_is_victim; };
struct tq {
  struct params parameters_;
  struct vx_mutex mtx_;
  struct heap thread_heap_small_, thread_heap_medium_, thread_heap_large_, thread_heap_huge_, thread_heap_nostack_;
  int64_t thread_map_count_, terminated_items_count_, new_tasks_count_, work_items_count_;
  /* ghost: ledger of THIS queue's new_tasks_ (see NTINV) and the operations of the call under verification on it (exact) */
  long gs_entries, gs_resv, gs_owed;
  bool gs_victim;
  long gs_pushes, gs_pops, gs_incs, gs_decs;
};
struct thread_data { int queue_; int8_t made_state; ptrdiff_t stacksize_; };   /* queue_: Q_ID of the queue that created it; made_state: initial_state it was created / rebound with */
typedef struct thread_data *thread_id_ref_type;
typedef struct thread_data *thread_id_type;
#define invalid_thread_id NULL
struct task_description { struct thread_init_data data; };
struct map_ins { bool second; };

static struct tq g_q0, g_q1;                     /* the two queue objects (add_new: receiver / source) */
#define Q_ID(q) ((q) == &g_q0 ? 1 : (q) == &g_q1 ? 2 : 0)

struct hops {
  int exc;                                       /* != 0: an exception propagates out of the call (token = error value) */
  int err;                                       /* != 0: an error was reported (exception or error_code) */
  struct thread_data victim_td, other_td, new_td;
  struct task_description victim_task, other_task, new_task;
  struct thread_init_data victim_init, other_init;
  /* where the victim is (besides q->gs_victim) */
  bool v_mine, v_map, v_queued, v_term, v_heap;
  bool env_moved;                                /* an environment step (another worker) moved the victim during the call */
  /* staged */
  long pops, v_pops;
  long task_allocs, task_ctors, task_dtors, task_frees; int ctor_from, freed_last, last_pop, push_id;
  /* map */
  long map, map_pend, map_owed, ins, ins_fail, map_incs, erases, map_decs, v_ins, v_erases; int ins_id;
  /* create_thread_object, schedule_thread */
  long cto, v_cto; int cto_data; int8_t cto_requested;
  long sched, v_sched; int sched_id; bool sched_other_end;
  /* terminated */
  long term, term_pend, term_resv, term_owed, term_pushes, term_pops, term_incs, term_decs, v_term_pushes, v_term_pops; int term_push_id;
  int64_t last_term_load;
  long cleanups, ctl_calls; bool cleanup_arg, ctl_arg, ctl_last;
  /* heaps */
  long recycles, v_recycles; int recycle_id;
  long heap_pushes, heap_pops, v_heap_pushes, v_heap_pops, rebinds, creates; int heap_push_id, rebind_id; bool created_stackless, lock_released;
};
static struct hops G;
/* configuration of the harness: written by the harness only, never in a frame */
struct hops_cfg {
  int self;                                      /* Q_ID of the queue the call runs on (the RECEIVER in add_new) */
  bool expect_steal;
  bool term_pops_by_others;                      /* false while this call holds mtx_: terminated_items_ is popped only under the lock */
  bool lemma;                                    /* lemma harness: the hop preconditions on the victim are assumed instead of asserted */
};
static struct hops_cfg CFG;
static struct error_code throws;                 /* pika::throws: the address is the "please throw" marker */
#define vx_exc G.exc
#define g_self (CFG.self == 1 ? &g_q0 : &g_q1)
#define g_victim_td G.victim_td
#define g_other_td G.other_td
#define g_victim_task G.victim_task
#define g_other_task G.other_task
#define g_new_task G.new_task
#define gv_mine G.v_mine
#define gv_map G.v_map
#define gv_queued G.v_queued
#define gv_term G.v_term
#define gv_heap G.v_heap
#define g_pops G.pops
#define g_v_pops G.v_pops
#define g_expect_steal CFG.expect_steal
#define g_task_allocs G.task_allocs
#define g_task_ctors G.task_ctors
#define g_task_dtors G.task_dtors
#define g_task_frees G.task_frees
#define g_map G.map
#define g_map_pend G.map_pend
#define g_map_owed G.map_owed
#define g_ins G.ins
#define g_ins_fail G.ins_fail
#define g_map_incs G.map_incs
#define g_erases G.erases
#define g_map_decs G.map_decs
#define g_v_ins G.v_ins
#define g_v_erases G.v_erases
#define g_cto G.cto
#define g_v_cto G.v_cto
#define g_sched G.sched
#define g_v_sched G.v_sched
#define g_term G.term
#define g_term_pend G.term_pend
#define g_term_owed G.term_owed
#define g_term_pushes G.term_pushes
#define g_term_pops G.term_pops
#define g_term_incs G.term_incs
#define g_term_decs G.term_decs
#define g_v_term_pushes G.v_term_pushes
#define g_v_term_pops G.v_term_pops
#define g_recycles G.recycles
#define g_v_recycles G.v_recycles
#define TD_ID(p) ((p) == &G.victim_td ? 1 : (p) == &G.other_td ? 2 : (p) == &G.new_td ? 3 : 0)
#define TASK_ID(p) ((p) == &G.victim_task ? 1 : (p) == &G.other_task ? 2 : (p) == &G.new_task ? 3 : 0)
#define DATA_ID(p) ((p) == &G.victim_task.data ? 1 : (p) == &G.other_task.data ? 2 : (p) == &G.victim_init ? 3 : (p) == &G.other_init ? 4 : 0)
#define IS_VICTIM_DATA(p) ((p) == &G.victim_task.data || (p) == &G.victim_init)

/* ---- exceptions / error_code (throw-vs-ec is decided in C16/C19; here: "never silently dropped") ---- */
static void vx_throw(int e) { VX_ASSERT(vx_exc == 0, "second throw while an exception propagates"); vx_exc = e; G.err = e; }
static void vx_throws_if(struct error_code *ec, int e) { if (ec == &throws) vx_throw(e); else { ec->value = e; G.err = e; } }
static struct error_code make_success_code(void) { struct error_code r; r.value = error_success; return r; }

/* ---- thread_id_ref_type locals: std::move empties the source; a local that still holds the (only) reference when it goes
 * out of scope destroys the thread object -- legitimate only on a path that reports an error ---- */
static thread_id_ref_type vx_move_tid(thread_id_ref_type *p) { thread_id_ref_type r = *p; *p = NULL; return r; }
static void tid_release(thread_id_ref_type *p)
{ VX_ASSERT(*p == NULL || G.err != 0, "a new thread object goes out of scope without having been queued or returned: the task would be dropped silently"); }

/* ---- where the victim is ---- */
#define GV_STAGED (g_q0.gs_victim || g_q1.gs_victim)
/* exactly one place (the map is a second place only together with pending / terminated / a holder) */
#define VP_OK (!(g_q0.gs_victim && g_q1.gs_victim) && (!GV_STAGED || !(gv_mine || gv_map || gv_queued || gv_term || gv_heap)) && \
               (!gv_mine || !(gv_queued || gv_term || gv_heap)) && \
               (!gv_heap || !(gv_map || gv_queued || gv_term)) && \
               (!gv_queued || (gv_map && !gv_term)) && (!gv_term || gv_map))
/* the victim part of a hop's precondition: an obligation of the caller in every unit; the lemma harness (hops_lemma.c) assumes
 * it instead, to state "from any state with the victim in exactly one place, ANY single hop whose precondition holds ..." */
#define HOP_REQUIRE(c, msg) do { if (CFG.lemma) VX_ASSUME(c); else VX_ASSERT(c, msg); } while (0)
#define VP_CHECK(what) VX_ASSERT(VP_OK, "victim in exactly one place after " what)

/* ---- the staged queue new_tasks_ and its counter ---- */
#define NTRANGE(q, slack) ((q)->gs_entries >= 0 && (q)->gs_entries <= VX_BIG - (slack) && (q)->new_tasks_count_ >= 0 && (q)->new_tasks_count_ <= 2 * VX_BIG - (slack))
#define NTINV(q) (NTRANGE(q, 0) && (q)->gs_resv >= 0 && (q)->gs_owed >= 0 && (q)->new_tasks_count_ >= (q)->gs_entries + (q)->gs_resv + (q)->gs_owed && (!(q)->gs_victim || (q)->gs_entries >= 1))
#define NT_UNTOUCHED(q) ((q)->gs_pops == 0 && (q)->gs_decs == 0 && (q)->gs_incs == 0 && (q)->gs_pushes == 0 && (q)->gs_owed == 0 && (q)->gs_resv == 0)
/* environment before every lock-free access of ours: other creators push, other converters pop (trusted: they keep NTINV;
 * they may take the victim out of new_tasks_ -- it is theirs from then on -- but never put it (back) in) */
static void nt_interfere(struct tq *q)
{
  if (nondet_bool())
  {
    q->new_tasks_count_ = nondet_i64();
    q->gs_entries = nondet_long();
    if (q->gs_victim && nondet_bool()) { q->gs_victim = false; G.env_moved = true; }
    VX_ASSUME(NTRANGE(q, 8) && NTINV(q));
  }
}
static int64_t atomic_load_new_tasks_count_(struct tq *q) { nt_interfere(q); return q->new_tasks_count_; }
static int64_t atomic_inc_new_tasks_count_(struct tq *q)
{
  nt_interfere(q);
  q->new_tasks_count_ = q->new_tasks_count_ + 1; q->gs_resv++; q->gs_incs++;
  VX_ASSERT(NTINV(q), "staged ledger: new_tasks_count_ >= entries after the increment");
  return q->new_tasks_count_;
}
static int64_t atomic_dec_new_tasks_count_(struct tq *q)
{
  nt_interfere(q);
  VX_ASSERT(q->gs_owed >= 1, "new_tasks_count_ of a queue is decremented only AFTER this call removed a task from THAT queue's new_tasks_");
  VX_ASSERT(g_map_pend == 0, "a converted task is counted in thread_map_count_ BEFORE it is un-staged (thread_map_count_ + new_tasks_count_ never under-approximates the live tasks)");
  q->new_tasks_count_ = q->new_tasks_count_ - 1; q->gs_owed--; q->gs_decs++;
  VX_ASSERT(NTINV(q), "staged ledger: new_tasks_count_ >= entries after the decrement");
  return q->new_tasks_count_;
}
/* task descriptions are handled through small integer HANDLES (a `task_description*` local that is assigned in a loop would
 * put a pointer into the loop frame): 0 = nullptr, 1 = the victim's description, 2 = any other, 3 = the one just allocated */
typedef int task_handle;
#define TASKP(h) ((h) == 1 ? &G.victim_task : (h) == 3 ? &G.new_task : &G.other_task)
/* allocate / construct / destroy / deallocate, exactly-once accounting */
static task_handle task_alloc(long n) { VX_ASSERT(n == 1, "one description"); BUMP(g_task_allocs); return 3; }
static void task_construct(task_handle td, struct thread_init_data *from)
{ VX_ASSERT(td == 3 && g_task_allocs == 1 && g_task_ctors == 0, "constructed once, in the storage just allocated"); G.new_task.data = *from; G.ctor_from = DATA_ID(from); BUMP(g_task_ctors); }
static void task_destroy(task_handle td) { VX_ASSERT(td != 0 && G.freed_last != td, "description destroyed after it was freed"); g_task_dtors++; }
static void task_dealloc(task_handle td, long n)
{ VX_ASSERT(n == 1 && td != 0 && G.freed_last != td, "description freed twice"); VX_ASSERT(g_task_dtors == g_task_frees + 1, "destroyed exactly once before it is freed"); g_task_frees++; G.freed_last = td; }
/* new_tasks_.push(td): always succeeds (unbounded lock-free queue) */
static bool nt_push(struct tq *q, task_handle td)
{
  nt_interfere(q);
  VX_ASSERT(td != 0, "a null description is never staged");
  VX_ASSERT(q->gs_resv >= 1, "new_tasks_count_ is incremented BEFORE the insertion it describes (it never under-approximates)");
  if (td == 1 || (td == 3 && G.ctor_from == 3))
  {
    HOP_REQUIRE(gv_mine && !gv_map && !GV_STAGED, "a task is never staged twice / never staged while it exists elsewhere");
    q->gs_victim = true; gv_mine = false;
  }
  q->gs_entries++; q->gs_resv--; q->gs_pushes++; G.push_id = td;
  VX_ASSERT(NTINV(q), "staged ledger: new_tasks_count_ >= entries after the insertion");
  VP_CHECK("new_tasks_.push");
  return true;
}
/* new_tasks_.pop(out, steal): removes one entry if there is one (may fail spuriously under contention).  Every staged task
 * has initial_state == pending (thread_queue::create_thread refuses to stage anything else: unit hops.tq.create_thread). */
static bool nt_pop(struct tq *q, task_handle *out, bool steal)
{
  nt_interfere(q);
  if (q->gs_entries >= 1 && nondet_bool())
  {
    VX_ASSUME(g_pops < VX_BIG);                  /* ghost bound: fewer than 10^9 conversions per call (listed) */
    bool take_victim = q->gs_victim && (q->gs_entries == 1 || nondet_bool());
    q->gs_entries--; q->gs_owed++; q->gs_pops++; g_pops++;
    if (take_victim) { q->gs_victim = false; gv_mine = true; BUMP(g_v_pops); *out = 1; }
    else { *out = 2; g_other_task.data.stacksize = nondet_i8(); g_other_task.data.priority = nondet_i8(); g_other_task.data.run_now = nondet_bool(); }
    TASKP(*out)->data.initial_state = thread_schedule_state_pending;
    G.last_pop = *out; if (G.freed_last == *out) G.freed_last = 0;   /* a description that is in the queue is a live one */
    VP_CHECK("new_tasks_.pop");
    return true;
  }
  return false;
}

/* ---- thread_map_ and thread_map_count_ (both only under mtx_ of the queue) ---- */
#define MAPRANGE(q, slack) (g_map >= 0 && g_map <= VX_BIG - (slack) && (q)->thread_map_count_ >= -2 && (q)->thread_map_count_ <= VX_BIG)
#define MAPINV(q) (MAPRANGE(q, 0) && (q)->thread_map_count_ == g_map && g_map_pend == 0 && g_map_owed == 0 && (!gv_map || g_map >= 1))
#define LOCKED(q) ((q)->mtx_.held)
static struct map_ins map_insert(struct tq *q, thread_id_type id)
{
  struct map_ins r;
  VX_ASSERT(q == g_self, "the new thread goes into the map of the RECEIVING queue");
  VX_ASSERT(LOCKED(q), "thread_map_ is accessed only under mtx_");
  VX_ASSERT(id != NULL, "a null id is never put into the map");
  bool present = (id == &g_victim_td) ? gv_map : nondet_bool();     /* other ids: the set may refuse (defensive path kept reachable) */
  G.ins_id = TD_ID(id);
  if (present) { r.second = false; g_ins_fail++; return r; }
  VX_ASSUME(g_map < VX_BIG - 8);                 /* ghost bound on the number of live threads of one queue (listed) */
  if (id == &g_victim_td) { HOP_REQUIRE(gv_mine, "the thread inserted into the map is the one this call just created"); gv_map = true; BUMP(g_v_ins); }
  g_map++; g_map_pend++; g_ins++;
  VP_CHECK("thread_map_.insert");
  r.second = true;
  return r;
}
static bool map_contains(struct tq *q, thread_id_type id)
{
  VX_ASSERT(LOCKED(q), "thread_map_ is accessed only under mtx_");
  return id == &g_victim_td ? gv_map : true;     /* other ids: see map_erase */
}
/* thread_map_.erase(id): number of elements removed.  Every OTHER id popped from terminated_items_ is in the map (the
 * invariant the code's own PIKA_ASSERT states; for the victim it is tracked). */
static size_t map_erase(struct tq *q, thread_id_type id)
{
  VX_ASSERT(q == g_self && LOCKED(q), "thread_map_ is accessed only under mtx_");
  bool present = (id == &g_victim_td) ? gv_map : true;
  if (!present) return 0;
  VX_ASSUME(g_map >= 1 && (id == &g_victim_td || !gv_map || g_map >= 2));   /* the set holds what is in it */
  if (id == &g_victim_td) { HOP_REQUIRE(gv_mine && !gv_queued && !gv_term, "a thread leaves the map only after it left every queue"); gv_map = false; BUMP(g_v_erases); }
  VX_ASSUME(g_erases < VX_BIG);
  g_map--; g_map_owed++; g_erases++;
  return 1;
}
static int64_t atomic_inc_thread_map_count_(struct tq *q)
{
  VX_ASSERT(q == g_self, "the RECEIVING queue's thread_map_count_ counts the new thread");
  VX_ASSERT(LOCKED(q), "thread_map_count_ changes only under mtx_");
  VX_ASSERT(g_map_pend >= 1, "thread_map_count_ is incremented only AFTER a successful insertion by this call");
  q->thread_map_count_ = q->thread_map_count_ + 1; g_map_pend--; g_map_incs++;
  return q->thread_map_count_;
}
static int64_t atomic_dec_thread_map_count_(struct tq *q)
{
  VX_ASSERT(q == g_self && LOCKED(q), "thread_map_count_ changes only under mtx_");
  VX_ASSERT(g_map_owed >= 1, "thread_map_count_ is decremented only AFTER a successful erase by this call");
  q->thread_map_count_ = q->thread_map_count_ - 1; g_map_owed--; g_map_decs++;
  return q->thread_map_count_;
}
static int64_t atomic_load_thread_map_count_(struct tq *q) { return q->thread_map_count_; }

#define TERMRANGE(q, slack) (g_term >= 0 && g_term <= VX_BIG - (slack) && (q)->terminated_items_count_ >= -VX_BIG && (q)->terminated_items_count_ <= VX_BIG - (slack))
#define TERMINV(q) (TERMRANGE(q, 0) && (!gv_term || g_term >= 1))
/* monitor: what the lock protects is consistent whenever it is released; while it is free the other workers change the
 * map (and move a victim that is not in this call's hands and not staged) under the same invariant */
static void hops_at_release(void)
{
  VX_ASSERT(g_self->thread_map_count_ == g_map && g_map_pend == 0 && g_map_owed == 0, "thread_map_count_ == number of map entries whenever mtx_ is released");
  VP_CHECK("the critical section");
}
static void hops_at_acquire(void)
{
  if (nondet_bool())
  {
    g_map = nondet_long(); g_self->thread_map_count_ = g_map;
    g_term = nondet_long(); g_self->terminated_items_count_ = nondet_i64();      /* ... and drain / fill terminated_items_ */
    if (!gv_mine && !GV_STAGED) { gv_map = nondet_bool(); gv_queued = nondet_bool(); gv_term = nondet_bool(); gv_heap = nondet_bool(); G.env_moved = true; }
    VX_ASSUME(MAPRANGE(g_self, 8) && MAPINV(g_self) && VP_OK && TERMRANGE(g_self, 8) && TERMINV(g_self));
  }
}
#define OWNS(lk) ((lk)->owns && (lk)->m->held)

/* ---- create_thread_object: contract stub (once-ness / lock: unit hops.heap.create_thread_object; size class: C12 heap.*) ---- */
static void cto(struct tq *q, thread_id_ref_type *thrd, struct thread_init_data *data, struct ulock *lk)
{
  VX_ASSERT(q == g_self, "the thread object is created by (and belongs to) the RECEIVING queue");
  VX_ASSERT(OWNS(lk) && lk->m == &q->mtx_, "create_thread_object precondition: the queue's lock is held");
  VX_ASSERT(*thrd == NULL, "the id that receives the new object is empty");
  VX_ASSERT(G.last_pop == 0 || DATA_ID(data) == G.last_pop, "the thread object is made from the description that was just popped");
  VX_ASSERT(G.freed_last == 0 || DATA_ID(data) != G.freed_last, "the description is not used after it was freed");
  g_cto++; G.cto_data = DATA_ID(data); G.cto_requested = data->initial_state;
  if (data->initial_state == thread_schedule_state_pending_do_not_schedule || data->initial_state == thread_schedule_state_pending_boost)
    data->initial_state = thread_schedule_state_pending;
  if (nondet_bool()) { ulock_unlock(lk); ulock_lock(lk); }          /* no recyclable object: allocation with the lock released */
  if (IS_VICTIM_DATA(data))
  {
    HOP_REQUIRE(gv_mine && g_v_cto == 0 && !gv_map, "one thread object per task");
    BUMP(g_v_cto); *thrd = &g_victim_td;
  }
  else *thrd = &g_other_td;
  (*thrd)->queue_ = Q_ID(q); (*thrd)->made_state = data->initial_state;
}
static struct tq *td_get_queue(struct thread_data *t)
{
  VX_ASSERT(G.term_push_id == 0 || TD_ID(t) != G.term_push_id, "the thread object is not touched after it was handed to terminated_items_ (it may be recycled at once)");
  return t->queue_ == 1 ? &g_q0 : t->queue_ == 2 ? &g_q1 : NULL;
}

/* ---- thread_queue::schedule_thread: replaced by its contract (unit queue.schedule_thread): exactly one insertion of exactly
 * this thread into work_items_, never of a thread that is already queued; work_items_count_ net +1 ---- */
static void tq_schedule_thread(struct tq *q, thread_id_ref_type thrd, bool other_end)
{
  VX_ASSERT(q == g_self, "the new thread is queued in the RECEIVING queue");
  VX_ASSERT(thrd != NULL, "schedule_thread precondition: non-empty id");
  if (thrd == &g_victim_td)
  {
    HOP_REQUIRE(gv_mine && !gv_queued, "schedule_thread precondition: the caller holds the thread and it is not queued");
    HOP_REQUIRE(gv_map, "a thread is in the map of its queue before it becomes pending");
    gv_queued = true; gv_mine = false; BUMP(g_v_sched);
  }
  if (nondet_bool()) q->work_items_count_ = nondet_i64();           /* other workers push and pop at any time */
  VX_ASSUME(q->work_items_count_ >= 0 && q->work_items_count_ < 2 * VX_BIG);   /* counter bound 2*10^9 (listed) */
  q->work_items_count_ = q->work_items_count_ + 1;
  VX_ASSUME(g_sched < VX_BIG);
  g_sched++; G.sched_id = TD_ID(thrd); G.sched_other_end = other_end;
  VP_CHECK("schedule_thread");
}

/* ---- terminated_items_ and terminated_items_count_ ---- */
static void term_interfere(struct tq *q)
{
  if (nondet_bool())
  {
    long e = nondet_long();
    VX_ASSUME(CFG.term_pops_by_others || e >= g_term);                /* other destroy_thread calls push (and count) at any time */
    g_term = e; q->terminated_items_count_ = nondet_i64();
    if (!gv_mine && gv_map && !gv_queued && !gv_term && nondet_bool()) { gv_term = true; G.env_moved = true; }   /* ... possibly the victim, once its last reference died */
    VX_ASSUME(TERMRANGE(q, 8) && TERMINV(q));
  }
}
static void term_push(struct tq *q, struct thread_data *t)
{
  term_interfere(q);
  VX_ASSERT(q == g_self && t != NULL, "terminated_items_ of the thread's own queue");
  if (t == &g_victim_td)
  {
    HOP_REQUIRE(gv_mine && gv_map && !gv_queued && !gv_term && !gv_heap, "a thread is destroyed once, and never while it is still queued");
    gv_term = true; gv_mine = false; BUMP(g_v_term_pushes);
  }
  VX_ASSUME(g_term < VX_BIG - 8);
  if (G.term_resv >= 1) G.term_resv--; else g_term_pend++;
  g_term++; g_term_pushes++; G.term_push_id = TD_ID(t);
  VP_CHECK("terminated_items_.push");
}
static bool term_pop(struct tq *q, struct thread_data **out)
{
  term_interfere(q);
  VX_ASSERT(q == g_self && LOCKED(q), "terminated_items_ is drained only under mtx_");
  if (g_term >= 1 && nondet_bool())
  {
    VX_ASSUME(g_term_pops < VX_BIG);
    bool take_victim = gv_term && (g_term == 1 || nondet_bool());
    g_term--; g_term_owed++; g_term_pops++;
    if (take_victim) { gv_term = false; gv_mine = true; BUMP(g_v_term_pops); *out = &g_victim_td; } else *out = &g_other_td;
    VP_CHECK("terminated_items_.pop");
    return true;
  }
  return false;
}
static int64_t atomic_inc_terminated_items_count_(struct tq *q)
{
  term_interfere(q);
  /* the code pushes first and counts afterwards; counting first would be as good: one increment per push, on the same path */
  if (g_term_pend >= 1) g_term_pend--; else { VX_ASSERT(G.term_resv == 0, "terminated_items_count_ is incremented once per push"); G.term_resv++; }
  q->terminated_items_count_ = q->terminated_items_count_ + 1; g_term_incs++;
  return q->terminated_items_count_;
}
static int64_t atomic_dec_terminated_items_count_(struct tq *q)
{
  term_interfere(q);
  VX_ASSERT(g_term_owed >= 1, "terminated_items_count_ is decremented once per pop, after the pop it describes");
  VX_ASSUME(q->terminated_items_count_ > -VX_BIG + 8);             /* counter bound (listed) */
  q->terminated_items_count_ = q->terminated_items_count_ - 1; g_term_owed--; g_term_decs++;
  return q->terminated_items_count_;
}
static int64_t atomic_load_terminated_items_count_(struct tq *q) { term_interfere(q); G.last_term_load = q->terminated_items_count_; return q->terminated_items_count_; }

/* `thread_data* todelete` is assigned in a loop guard: handle instead of pointer (see task_handle): 0 null, 1 victim, 2 other */
typedef int td_handle;
#define TDP(h) ((h) == 1 ? &G.victim_td : (h) == 2 ? &G.other_td : (struct thread_data *) NULL)
static bool term_pop_h(struct tq *q, td_handle *out)
{
  struct thread_data *t = NULL;
  bool r = term_pop(q, &t);
  if (r) *out = TD_ID(t);
  return r;
}

/* ---- thread_queue::recycle_thread: contract stub (unit hops.heap.recycle_thread: pushed onto exactly one free list, once) ---- */
static void tq_recycle_thread(struct tq *q, thread_id_type t)
{
  VX_ASSERT(q == g_self && LOCKED(q), "the free lists are accessed only under mtx_");
  VX_ASSERT(t != NULL, "a null id is never recycled");
  if (t == &g_victim_td)
  {
    HOP_REQUIRE(gv_mine && !gv_queued && !gv_term && !gv_heap, "a thread object is recycled once, after it left every queue");
    gv_heap = true; gv_mine = false; BUMP(g_v_recycles);
  }
  VX_ASSUME(g_recycles < VX_BIG);
  g_recycles++; G.recycle_id = TD_ID(t);
}

/* ---- thread_queue::cleanup_terminated(delete_all): contract stub for destroy_thread (unit hops.tq.cleanup_terminated): takes
 * the lock itself; drains terminated_items_ -- whatever is in there may be erased from the map and recycled ---- */
static bool tq_cleanup_terminated(struct tq *q, bool delete_all)
{
  VX_ASSERT(q == g_self && !LOCKED(q), "cleanup_terminated takes mtx_ itself: the caller must not hold it");
  BUMP(G.cleanups); G.cleanup_arg = delete_all;
  if (nondet_bool())
  {
    g_term = nondet_long(); q->terminated_items_count_ = nondet_i64(); g_map = nondet_long(); q->thread_map_count_ = g_map;
    if (!gv_mine && gv_term && nondet_bool()) { gv_term = false; gv_map = false; gv_heap = true; G.env_moved = true; }
    VX_ASSUME(TERMRANGE(q, 8) && TERMINV(q) && MAPRANGE(q, 8) && MAPINV(q));
  }
  return nondet_bool();
}
/* ---- thread_queue::cleanup_terminated_locked(delete_all): contract stub for cleanup_terminated (unit hops.tq.cleanup_terminated_locked) ---- */
static bool tq_cleanup_terminated_locked(struct tq *q, bool delete_all)
{
  VX_ASSERT(q == g_self && LOCKED(q), "cleanup_terminated_locked precondition: mtx_ is held");
  VX_ASSUME(G.ctl_calls < VX_BIG);
  G.ctl_calls++; G.ctl_arg = delete_all; G.ctl_last = nondet_bool();
  return G.ctl_last;
}

/* ---- the free lists thread_heap_* (std::vector, under mtx_) and the thread_data factory functions ---- */
#define HEAP_RANGE(h) ((h)->n >= 0 && (h)->n <= VX_BIG && (!(h)->has_victim || (h)->n >= 1))
#define HEAPS_OK(q) (HEAP_RANGE(&(q)->thread_heap_small_) && HEAP_RANGE(&(q)->thread_heap_medium_) && HEAP_RANGE(&(q)->thread_heap_large_) && \
                     HEAP_RANGE(&(q)->thread_heap_huge_) && HEAP_RANGE(&(q)->thread_heap_nostack_))
#define HEAP_VICTIMS(q) ((q)->thread_heap_small_.has_victim + (q)->thread_heap_medium_.has_victim + (q)->thread_heap_large_.has_victim + \
                         (q)->thread_heap_huge_.has_victim + (q)->thread_heap_nostack_.has_victim)
static ptrdiff_t g_requested_size;               /* what scheduler_base::get_stack_size answers (harness configuration) */
static ptrdiff_t scheduler_get_stack_size(struct thread_init_data *d, int8_t cls) { return g_requested_size; }
static ptrdiff_t thread_get_stack_size(struct thread_data *t) { return t->stacksize_; }
static void thread_rebind(struct thread_data *t, struct thread_init_data *data) { BUMP(G.rebinds); G.rebind_id = TD_ID(t); t->made_state = data->initial_state; }
static bool heap_empty(struct heap *h) { return h->n == 0; }
static struct thread_data *heap_back(struct heap *h)
{
  VX_ASSERT(h->n >= 1, "vector::back() on an empty free list");
  if (!h->back_chosen) { h->back_chosen = true; h->back_is_victim = h->has_victim && (h->n == 1 || nondet_bool()); }
  return h->back_is_victim ? &G.victim_td : &G.other_td;
}
static void heap_pop_back(struct heap *h)
{
  VX_ASSERT(h->n >= 1, "vector::pop_back() on an empty free list");
  if (!h->back_chosen) { h->back_chosen = true; h->back_is_victim = h->has_victim && (h->n == 1 || nondet_bool()); }
  if (h->back_is_victim) { h->has_victim = false; gv_heap = false; gv_mine = true; BUMP(G.v_heap_pops); }
  h->n--; h->back_chosen = false; BUMP(G.heap_pops);
}
static void heap_push_back(struct heap *h, struct thread_data *t)
{
  VX_ASSERT(t != NULL, "a null id is never recycled");
  if (t == &G.victim_td)
  {
    HOP_REQUIRE(!gv_heap && !h->has_victim, "a thread object is never on a free list twice");
    HOP_REQUIRE(gv_mine && !gv_queued && !gv_term, "a thread object is recycled only after it left every queue");
    h->has_victim = true; gv_heap = true; gv_mine = false; BUMP(G.v_heap_pushes);
  }
  VX_ASSUME(h->n < VX_BIG);
  h->n++; h->back_chosen = false; BUMP(G.heap_pushes); G.heap_push_id = TD_ID(t);
}
static struct thread_data *create_td(struct thread_init_data *d, struct tq *q, ptrdiff_t stacksize, bool stackless)
{
  G.lock_released = !LOCKED(q);                   /* (allocation with the lock released: a liveness concern, not decided here) */
  BUMP(G.creates); G.created_stackless = stackless;
  G.new_td.queue_ = Q_ID(q); G.new_td.made_state = d->initial_state; G.new_td.stacksize_ = stacksize;
  return &G.new_td;
}
#define create_stackful(d, q, s) create_td(d, q, s, false)
#define create_stackless(d, q, s) create_td(d, q, s, true)
static struct thread_data *id_ref_make(struct thread_data *p, int addref) { return p; }
/* pika::detail::unlock_guard<Lock> ull(lk) inside create_thread_object / recycle_thread: the free lists are protected by mtx_ only.
 * An object that back() picked and that pop_back() has not yet removed is still on its list: with the lock released another
 * thread's create_thread_object is handed the same object (one stack, two tasks) */
#define HEAP_BACK_OUTSTANDING(q) ((q)->thread_heap_small_.back_chosen || (q)->thread_heap_medium_.back_chosen || (q)->thread_heap_large_.back_chosen || \
                                  (q)->thread_heap_huge_.back_chosen || (q)->thread_heap_nostack_.back_chosen)
static void heap_unlock_guard(struct tq *q, struct ulock *lk)
{
  VX_ASSERT(!HEAP_BACK_OUTSTANDING(q), "the queue lock is not released between back() and pop_back(): the object picked is off its free list before another thread can look");
  ulock_unlock(lk);
}
static void heap_init(struct heap *h) { h->n = nondet_long(); h->has_victim = false; h->back_chosen = false; h->back_is_victim = false; }

/* ---- thread_queue::add_new: contract stub for add_new_always (unit hops.tq.add_new) ---- */
struct addnew_rec { long calls; int64_t add_count; int from; bool lk_ok, steal; size_t ret; };
static struct addnew_rec AN;
static struct ulock *g_exp_lk;
static size_t tq_add_new(struct tq *q, int64_t add_count, struct tq *addfrom, struct ulock *lk, bool steal)
{
  VX_ASSERT(q == g_self && OWNS(lk) && lk->m == &q->mtx_, "add_new precondition: the receiver's lock is held");
  VX_ASSERT(add_count >= -1, "add_new precondition: add_count is -1 (no limit) or a limit >= 0");
  BUMP(AN.calls); AN.add_count = add_count; AN.from = Q_ID(addfrom); AN.lk_ok = (lk == g_exp_lk); AN.steal = steal;
  size_t r = nondet_size();
  VX_ASSUME(r <= (size_t) VX_BIG && (add_count < 0 || r <= (size_t) add_count));   /* add_new's postcondition (6) */
  AN.ret = r;
  return r;
}
static size_t map_size(struct tq *q) { VX_ASSERT(q == g_self && LOCKED(q), "thread_map_ is accessed only under mtx_"); return (size_t) g_map; }
static bool wi_empty(struct tq *q) { return nondet_bool(); }      /* work_items_.empty(): lock-free, any answer */

/* ---- initialisation shared by the harnesses (dfcc makes every static nondeterministic) ---- */
static void hops_task_init(struct thread_init_data *d)
{ d->initial_state = nondet_i8(); d->stacksize = nondet_i8(); d->priority = nondet_i8(); d->run_now = nondet_bool(); d->schedulehint.hint = nondet_i16(); d->schedulehint.mode = nondet_i8(); }
static void hops_ghost_init(void)
{
  G = (struct hops){0};                                   /* every counter 0, every flag false, every id 0 */
  CFG.self = 1; CFG.expect_steal = false; CFG.term_pops_by_others = true; CFG.lemma = false; throws.value = 0;
  hops_task_init(&G.victim_task.data); hops_task_init(&G.other_task.data); hops_task_init(&G.new_task.data);
  hops_task_init(&G.victim_init); hops_task_init(&G.other_init);
}
static void hops_queue_init(struct tq *q)
{
  q->parameters_.max_thread_count_ = nondet_i64(); q->parameters_.min_add_new_count_ = nondet_i64(); q->parameters_.max_add_new_count_ = nondet_i64();
  q->parameters_.max_delete_count_ = nondet_i64(); q->parameters_.min_delete_count_ = nondet_i64(); q->parameters_.max_terminated_threads_ = nondet_i64();
  q->mtx_.held = false;
  q->parameters_.small_stacksize_ = nondet_ptrdiff(); q->parameters_.medium_stacksize_ = nondet_ptrdiff(); q->parameters_.large_stacksize_ = nondet_ptrdiff();
  q->parameters_.huge_stacksize_ = nondet_ptrdiff(); q->parameters_.nostack_stacksize_ = nondet_ptrdiff();
  heap_init(&q->thread_heap_small_); heap_init(&q->thread_heap_medium_); heap_init(&q->thread_heap_large_); heap_init(&q->thread_heap_huge_); heap_init(&q->thread_heap_nostack_);
  q->thread_map_count_ = 0; q->terminated_items_count_ = nondet_i64(); q->new_tasks_count_ = nondet_i64(); q->work_items_count_ = nondet_i64();
  q->gs_entries = nondet_long(); q->gs_resv = 0; q->gs_owed = 0; q->gs_victim = false;
  q->gs_pushes = q->gs_pops = q->gs_incs = q->gs_decs = 0;
}
#endif
