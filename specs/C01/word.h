/* C01 -- the thread state word `thread_data::current_state_` (std::atomic<thread_state>): field view, rely / guarantee,
 * linearisation ghost and the atomic stubs (S contracts, DESIGN 3.3).
 * Included after cts_types.h, the lifted constants and the lifted combined_tagged_state member functions. */
#ifndef C01_WORD_H
#define C01_WORD_H

#define W_STATE(w) RAW_STATE((w).state_)
#define W_EX(w) RAW_EX((w).state_)
#define W_TAG(w) RAW_TAG((w).state_)
#define WEQ(a, b) ((a).state_ == (b).state_)
#define S_ENUM(x) thread_schedule_state_IS_ENUMERATOR(x)
#define E_ENUM(x) thread_restart_state_IS_ENUMERATOR(x)
#define S_ACTIVE thread_schedule_state_active
#define S_PENDING thread_schedule_state_pending
#define S_SUSPENDED thread_schedule_state_suspended
#define S_TERMINATED thread_schedule_state_terminated
#define S_BOOST thread_schedule_state_pending_boost
#define E_UNKNOWN thread_restart_state_unknown

/* word invariant: both byte fields hold enumerators (the tag field is 48 bits by construction) */
#define WF(w) (S_ENUM(W_STATE(w)) && E_ENUM(W_EX(w)) && (w).state_ >= 0)
/* A-TAG (ASSUMPTION, see cts.tag_wrap): a thread object never comes near tag 2^48, so `tag() + 1` never leaves the tag field.
 *   A_TAG1  what ONE step needs of the word / of the prev it computes from: tag < 2^48 - 1
 *   A_TAG   what the environment is assumed to maintain (rely): tag < 2^48 - 4, a margin for the up to three own steps
 *           of one scheduling-loop iteration (switch-in, store, set_state(pending)) */
#define A_TAG1(w) (W_TAG(w) < TAG_LIMIT - 1)
#define A_TAG(w) (W_TAG(w) < TAG_LIMIT - 4)

/* STEP: the shape of ONE successful atomic step of ANY thread on the word (the common guarantee of all writers):
 *   the result is well formed, the tag moves by 0 or +1, and a step that changes the schedule state bumps it by +1. */
#define STEP(o, n) (WF(n) && W_TAG(n) >= W_TAG(o) && W_TAG(n) <= W_TAG(o) + 1 && VX_IMPLIES(W_STATE(n) != W_STATE(o), W_TAG(n) == W_TAG(o) + 1))
/* RELY_GEN: what any number of steps of the other threads may do to the word between two of our accesses (reflexive,
 * transitive, contains STEP: lemma.rely): tags never decrease, and a different schedule state means a larger tag. */
#define RELY_GEN(o, n) (WF(n) && A_TAG(n) && W_TAG(n) >= W_TAG(o) && VX_IMPLIES(W_STATE(n) != W_STATE(o), W_TAG(n) > W_TAG(o)))
/* OTHER: a step of a thread that is NOT the runner of the task ("active words belong to their runner") */
#define STEP_OTHER(o, n) (STEP(o, n) && W_STATE(o) != S_ACTIVE)
/* RELY_OWNER: what the runner of a task relies on while the word is (active, its tag): nobody else moves the word at all */
#define RELY_OWNER(o, n) (RELY_GEN(o, n) && VX_IMPLIES(W_STATE(o) == S_ACTIVE, WEQ(o, n)))

/* ---- named postconditions shared by the U2/U3 contracts and the lemma harnesses over them (lemma.c) ---- */
/* a successful set_state_tagged(newstate, prev): the word equalled prev, and becomes (newstate, prev.ex, prev.tag + 1) */
#define SST_SUCCESS(o, n, prev, newstate) (WEQ(o, prev) && W_STATE(n) == (newstate) && W_EX(n) == W_EX(prev) && W_TAG(n) == W_TAG(prev) + 1)
/* set_state_tagged succeeds IFF the word equals prev at its CAS */
#define SST_OK(seen, prev) WEQ(seen, prev)
/* restore_state(new, old) / switch_status::store_state succeed IFF the word still has old's (state, tag) at the CAS and the
 * state_ex read just before */
#define RST_OK(seen, old, read) (W_STATE(seen) == W_STATE(old) && W_TAG(seen) == W_TAG(old) && W_EX(seen) == W_EX(read))
/* what a successful restore publishes */
#define RST_SUCCESS(o, n, newst, old) (W_STATE(n) == W_STATE(newst) && W_EX(n) == W_EX(o) && W_TAG(n) == W_TAG(old) + (W_STATE(newst) != W_STATE(old) ? 1 : 0))

#ifndef RELY
#define RELY(o, n) RELY_GEN(o, n)
#endif
#ifndef GUAR
#define GUAR(o, n) STEP(o, n)
#endif
/* own steps already taken when thread_data::set_state / set_state_ex is entered (their CAS-loop invariants say
 * "no further own step so far"); 0 except where they are inlined behind other steps (loop.c) */
#ifndef LIN_BASE
#define LIN_BASE 0
#endif
#ifndef GUAR_TEXT
#define GUAR_TEXT "guarantee: a successful step keeps the word well formed, moves the tag by 0 or +1, and by exactly +1 if it changes the schedule state"
#endif

struct thread_data { struct thread_state current_state_; /* std::atomic<thread_state> */ long count_; /* reference count (not modelled: C12) */ };

/* ---- linearisation ghost: the successful atomic steps of the call under verification ---- */
static long lin_count;                                 /* own successful steps (saturating at 3) */
static struct thread_state lin_old, lin_new;           /* the last own step */
static struct thread_state lin1_old, lin1_new;         /* the first own step */
static struct thread_state lin2_old, lin2_new;         /* the second own step */
static struct thread_state g_first_read;               /* value returned by the first load of the call */
static struct thread_state g_last_read;                /* last value of the word the call has seen (load or failed CAS) */
static struct thread_state g_cas_seen;                 /* value of the word at the last CAS (successful or not) */
static long g_loads, g_cas;                            /* saturating at 2 */
static bool g_interfered;
#define WORD_GHOST lin_count, lin_old, lin_new, lin1_old, lin1_new, lin2_old, lin2_new, g_first_read, g_last_read, g_cas_seen, g_loads, g_cas, g_interfered

static void word_ghost_init(void)
{
  lin_count = 0; g_loads = 0; g_cas = 0; g_interfered = false;
  lin_old.state_ = 0; lin_new.state_ = 0; lin1_old.state_ = 0; lin1_new.state_ = 0; lin2_old.state_ = 0; lin2_new.state_ = 0;
  g_first_read.state_ = 0; g_last_read.state_ = 0; g_cas_seen.state_ = 0;
}

/* environment step, taken before every access of ours (trusted: VX_ASSUME of the rely, which includes A-TAG) */
static void interfere(struct thread_state *p)
{
  if (nondet_bool())
  {
    struct thread_state n;
    n.state_ = nondet_i64();
    VX_ASSUME(RELY(*p, n));
    *p = n;
    g_interfered = true;
  }
}
/* std::atomic<thread_state>::load */
static struct thread_state atomic_load(struct thread_state *p)
{
  interfere(p);
  if (g_loads == 0) g_first_read = *p;
  if (g_loads < 2) g_loads++;
  g_last_read = *p;
  return *p;
}
/* std::atomic<thread_state>::compare_exchange_strong (no spurious failure) */
static bool atomic_cas_strong(struct thread_state *p, struct thread_state *expected, struct thread_state desired)
{
  interfere(p);
  g_cas_seen = *p;
  if (g_cas < 2) g_cas++;
  if (WEQ(*p, *expected))
  {
    lin_old = *p;
    *p = desired;
    lin_new = desired;
    if (lin_count == 0) { lin1_old = lin_old; lin1_new = lin_new; }
    if (lin_count == 1) { lin2_old = lin_old; lin2_new = lin_new; }
    if (lin_count < 3) lin_count++;
    VX_ASSERT(GUAR(lin_old, lin_new), GUAR_TEXT);
    return true;
  }
  *expected = *p;
  g_last_read = *p;
  return false;
}
#endif
