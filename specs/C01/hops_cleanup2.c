/* C01 U5 -- thread_queue::cleanup_terminated(delete_all): the public entry; T contract over cleanup_terminated_locked (stub =
 * the contract of unit hops.tq.cleanup_terminated_locked): every pass runs with mtx_ held, the
 * lock is released between passes and on every exit, `true` is returned only when a pass (or the first counter read) said
 * "nothing left". */
#include "../C01/hops.h"
static bool g_da0;

//@FUNC
bool cleanup_terminated(struct tq *self, bool delete_all)
__CPROVER_requires(self == g_self && delete_all == g_da0 && !LOCKED(self) && G.ctl_calls == 0 && TERMRANGE(self, 8) && TERMINV(self) && MAPRANGE(self, 8) && MAPINV(self) && VP_OK && !gv_mine)
__CPROVER_ensures(!LOCKED(self))
__CPROVER_ensures(G.ctl_calls == 0 ==> (__CPROVER_return_value && G.last_term_load == 0))
__CPROVER_ensures(G.ctl_calls >= 1 ==> __CPROVER_return_value == G.ctl_last)
__CPROVER_ensures(!g_da0 ==> G.ctl_calls <= 1)
__CPROVER_assigns(g_q0, G)
//@LIFT ct_body

void harness(void)
{
  hops_ghost_init();
  hops_queue_init(&g_q0); hops_queue_init(&g_q1);
  CFG.self = 1;
  g_map = nondet_long(); g_q0.thread_map_count_ = g_map; g_term = nondet_long();
  gv_map = nondet_bool(); gv_queued = nondet_bool(); gv_term = nondet_bool(); gv_heap = nondet_bool();
  g_da0 = nondet_bool();
  bool r = cleanup_terminated(&g_q0, g_da0);
  if (r && G.ctl_calls == 0) VX_REACH("counter_was_zero");
  if (g_da0 && G.ctl_calls == 3) VX_REACH("delete_all_three_passes");
  if (!g_da0 && !r) VX_REACH("single_pass_left_some");
  if (!g_da0 && r && G.ctl_calls == 1) VX_REACH("single_pass_done");
}
