/* C01 U5 (mc) -- thread_queue_mc::create_thread(data, id, ec): a new task enters the queue along exactly ONE of
 *     run_now:   thread object created by the holder -> registered in the holder's map -> queued once in work_items_ iff the
 *                REQUESTED initial state is `pending` (otherwise handed to the caller through *id, un-queued)
 *     staged:    new_tasks_count_ +1 -> a copy of `data` pushed once onto new_task_items_
 *  or is refused with an error (map refused the id: out_of_memory; staged with a non-pending initial state: bad_parameter).
 * I + T contract.  Lifted: the whole body of create_thread and of schedule_work (called by it).  Stubs (mc_hops.h):
 * holder_->create_thread_object / add_to_thread_map (contract stubs), the counters, new_task_items_.push, work_items_.push,
 * PIKA_THROW_EXCEPTION, get_self_stacksize_enum. */
#include "../C01/mc_hops.h"

static int8_t g_init0, g_stack0, g_gid0; static bool g_run0;      /* the request as passed (ghost copies pinned by the precondition) */
#define PEND0 (g_init0 == thread_schedule_state_pending)
/* `pending_boost` as a requested initial state has no documented meaning for a new thread: either behaviour is accepted */
#define BOOST0 (g_init0 == thread_schedule_state_pending_boost)
#define NOTHING_MADE (G.cto == 0 && G.adds == 0 && G.add_fail == 0 && G.wpush == 0)
#define NOTHING_STAGED(q) (NT_UNTOUCHED(q))

#ifdef MC_EXCL_PENDING_ALIAS
#define MC_ALIAS_EXCLUDED (!g_run0 || (g_init0 != thread_schedule_state_pending_do_not_schedule && g_init0 != thread_schedule_state_pending_boost))
#else
#define MC_ALIAS_EXCLUDED 1
#endif

static void schedule_work(struct mcq *self, thread_id_ref_type thrd, bool other_end)
//@LIFT schedule_work_body

//@FUNC
void create_thread(struct mcq *self, struct thread_init_data *data, thread_id_ref_type *id, struct error_code *ec)
__CPROVER_requires(self == g_self && self == &g_m0 && self->holder_ == &g_h0 && g_self_h == &g_h0 && !g_h0.thread_map_mtx_.held && g_h0.thread_map_count_ >= 0 && g_h0.thread_map_count_ <= MC_BIG)
__CPROVER_requires((data == &G.victim_init || data == &G.other_init) && data->gid == g_gid0 && data->initial_state == g_init0 && data->run_now == g_run0 && data->stacksize == g_stack0)
/* the callers' duty: run_now only on the worker that owns the holder (create_thread_object is not thread safe; queue_holder_thread::
 * create_thread clears run_now for every other worker) */
__CPROVER_requires(g_run0 ==> g_h0.owner_id_ == CFG.this_thread)
/* the caller's duty stated by PIKA_ASSERT(id != nullptr): a thread that is not scheduled must be returned */
__CPROVER_requires(!g_run0 || PEND0 || id != NULL)
/* (known-finding exclusion, only with -DMC_EXCL_PENDING_ALIAS: run_now with one of the two "not a real state" aliases of pending) */
__CPROVER_requires(MC_ALIAS_EXCLUDED)
__CPROVER_requires(G.err == 0 && vx_exc == 0 && NOTHING_MADE && NOTHING_STAGED(self) && NTRANGE(self, 8) && NTINV(self) && WI_UNTOUCHED(self) && WIRANGE(self, 8) && WIINV(self))
__CPROVER_requires(G.v_cto == 0 && G.v_adds == 0 && G.v_wpush == 0 && G.last_pop == 0 && G.pops == 0 && VP_OK && gv_mine == (g_gid0 == 1) && (g_gid0 == 1 ==> (!gv_map && !GV_STAGED && !gv_heap && !gv_term)))
/* (1) run_now, no error: ONE thread object made from `data` with the requested initial state by the holder, registered once in the
 *     holder's map; queued exactly once if the requested state is pending (work_items_count_ +1 before the push), NOT queued if
 *     the caller asked for any other state (it is handed out instead); nothing staged */
__CPROVER_ensures((g_run0 && G.err == 0) ==> (G.cto == 1 && G.cto_gid == g_gid0 && G.cto_requested == g_init0 && G.adds == 1 && G.add_fail == 0 && NOTHING_STAGED(self)))
__CPROVER_ensures((g_run0 && G.err == 0) ==> (G.wpush <= 1 && self->gw_pushes == G.wpush && self->gw_incs == G.wpush && (G.wpush == 1 ==> (G.wpush_id == G.add_id && !G.wpush_other_end))))
__CPROVER_ensures((g_run0 && G.err == 0 && PEND0) ==> G.wpush == 1)
__CPROVER_ensures((g_run0 && G.err == 0 && !PEND0 && !BOOST0) ==> G.wpush == 0)
/* (2) ... and the caller gets the id: always when the thread was not queued, and when it asked for it otherwise */
__CPROVER_ensures((g_run0 && G.err == 0 && id != NULL) ==> (*id != NULL && TD_ID(*id) == G.add_id))
__CPROVER_ensures((g_run0 && G.err == 0 && G.wpush == 0) ==> id != NULL)
/* (3) staged, no error: counter +1 BEFORE the push (asserted there), ONE copy of the request pushed once; no thread object, no map
 *     entry, nothing queued; the caller's id is empty */
__CPROVER_ensures((!g_run0 && G.err == 0) ==> (PEND0 && self->gs_incs == 1 && self->gs_pushes == 1 && self->gs_resv == 0 && self->gs_decs == 0 && self->gs_pops == 0 && \
                   G.push_gid == g_gid0 && G.push_state == g_init0 && NOTHING_MADE && (id == NULL || *id == NULL)))
/* (4) never dropped silently: an error is reported exactly when the request cannot be honoured -- the map refused the new id
 *     (nothing queued, nothing staged) or a staged task was asked to start in a non-pending state (nothing happened at all) */
__CPROVER_ensures(G.err != 0 ==> ((g_run0 ? (G.err == error_out_of_memory && G.cto == 1 && G.adds == 0 && G.add_fail == 1) : (G.err == error_bad_parameter && !PEND0 && G.cto == 0 && G.adds == 0 && G.add_fail == 0)) && \
                   G.wpush == 0 && NOTHING_STAGED(self) && WI_UNTOUCHED(self) && (id == NULL || *id == NULL)))
__CPROVER_ensures((!g_run0 && !PEND0) ==> G.err == error_bad_parameter)
/* (5) error reporting channel: both errors are exceptions; without an error *ec says success unless the caller passed pika::throws */
__CPROVER_ensures(vx_exc == G.err && ((ec != &throws && G.err == 0) ==> ec->value == error_success))
/* (6) ledgers intact, no operation left in flight */
__CPROVER_ensures(NTINV(self) && self->gs_owed == 0 && self->gs_resv == 0 && WIINV(self) && self->gw_owed == 0 && self->gw_resv == 0 && self->gw_pops == 0 && self->gw_decs == 0)
/* (7) the victim: exactly one object / one map entry / at most one queue entry, or staged once, and always in exactly one place */
__CPROVER_ensures(g_gid0 == 1 ==> ((g_run0 && G.err == 0) ? (G.v_cto == 1 && G.v_adds == 1 && G.v_wpush == G.wpush) : (G.v_adds == 0 && G.v_wpush == 0)))
__CPROVER_ensures(VP_OK && (g_gid0 == 1 || (G.v_cto == 0 && G.v_adds == 0 && G.v_wpush == 0)))
/* (8) `current` stack size is resolved before the task is created or staged */
__CPROVER_ensures(data->stacksize != thread_stacksize_current)
__CPROVER_assigns(g_m0, g_h0.thread_map_count_, G, *ec; id != NULL: *id)
//@LIFT create_thread_body

void harness(void)
{
  mc_ghost_init();
  mc_holder_init(&g_h0); mc_holder_init(&g_h1);
  mc_queue_init(&g_m0, &g_h0); mc_queue_init(&g_m1, &g_h1);
  CFG.self = 1; CFG.self_h = 1;
  if (nondet_bool()) g_h0.owner_id_ = CFG.this_thread;
  g_h0.thread_map_count_ = nondet_i32();
  struct thread_init_data *data = nondet_bool() ? &G.victim_init : &G.other_init;
  g_gid0 = data->gid; gv_mine = (data == &G.victim_init);
  if (nondet_bool()) g_m0.gw_victim = nondet_bool(); else g_m1.gw_victim = nondet_bool();
  gv_map = nondet_bool(); gv_term = nondet_bool(); gv_heap = nondet_bool();
  g_init0 = data->initial_state; g_run0 = data->run_now; g_stack0 = data->stacksize;
  thread_id_ref_type out = &G.other_td;           /* whatever the caller's id held before */
  thread_id_ref_type *id = nondet_bool() ? &out : NULL;
  struct error_code myec; myec.value = nondet_int();
  struct error_code *ec = nondet_bool() ? &throws : &myec;
  create_thread(&g_m0, data, id, ec);
  if (g_run0 && G.err == 0 && PEND0) VX_REACH("run_now_queued");
  if (g_run0 && G.err == 0 && PEND0 && id == NULL) VX_REACH("run_now_queued_without_id");
  if (g_run0 && G.err == 0 && g_init0 == thread_schedule_state_suspended) VX_REACH("run_now_suspended_returned_not_queued");
  if (g_run0 && G.err == 0 && G.v_wpush == 1) VX_REACH("victim_created_and_queued");
  if (!g_run0 && G.err == 0) VX_REACH("staged");
  if (!g_run0 && G.err == 0 && g_m0.gs_victim) VX_REACH("victim_staged");
  if (g_run0 && vx_exc != 0) VX_REACH("map_refused_exception");
  if (!g_run0 && vx_exc != 0 && ec != &throws) VX_REACH("staged_non_pending_always_throws");
  if (g_stack0 == thread_stacksize_current) VX_REACH("current_stacksize_resolved");
#ifndef MC_EXCL_PENDING_ALIAS
  if (g_run0 && G.err == 0 && g_init0 == thread_schedule_state_pending_do_not_schedule) VX_REACH("run_now_pending_do_not_schedule");
  if (g_run0 && G.err == 0 && BOOST0) VX_REACH("run_now_pending_boost");
#endif
}
