/* C01 U5 -- once-ness of the free lists: thread_queue::recycle_thread / thread_queue::create_thread_object.
 * (WHICH free list is chosen for a stack size -- the same one in both functions, for every configuration of the five sizes --
 * is proved in specs/C12/heap.c; here the victim is one thread OBJECT and the point is that it is on at most one free list,
 * at most once, and handed out at most once.)
 *   recycle_thread:        the object is pushed onto exactly one free list, exactly once.
 *   create_thread_object:  exactly one object is handed out: either popped from a free list by the single pop_back that follows
 *                          the back() that chose it, and rebound with the request -- or newly created;
 *                          the lock is held again at exit; the object carries the (normalised) requested initial state. */
#include "../C01/hops_heap.h"

//@FUNC
void recycle_thread(struct tq *self, thread_id_type thrd)
/* the object was created by this queue, i.e. with one of the configured sizes (C12); it left every queue and the map */
__CPROVER_requires(thrd != NULL && TD_ID(thrd) == g_thrd_id && g_thrd_id != 0 && IS_CONFIGURED(self, thrd->stacksize_) && HEAPS_OK(self))
__CPROVER_requires(G.heap_pushes == 0 && G.v_heap_pushes == 0 && G.heap_pops == 0 && HEAP_VICTIMS(self) == (gv_heap ? 1 : 0) && VP_OK)
__CPROVER_requires(g_thrd_id == 1 ? (gv_mine && !gv_map) : !gv_mine)
__CPROVER_ensures(G.heap_pushes == 1 && G.heap_push_id == g_thrd_id && G.heap_pops == 0 && HEAPS_OK(self))
__CPROVER_ensures(G.v_heap_pushes == (g_thrd_id == 1 ? 1 : 0) && HEAP_VICTIMS(self) == (gv_heap ? 1 : 0) && (g_thrd_id == 1 ==> gv_heap) && VP_OK && !gv_mine)
__CPROVER_assigns(HEAP_FRAME(self), G)
//@LIFT recycle_thread_body

void harness(void)
{
  hops_ghost_init();
  hops_queue_init(&g_q0); hops_queue_init(&g_q1);
  CFG.self = 1;
  g_map = nondet_long(); g_q0.thread_map_count_ = g_map; g_term = nondet_long();
  g_victim_td.stacksize_ = nondet_ptrdiff(); g_other_td.stacksize_ = nondet_ptrdiff(); g_victim_td.queue_ = 1; g_other_td.queue_ = 1;
  gv_map = nondet_bool(); gv_queued = nondet_bool(); gv_term = nondet_bool();
  struct thread_data *t = nondet_bool() ? &g_victim_td : &g_other_td;
  g_thrd_id = TD_ID(t); gv_mine = (t == &g_victim_td);
  if (!gv_mine && nondet_bool()) { gv_heap = true; g_q0.thread_heap_medium_.has_victim = true; }    /* the victim already sits on a free list */
  g_q0.mtx_.held = true;
  recycle_thread(&g_q0, t);
  if (t == &g_victim_td) VX_REACH("victim_recycled"); else VX_REACH("other_recycled");
  if (t == &g_victim_td && g_q0.thread_heap_nostack_.has_victim) VX_REACH("victim_on_the_nostack_list");
}
